(* Proofs about the partial-signature store model (Stores/ParSigDB.v).

   Part A  basic facts (decidable equalities, maps, lists).
   Part B  facts about the model that hold for EVERY accepted trace, without any assumption on
           the environment: what a call delivers is exactly what its own entries fired; a fired
           group has exactly t partials, one root, distinct shares and is everything stored for
           that root; at most one firing per (key, root) between trims (and per key if 2t > n);
           a stored root group of size >= t has fired; duplicates / equivocations / expired.
   Part C  conformance with the eviction-free specification (the trace monitor) under the
           environment guards status_ok and no_evict.
   Part D  witnesses: the code before the repairs violates the property; non-vacuity. *)
From Coq Require Import List Arith Bool Lia PeanoNat Permutation.
From Charon Require Import Stores.ParSigDB.
Import ListNotations.

(* ---------------------------------------------------------------- Part A *)

Lemma duty_eqb_eq a b : duty_eqb a b = true <-> a = b.
Proof.
  destruct a as [a1 a2], b as [b1 b2]. unfold duty_eqb. simpl.
  rewrite andb_true_iff, !Nat.eqb_eq. split; [intros [-> ->]; reflexivity | intro H; injection H; auto].
Qed.

Lemma key_eqb_eq a b : key_eqb a b = true <-> a = b.
Proof.
  destruct a as [[ad ap] asb], b as [[bd bp] bs]. unfold key_eqb, kduty, kpk. simpl.
  rewrite !andb_true_iff, duty_eqb_eq, !Nat.eqb_eq.
  split; [intros [[-> ->] ->]; reflexivity | intro H; injection H; auto].
Qed.

Lemma key_eqb_refl k : key_eqb k k = true.
Proof. apply key_eqb_eq. reflexivity. Qed.

Lemma key_eqb_neq a b : a <> b -> key_eqb a b = false.
Proof. intro H. destruct (key_eqb a b) eqn:E; [apply key_eqb_eq in E; contradiction | reflexivity]. Qed.

Lemma ekey_eqb_eq a b : ekey_eqb a b = true <-> a = b.
Proof.
  destruct a as [[a1 a2] a3], b as [[b1 b2] b3]. unfold ekey_eqb. simpl.
  rewrite !andb_true_iff, !Nat.eqb_eq.
  split; [intros [[-> ->] ->]; reflexivity | intro H; injection H; auto].
Qed.

Lemma partial_eqb_eq a b : partial_eqb a b = true <-> a = b.
Proof.
  destruct a, b. unfold partial_eqb. simpl. rewrite !andb_true_iff, !Nat.eqb_eq.
  split; [intros [[-> ->] ->]; reflexivity | intro H; injection H; auto].
Qed.

Lemma plist_eqb_eq a : forall b, plist_eqb a b = true <-> a = b.
Proof.
  induction a as [|x r IH]; intros [|y s]; simpl; try (split; [discriminate | discriminate]); [tauto|].
  rewrite andb_true_iff, partial_eqb_eq, IH. split; [intros [-> ->]; reflexivity | intro H; injection H; auto].
Qed.

Lemma entry_eqb_eq a b : entry_eqb a b = true <-> a = b.
Proof.
  destruct a, b; simpl; try (split; discriminate).
  - rewrite !andb_true_iff, !Nat.eqb_eq, partial_eqb_eq.
    split; [intros [[-> ->] ->]; reflexivity | intro H; injection H; auto].
  - rewrite Nat.eqb_eq. split; [intros ->; reflexivity | intro H; injection H; auto].
Qed.

Lemma oelt_eqb_eq a b : oelt_eqb a b = true <-> a = b.
Proof.
  destruct a as [[a1 a2] a3], b as [[b1 b2] b3]. unfold oelt_eqb. simpl.
  rewrite !andb_true_iff, !Nat.eqb_eq, plist_eqb_eq.
  split; [intros [[-> ->] ->]; reflexivity | intro H; injection H; auto].
Qed.

Lemma status_eqb_eq a b : status_eqb a b = true <-> a = b.
Proof. destruct a, b; simpl; split; intro H; try reflexivity; try discriminate. Qed.

Lemma mem_out_In x l : mem_out x l = true <-> In x l.
Proof.
  unfold mem_out. rewrite existsb_exists. split.
  - intros [y [Hy E]]. apply oelt_eqb_eq in E. subst. exact Hy.
  - intro H. exists x. split; [exact H | apply oelt_eqb_eq; reflexivity].
Qed.

Lemma mem_entry_In e l : mem_entry e l = true <-> In e l.
Proof.
  unfold mem_entry. rewrite existsb_exists. split.
  - intros [y [Hy E]]. apply entry_eqb_eq in E. subst. exact Hy.
  - intro H. exists e. split; [exact H | apply entry_eqb_eq; reflexivity].
Qed.

Lemma memk_In k l : memk k l = true <-> In k l.
Proof.
  unfold memk. rewrite existsb_exists. split.
  - intros [y [Hy E]]. apply key_eqb_eq in E. subst. exact Hy.
  - intro H. exists k. split; [exact H | apply key_eqb_refl].
Qed.

Lemma upd_same {A} (f : key -> A) k v : upd f k v k = v.
Proof. unfold upd. rewrite key_eqb_refl. reflexivity. Qed.

Lemma upd_other {A} (f : key -> A) k v k' : k' <> k -> upd f k v k' = f k'.
Proof. intro H. unfold upd. rewrite key_eqb_neq by exact H. reflexivity. Qed.

Lemma updc_same {A} (f : nat -> A) c v : updc f c v c = v.
Proof. unfold updc. rewrite Nat.eqb_refl. reflexivity. Qed.

Lemma updc_other {A} (f : nat -> A) c v c' : c' <> c -> updc f c v c' = f c'.
Proof. intro H. unfold updc. apply Nat.eqb_neq in H. rewrite H. reflexivity. Qed.

Lemma is_nil_true {A} (l : list A) : is_nil l = true <-> l = [].
Proof. destruct l; simpl; split; intro H; try reflexivity; discriminate. Qed.

Lemma filter_length_le {A} (f : A -> bool) l : length (filter f l) <= length l.
Proof. induction l as [|x r IH]; simpl; [lia|]. destruct (f x); simpl; lia. Qed.

Lemma filter_all {A} (f : A -> bool) l : (forall x, In x l -> f x = true) -> filter f l = l.
Proof.
  induction l as [|x r IH]; intro H; simpl; [reflexivity|].
  rewrite (H x (or_introl eq_refl)). f_equal. apply IH. intros y Hy. apply H. right. exact Hy.
Qed.

Lemma NoDup_map_filter {A B} (f : A -> B) (g : A -> bool) l :
  NoDup (map f l) -> NoDup (map f (filter g l)).
Proof.
  induction l as [|x r IH]; simpl; intro H; [constructor|].
  inversion H as [|y ys Hn Hr]; subst. destruct (g x); simpl; [|apply IH; exact Hr].
  constructor; [|apply IH; exact Hr].
  intro Hin. apply Hn. apply in_map_iff in Hin. destruct Hin as [z [Ez Hz]].
  apply filter_In in Hz. apply in_map_iff. exists z. tauto.
Qed.

Lemma find_share_none sh l : find_share sh l = None <-> ~ In sh (map share l).
Proof.
  unfold find_share. induction l as [|x r IH]; simpl; [tauto|].
  destruct (Nat.eqb_spec (share x) sh) as [E|E].
  - split; [discriminate | intro H; exfalso; apply H; left; exact E].
  - rewrite IH. tauto.
Qed.

Lemma find_share_some sh l q : find_share sh l = Some q -> In q l /\ share q = sh.
Proof.
  unfold find_share. intro H. apply find_some in H. destruct H as [H1 H2].
  apply Nat.eqb_eq in H2. tauto.
Qed.

(* two ways of splitting one list at an element *)
Lemma split_compare {A} (a : list A) : forall a' x x' b b',
  a ++ x :: b = a' ++ x' :: b' ->
  (a = a' /\ x = x' /\ b = b')
  \/ (exists m, a' = a ++ x :: m /\ b = m ++ x' :: b')
  \/ (exists m, a = a' ++ x' :: m /\ b' = m ++ x :: b).
Proof.
  induction a as [|y a IH]; intros a' x x' b b' H.
  - destruct a' as [|z a']; simpl in H.
    + injection H as -> ->. left. auto.
    + injection H as -> ->. right. left. exists a'. auto.
  - destruct a' as [|z a']; simpl in H.
    + injection H as -> <-. right. right. exists a. auto.
    + injection H as -> H. destruct (IH _ _ _ _ _ H) as [[-> [-> ->]]|[[m [-> ->]]|[m [-> ->]]]].
      * left. auto.
      * right. left. exists m. auto.
      * right. right. exists m. auto.
Qed.

Lemma snoc_split {A} (pre : list A) l p1 l0 p2 :
  pre ++ [l] = p1 ++ l0 :: p2 ->
  (p2 = [] /\ p1 = pre /\ l0 = l) \/ (exists p2', p2 = p2' ++ [l] /\ pre = p1 ++ l0 :: p2').
Proof.
  intro H. destruct p2 as [|y p2] using rev_ind.
  - left. apply app_inj_tail in H. destruct H as [-> ->]. auto.
  - right. clear IHp2. exists p2.
    change (p1 ++ l0 :: p2 ++ [y]) with (p1 ++ (l0 :: p2) ++ [y]) in H.
    rewrite app_assoc in H. apply app_inj_tail in H. destruct H as [-> ->]. auto.
Qed.

(* ---------------------------------------------------------------- Part B *)

Section Facts.
Variable t : nat.

Definition cnt (ty r : nat) (l : list partial) : nat := length (filter (fun q => eroot ty q =? r) l).

Lemma group_cnt ty p l : length (group ty p l) = cnt ty (eroot ty p) l.
Proof. reflexivity. Qed.

Lemma cnt_app ty r l1 l2 : cnt ty r (l1 ++ l2) = cnt ty r l1 + cnt ty r l2.
Proof. unfold cnt. rewrite filter_app, app_length. reflexivity. Qed.

Lemma cnt_le ty r l : cnt ty r l <= length l.
Proof. apply filter_length_le. Qed.

Lemma cnt_one ty r p : cnt ty r [p] = if eroot ty p =? r then 1 else 0.
Proof. unfold cnt. simpl. destruct (eroot ty p =? r); reflexivity. Qed.

Lemma cnt_filter_le ty r f l : cnt ty r (filter f l) <= cnt ty r l.
Proof.
  unfold cnt. induction l as [|x l IH]; simpl; [lia|].
  destruct (f x); simpl; destruct (eroot ty x =? r); simpl; lia.
Qed.

Lemma cnt_disjoint ty r1 r2 l : r1 <> r2 -> cnt ty r1 l + cnt ty r2 l <= length l.
Proof.
  intro H. unfold cnt. induction l as [|x l IH]; simpl; [lia|].
  destruct (Nat.eqb_spec (eroot ty x) r1), (Nat.eqb_spec (eroot ty x) r2); simpl; lia.
Qed.

(* getThresholdMatching, as it is now, in terms of the root group of the last partial *)
Lemma thresh_spec ty l :
  thresh t ty l = if length (group ty (last l dflt) l) =? t then Some (group ty (last l dflt) l) else None.
Proof.
  unfold thresh. destruct (length l <? t) eqn:E.
  - apply Nat.ltb_lt in E. pose proof (filter_length_le (fun q => eroot ty q =? eroot ty (last l dflt)) l) as Hle.
    unfold group. destruct (Nat.eqb_spec (length (filter (fun q => eroot ty q =? eroot ty (last l dflt)) l)) t); [lia | reflexivity].
  - destruct (is_sig ty) eqn:Es.
    + assert (Hg : group ty (last l dflt) l = l).
      { unfold group. apply filter_all. intros x _. unfold eroot. rewrite Es. reflexivity. }
      rewrite Hg. reflexivity.
    + unfold group, eroot. rewrite Es. reflexivity.
Qed.

Lemma group_In ty p l q : In q (group ty p l) <-> In q l /\ eroot ty q = eroot ty p.
Proof. unfold group. rewrite filter_In, Nat.eqb_eq. tauto. Qed.

Lemma group_self ty p l : In p (group ty p (l ++ [p])).
Proof. apply group_In. split; [apply in_or_app; right; left; reflexivity | reflexivity]. Qed.

Lemma group_nodup ty p l : NoDup (map share l) -> NoDup (map share (group ty p l)).
Proof. apply NoDup_map_filter. Qed.

(* ---- run ---- *)
Lemma run_app pre prec l1 : forall s l2 s',
  run_gen t pre prec s (l1 ++ l2) = Some s' <->
  exists s1, run_gen t pre prec s l1 = Some s1 /\ run_gen t pre prec s1 l2 = Some s'.
Proof.
  induction l1 as [|l r IH]; intros s l2 s'; simpl.
  - split; [intro H; exists s; auto | intros [s1 [H1 H2]]; injection H1 as <-; exact H2].
  - destruct (step_gen t pre prec s l) as [s1|]; [apply IH|].
    split; [discriminate | intros [s1 [H _]]; discriminate].
Qed.

Lemma run_snoc l1 l s s' :
  run t s (l1 ++ [l]) = Some s' <-> exists s1, run t s l1 = Some s1 /\ step t s1 l = Some s'.
Proof.
  unfold run. rewrite run_app. split; intros [s1 [H1 H2]]; exists s1; split; auto; simpl in *.
  - unfold step. destruct (step_gen t false false s1 l); [exact H2 | discriminate].
  - unfold step in H2. rewrite H2. reflexivity.
Qed.

Lemma run_cons l ls s s' :
  run t s (l :: ls) = Some s' <-> exists s1, step t s l = Some s1 /\ run t s1 ls = Some s'.
Proof.
  unfold run, step. simpl. destruct (step_gen t false false s l) as [s1|].
  - split; [intro H; exists s1; auto | intros [s2 [H1 H2]]; injection H1 as <-; exact H2].
  - split; [discriminate | intros [s2 [H _]]; discriminate].
Qed.

(* ---- what one entry does to the model ---- *)
Definition ekey_of (cl : call) (pk sub : nat) : key := (c_duty cl, pk, sub).
Definition ex_of (cl : call) : bool := status_eqb (c_st cl) Exempt.

(* the group an entry hands to the threshold subscribers (None = it does not fire) *)
Definition mfire (s : state) (cl : call) (e : entry) : option (nat * nat * list partial) :=
  match e with
  | EBad _ => None
  | EGood pk sub p =>
      match classify p (ent s (ekey_of cl pk sub)) with
      | VNew => option_map (fun g => (pk, sub, g))
                  (s_fired (store_new t false false s (ex_of cl) (ekey_of cl pk sub) p))
      | _ => None
      end
  end.

Definition mcall (s : state) (cl : call) (e : entry) : call :=
  match e with
  | EBad _ => set_oth false (took cl e)
  | EGood pk sub p =>
      match classify p (ent s (ekey_of cl pk sub)) with
      | VDup => took cl e
      | VMismatch => set_mis false (took cl e)
      | VNew => add_out (took cl e) (opt_list (mfire s cl e))
      end
  end.

Definition mstore (s : state) (cl : call) (e : entry) : stored :=
  match e with
  | EBad _ => Sd (ent s) (kbd s) (exm s) None
  | EGood pk sub p =>
      match classify p (ent s (ekey_of cl pk sub)) with
      | VNew => store_new t false false s (ex_of cl) (ekey_of cl pk sub) p
      | _ => Sd (ent s) (kbd s) (exm s) None
      end
  end.

Lemma step_entry s c e s' : step t s (AEntry c e) = Some s' ->
  exists cl, calls s c = Some cl /\ c_open cl = true /\ c_abort cl = false /\ In e (c_todo cl) /\
    s' = St (s_ent (mstore s cl e)) (s_kbd (mstore s cl e)) (s_exm (mstore s cl e))
            (updc (calls s) c (Some (mcall s cl e))).
Proof.
  unfold step, step_gen. destruct (calls s c) as [cl|] eqn:Ec; [|discriminate].
  destruct (c_open cl && negb (c_abort cl) && mem_entry e (c_todo cl)) eqn:Eg; [|discriminate].
  apply andb_true_iff in Eg. destruct Eg as [Eg Hm]. apply andb_true_iff in Eg. destruct Eg as [Ho Ha].
  apply negb_true_iff in Ha. apply mem_entry_In in Hm.
  intro H. exists cl. repeat split; auto.
  destruct e as [pk sub p|pk]; simpl in *.
  - unfold ekey_of. destruct (classify p (ent s (c_duty cl, pk, sub))) eqn:Ecl; injection H as <-; simpl; try reflexivity.
  - injection H as <-. reflexivity.
Qed.

Lemma mcall_out s cl e : c_out (mcall s cl e) = c_out cl ++ opt_list (mfire s cl e).
Proof.
  destruct e as [pk sub p|pk]; simpl; [|rewrite app_nil_r; reflexivity].
  destruct (classify p (ent s (ekey_of cl pk sub))); simpl; try (rewrite app_nil_r; reflexivity). reflexivity.
Qed.

Lemma mcall_static s cl e :
  c_open (mcall s cl e) = c_open cl /\ c_int (mcall s cl e) = c_int cl /\ c_duty (mcall s cl e) = c_duty cl
  /\ c_st (mcall s cl e) = c_st cl /\ c_todo (mcall s cl e) = remove1 e (c_todo cl)
  /\ c_abort (mcall s cl e) = c_abort cl.
Proof.
  destruct e as [pk sub p|pk]; simpl; [|rewrite orb_false_r; auto 10].
  destruct (classify p (ent s (ekey_of cl pk sub))); simpl; rewrite ?orb_false_r; auto 12.
Qed.

(* where the new partial went: the entry of its key is extended by it; any entry can only have
   been shrunk by the per-share cap if it was below the threshold *)
Lemma store_new_ent s ex k p k' :
  let r := store_new t false false s ex k p in
  let en1 := upd (ent s) k (ent s k ++ [p]) in
  s_ent r k' = en1 k' \/
  (length (en1 k') < t /\ s_ent r k' = filter (fun q => negb (share q =? share p)) (en1 k')).
Proof.
  unfold store_new. simpl. destruct ex; simpl; [|left; reflexivity].
  unfold track. destruct (max_exempt <? length (exm s (share p, kpk k, dtype (kduty k)) ++ [k])); simpl; [|left; reflexivity].
  destruct (exm s (share p, kpk k, dtype (kduty k)) ++ [k]) as [|k0 rest]; simpl; [left; reflexivity|].
  unfold evict. simpl. destruct (t <=? length (upd (ent s) k (ent s k ++ [p]) k0)) eqn:E; [left; reflexivity|].
  apply Nat.leb_gt in E. destruct (key_eqb k' k0) eqn:Ek.
  - apply key_eqb_eq in Ek. subst k0. right. rewrite upd_same. split; [exact E | reflexivity].
  - left. unfold upd at 1. rewrite Ek. reflexivity.
Qed.

Lemma store_new_fired s ex k p :
  s_fired (store_new t false false s ex k p) = thresh t (dtype (kduty k)) (s_ent (store_new t false false s ex k p) k).
Proof. reflexivity. Qed.

(* an entry fires iff it is accepted (no partial of that share stored for the key) and the
   partials stored for the key over its root, itself included, are exactly t; it hands over
   exactly that group *)
Lemma mfire_iff s cl pk sub p x :
  let k := ekey_of cl pk sub in
  let g := group (dtype (c_duty cl)) p (ent s k ++ [p]) in
  mfire s cl (EGood pk sub p) = Some x <->
  classify p (ent s k) = VNew /\ length g = t /\ x = (pk, sub, g).
Proof.
  cbv zeta. unfold mfire. destruct (classify p (ent s (ekey_of cl pk sub))) eqn:Ecl;
    try (split; [discriminate | intros [H _]; discriminate]).
  rewrite store_new_fired.
  pose proof (store_new_ent s (ex_of cl) (ekey_of cl pk sub) p (ekey_of cl pk sub)) as Hs. cbv zeta in Hs.
  rewrite upd_same in Hs. change (dtype (kduty (ekey_of cl pk sub))) with (dtype (c_duty cl)).
  destruct Hs as [Hs|[Hlt Hs]]; rewrite Hs, thresh_spec.
  - rewrite last_last.
    destruct (Nat.eqb_spec (length (group (dtype (c_duty cl)) p (ent s (ekey_of cl pk sub) ++ [p]))) t) as [E|E]; simpl.
    + split; [intro H; injection H as <-; auto | intros [_ [_ ->]]; reflexivity].
    + split; [discriminate | intros [_ [H _]]; contradiction].
  - set (l' := filter _ _) in *.
    assert (Hl : length (group (dtype (c_duty cl)) (last l' dflt) l') < t).
    { unfold group. eapply Nat.le_lt_trans; [apply filter_length_le|]. unfold l'.
      eapply Nat.le_lt_trans; [apply filter_length_le | exact Hlt]. }
    destruct (Nat.eqb_spec (length (group (dtype (c_duty cl)) (last l' dflt) l')) t) as [E|E]; [lia|].
    split; [discriminate|]. intros [_ [H _]].
    pose proof (filter_length_le (fun q => eroot (dtype (c_duty cl)) q =? eroot (dtype (c_duty cl)) p) (ent s (ekey_of cl pk sub) ++ [p])) as Hle.
    unfold group in H. lia.
Qed.

Lemma mfire_ent s cl pk sub p x :
  mfire s cl (EGood pk sub p) = Some x ->
  s_ent (mstore s cl (EGood pk sub p)) (ekey_of cl pk sub) = ent s (ekey_of cl pk sub) ++ [p].
Proof.
  intro H. pose proof H as H0. apply mfire_iff in H0. destruct H0 as [Ecl [Hlen _]].
  unfold mstore. rewrite Ecl.
  pose proof (store_new_ent s (ex_of cl) (ekey_of cl pk sub) p (ekey_of cl pk sub)) as Hs. cbv zeta in Hs.
  rewrite upd_same in Hs. destruct Hs as [Hs|[Hlt _]]; [exact Hs|].
  pose proof (filter_length_le (fun q => eroot (dtype (c_duty cl)) q =? eroot (dtype (c_duty cl)) p) (ent s (ekey_of cl pk sub) ++ [p])) as Hle.
  unfold group in Hlen. lia.
Qed.

(* the entries of the store after one entry step *)
Lemma mstore_ent s cl e k' :
  s_ent (mstore s cl e) k' = ent s k' \/
  (exists pk sub p, e = EGood pk sub p /\ classify p (ent s (ekey_of cl pk sub)) = VNew /\
     ((k' = ekey_of cl pk sub /\ s_ent (mstore s cl e) k' = ent s k' ++ [p]) \/
      (length (ent s k') < t /\ s_ent (mstore s cl e) k' = filter (fun q => negb (share q =? share p)) (ent s k')) \/
      (k' = ekey_of cl pk sub /\ length (ent s k' ++ [p]) < t /\
       s_ent (mstore s cl e) k' = filter (fun q => negb (share q =? share p)) (ent s k' ++ [p])))).
Proof.
  destruct e as [pk sub p|pk]; simpl; [|left; reflexivity].
  destruct (classify p (ent s (ekey_of cl pk sub))) eqn:Ecl; simpl; try (left; reflexivity).
  pose proof (store_new_ent s (ex_of cl) (ekey_of cl pk sub) p k') as Hs. cbv zeta in Hs.
  destruct (key_eqb k' (ekey_of cl pk sub)) eqn:Ek.
  - apply key_eqb_eq in Ek. subst k'. rewrite upd_same in Hs. right. exists pk, sub, p. repeat split; auto.
    destruct Hs as [Hs|[Hlt Hs]]; [left; auto | right; right; auto].
  - assert (Hne : k' <> ekey_of cl pk sub) by (intro; subst; rewrite key_eqb_refl in Ek; discriminate).
    rewrite upd_other in Hs by exact Hne. destruct Hs as [Hs|[Hlt Hs]]; [left; exact Hs|].
    right. exists pk, sub, p. repeat split; auto.
Qed.

(* ---- invariants of reachable states ---- *)
Record MInv (s : state) : Prop := {
  m_nodup : forall k, NoDup (map share (ent s k));
  m_noab : forall c cl, calls s c = Some cl -> c_abort cl = false
}.

Lemma minv_init : MInv init.
Proof. split; simpl; [constructor | discriminate]. Qed.

Lemma classify_new p l : classify p l = VNew -> ~ In (share p) (map share l).
Proof.
  unfold classify. destruct (find_share (share p) l) as [q|] eqn:E.
  - destruct (pid q =? pid p); discriminate.
  - intros _. apply find_share_none. exact E.
Qed.

Lemma nodup_snoc_gen {A} (l : list A) x : NoDup l -> ~ In x l -> NoDup (l ++ [x]).
Proof.
  induction l as [|y l IH]; simpl; intros Hn Hx; [constructor; [tauto | constructor]|].
  inversion Hn as [|z zs Hy Hl]; subst. constructor.
  - rewrite in_app_iff. simpl. intros [H|[H|[]]]; [contradiction | subst; apply Hx; left; reflexivity].
  - apply IH; [exact Hl | tauto].
Qed.

Lemma nodup_snoc p l : NoDup (map share l) -> ~ In (share p) (map share l) -> NoDup (map share (l ++ [p])).
Proof. intros Hn Hp. rewrite map_app. simpl. apply nodup_snoc_gen; auto. Qed.

Lemma step_begin s c i d st b s' : step t s (ABegin c i d st b) = Some s' ->
  calls s c = None /\ NoDup (map epk b) /\
  s' = St (ent s) (kbd s) (exm s) (updc (calls s) c (Some (new_call i d st b))).
Proof.
  unfold step, step_gen. destruct (calls s c); [discriminate|].
  destruct (nodupb (map epk b)) eqn:E; [|discriminate]. intro H. injection H as <-.
  repeat split; auto. clear -E. induction (map epk b) as [|x r IH]; [constructor|].
  simpl in E. apply andb_true_iff in E. destruct E as [E1 E2]. constructor; [|apply IH; exact E2].
  intro Hin. apply negb_true_iff in E1. assert (existsb (Nat.eqb x) r = true); [|congruence].
  apply existsb_exists. exists x. split; [exact Hin | apply Nat.eqb_refl].
Qed.

Lemma step_end s c er out il s' : step t s (AEnd c er out il) = Some s' ->
  exists cl, calls s c = Some cl /\ c_open cl = true /\
    (c_abort cl = false -> c_todo cl = [] /\ out_ok (c_out cl) out = true) /\
    err_ok cl er = true /\ il = (c_int cl && is_enone er) /\
    s' = St (ent s) (kbd s) (exm s) (updc (calls s) c (Some (closed cl))).
Proof.
  unfold step, step_gen. destruct (calls s c) as [cl|]; [|discriminate].
  destruct (c_open cl && _ && err_ok cl er && Bool.eqb il (c_int cl && is_enone er)) eqn:E; [|discriminate].
  intro H. injection H as <-. exists cl.
  apply andb_true_iff in E. destruct E as [E E4]. apply andb_true_iff in E. destruct E as [E E3].
  apply andb_true_iff in E. destruct E as [E1 E2]. apply eqb_prop in E4.
  split; [reflexivity|]. split; [exact E1|]. split; [|auto].
  intro Ha. rewrite Ha in E2. apply andb_true_iff in E2. destruct E2 as [E2 E2'].
  split; [apply is_nil_true; exact E2 | exact E2'].
Qed.

Lemma step_trim s d s' : step t s (ATrim d) = Some s' ->
  s' = St (fun k => if duty_eqb (kduty k) d && memk k (kbd s) then [] else ent s k)
          (filter (fun k => negb (duty_eqb (kduty k) d)) (kbd s)) (exm s) (calls s).
Proof. unfold step, step_gen. intro H. injection H as <-. reflexivity. Qed.

Lemma step_minv s l s' : MInv s -> step t s l = Some s' -> MInv s'.
Proof.
  intros [Hn Ha] H. destruct l as [c i d st b|c e|c er out il|d].
  - apply step_begin in H. destruct H as [Hc [_ ->]]. split; simpl; [exact Hn|].
    intros c' cl'. unfold updc. destruct (c' =? c); [intro E; injection E as <-; reflexivity | apply Ha].
  - apply step_entry in H. destruct H as [cl [Hc [Ho [Hab [Hin ->]]]]]. split; simpl.
    + intro k. destruct (mstore_ent s cl e k) as [E|[pk [sub [p [-> [Ecl [[-> E]|[[_ E]|[-> [_ E]]]]]]]]]]; rewrite E.
      * apply Hn.
      * apply nodup_snoc; [apply Hn | apply classify_new; exact Ecl].
      * apply NoDup_map_filter, Hn.
      * apply NoDup_map_filter, nodup_snoc; [apply Hn | apply classify_new; exact Ecl].
    + intros c' cl'. unfold updc. destruct (c' =? c); [|apply Ha].
      intro E; injection E as <-. destruct (mcall_static s cl e) as [_ [_ [_ [_ [_ ->]]]]]. exact Hab.
  - apply step_end in H. destruct H as [cl [Hc [_ [_ [_ [_ ->]]]]]]. split; simpl; [exact Hn|].
    intros c' cl'. unfold updc. destruct (c' =? c); [|apply Ha].
    intro E; injection E as <-. simpl. eapply Ha; eauto.
  - apply step_trim in H. subst s'. split; simpl; [|exact Ha].
    intro k. destruct (duty_eqb (kduty k) d && memk k (kbd s)); [constructor | apply Hn].
Qed.

Lemma run_minv ls : forall s s', MInv s -> run t s ls = Some s' -> MInv s'.
Proof.
  induction ls as [|l r IH]; intros s s' I H; [injection H as <-; exact I|].
  apply run_cons in H. destruct H as [s1 [H1 H2]]. eapply IH; [eapply step_minv; eauto | exact H2].
Qed.

(* ---- how the record of call c evolves ---- *)
Definition is_entry_of (c : nat) (l : label) : Prop := exists e, l = AEntry c e.

Lemma step_call s l s' c cl : step t s l = Some s' -> calls s' c = Some cl ->
  (exists e cl1, l = AEntry c e /\ calls s c = Some cl1 /\ cl = mcall s cl1 e)
  \/ (~ is_entry_of c l /\
      ((calls s c = None /\ c_out cl = [] /\ exists i d st b, l = ABegin c i d st b /\ cl = new_call i d st b)
       \/ (exists cl1, calls s c = Some cl1 /\ c_out cl = c_out cl1 /\ c_duty cl = c_duty cl1 /\ c_st cl = c_st cl1
                       /\ c_int cl = c_int cl1 /\ c_mis cl = c_mis cl1 /\ c_oth cl = c_oth cl1
                       /\ c_todo cl = c_todo cl1 /\ c_abort cl = c_abort cl1))).
Proof.
  intros H Hc. destruct l as [c' i d st b|c' e|c' er out il|d].
  - right. split; [intros [e E]; discriminate|].
    apply step_begin in H. destruct H as [Hn [_ ->]]. simpl in Hc. unfold updc in Hc.
    destruct (Nat.eqb_spec c c') as [->|Hne].
    + injection Hc as <-. left. repeat split; auto. exists i, d, st, b. auto.
    + right. exists cl. auto 12.
  - apply step_entry in H. destruct H as [cl1 [Hc1 [_ [_ [_ ->]]]]]. simpl in Hc. unfold updc in Hc.
    destruct (Nat.eqb_spec c c') as [->|Hne].
    + injection Hc as <-. left. exists e, cl1. auto.
    + right. split; [intros [e' E]; injection E as -> _; contradiction|]. right. exists cl. auto 12.
  - right. split; [intros [e E]; discriminate|].
    apply step_end in H. destruct H as [cl1 [Hc1 [_ [_ [_ [_ ->]]]]]]. simpl in Hc. unfold updc in Hc.
    destruct (Nat.eqb_spec c c') as [->|Hne].
    + injection Hc as <-. right. exists cl1. simpl. auto 12.
    + right. exists cl. auto 12.
  - right. split; [intros [e E]; discriminate|].
    apply step_trim in H. subst s'. simpl in Hc. right. exists cl. auto 12.
Qed.

Lemma step_calls_mono s l s' c cl : step t s l = Some s' -> calls s c = Some cl -> exists cl', calls s' c = Some cl'.
Proof.
  intros H Hc. destruct l as [c' i d st b|c' e|c' er out il|d].
  - apply step_begin in H. destruct H as [Hn [_ ->]]. simpl. unfold updc.
    destruct (Nat.eqb_spec c c') as [->|Hne]; [congruence | eauto].
  - apply step_entry in H. destruct H as [cl1 [Hc1 [_ [_ [_ ->]]]]]. simpl. unfold updc. destruct (c =? c'); eauto.
  - apply step_end in H. destruct H as [cl1 [Hc1 [_ [_ [_ [_ ->]]]]]]. simpl. unfold updc. destruct (c =? c'); eauto.
  - apply step_trim in H. subst s'. simpl. eauto.
Qed.

Lemma run_calls_mono ls : forall s s' c cl, run t s ls = Some s' -> calls s c = Some cl -> exists cl', calls s' c = Some cl'.
Proof.
  induction ls as [|l r IH]; intros s s' c cl H Hc; [injection H as <-; eauto|].
  apply run_cons in H. destruct H as [s1 [H1 H2]].
  destruct (step_calls_mono _ _ _ _ _ H1 Hc) as [cl1 Hc1]. eapply IH; eauto.
Qed.

(* A firing of call c at a position of the trace. *)
Definition fired_in (pre : list label) (c : nat) (x : nat * nat * list partial) : Prop :=
  exists p1 e p2 s0 cl0, pre = p1 ++ AEntry c e :: p2 /\ run t init p1 = Some s0 /\
                         calls s0 c = Some cl0 /\ mfire s0 cl0 e = Some x.

Lemma fired_in_snoc pre l c x : fired_in pre c x -> fired_in (pre ++ [l]) c x.
Proof.
  intros [p1 [e [p2 [s0 [cl0 [-> H]]]]]]. exists p1, e, (p2 ++ [l]), s0, cl0.
  split; [rewrite <- app_assoc; reflexivity | exact H].
Qed.

(* B: what is due to the threshold subscribers in call c is exactly what c's own entries fired *)
Theorem due_exact pre : forall s c cl, run t init pre = Some s -> calls s c = Some cl ->
  forall x, In x (c_out cl) <-> fired_in pre c x.
Proof.
  induction pre as [|l pre IH] using rev_ind; intros s c cl Hrun Hc x.
  - injection Hrun as <-. discriminate.
  - apply run_snoc in Hrun. destruct Hrun as [s1 [Hrun Hstep]].
    destruct (step_call _ _ _ _ _ Hstep Hc) as [[e [cl1 [-> [Hc1 ->]]]]|[Hne [[Hn [Ho _]]|[cl1 [Hc1 [Ho _]]]]]].
    + rewrite mcall_out, in_app_iff, (IH _ _ _ Hrun Hc1). split.
      * intros [H|H]; [apply fired_in_snoc; exact H|].
        exists pre, e, [], s1, cl1. repeat split; auto.
        destruct (mfire s1 cl1 e); simpl in H; [destruct H as [->|[]]; reflexivity | contradiction].
      * intros [p1 [e' [p2 [s0 [cl0 [E [Hr0 [Hc0 Hf]]]]]]]].
        apply snoc_split in E. destruct E as [[-> [-> E]]|[p2' [-> ->]]].
        -- injection E as <-. rewrite Hrun in Hr0. injection Hr0 as <-. rewrite Hc1 in Hc0. injection Hc0 as <-.
           right. rewrite Hf. left. reflexivity.
        -- left. exists p1, e', p2', s0, cl0. auto.
    + rewrite Ho. split; [contradiction|].
      intros [p1 [e' [p2 [s0 [cl0 [E [Hr0 [Hc0 Hf]]]]]]]].
      apply snoc_split in E. destruct E as [[-> [-> E]]|[p2' [-> ->]]].
      * exfalso. apply Hne. exists e'. auto.
      * unfold run in Hrun. apply run_app in Hrun. destruct Hrun as [s0' [Hr0' Hrest]].
        unfold run in Hr0. rewrite Hr0 in Hr0'. injection Hr0' as <-.
        destruct (run_calls_mono _ _ _ _ _ Hrest Hc0) as [cl' Hc']. congruence.
    + rewrite Ho, (IH _ _ _ Hrun Hc1). split; [apply fired_in_snoc|].
      intros [p1 [e' [p2 [s0 [cl0 [E [Hr0 [Hc0 Hf]]]]]]]].
      apply snoc_split in E. destruct E as [[-> [-> E]]|[p2' [-> ->]]].
      * exfalso. apply Hne. exists e'. auto.
      * exists p1, e', p2', s0, cl0. auto.
Qed.

Definition outl (out : option outmap) : outmap := match out with Some o => o | None => [] end.

Lemma out_ok_spec due out : out_ok due out = true ->
  (forall x, In x (outl out) <-> In x due) /\ (out = None <-> due = []) /\ length (outl out) = length due.
Proof.
  destruct out as [o|]; simpl.
  - rewrite !andb_true_iff, !forallb_forall, negb_true_iff, Nat.eqb_eq. intros [[[Hn Hl] H1] H2]. repeat split.
    + intro Hx. apply mem_out_In. apply H1. exact Hx.
    + intro Hx. apply mem_out_In. apply H2. exact Hx.
    + discriminate.
    + intros ->. discriminate.
    + exact Hl.
  - intro H. apply is_nil_true in H. subst. simpl. repeat split; tauto.
Qed.

(* A: a call returns after all its entries were processed; the threshold subscribers get exactly
   what is due (and are not called iff nothing is due); an error is returned iff an entry was
   rejected; the internal subscribers run iff the call is internal and no error is returned *)
Theorem delivery pre c er out il post s :
  run t init (pre ++ AEnd c er out il :: post) = Some s ->
  exists s1 cl, run t init pre = Some s1 /\ calls s1 c = Some cl /\ c_open cl = true /\ c_todo cl = [] /\
    (forall x, In x (outl out) <-> In x (c_out cl)) /\ (out = None <-> c_out cl = []) /\
    length (outl out) = length (c_out cl) /\
    (er = ENone <-> c_mis cl = false /\ c_oth cl = false) /\
    (er = EMismatch -> c_mis cl = true) /\ (er = EOther -> c_oth cl = true) /\
    il = (c_int cl && is_enone er).
Proof.
  intro H. unfold run in H. apply run_app in H. destruct H as [s1 [H1 H2]].
  fold (run t s1 (AEnd c er out il :: post)) in H2. apply run_cons in H2. destruct H2 as [s2 [H2 _]].
  apply step_end in H2. destruct H2 as [cl [Hc [Ho [Hab [He [Hil _]]]]]].
  assert (I : MInv s1) by (eapply run_minv; [apply minv_init | exact H1]).
  destruct (Hab (m_noab _ I _ _ Hc)) as [Ht Hok]. apply out_ok_spec in Hok. destruct Hok as [Hi [Hn Hl]].
  exists s1, cl.
  split; [exact H1|]. split; [exact Hc|]. split; [exact Ho|]. split; [exact Ht|].
  split; [exact Hi|]. split; [exact Hn|]. split; [exact Hl|].
  split; [|split; [|split]].
  - split.
    + intros ->. simpl in He. apply andb_true_iff in He. destruct He as [A B].
      apply negb_true_iff in A. apply negb_true_iff in B. auto.
    + intros [A B]. destruct er; simpl in He; [reflexivity | congruence | congruence].
  - intros ->. exact He.
  - intros ->. exact He.
  - exact Hil.
Qed.

(* A + B: delivered = fired by an entry of this very call, whatever else is in the set and
   whatever error the call returns *)
Theorem delivered_iff_fired pre c er out il post s :
  run t init (pre ++ AEnd c er out il :: post) = Some s ->
  forall x, In x (outl out) <-> fired_in pre c x.
Proof.
  intros H x. destruct (delivery _ _ _ _ _ _ _ H) as [s1 [cl [H1 [Hc [_ [_ [Hi _]]]]]]].
  rewrite Hi. eapply due_exact; eauto.
Qed.

(* ---- at most once ---- *)

(* an entry that holds t partials over one root is never shrunk (only a trim removes it) *)
Lemma step_keeps_full s l s' k ty r : step t s l = Some s' -> l <> ATrim (kduty k) ->
  t <= cnt ty r (ent s k) -> exists ext, ent s' k = ent s k ++ ext.
Proof.
  intros H Hl Hc. pose proof (cnt_le ty r (ent s k)) as Hle.
  destruct l as [c i d st b|c e|c er out il|d].
  - apply step_begin in H. destruct H as [_ [_ ->]]. exists []. simpl. rewrite app_nil_r. reflexivity.
  - apply step_entry in H. destruct H as [cl [_ [_ [_ [_ ->]]]]]. simpl.
    destruct (mstore_ent s cl e k) as [E|[pk [sub [p [_ [_ [[_ E]|[[Hlt _]|[_ [Hlt _]]]]]]]]]].
    + exists []. rewrite E, app_nil_r. reflexivity.
    + exists [p]. exact E.
    + lia.
    + rewrite app_length in Hlt. simpl in Hlt. lia.
  - apply step_end in H. destruct H as [cl [_ [_ [_ [_ [_ ->]]]]]]. exists []. simpl. rewrite app_nil_r. reflexivity.
  - apply step_trim in H. subst s'. simpl. exists [].
    destruct (duty_eqb (kduty k) d) eqn:E; [apply duty_eqb_eq in E; subst d; contradiction|].
    simpl. rewrite app_nil_r. reflexivity.
Qed.

Lemma run_keeps_full ls k ty r : forall s s', run t s ls = Some s' -> ~ In (ATrim (kduty k)) ls ->
  t <= cnt ty r (ent s k) -> exists ext, ent s' k = ent s k ++ ext.
Proof.
  induction ls as [|l ls IH]; intros s s' H Hn Hc.
  - injection H as <-. exists []. rewrite app_nil_r. reflexivity.
  - apply run_cons in H. destruct H as [s1 [H1 H2]].
    destruct (step_keeps_full _ _ _ k ty r H1) as [e1 E1]; [intro; subst; apply Hn; left; reflexivity | exact Hc|].
    destruct (IH _ _ H2) as [e2 E2]; [intro; apply Hn; right; assumption | rewrite E1, cnt_app; lia|].
    exists (e1 ++ e2). rewrite E2, E1, app_assoc. reflexivity.
Qed.

(* D: two firings for one key with no trim of the duty in between are over different roots, and
   then the key holds at least 2t distinct shares *)
Theorem at_most_once l1 s1 c1 cl1 pk sub p1 x1 s1' l2 s2 c2 cl2 p2 x2 :
  run t init l1 = Some s1 -> calls s1 c1 = Some cl1 -> mfire s1 cl1 (EGood pk sub p1) = Some x1 ->
  step t s1 (AEntry c1 (EGood pk sub p1)) = Some s1' -> run t s1' l2 = Some s2 ->
  calls s2 c2 = Some cl2 -> c_duty cl2 = c_duty cl1 -> mfire s2 cl2 (EGood pk sub p2) = Some x2 ->
  ~ In (ATrim (c_duty cl1)) l2 ->
  eroot (dtype (c_duty cl1)) p1 <> eroot (dtype (c_duty cl1)) p2 /\
  (forall S, (forall q, In q (ent s2 (ekey_of cl2 pk sub) ++ [p2]) -> In (share q) S) -> 2 * t <= length S).
Proof.
  intros Hr1 Hc1 Hf1 Hst Hr2 Hc2 Hd Hf2 Hnt.
  set (ty := dtype (c_duty cl1)). set (k := ekey_of cl1 pk sub).
  assert (Hk : ekey_of cl2 pk sub = k) by (unfold k, ekey_of; rewrite Hd; reflexivity).
  pose proof (mfire_ent _ _ _ _ _ _ Hf1) as He1. fold k in He1.
  apply mfire_iff in Hf1. cbv zeta in Hf1. fold k ty in Hf1. destruct Hf1 as [Ecl1 [Hl1 _]].
  apply mfire_iff in Hf2. cbv zeta in Hf2. rewrite Hk, Hd in Hf2. fold ty in Hf2. destruct Hf2 as [Ecl2 [Hl2 _]].
  rewrite group_cnt in Hl1, Hl2.
  assert (Hs1' : ent s1' k = ent s1 k ++ [p1]).
  { apply step_entry in Hst. destruct Hst as [cl [Hc [_ [_ [_ ->]]]]]. simpl.
    rewrite Hc1 in Hc. injection Hc as <-. exact He1. }
  assert (Hfull : t <= cnt ty (eroot ty p1) (ent s1' k)) by (rewrite Hs1'; lia).
  destruct (run_keeps_full l2 k ty (eroot ty p1) _ _ Hr2 Hnt Hfull) as [ext Hext].
  assert (I2 : MInv s2).
  { eapply run_minv; [|exact Hr2]. eapply step_minv; [|exact Hst]. eapply run_minv; [apply minv_init | exact Hr1]. }
  assert (Hne : eroot ty p1 <> eroot ty p2).
  { intro E. rewrite Hext, !cnt_app, cnt_one in Hl2. rewrite <- E, Nat.eqb_refl in Hl2. lia. }
  split; [exact Hne|]. intros S HS. rewrite Hk in HS.
  set (L := ent s2 k ++ [p2]) in *.
  assert (HnL : NoDup (map share L)) by (apply nodup_snoc; [apply (m_nodup _ I2) | apply classify_new; exact Ecl2]).
  assert (Hincl : incl (map share L) S).
  { intros sh Hsh. apply in_map_iff in Hsh. destruct Hsh as [q [<- Hq]]. apply HS. exact Hq. }
  pose proof (NoDup_incl_length HnL Hincl) as Hlen. rewrite map_length in Hlen.
  pose proof (cnt_disjoint ty _ _ L Hne) as Hdis.
  assert (t <= cnt ty (eroot ty p1) L) by (unfold L; rewrite Hext, !cnt_app; lia).
  lia.
Qed.

(* every stored partial was handed in by some entry of the trace *)
Lemma step_ent_from s l s' k q : step t s l = Some s' -> In q (ent s' k) ->
  In q (ent s k) \/ exists c pk sub, l = AEntry c (EGood pk sub q).
Proof.
  intros H Hq. destruct l as [c i d st b|c e|c er out il|d].
  - apply step_begin in H. destruct H as [_ [_ ->]]. left. exact Hq.
  - apply step_entry in H. destruct H as [cl [_ [_ [_ [_ ->]]]]]. simpl in Hq.
    destruct (mstore_ent s cl e k) as [E|[pk [sub [p [-> [_ [[_ E]|[[_ E]|[_ [_ E]]]]]]]]]]; rewrite E in Hq.
    + left. exact Hq.
    + apply in_app_iff in Hq. destruct Hq as [Hq|[<-|[]]]; [left; exact Hq | right; eauto].
    + apply filter_In in Hq. left. tauto.
    + apply filter_In in Hq. destruct Hq as [Hq _]. apply in_app_iff in Hq.
      destruct Hq as [Hq|[<-|[]]]; [left; exact Hq | right; eauto].
  - apply step_end in H. destruct H as [cl [_ [_ [_ [_ [_ ->]]]]]]. left. exact Hq.
  - apply step_trim in H. subst s'. simpl in Hq. destruct (duty_eqb (kduty k) d && memk k (kbd s)); [contradiction | left; exact Hq].
Qed.

Lemma run_ent_from ls : forall s s' k q, run t s ls = Some s' -> In q (ent s' k) ->
  In q (ent s k) \/ exists c pk sub, In (AEntry c (EGood pk sub q)) ls.
Proof.
  induction ls as [|l ls IH]; intros s s' k q H Hq.
  - injection H as <-. left. exact Hq.
  - apply run_cons in H. destruct H as [s1 [H1 H2]].
    destruct (IH _ _ _ _ H2 Hq) as [Hq1|[c [pk [sub Hin]]]].
    + destruct (step_ent_from _ _ _ _ _ H1 Hq1) as [Hq0|[c [pk [sub ->]]]]; [left; exact Hq0|].
      right. exists c, pk, sub. left. reflexivity.
    + right. exists c, pk, sub. right. exact Hin.
Qed.

Definition shares_within (ls : list label) (S : list nat) : Prop :=
  forall c pk sub q, In (AEntry c (EGood pk sub q)) ls -> In (share q) S.

(* ---- the duty of a call, read off the trace ---- *)
Fixpoint duty_of (ls : list label) (c : nat) : option duty :=
  match ls with
  | [] => None
  | ABegin c' _ d _ _ :: r => if c' =? c then Some d else duty_of r c
  | _ :: r => duty_of r c
  end.

Lemma duty_of_app l1 l2 c :
  duty_of (l1 ++ l2) c = match duty_of l1 c with Some d => Some d | None => duty_of l2 c end.
Proof.
  induction l1 as [|l r IH]; simpl; [reflexivity|].
  destruct l; try exact IH. destruct (c0 =? c); [reflexivity | exact IH].
Qed.

Lemma duty_of_calls pre : forall s c, run t init pre = Some s ->
  duty_of pre c = option_map c_duty (calls s c).
Proof.
  induction pre as [|l pre IH] using rev_ind; intros s c H.
  - injection H as <-. reflexivity.
  - apply run_snoc in H. destruct H as [s1 [H1 H2]]. rewrite duty_of_app, (IH _ c H1).
    destruct (calls s c) as [cl|] eqn:Ec.
    + destruct (step_call _ _ _ _ _ H2 Ec) as [[e [cl1 [-> [Hc1 ->]]]]|[_ [[Hn [_ [i [d [st [b [-> ->]]]]]]]|[cl1 [Hc1 [_ [Hd _]]]]]]].
      * rewrite Hc1. simpl. destruct (mcall_static s1 cl1 e) as [_ [_ [-> _]]]. reflexivity.
      * rewrite Hn. simpl. rewrite Nat.eqb_refl. reflexivity.
      * rewrite Hc1. simpl. rewrite Hd. reflexivity.
    + destruct (calls s1 c) as [cl1|] eqn:Ec1.
      * destruct (step_calls_mono _ _ _ _ _ H2 Ec1) as [cl' Hc']. congruence.
      * simpl. destruct l; try reflexivity. destruct (Nat.eqb_spec c0 c) as [->|]; [|reflexivity].
        apply step_begin in H2. destruct H2 as [_ [_ ->]]. simpl in Ec. rewrite updc_same in Ec. discriminate.
Qed.

Lemma duty_of_prefix pre post c d : duty_of pre c = Some d -> duty_of (pre ++ post) c = Some d.
Proof. intro H. rewrite duty_of_app, H. reflexivity. Qed.

(* a closed call stays closed *)
Lemma step_closed s l s' c cl : step t s l = Some s' -> calls s c = Some cl -> c_open cl = false ->
  exists cl', calls s' c = Some cl' /\ c_open cl' = false.
Proof.
  intros H Hc Ho. destruct l as [c' i d st b|c' e|c' er out il|d].
  - apply step_begin in H. destruct H as [Hn [_ ->]]. simpl. unfold updc.
    destruct (Nat.eqb_spec c c') as [->|]; [congruence | eauto].
  - apply step_entry in H. destruct H as [cl1 [Hc1 [Ho1 [_ [_ ->]]]]]. simpl. unfold updc.
    destruct (Nat.eqb_spec c c') as [->|]; [congruence | eauto].
  - apply step_end in H. destruct H as [cl1 [Hc1 [Ho1 [_ [_ [_ ->]]]]]]. simpl. unfold updc.
    destruct (Nat.eqb_spec c c') as [->|]; [congruence | eauto].
  - apply step_trim in H. subst s'. simpl. eauto.
Qed.

Lemma run_closed ls : forall s s' c cl, run t s ls = Some s' -> calls s c = Some cl -> c_open cl = false ->
  exists cl', calls s' c = Some cl' /\ c_open cl' = false.
Proof.
  induction ls as [|l ls IH]; intros s s' c cl H Hc Ho; [injection H as <-; eauto|].
  apply run_cons in H. destruct H as [s1 [H1 H2]].
  destruct (step_closed _ _ _ _ _ H1 Hc Ho) as [cl1 [Hc1 Ho1]]. eapply IH; eauto.
Qed.

(* two firings for one key at two positions of one trace *)
Lemma two_fires ls s a c1 pk sub p1 m c2 p2 rest sa cla x1 sa' cla' x2 d :
  run t init ls = Some s ->
  ls = a ++ AEntry c1 (EGood pk sub p1) :: m ++ AEntry c2 (EGood pk sub p2) :: rest ->
  run t init a = Some sa -> calls sa c1 = Some cla -> mfire sa cla (EGood pk sub p1) = Some x1 ->
  run t init (a ++ AEntry c1 (EGood pk sub p1) :: m) = Some sa' -> calls sa' c2 = Some cla' ->
  mfire sa' cla' (EGood pk sub p2) = Some x2 ->
  c_duty cla = d -> c_duty cla' = d -> ~ In (ATrim d) ls ->
  eroot (dtype d) p1 <> eroot (dtype d) p2 /\ (forall S, shares_within ls S -> 2 * t <= length S).
Proof.
  intros Hrun -> Ha Hc1 Hf1 Ha' Hc2 Hf2 Hd1 Hd2 Hnt.
  pose proof Ha' as Hsplit. unfold run in Hsplit. apply run_app in Hsplit. destruct Hsplit as [s0 [H0 Hrest]].
  unfold run in Ha. rewrite Ha in H0. injection H0 as <-.
  fold (run t sa (AEntry c1 (EGood pk sub p1) :: m)) in Hrest. apply run_cons in Hrest.
  destruct Hrest as [sa1 [Hst Hm]].
  assert (Hnm : ~ In (ATrim (c_duty cla)) m).
  { rewrite Hd1. intro Hin. apply Hnt. apply in_or_app. right. right. apply in_or_app. left. exact Hin. }
  destruct (at_most_once a sa c1 cla pk sub p1 x1 sa1 m sa' c2 cla' p2 x2) as [Hne Hb]; auto; [congruence|].
  rewrite Hd1 in Hne. split; [exact Hne|]. intros S HS. apply Hb. intros q Hq.
  apply in_app_iff in Hq. destruct Hq as [Hq|[<-|[]]].
  - destruct (run_ent_from _ _ _ _ _ Ha' Hq) as [Hi|[c [pk' [sub' Hin]]]]; [contradiction|].
    apply (HS c pk' sub'). rewrite app_comm_cons, app_assoc. apply in_or_app. left. exact Hin.
  - apply (HS c2 pk sub). apply in_or_app. right. right. apply in_or_app. right. left. reflexivity.
Qed.

Lemma mfire_good s cl e x : mfire s cl e = Some x -> exists pk sub p, e = EGood pk sub p.
Proof. destruct e as [pk sub p|pk]; [eauto | discriminate]. Qed.

(* End to end, on observable labels only: the threshold subscribers are never called twice for
   the same (duty, validator, subcommittee) and root without a trim of the duty in between; and
   if every share index of the trace lies in a set of fewer than 2t values, never twice at all. *)
Theorem no_double_delivery ls s q1 c1 er1 o1 il1 q2 c2 er2 o2 il2 q3 pk sub g1 g2 d :
  run t init ls = Some s ->
  ls = q1 ++ AEnd c1 er1 (Some o1) il1 :: q2 ++ AEnd c2 er2 (Some o2) il2 :: q3 ->
  In (pk, sub, g1) o1 -> In (pk, sub, g2) o2 ->
  duty_of ls c1 = Some d -> duty_of ls c2 = Some d -> ~ In (ATrim d) ls ->
  (forall x y, In x g1 -> In y g2 -> eroot (dtype d) x <> eroot (dtype d) y) /\
  (forall S, shares_within ls S -> 2 * t <= length S).
Proof.
  intros Hrun Els Hi1 Hi2 Hd1 Hd2 Hnt.
  pose proof Hrun as Hr1. rewrite Els in Hr1.
  pose proof Hr1 as Hr2. rewrite app_comm_cons, app_assoc in Hr2.
  set (pre2 := q1 ++ AEnd c1 er1 (Some o1) il1 :: q2) in *.
  assert (Els2 : ls = pre2 ++ AEnd c2 er2 (Some o2) il2 :: q3).
  { rewrite Els. unfold pre2. rewrite <- app_assoc. reflexivity. }
  (* the two calls are different *)
  assert (Hcne : c1 <> c2).
  { intros <-. destruct (delivery _ _ _ _ _ _ _ Hr2) as [s2a [cl2 [H2a [Hc2 [Ho2 _]]]]].
    unfold pre2, run in H2a. apply run_app in H2a. destruct H2a as [s1a [H1a Hq2]].
    fold (run t s1a (AEnd c1 er1 (Some o1) il1 :: q2)) in Hq2. apply run_cons in Hq2. destruct Hq2 as [s1b [Hst Hq2]].
    apply step_end in Hst. destruct Hst as [cl [Hc [_ [_ [_ [_ ->]]]]]].
    destruct (run_closed q2 _ _ c1 (closed cl) Hq2) as [cl' [Hc' Ho']]; [simpl; apply updc_same | reflexivity|].
    congruence. }
  destruct (proj1 (delivered_iff_fired _ _ _ _ _ _ _ Hr1 (pk, sub, g1)) Hi1) as [a [e1 [b [sa [cla [Eq1 [Ha [Hca Hfa]]]]]]]].
  destruct (proj1 (delivered_iff_fired _ _ _ _ _ _ _ Hr2 (pk, sub, g2)) Hi2) as [a' [e2 [b' [sa' [cla' [Eq2 [Ha' [Hca' Hfa']]]]]]]].
  destruct (mfire_good _ _ _ _ Hfa) as [pk1 [sub1 [p1 ->]]].
  destruct (mfire_good _ _ _ _ Hfa') as [pk2 [sub2 [p2 ->]]].
  pose proof (proj1 (mfire_iff _ _ _ _ _ _) Hfa) as [_ [_ Ex1]]. injection Ex1 as <- <- Eg1.
  pose proof (proj1 (mfire_iff _ _ _ _ _ _) Hfa') as [_ [_ Ex2]]. injection Ex2 as <- <- Eg2.
  (* duties *)
  assert (Hda : c_duty cla = d).
  { pose proof (duty_of_calls _ _ c1 Ha) as E. rewrite Hca in E. simpl in E.
    assert (E' : duty_of ls c1 = Some (c_duty cla)).
    { rewrite Els, Eq1, <- app_assoc. apply duty_of_prefix. exact E. }
    congruence. }
  assert (Hda' : c_duty cla' = d).
  { pose proof (duty_of_calls _ _ c2 Ha') as E. rewrite Hca' in E. simpl in E.
    assert (E' : duty_of ls c2 = Some (c_duty cla')).
    { rewrite Els2, Eq2, <- app_assoc. apply duty_of_prefix. exact E. }
    congruence. }
  assert (Hroots : eroot (dtype d) p1 <> eroot (dtype d) p2 /\ (forall S, shares_within ls S -> 2 * t <= length S)).
  { assert (Epre2 : pre2 = a ++ AEntry c1 (EGood pk sub p1) :: (b ++ AEnd c1 er1 (Some o1) il1 :: q2)).
    { unfold pre2. rewrite Eq1, <- app_assoc. reflexivity. }
    rewrite Eq2 in Epre2. symmetry in Epre2.
    destruct (split_compare _ _ _ _ _ _ Epre2) as [[_ [E _]]|[[m [Em Eb]]|[m [Em Eb]]]].
    - injection E as E. contradiction.
    - (* c1's entry first *)
      apply (two_fires ls s a c1 pk sub p1 m c2 p2 (b' ++ AEnd c2 er2 (Some o2) il2 :: q3) sa cla (pk, sub, g1) sa' cla' (pk, sub, g2) d); auto.
      + rewrite Els2, Eq2, Em. repeat (rewrite <- app_assoc; simpl). reflexivity.
      + rewrite <- Em. exact Ha'.
    - (* c2's entry first *)
      assert (Ha2 : run t init (a' ++ AEntry c2 (EGood pk sub p2) :: m) = Some sa) by (rewrite <- Em; exact Ha).
      destruct (two_fires ls s a' c2 pk sub p2 m c1 p1 (b ++ AEnd c1 er1 (Some o1) il1 :: q2 ++ AEnd c2 er2 (Some o2) il2 :: q3)
                  sa' cla' (pk, sub, g2) sa cla (pk, sub, g1) d) as [Hne Hb];
        [exact Hrun | | exact Ha' | exact Hca' | exact Hfa' | exact Ha2 | exact Hca | exact Hfa | exact Hda' | exact Hda | exact Hnt |].
      + rewrite Els, Eq1, Em. repeat (rewrite <- app_assoc; simpl). reflexivity.
      + split; [intro E; apply Hne; symmetry; exact E | exact Hb]. }
  destruct Hroots as [Hne Hb]. split; [|exact Hb].
  intros x y Hx Hy. rewrite Eg1 in Hx. rewrite Eg2 in Hy.
  apply group_In in Hx. apply group_In in Hy. rewrite Hda in Hx. rewrite Hda' in Hy.
  destruct Hx as [_ ->]. destruct Hy as [_ ->]. exact Hne.
Qed.

(* one call never names a validator twice *)
Lemma todo_nodup pre : forall s c cl, run t init pre = Some s -> calls s c = Some cl -> NoDup (map epk (c_todo cl)).
Proof.
  assert (Hrem : forall e l, NoDup (map epk l) -> NoDup (map epk (remove1 e l))).
  { intros e l. induction l as [|x l IH]; simpl; intro H; [constructor|].
    inversion H as [|y ys Hn Hl]; subst. destruct (entry_eqb x e); [exact Hl|].
    simpl. constructor; [|apply IH; exact Hl].
    intro Hin. apply Hn. clear -Hin. induction l as [|z l IH]; simpl in *; [contradiction|].
    destruct (entry_eqb z e); [right; exact Hin|]. simpl in Hin. destruct Hin as [E|Hin]; [left; exact E | right; apply IH; exact Hin]. }
  induction pre as [|l pre IH] using rev_ind; intros s c cl H Hc.
  - injection H as <-. discriminate.
  - apply run_snoc in H. destruct H as [s1 [H1 H2]].
    destruct (step_call _ _ _ _ _ H2 Hc) as [[e [cl1 [-> [Hc1 ->]]]]|[_ [[Hn [_ [i [d [st [b [-> ->]]]]]]]|[cl1 [Hc1 [_ [_ [_ [_ [_ [_ [Ht _]]]]]]]]]]]].
    + destruct (mcall_static s1 cl1 e) as [_ [_ [_ [_ [-> _]]]]]. apply Hrem. eapply IH; eauto.
    + apply step_begin in H2. destruct H2 as [_ [Hnd _]]. unfold new_call. simpl. destruct st; [constructor | exact Hnd | exact Hnd].
    + rewrite Ht. eapply IH; eauto.
Qed.

(* ---- one delivery per validator inside one call ---- *)
Definition opk (x : nat * nat * list partial) : nat := fst (fst x).

Lemma remove1_pk e l : NoDup (map epk l) -> In e l -> ~ In (epk e) (map epk (remove1 e l)).
Proof.
  induction l as [|x l IH]; simpl; intros Hn Hin; [contradiction|].
  inversion Hn as [|y ys Hx Hl]; subst. destruct (entry_eqb x e) eqn:E.
  - apply entry_eqb_eq in E. subst x. exact Hx.
  - destruct Hin as [->|Hin]; [rewrite (proj2 (entry_eqb_eq e e) eq_refl) in E; discriminate|].
    simpl. intros [E'|Hin']; [|apply IH; auto].
    apply Hx. rewrite E'. apply in_map. exact Hin.
Qed.

Lemma remove1_incl e l x : In x (remove1 e l) -> In x l.
Proof.
  induction l as [|y l IH]; simpl; [tauto|]. destruct (entry_eqb y e); [tauto|].
  simpl. intros [H|H]; [left; exact H | right; apply IH; exact H].
Qed.

Lemma out_pks pre : forall s c cl, run t init pre = Some s -> calls s c = Some cl ->
  NoDup (map opk (c_out cl)) /\ (forall x, In x (c_out cl) -> ~ In (opk x) (map epk (c_todo cl))).
Proof.
  induction pre as [|l pre IH] using rev_ind; intros s c cl H Hc.
  - injection H as <-. discriminate.
  - apply run_snoc in H. destruct H as [s1 [H1 H2]].
    destruct (step_call _ _ _ _ _ H2 Hc) as [[e [cl1 [-> [Hc1 ->]]]]|[_ [[Hn [Ho _]]|[cl1 [Hc1 [Ho [_ [_ [_ [_ [_ [Ht _]]]]]]]]]]]].
    + destruct (IH _ _ _ H1 Hc1) as [Hnd Hdis]. pose proof (todo_nodup _ _ _ _ H1 Hc1) as Htn.
      apply step_entry in H2. destruct H2 as [cl1' [Hc1' [_ [_ [Hin _]]]]]. rewrite Hc1 in Hc1'. injection Hc1' as <-.
      rewrite mcall_out. destruct (mcall_static s1 cl1 e) as [_ [_ [_ [_ [-> _]]]]].
      destruct (mfire s1 cl1 e) as [x|] eqn:Ef; simpl.
      * destruct (mfire_good _ _ _ _ Ef) as [pk [sub [p ->]]].
        pose proof (proj1 (mfire_iff _ _ _ _ _ _) Ef) as [_ [_ ->]]. split.
        -- rewrite map_app. simpl. apply nodup_snoc_gen; [exact Hnd|].
           intro Hi. apply in_map_iff in Hi. destruct Hi as [y [Ey Hy]].
           apply (Hdis y Hy). rewrite Ey. unfold opk. simpl.
           apply in_map_iff. exists (EGood pk sub p). auto.
        -- intros y Hy. apply in_app_iff in Hy. destruct Hy as [Hy|[<-|[]]].
           ++ intro Hi. apply (Hdis y Hy). apply in_map_iff in Hi. destruct Hi as [z [Ez Hz]].
              apply in_map_iff. exists z. split; [exact Ez | eapply remove1_incl; eauto].
           ++ unfold opk. simpl. apply (remove1_pk (EGood pk sub p)); auto.
      * rewrite app_nil_r. split; [exact Hnd|]. intros y Hy Hi. apply (Hdis y Hy).
        apply in_map_iff in Hi. destruct Hi as [z [Ez Hz]]. apply in_map_iff. exists z. split; [exact Ez | eapply remove1_incl; eauto].
    + rewrite Ho. split; [constructor | contradiction].
    + rewrite Ho, Ht. eapply IH; eauto.
Qed.

Theorem delivery_one_per_validator pre c er o il post s :
  run t init (pre ++ AEnd c er (Some o) il :: post) = Some s -> NoDup (map opk o).
Proof.
  intro H. destruct (delivery _ _ _ _ _ _ _ H) as [s1 [cl [H1 [Hc [_ [_ [Hi [_ [Hl _]]]]]]]]]. simpl in Hi, Hl.
  destruct (out_pks _ _ _ _ H1 Hc) as [Hnd _].
  assert (Hdue : NoDup (c_out cl)) by (eapply NoDup_map_inv; exact Hnd).
  assert (Ho : NoDup o).
  { apply (NoDup_incl_NoDup Hdue); [lia | intros x Hx; apply Hi; exact Hx]. }
  assert (Hp : Permutation (c_out cl) o).
  { apply NoDup_Permutation; auto. intro x. symmetry. apply Hi. }
  eapply Permutation_NoDup; [apply Permutation_map; exact Hp | exact Hnd].
Qed.

(* ---- a stored root group of size >= t has fired (since the last trim of its duty) ---- *)
Record KInv (s : state) : Prop := {
  k_kbd : forall k, exempt_ty (dtype (kduty k)) = false -> ent s k <> [] -> In k (kbd s);
  k_st : forall c cl, calls s c = Some cl -> status_eqb (c_st cl) Exempt = exempt_ty (dtype (c_duty cl))
}.

Lemma kinv_init : KInv init.
Proof. split; simpl; [intros k _ H; contradiction | discriminate]. Qed.

Lemma mstore_kbd s cl e k : In k (kbd s) -> In k (s_kbd (mstore s cl e)).
Proof.
  intro H. destruct e as [pk sub p|pk]; simpl; [|exact H].
  destruct (classify p (ent s (ekey_of cl pk sub))); simpl; try exact H.
  destruct (negb (ex_of cl) && is_nil (ent s (ekey_of cl pk sub))); [apply in_or_app; left; exact H | exact H].
Qed.

Lemma step_kinv s l s' : KInv s -> lab_status_ok l = true -> step t s l = Some s' -> KInv s'.
Proof.
  intros [Hk Hs] Hl H. destruct l as [c i d st b|c e|c er out il|d].
  - apply step_begin in H. destruct H as [_ [_ ->]]. split; simpl; [exact Hk|].
    intros c' cl'. unfold updc. destruct (c' =? c); [|apply Hs].
    intro E. injection E as <-. simpl in *. apply eqb_prop in Hl. destruct st; exact Hl.
  - apply step_entry in H. destruct H as [cl [Hc [_ [_ [_ ->]]]]]. split; simpl.
    + intros k Hty Hne.
      destruct (mstore_ent s cl e k) as [E|[pk [sub [p [-> [Ecl Hcases]]]]]].
      * apply mstore_kbd. apply Hk; [exact Hty | rewrite <- E; exact Hne].
      * assert (Hkey : k = ekey_of cl pk sub -> In k (s_kbd (mstore s cl (EGood pk sub p)))).
        { intros ->. simpl. rewrite Ecl. simpl.
          assert (Hex : ex_of cl = false).
          { unfold ex_of. rewrite (Hs _ _ Hc). exact Hty. }
          rewrite Hex. simpl. destruct (ent s (ekey_of cl pk sub)) eqn:Ee; simpl.
          - apply in_or_app. right. left. reflexivity.
          - apply Hk; [exact Hty | rewrite Ee; discriminate]. }
        destruct Hcases as [[-> _]|[[_ E]|[-> _]]]; [apply Hkey; reflexivity | | apply Hkey; reflexivity].
        apply mstore_kbd. apply Hk; [exact Hty|]. intro E0. rewrite E, E0 in Hne. apply Hne. reflexivity.
    + intros c' cl'. unfold updc. destruct (c' =? c); [|apply Hs].
      intro E. injection E as <-. destruct (mcall_static s cl e) as [_ [_ [-> [-> _]]]]. apply (Hs _ _ Hc).
  - apply step_end in H. destruct H as [cl [Hc [_ [_ [_ [_ ->]]]]]]. split; simpl; [exact Hk|].
    intros c' cl'. unfold updc. destruct (c' =? c); [|apply Hs].
    intro E. injection E as <-. simpl. apply (Hs _ _ Hc).
  - apply step_trim in H. subst s'. split; simpl; [|exact Hs].
    intros k Hty Hne. apply filter_In.
    destruct (duty_eqb (kduty k) d) eqn:Ed; simpl in *.
    + destruct (memk k (kbd s)) eqn:Em; [exfalso; apply Hne; reflexivity|].
      exfalso. assert (In k (kbd s)) by (apply Hk; auto). apply memk_In in H. congruence.
    + split; [apply Hk; auto | reflexivity].
Qed.

Lemma run_kinv ls : forall s s', KInv s -> status_ok ls = true -> run t s ls = Some s' -> KInv s'.
Proof.
  induction ls as [|l r IH]; intros s s' I Hs H; [injection H as <-; exact I|].
  simpl in Hs. apply andb_true_iff in Hs. destruct Hs as [Hs1 Hs2].
  apply run_cons in H. destruct H as [s1 [H1 H2]]. eapply IH; [eapply step_kinv; eauto | exact Hs2 | exact H2].
Qed.

(* E *)
Theorem stored_threshold_fired pre : forall s k r, 1 <= t -> run t init pre = Some s -> status_ok pre = true ->
  t <= cnt (dtype (kduty k)) r (ent s k) ->
  exists p1 c pk sub p p2 s0 cl x,
    pre = p1 ++ AEntry c (EGood pk sub p) :: p2 /\ run t init p1 = Some s0 /\ calls s0 c = Some cl /\
    ekey_of cl pk sub = k /\ eroot (dtype (kduty k)) p = r /\ mfire s0 cl (EGood pk sub p) = Some x /\
    ~ In (ATrim (kduty k)) p2.
Proof.
  induction pre as [|l pre IH] using rev_ind; intros s k r Ht H Hs Hc.
  - injection H as <-. simpl in Hc. unfold cnt in Hc. simpl in Hc. lia.
  - apply run_snoc in H. destruct H as [s1 [H1 H2]].
    unfold status_ok in Hs. rewrite forallb_app in Hs. apply andb_true_iff in Hs. destruct Hs as [Hs1 Hs2].
    simpl in Hs2. rewrite andb_true_r in Hs2. set (ty := dtype (kduty k)) in *.
    destruct (le_lt_dec t (cnt ty r (ent s1 k))) as [Hold|Hold].
    + destruct (IH _ _ _ Ht H1 Hs1 Hold) as [p1 [c [pk [sub [p [p2 [s0 [cl [x [-> [Hr0 [Hc0 [Hk [Hr [Hf Hnt]]]]]]]]]]]]]]].
      exists p1, c, pk, sub, p, (p2 ++ [l]), s0, cl, x. repeat split; auto.
      * rewrite <- app_assoc. reflexivity.
      * intro Hin. apply in_app_iff in Hin. destruct Hin as [Hin|[->|[]]]; [contradiction|].
        assert (I1 : KInv s1) by (eapply run_kinv; [apply kinv_init | exact Hs1 | exact H1]).
        simpl in Hs2. apply negb_true_iff in Hs2.
        assert (Hin : In k (kbd s1)).
        { apply (k_kbd _ I1); [exact Hs2|]. intro E. rewrite E in Hold. unfold cnt in Hold. simpl in Hold. lia. }
        apply step_trim in H2. subst s. simpl in Hc.
        rewrite (proj2 (duty_eqb_eq _ _) eq_refl), (proj2 (memk_In _ _) Hin) in Hc. unfold cnt in Hc. simpl in Hc. lia.
    + (* the last step raised the count to t: it is a firing entry *)
      destruct l as [c i d st b|c e|c er out il|d].
      * apply step_begin in H2. destruct H2 as [_ [_ ->]]. simpl in Hc. lia.
      * apply step_entry in H2. destruct H2 as [cl [Hcl [_ [_ [_ ->]]]]]. simpl in Hc.
        destruct (mstore_ent s1 cl e k) as [E|[pk [sub [p [-> [Ecl [[-> E]|[[_ E]|[_ [Hlt E]]]]]]]]]]; rewrite E in Hc.
        -- lia.
        -- rewrite cnt_app, cnt_one in Hc. subst ty.
           change (dtype (kduty (ekey_of cl pk sub))) with (dtype (c_duty cl)) in *.
           destruct (Nat.eqb_spec (eroot (dtype (c_duty cl)) p) r) as [Er|Er]; [|lia].
           assert (Hf : exists x, mfire s1 cl (EGood pk sub p) = Some x).
           { eexists. apply mfire_iff. cbv zeta. split; [exact Ecl|]. split; [|reflexivity].
             rewrite group_cnt, cnt_app, cnt_one, Er, Nat.eqb_refl. lia. }
           destruct Hf as [x Hf].
           exists pre, c, pk, sub, p, [], s1, cl, x. repeat split; auto.
        -- pose proof (cnt_filter_le ty r (fun q => negb (share q =? share p)) (ent s1 k)). lia.
        -- pose proof (cnt_le ty r (filter (fun q => negb (share q =? share p)) (ent s1 k ++ [p]))) as H3.
           pose proof (filter_length_le (fun q => negb (share q =? share p)) (ent s1 k ++ [p])). lia.
      * apply step_end in H2. destruct H2 as [cl [_ [_ [_ [_ [_ ->]]]]]]. simpl in Hc. lia.
      * apply step_trim in H2. subst s. simpl in Hc.
        destruct (duty_eqb (kduty k) d && memk k (kbd s1)); [unfold cnt in Hc; simpl in Hc; lia | lia].
Qed.

(* ---- duplicates and equivocations ---- *)
Lemma NoDup_map_inj {A B} (f : A -> B) l a b : NoDup (map f l) -> In a l -> In b l -> f a = f b -> a = b.
Proof.
  induction l as [|x l IH]; simpl; intros Hn Ha Hb E; [contradiction|].
  inversion Hn as [|y ys Hx Hl]; subst.
  destruct Ha as [->|Ha], Hb as [->|Hb]; auto.
  - exfalso. apply Hx. rewrite E. apply in_map. exact Hb.
  - exfalso. apply Hx. rewrite <- E. apply in_map. exact Ha.
Qed.

Lemma classify_spec p l : NoDup (map share l) ->
  (classify p l = VDup <-> exists q, In q l /\ share q = share p /\ pid q = pid p) /\
  (classify p l = VMismatch <-> exists q, In q l /\ share q = share p /\ pid q <> pid p) /\
  (classify p l = VNew <-> forall q, In q l -> share q <> share p).
Proof.
  intro Hn. unfold classify. destruct (find_share (share p) l) as [q|] eqn:E.
  - apply find_share_some in E. destruct E as [Hq Hs].
    assert (Hu : forall q', In q' l -> share q' = share p -> q' = q).
    { intros q' Hq' Hs'. eapply NoDup_map_inj; eauto. congruence. }
    destruct (Nat.eqb_spec (pid q) (pid p)) as [Ep|Ep]; repeat split; try discriminate; eauto.
    + intros [q' [Hq' [Hs' Hp']]]. apply Hu in Hq'; [subst; contradiction | exact Hs'].
    + intro H. exfalso. apply (H q Hq Hs).
    + intros [q' [Hq' [Hs' Hp']]]. apply Hu in Hq'; [subst; contradiction | exact Hs'].
    + intro H. exfalso. apply (H q Hq Hs).
  - apply find_share_none in E. repeat split; try discriminate.
    + intros [q [Hq [Hs _]]]. exfalso. apply E. rewrite <- Hs. apply in_map. exact Hq.
    + intros [q [Hq [Hs _]]]. exfalso. apply E. rewrite <- Hs. apply in_map. exact Hq.
    + intros _ q Hq Hs. apply E. rewrite <- Hs. apply in_map. exact Hq.
Qed.

(* F: a partial signature that is already stored (same share, same data) changes nothing *)
Theorem dup_ignored s c pk sub p s' cl :
  step t s (AEntry c (EGood pk sub p)) = Some s' -> calls s c = Some cl ->
  classify p (ent s (ekey_of cl pk sub)) = VDup ->
  ent s' = ent s /\ kbd s' = kbd s /\ exm s' = exm s /\
  calls s' = updc (calls s) c (Some (took cl (EGood pk sub p))).
Proof.
  intros H Hc Ecl. apply step_entry in H. destruct H as [cl' [Hc' [_ [_ [_ ->]]]]].
  rewrite Hc in Hc'. injection Hc' as <-. simpl. rewrite Ecl. simpl. auto.
Qed.

(* G: same share, different data: nothing stored changes, the call is marked as failed *)
Theorem reject_preserves_state s c pk sub p s' cl :
  step t s (AEntry c (EGood pk sub p)) = Some s' -> calls s c = Some cl ->
  classify p (ent s (ekey_of cl pk sub)) = VMismatch ->
  ent s' = ent s /\ kbd s' = kbd s /\ exm s' = exm s /\
  calls s' = updc (calls s) c (Some (set_mis false (took cl (EGood pk sub p)))).
Proof.
  intros H Hc Ecl. apply step_entry in H. destruct H as [cl' [Hc' [_ [_ [_ ->]]]]].
  rewrite Hc in Hc'. injection Hc' as <-. simpl. rewrite Ecl. simpl. auto.
Qed.

Lemma mcall_mis s cl e : c_mis cl = true -> c_mis (mcall s cl e) = true.
Proof.
  intro H. destruct e as [pk sub p|pk]; simpl; [|exact H].
  destruct (classify p (ent s (ekey_of cl pk sub))); simpl; auto.
Qed.

Lemma run_mis ls : forall s s' c cl, run t s ls = Some s' -> calls s c = Some cl -> c_mis cl = true ->
  exists cl', calls s' c = Some cl' /\ c_mis cl' = true.
Proof.
  induction ls as [|l ls IH]; intros s s' c cl H Hc Hm; [injection H as <-; eauto|].
  apply run_cons in H. destruct H as [s1 [H1 H2]].
  destruct (step_calls_mono _ _ _ _ _ H1 Hc) as [cl1 Hc1].
  assert (Hm1 : c_mis cl1 = true).
  { destruct (step_call _ _ _ _ _ H1 Hc1) as [[e [cl0 [_ [Hc0 ->]]]]|[_ [[Hn _]|[cl0 [Hc0 [_ [_ [_ [_ [Hmm _]]]]]]]]]].
    - rewrite Hc in Hc0. injection Hc0 as <-. apply mcall_mis. exact Hm.
    - congruence.
    - rewrite Hc in Hc0. injection Hc0 as <-. congruence. }
  eapply IH; eauto.
Qed.

(* ... and the call that contained it returns an error *)
Theorem reject_reported p1 c pk sub p p2 er out il p3 s s0 cl :
  run t init (p1 ++ AEntry c (EGood pk sub p) :: p2 ++ AEnd c er out il :: p3) = Some s ->
  run t init p1 = Some s0 -> calls s0 c = Some cl ->
  classify p (ent s0 (ekey_of cl pk sub)) = VMismatch -> er <> ENone.
Proof.
  intros H H0 Hc Ecl.
  pose proof H as H'. rewrite app_comm_cons, app_assoc in H'.
  destruct (delivery _ _ _ _ _ _ _ H') as [s2 [cl2 [H2 [Hc2 [_ [_ [_ [_ [_ [He _]]]]]]]]]].
  unfold run in H2. apply run_app in H2. destruct H2 as [s0' [H0' H2]].
  unfold run in H0. rewrite H0 in H0'. injection H0' as <-.
  fold (run t s0 (AEntry c (EGood pk sub p) :: p2)) in H2. apply run_cons in H2. destruct H2 as [s1 [Hst H2]].
  apply step_entry in Hst. destruct Hst as [cl' [Hc' [_ [_ [_ ->]]]]]. rewrite Hc in Hc'. injection Hc' as <-.
  destruct (run_mis p2 _ _ c (mcall s0 cl (EGood pk sub p)) H2) as [cl3 [Hc3 Hm3]].
  - simpl. apply updc_same.
  - simpl. rewrite Ecl. reflexivity.
  - rewrite Hc2 in Hc3. injection Hc3 as <-. intro E. apply He in E. destruct E as [E _]. congruence.
Qed.

(* I: a set for an expired duty is dropped: no entry of it is processed, the threshold subscribers
   are not called, nil is returned (and the internal subscribers still run for StoreInternal) *)
Lemma expired_rest ls : forall s s' c cl i, run t s ls = Some s' -> calls s c = Some cl ->
  c_todo cl = [] -> c_out cl = [] -> c_mis cl = false -> c_oth cl = false -> c_int cl = i -> c_abort cl = false ->
  (forall e, ~ In (AEntry c e) ls) /\
  (forall er out il, In (AEnd c er out il) ls -> er = ENone /\ out = None /\ il = i).
Proof.
  induction ls as [|l ls IH]; intros s s' c cl i H Hc Ht Ho Hm Hoth Hi Hab; [split; [intros e [] | intros er out il []]|].
  apply run_cons in H. destruct H as [s1 [H1 H2]].
  assert (Hnot : forall e, l <> AEntry c e).
  { intros e ->. apply step_entry in H1. destruct H1 as [cl' [Hc' [_ [_ [Hin _]]]]].
    rewrite Hc in Hc'. injection Hc' as <-. rewrite Ht in Hin. contradiction. }
  destruct (step_calls_mono _ _ _ _ _ H1 Hc) as [cl1 Hc1].
  destruct (step_call _ _ _ _ _ H1 Hc1) as [[e [cl0 [-> _]]]|[_ [[Hn _]|[cl0 [Hc0 [Eo [_ [_ [Ei [Em [Eoth [Et Ea]]]]]]]]]]]].
  - exfalso. eapply Hnot; eauto.
  - congruence.
  - rewrite Hc in Hc0. injection Hc0 as <-.
    destruct (IH _ _ c cl1 i H2 Hc1) as [IH1 IH2]; try congruence.
    split.
    + intros e [->|Hin]; [eapply Hnot; eauto | eapply IH1; eauto].
    + intros er out il [->|Hin]; [|eapply IH2; eauto].
      apply step_end in H1. destruct H1 as [cl' [Hc' [_ [Hok [He [Hil _]]]]]].
      rewrite Hc in Hc'. injection Hc' as <-. destruct (Hok Hab) as [_ Hout].
      rewrite Ho in Hout. assert (out = None) by (destruct out; [simpl in Hout; discriminate | reflexivity]).
      assert (er = ENone) by (destruct er; simpl in He; congruence).
      subst er out. rewrite Hil, Hi. simpl. rewrite andb_true_r. auto.
Qed.

Theorem expired_dropped p1 c i d b p2 s :
  run t init (p1 ++ ABegin c i d Expired b :: p2) = Some s ->
  (forall e, ~ In (AEntry c e) p2) /\
  (forall er out il, In (AEnd c er out il) p2 -> er = ENone /\ out = None /\ il = i) /\
  (exists s0 s1, run t init p1 = Some s0 /\ step t s0 (ABegin c i d Expired b) = Some s1 /\
                 ent s1 = ent s0 /\ kbd s1 = kbd s0 /\ exm s1 = exm s0).
Proof.
  intro H. unfold run in H. apply run_app in H. destruct H as [s0 [H0 H]].
  fold (run t s0 (ABegin c i d Expired b :: p2)) in H. apply run_cons in H. destruct H as [s1 [Hst H2]].
  pose proof Hst as Hst'. apply step_begin in Hst. destruct Hst as [_ [_ ->]].
  destruct (expired_rest p2 _ _ c (new_call i d Expired b) i H2) as [A B]; try reflexivity.
  - simpl. apply updc_same.
  - split; [exact A|]. split; [exact B|]. exists s0. eexists. split; [exact H0|]. split; [exact Hst'|]. auto.
Qed.

(* ---- other validators ---- *)
Record XInv (s : state) : Prop := { x_pk : forall ek k0, In k0 (exm s ek) -> kpk k0 = snd (fst ek) }.

Lemma step_xinv s l s' : XInv s -> step t s l = Some s' -> XInv s'.
Proof.
  intros [Hx] H. destruct l as [c i d st b|c e|c er out il|d].
  - apply step_begin in H. destruct H as [_ [_ ->]]. split. exact Hx.
  - apply step_entry in H. destruct H as [cl [_ [_ [_ [_ ->]]]]]. split. simpl.
    destruct e as [pk sub p|pk]; simpl; [|exact Hx].
    destruct (classify p (ent s (ekey_of cl pk sub))); simpl; try exact Hx.
    destruct (ex_of cl); simpl; [|exact Hx].
    unfold track. set (ek := (share p, kpk (ekey_of cl pk sub), dtype (kduty (ekey_of cl pk sub)))).
    assert (Hst : forall k0, In k0 (exm s ek ++ [ekey_of cl pk sub]) -> kpk k0 = snd (fst ek)).
    { intros k0 Hin. apply in_app_iff in Hin. destruct Hin as [Hin|[<-|[]]]; [apply Hx; exact Hin | reflexivity]. }
    destruct (max_exempt <? length (exm s ek ++ [ekey_of cl pk sub])).
    + destruct (exm s ek ++ [ekey_of cl pk sub]) as [|k0 rest] eqn:E; simpl; [exact Hx|].
      intros ek' k1. unfold updx. destruct (ekey_eqb ek' ek) eqn:Ee; [|apply Hx].
      apply ekey_eqb_eq in Ee. subst ek'. intro Hin. apply Hst. right. exact Hin.
    + simpl. intros ek' k1. unfold updx. destruct (ekey_eqb ek' ek) eqn:Ee; [|apply Hx].
      apply ekey_eqb_eq in Ee. subst ek'. apply Hst.
  - apply step_end in H. destruct H as [cl [_ [_ [_ [_ [_ ->]]]]]]. split. exact Hx.
  - apply step_trim in H. subst s'. split. exact Hx.
Qed.

Lemma run_xinv ls : forall s s', XInv s -> run t s ls = Some s' -> XInv s'.
Proof.
  induction ls as [|l r IH]; intros s s' I H; [injection H as <-; exact I|].
  apply run_cons in H. destruct H as [s1 [H1 H2]]. eapply IH; [eapply step_xinv; eauto | exact H2].
Qed.

Lemma xinv_init : XInv init.
Proof. split. simpl. intros _ k0 []. Qed.

(* H: an entry for validator pk' leaves every key of any other validator untouched, so it can
   neither cause nor prevent a firing for them (mfire only reads the entry of its own key) *)
Theorem other_validator_untouched pre s c e s' k :
  run t init pre = Some s -> step t s (AEntry c e) = Some s' -> kpk k <> epk e -> ent s' k = ent s k.
Proof.
  intros Hr H Hne. assert (X : XInv s) by (eapply run_xinv; [apply xinv_init | exact Hr]). destruct X as [Hx].
  apply step_entry in H. destruct H as [cl [_ [_ [_ [_ ->]]]]]. simpl.
  destruct e as [pk sub p|pk]; simpl in *; [|reflexivity].
  destruct (classify p (ent s (ekey_of cl pk sub))); simpl; try reflexivity.
  assert (Hk : k <> ekey_of cl pk sub) by (intros ->; apply Hne; reflexivity).
  destruct (ex_of cl); simpl; [|apply upd_other; exact Hk].
  unfold track. set (ek := (share p, kpk (ekey_of cl pk sub), dtype (kduty (ekey_of cl pk sub)))).
  destruct (max_exempt <? length (exm s ek ++ [ekey_of cl pk sub])); simpl; [|apply upd_other; exact Hk].
  destruct (exm s ek ++ [ekey_of cl pk sub]) as [|k0 rest] eqn:E; simpl; [apply upd_other; exact Hk|].
  assert (Hk0 : kpk k0 = pk).
  { assert (Hin : In k0 (exm s ek ++ [ekey_of cl pk sub])) by (rewrite E; left; reflexivity).
    apply in_app_iff in Hin. destruct Hin as [Hin|[<-|[]]]; [apply Hx in Hin; exact Hin | reflexivity]. }
  unfold evict. simpl. destruct (t <=? length (upd (ent s) (ekey_of cl pk sub) (ent s (ekey_of cl pk sub) ++ [p]) k0));
    [apply upd_other; exact Hk|].
  rewrite upd_other; [apply upd_other; exact Hk | intros ->; apply Hne; exact Hk0].
Qed.

Theorem mfire_reads_own_key s s' cl pk sub p :
  ent s (ekey_of cl pk sub) = ent s' (ekey_of cl pk sub) ->
  mfire s cl (EGood pk sub p) = mfire s' cl (EGood pk sub p).
Proof.
  intro E. destruct (mfire s cl (EGood pk sub p)) as [x|] eqn:E1.
  - symmetry. apply mfire_iff. apply mfire_iff in E1. cbv zeta in *. rewrite <- E. exact E1.
  - destruct (mfire s' cl (EGood pk sub p)) as [x|] eqn:E2; [|reflexivity].
    apply mfire_iff in E2. cbv zeta in E2. rewrite <- E in E2. apply mfire_iff in E2. congruence.
Qed.

(* ---------------------------------------------------------------- Part C *)

Record Inv (s : state) (g : ghost) : Prop := {
  i_ent : forall k, ent s k = acc g k;
  i_calls : forall c, calls s c = gcalls g c;
  i_exm : forall ek, length (exm s ek) = gx g ek
}.

Lemma inv_init : Inv init ginit.
Proof. split; reflexivity. Qed.

Lemma mfire_fire_of s a cl pk sub p : (forall k, ent s k = a k) ->
  mfire s cl (EGood pk sub p) = fire_of t a (c_duty cl) (EGood pk sub p).
Proof.
  intro Ha. unfold fire_of. rewrite <- (Ha (c_duty cl, pk, sub)).
  change (c_duty cl, pk, sub) with (ekey_of cl pk sub).
  destruct (mfire s cl (EGood pk sub p)) as [x|] eqn:E.
  - apply mfire_iff in E. cbv zeta in E. destruct E as [-> [Hl ->]].
    apply Nat.eqb_eq in Hl. rewrite Hl. reflexivity.
  - destruct (classify p (ent s (ekey_of cl pk sub))) eqn:Ecl; try reflexivity.
    destruct (Nat.eqb_spec (length (group (dtype (c_duty cl)) p (ent s (ekey_of cl pk sub) ++ [p]))) t) as [Hl|Hl]; [|reflexivity].
    assert (H : mfire s cl (EGood pk sub p) = Some (pk, sub, group (dtype (c_duty cl)) p (ent s (ekey_of cl pk sub) ++ [p]))).
    { apply mfire_iff. cbv zeta. auto. }
    congruence.
Qed.

Lemma track_noevict en ex k sh :
  length (ex (sh, kpk k, dtype (kduty k))) < max_exempt ->
  track t false en ex k sh = (en, updx ex (sh, kpk k, dtype (kduty k)) (ex (sh, kpk k, dtype (kduty k)) ++ [k])).
Proof.
  intro H. unfold track.
  destruct (max_exempt <? length (ex (sh, kpk k, dtype (kduty k)) ++ [k])) eqn:E; [|reflexivity].
  apply Nat.ltb_lt in E. rewrite app_length in E. simpl in E. lia.
Qed.

Lemma store_new_noevict s ex k p :
  (ex = true -> length (exm s (share p, kpk k, dtype (kduty k))) < max_exempt) ->
  store_new t false false s ex k p =
  Sd (upd (ent s) k (ent s k ++ [p]))
     (if negb ex && is_nil (ent s k) then kbd s ++ [k] else kbd s)
     (if ex then updx (exm s) (share p, kpk k, dtype (kduty k)) (exm s (share p, kpk k, dtype (kduty k)) ++ [k]) else exm s)
     (thresh t (dtype (kduty k)) (ent s k ++ [p])).
Proof.
  intro H. unfold store_new. destruct ex.
  - rewrite track_noevict by auto. cbn [fst snd]. rewrite upd_same. reflexivity.
  - cbn [fst snd]. rewrite upd_same. reflexivity.
Qed.

Definition entry_evict_free (g : ghost) (cl : call) (e : entry) : Prop :=
  match e with
  | EGood pk sub p =>
      match classify p (acc g (c_duty cl, pk, sub)), c_st cl with
      | VNew, Exempt => gx g (share p, pk, dtype (c_duty cl)) <? max_exempt = true
      | _, _ => True
      end
  | EBad _ => True
  end.

Lemma entry_sound s g cl e : Inv s g -> entry_evict_free g cl e ->
  (forall k, s_ent (mstore s cl e) k = acc_entry (acc g) (c_duty cl) e k) /\
  mcall s cl e = call_entry t (acc g) cl e /\
  (forall ek, length (s_exm (mstore s cl e) ek) = gx_entry (acc g) (gx g) cl e ek).
Proof.
  intros [Ie Ic Ix] Hev. destruct e as [pk sub p|pk]; [|repeat split; auto].
  pose proof (mfire_fire_of s (acc g) cl pk sub p Ie) as Hfire.
  unfold mstore, mcall, call_entry, acc_entry, gx_entry, entry_evict_free in *.
  unfold ekey_of in *. rewrite (Ie (c_duty cl, pk, sub)) in *.
  destruct (classify p (acc g (c_duty cl, pk, sub))) eqn:Ecl; try (repeat split; auto; fail).
  rewrite store_new_noevict.
  - cbn [s_ent s_exm]. split; [|split].
    + intro k. unfold upd. destruct (key_eqb k (c_duty cl, pk, sub)); rewrite ?Ie; reflexivity.
    + rewrite Hfire. reflexivity.
    + intro ek. unfold ex_of. destruct (c_st cl); cbn [status_eqb]; try apply Ix.
      unfold updx. change (kpk (c_duty cl, pk, sub)) with pk. change (dtype (kduty (c_duty cl, pk, sub))) with (dtype (c_duty cl)).
      destruct (ekey_eqb ek (share p, pk, dtype (c_duty cl))) eqn:Ee; [|apply Ix].
      apply ekey_eqb_eq in Ee. subst ek. rewrite app_length, Ix. simpl. lia.
  - unfold ex_of. intro Hex. apply status_eqb_eq in Hex. rewrite Hex in Hev.
    change (kpk (c_duty cl, pk, sub)) with pk. change (dtype (kduty (c_duty cl, pk, sub))) with (dtype (c_duty cl)).
    rewrite Ix. apply Nat.ltb_lt. exact Hev.
Qed.

Lemma step_sound s g l s' :
  Inv s g -> MInv s -> KInv s -> lab_status_ok l = true -> evict_free g l = true ->
  step t s l = Some s' -> check g l = true /\ Inv s' (gstep t g l).
Proof.
  intros I M K Hl Hev H. pose proof I as [Ie Ic Ix]. destruct l as [c i d st b|c e|c er out il|d].
  - unfold step, step_gen in H. simpl. rewrite Ic in H. destruct (gcalls g c) eqn:Eg; [discriminate|].
    destruct (nodupb (map epk b)) eqn:En; [|discriminate]. injection H as <-.
    split; [reflexivity|]. split; simpl; auto.
    intro c'. unfold updc. destruct (c' =? c); [reflexivity | apply Ic].
  - apply step_entry in H. destruct H as [cl [Hc [Ho [Hab [Hin ->]]]]].
    assert (Hlive : live g c e = Some cl).
    { unfold live. rewrite <- Ic, Hc, Ho. simpl. rewrite (proj2 (mem_entry_In _ _) Hin). reflexivity. }
    assert (Hef : entry_evict_free g cl e).
    { unfold entry_evict_free. destruct e as [pk sub p|pk]; [|exact Logic.I]. cbn [evict_free] in Hev. rewrite Hlive in Hev.
      destruct (classify p (acc g (c_duty cl, pk, sub))); auto. destruct (c_st cl); auto. }
    destruct (entry_sound s g cl e I Hef) as [E1 [E2 E3]].
    cbn [check gstep]. rewrite Hlive. split; [reflexivity|].
    split; cbn [ent calls exm acc gcalls gx]; auto.
    intro c'. unfold updc. destruct (c' =? c); [rewrite E2; reflexivity | apply Ic].
  - unfold step, step_gen in H. simpl. rewrite Ic in H. destruct (gcalls g c) as [cl|] eqn:Eg; [|discriminate].
    assert (Hab : c_abort cl = false) by (apply (m_noab _ M c); rewrite Ic; exact Eg).
    rewrite Hab in H.
    destruct (c_open cl && (is_nil (c_todo cl) && out_ok (c_out cl) out) && err_ok cl er && Bool.eqb il (c_int cl && is_enone er)) eqn:E;
      [|discriminate].
    injection H as <-. split.
    + rewrite <- E. rewrite !andb_assoc. reflexivity.
    + split; simpl; auto. intro c'. unfold updc. destruct (c' =? c); [reflexivity | apply Ic].
  - apply step_trim in H. subst s'. split; [reflexivity|]. split; simpl; auto.
    intro k. rewrite <- Ie. destruct (duty_eqb (kduty k) d) eqn:Ed; simpl; [|reflexivity].
    destruct (memk k (kbd s)) eqn:Em; [reflexivity|].
    destruct (ent s k) eqn:Ek; [reflexivity|]. exfalso.
    apply duty_eqb_eq in Ed. simpl in Hl. apply negb_true_iff in Hl.
    assert (In k (kbd s)). { apply (k_kbd _ K); [rewrite Ed; exact Hl | rewrite Ek; discriminate]. }
    apply memk_In in H. congruence.
Qed.

Lemma run_monitor_from ls : forall s g s',
  Inv s g -> MInv s -> KInv s -> status_ok ls = true -> no_evict_from t g ls = true ->
  run t s ls = Some s' -> monitor_from t g ls = true.
Proof.
  induction ls as [|l r IH]; intros s g s' I M K Hs He H; [reflexivity|].
  simpl in Hs, He. apply andb_true_iff in Hs. destruct Hs as [Hs1 Hs2].
  apply andb_true_iff in He. destruct He as [He1 He2].
  apply run_cons in H. destruct H as [s1 [H1 H2]].
  destruct (step_sound _ _ _ _ I M K Hs1 He1 H1) as [Hc I1].
  simpl. rewrite Hc. simpl.
  eapply IH; [exact I1 | eapply step_minv; eauto | eapply step_kinv; eauto | exact Hs2 | exact He2 | exact H2].
Qed.

(* Main theorem: in an environment that honours the deadliner contract and never makes the per-share
   cap of exempt duties evict, every trace of the model satisfies the monitor that transcribes the
   property (an entry fires iff it is the t-th accepted distinct share over its root). *)
Theorem run_monitor ls s :
  run t init ls = Some s -> status_ok ls = true -> no_evict t ls = true -> monitor t ls = true.
Proof.
  intros H Hs He. eapply run_monitor_from; eauto using inv_init, minv_init, kinv_init.
Qed.

(* the group a firing entry hands over *)
Theorem fired_group pre s cl pk sub p g :
  run t init pre = Some s -> mfire s cl (EGood pk sub p) = Some (pk, sub, g) ->
  length g = t /\ NoDup (map share g) /\ In p g /\
  (forall q, In q g <-> In q (ent s (ekey_of cl pk sub) ++ [p]) /\ eroot (dtype (c_duty cl)) q = eroot (dtype (c_duty cl)) p) /\
  (forall q, In q (ent s (ekey_of cl pk sub)) -> share q <> share p).
Proof.
  intros Hr Hf. apply mfire_iff in Hf. destruct Hf as [Ecl [Hl Ex]]. injection Ex as ->.
  pose proof (run_minv pre init s minv_init Hr) as M.
  pose proof (classify_new _ _ Ecl) as Hn.
  split; [exact Hl|]. split; [apply group_nodup, nodup_snoc; [apply (m_nodup _ M) | exact Hn]|].
  split; [apply group_self|]. split; [intro q; apply group_In|].
  intros q Hq E. apply Hn. rewrite <- E. apply in_map. exact Hq.
Qed.

End Facts.

(* ---------------------------------------------------------------- Part D *)

Definition w_duty : duty := (5, 2).
Definition w_e (pk sh r : nat) : entry := EGood pk 0 (P sh r (100 * r + sh)).
Definition w_one (c : nat) (e : entry) : list label := [ABegin c false w_duty Scheduled [e]; AEntry c e].
Definition w_g7 : list partial := [P 1 7 701; P 2 7 702; P 3 7 703].

(* F1a (before d3604d8), t = 3: shares 1,2,3 sign root 7 and fire; share 4 signs root 8 and the
   root-7 group is handed over again *)
Definition f1a_trace : list label :=
  w_one 1 (w_e 0 1 7) ++ [AEnd 1 ENone None false] ++ w_one 2 (w_e 0 2 7) ++ [AEnd 2 ENone None false]
  ++ w_one 3 (w_e 0 3 7) ++ [AEnd 3 ENone (Some [(0, 0, w_g7)]) false]
  ++ w_one 4 (w_e 0 4 8) ++ [AEnd 4 ENone (Some [(0, 0, w_g7)]) false].

Lemma dup_trigger_refuted_before_fix :
  (exists s, run_gen 3 true false init f1a_trace = Some s) /\
  status_ok f1a_trace = true /\ no_evict 3 f1a_trace = true /\ monitor 3 f1a_trace = false /\
  run 3 init f1a_trace = None.
Proof. split; [eexists; vm_compute; reflexivity|]. repeat split; vm_compute; reflexivity. Qed.

(* F1b (before d8f5add), t = 2: in one set validator 0 reaches the threshold and validator 1
   equivocates: the error is returned before the subscribers are called *)
Definition f1b_trace : list label :=
  [ABegin 1 false w_duty Scheduled [w_e 0 1 7; w_e 1 2 7]; AEntry 1 (w_e 0 1 7); AEntry 1 (w_e 1 2 7); AEnd 1 ENone None false;
   ABegin 2 false w_duty Scheduled [w_e 0 2 7; EGood 1 0 (P 2 9 555)]; AEntry 2 (w_e 0 2 7); AEntry 2 (EGood 1 0 (P 2 9 555));
   AEnd 2 EMismatch None false].

Lemma batch_loss_refuted_before_fix :
  (exists s, run_gen 2 true false init f1b_trace = Some s) /\
  status_ok f1b_trace = true /\ no_evict 2 f1b_trace = true /\ monitor 2 f1b_trace = false /\
  run 2 init f1b_trace = None.
Proof. split; [eexists; vm_compute; reflexivity|]. repeat split; vm_compute; reflexivity. Qed.

(* F1c (before 215089b), t = 2, exit duties: shares 1 and 2 complete slot 0 and fire; share 2 sends
   exits for ten more slots, which evicts its slot-0 signature; it repeats the slot-0 one, which is
   accepted as new and fires a second time with the same group *)
Definition w_x (c slot sh : nat) (out : option outmap) : list label :=
  [ABegin c false (slot, 4) Exempt [EGood 0 0 (P sh 7 sh)]; AEntry c (EGood 0 0 (P sh 7 sh)); AEnd c ENone out false].
Definition f1c_out : outmap := [(0, 0, [P 1 7 1; P 2 7 2])].
Definition f1c_q1 : list label := w_x 1 0 1 None ++ [ABegin 2 false (0, 4) Exempt [EGood 0 0 (P 2 7 2)]; AEntry 2 (EGood 0 0 (P 2 7 2))].
Definition f1c_q2 : list label :=
  flat_map (fun i => w_x (2 + i) i 2 None) (seq 1 10) ++ [ABegin 13 false (0, 4) Exempt [EGood 0 0 (P 2 7 2)]; AEntry 13 (EGood 0 0 (P 2 7 2))].
Definition f1c_trace : list label :=
  f1c_q1 ++ AEnd 2 ENone (Some f1c_out) false :: f1c_q2 ++ [AEnd 13 ENone (Some f1c_out) false].

Lemma exempt_evict_refire_refuted_before_fix :
  (exists s, run_gen 2 false true init f1c_trace = Some s) /\
  status_ok f1c_trace = true /\
  duty_of f1c_trace 2 = Some (0, 4) /\ duty_of f1c_trace 13 = Some (0, 4) /\
  forallb (fun l => match l with ATrim _ => false | _ => true end) f1c_trace = true /\
  run 2 init f1c_trace = None.
Proof. split; [eexists; vm_compute; reflexivity|]. repeat split; vm_compute; reflexivity. Qed.

(* Non-vacuity: a non-trivial trace (threshold reached, minority root, duplicate, equivocation,
   trim and a second round, expired set) is accepted by the model and passes the monitor. *)
Definition ex_trace : list label :=
  w_one 1 (w_e 0 1 7) ++ [AEnd 1 ENone None false] ++ w_one 2 (w_e 0 4 8) ++ [AEnd 2 ENone None false]
  ++ [ABegin 3 true w_duty Scheduled [w_e 0 2 7; w_e 1 2 7]; AEntry 3 (w_e 1 2 7); AEntry 3 (w_e 0 2 7); AEnd 3 ENone None true]
  ++ [ABegin 4 false w_duty Scheduled [w_e 0 3 7; EGood 1 0 (P 2 9 555)]; AEntry 4 (w_e 0 3 7); AEntry 4 (EGood 1 0 (P 2 9 555));
      AEnd 4 EMismatch (Some [(0, 0, w_g7)]) false]
  ++ w_one 5 (w_e 0 3 7) ++ [AEnd 5 ENone None false]
  ++ [ATrim w_duty] ++ w_one 6 (w_e 0 3 7) ++ [AEnd 6 ENone None false]
  ++ [ABegin 7 true w_duty Expired [w_e 0 1 7]; AEnd 7 ENone None true].

Example ex_trace_accepted :
  (exists s, run 3 init ex_trace = Some s) /\ status_ok ex_trace = true /\ no_evict 3 ex_trace = true /\
  monitor 3 ex_trace = true.
Proof. split; [eexists; vm_compute; reflexivity|]. repeat split; vm_compute; reflexivity. Qed.
