(* Proofs about the two aggsigdb models: every trace of either model passes the specification
   monitor of AggSigDB.v; Prop-level readings of the monitor; behaviour of conflicting and
   partially failing stores; the outcome of "run to quiescence" does not depend on the schedule
   of the internal steps; the unrepaired v2 code (one-slot token) loses wake-ups. *)
From Coq Require Import List NArith Bool Arith Lia.
From Charon Require Import Stores.AggSigDB Stores.AggSigDBv1 Stores.AggSigDBv2.
Import ListNotations.

(* ------------------------------------------------------------------------------------------ *)
(* basic facts *)

Lemma keyb_eq a b : keyb a b = true <-> a = b.
Proof.
  destruct a as [a1 a2], b as [b1 b2]. unfold keyb. simpl.
  rewrite andb_true_iff, !N.eqb_eq. split.
  - intros [-> ->]. reflexivity.
  - intro H. injection H. auto.
Qed.

Lemma keyb_refl a : keyb a a = true.
Proof. apply keyb_eq. reflexivity. Qed.

Lemma keyb_duty a b : keyb a b = true -> kduty a = kduty b.
Proof. intro H. apply keyb_eq in H. subst. reflexivity. Qed.

Lemma wres_eqb_eq a b : wres_eqb a b = true <-> a = b.
Proof. destruct a, b; simpl; split; intro H; try reflexivity; discriminate. Qed.

Lemma optN_eqb_eq a b : optN_eqb a b = true <-> a = b.
Proof.
  destruct a as [x|], b as [y|]; simpl; try (split; intro H; try reflexivity; discriminate).
  rewrite N.eqb_eq. split; [intros ->; reflexivity | intro H; injection H; auto].
Qed.

Lemma memN_In v l : memN v l = true <-> In v l.
Proof.
  induction l as [|x r IH]; simpl; [split; [discriminate | tauto]|].
  rewrite orb_true_iff, IH, N.eqb_eq. tauto.
Qed.

Lemma lookup_expire d k m :
  lookup k (expire d m) = if N.eqb (kduty k) d then None else lookup k m.
Proof.
  induction m as [|[k' v'] r IH]; simpl; [destruct (N.eqb (kduty k) d); reflexivity|].
  destruct (N.eqb_spec (kduty k') d) as [Hd|Hd]; simpl.
  - rewrite IH. destruct (N.eqb_spec (kduty k) d) as [Hk|Hk]; [reflexivity|].
    destruct (keyb k' k) eqn:E; [|reflexivity]. apply keyb_duty in E. congruence.
  - destruct (keyb k' k) eqn:E.
    + apply keyb_duty in E. destruct (N.eqb_spec (kduty k) d); [congruence | reflexivity].
    + exact IH.
Qed.

Lemma lookup_expire_some d k v m : lookup k (expire d m) = Some v -> lookup k m = Some v.
Proof. rewrite lookup_expire. destruct (N.eqb (kduty k) d); [discriminate | auto]. Qed.

Lemma lookup_expire_none d k m : lookup k m = None -> lookup k (expire d m) = None.
Proof. rewrite lookup_expire. destruct (N.eqb (kduty k) d); auto. Qed.

Lemma put_lookup k v m k' :
  lookup k' (fst (put k v m)) =
  match lookup k' m with Some x => Some x | None => if keyb k k' then Some v else None end.
Proof.
  unfold put. destruct (lookup k m) as [v0|] eqn:E; simpl.
  - destruct (lookup k' m) eqn:E'; [reflexivity|].
    destruct (keyb k k') eqn:Ek; [|reflexivity]. apply keyb_eq in Ek. subst. congruence.
  - destruct (keyb k k') eqn:Ek.
    + apply keyb_eq in Ek. subst. rewrite E. reflexivity.
    + destruct (lookup k' m); reflexivity.
Qed.

Lemma put_preserves k v m k' x : lookup k' m = Some x -> lookup k' (fst (put k v m)) = Some x.
Proof. intro H. rewrite put_lookup, H. reflexivity. Qed.

Lemma put_ok k v m m' : put k v m = (m', WOk) -> lookup k m' = Some v.
Proof.
  unfold put. destruct (lookup k m) as [v0|] eqn:E.
  - destruct (N.eqb_spec v0 v) as [->|]; [|discriminate]. intro H. injection H as <-. exact E.
  - intro H. injection H as <-. simpl. rewrite keyb_refl. reflexivity.
Qed.

Lemma put_mismatch k v m m' :
  put k v m = (m', WMismatch) -> m' = m /\ exists v', lookup k m = Some v' /\ v' <> v.
Proof.
  unfold put. destruct (lookup k m) as [v0|] eqn:E; [|discriminate].
  destruct (N.eqb_spec v0 v) as [->|Hne]; [discriminate|]. intro H. injection H as <-.
  split; [reflexivity|]. exists v0. auto.
Qed.

Lemma put_all_single k v m : put_all [(k, v)] m = put k v m.
Proof. simpl. destruct (put k v m) as [m' [|]]; reflexivity. Qed.

Lemma put_all_preserves es : forall m k x,
  lookup k m = Some x -> lookup k (fst (put_all es m)) = Some x.
Proof.
  induction es as [|[k0 v0] r IH]; intros m k x H; simpl; [exact H|].
  destruct (put k0 v0 m) as [m' [|]] eqn:E.
  - apply IH. replace m' with (fst (put k0 v0 m)) by (rewrite E; reflexivity).
    apply put_preserves. exact H.
  - apply put_mismatch in E. destruct E as [-> _]. exact H.
Qed.

(* A store that succeeds has every entry readable afterwards. *)
Lemma put_all_ok es : forall m m',
  put_all es m = (m', WOk) -> forall k v, In (k, v) es -> lookup k m' = Some v.
Proof.
  induction es as [|[k0 v0] r IH]; intros m m' H k v Hin; [destruct Hin|].
  simpl in H. destruct (put k0 v0 m) as [m1 [|]] eqn:E; [|discriminate].
  destruct Hin as [Hin|Hin].
  - injection Hin as -> ->. apply put_ok in E.
    replace m' with (fst (put_all r m1)) by (rewrite H; reflexivity).
    apply put_all_preserves. exact E.
  - eapply IH; eauto.
Qed.

(* A store that fails: the entries before the conflicting one (in iteration order) are stored,
   the conflicting one and those after it are not looked at; the map is the one obtained by
   storing just that prefix. *)
Lemma put_all_mismatch es : forall m m',
  put_all es m = (m', WMismatch) ->
  exists e1 k v e2 v', es = e1 ++ (k, v) :: e2 /\ put_all e1 m = (m', WOk) /\
                       lookup k m' = Some v' /\ v' <> v.
Proof.
  induction es as [|[k0 v0] r IH]; intros m m' H; [discriminate|].
  simpl in H. destruct (put k0 v0 m) as [m1 [|]] eqn:E.
  - destruct (IH _ _ H) as (e1 & k & v & e2 & v' & -> & H1 & H2 & H3).
    exists ((k0, v0) :: e1), k, v, e2, v'. split; [reflexivity|]. split; [|auto].
    simpl. rewrite E. exact H1.
  - injection H as <-. apply put_mismatch in E. destruct E as [-> (v' & Hl & Hne)].
    exists [], k0, v0, r, v'. simpl. auto.
Qed.

(* ------------------------------------------------------------------------------------------ *)
(* association lists *)

Section AssocFacts.
Context {A : Type}.
Implicit Types l : list (N * A).

Lemma get_In q x l : get q l = Some x -> In (q, x) l.
Proof.
  induction l as [|[q' y] r IH]; simpl; [discriminate|].
  destruct (N.eqb_spec q' q) as [->|]; intro H.
  - injection H as ->. auto.
  - auto.
Qed.

Lemma In_get q x l : In (q, x) l -> exists y, get q l = Some y.
Proof.
  induction l as [|[q' y] r IH]; simpl; [tauto|].
  intros [H|H]; destruct (N.eqb_spec q' q) as [->|Hne]; eauto.
  injection H as -> _. congruence.
Qed.

Lemma get_none_In q x l : get q l = None -> ~ In (q, x) l.
Proof. intros H Hin. apply In_get in Hin. destruct Hin as [y Hy]. congruence. Qed.

Lemma get_app q l l2 :
  get q (l ++ l2) = match get q l with Some y => Some y | None => get q l2 end.
Proof.
  induction l as [|[q' y] r IH]; simpl; [reflexivity|].
  destruct (N.eqb q' q); [reflexivity | exact IH].
Qed.

Lemma get_del q q' l : get q (del q' l) = if N.eqb q q' then None else get q l.
Proof.
  induction l as [|[q0 y] r IH]; simpl; [destruct (N.eqb q q'); reflexivity|].
  destruct (N.eqb_spec q0 q') as [->|Hne]; simpl.
  - rewrite IH. destruct (N.eqb_spec q q') as [->|Hne].
    + reflexivity.
    + destruct (N.eqb_spec q' q); [congruence | reflexivity].
  - destruct (N.eqb_spec q0 q) as [->|Hne2].
    + destruct (N.eqb_spec q q'); [congruence | reflexivity].
    + exact IH.
Qed.

Lemma get_mapv q (f : A -> A) l : get q (mapv f l) = option_map f (get q l).
Proof.
  induction l as [|[q0 y] r IH]; simpl; [reflexivity|].
  destruct (N.eqb q0 q); [reflexivity | exact IH].
Qed.

Lemma In_del q' x q l : In (q', x) (del q l) <-> In (q', x) l /\ q' <> q.
Proof.
  unfold del. rewrite filter_In. simpl. rewrite negb_true_iff, N.eqb_neq. tauto.
Qed.

Lemma In_upd q' y q x l :
  In (q', y) (upd q x l) <->
  (q' = q /\ y = x /\ exists z, In (q, z) l) \/ (q' <> q /\ In (q', y) l).
Proof.
  unfold upd. rewrite in_map_iff. split.
  - intros [[q0 z] [He Hin]]. simpl in He. destruct (N.eqb_spec q0 q) as [->|Hne].
    + injection He as <- <-. left. eauto.
    + injection He as <- <-. right. auto.
  - intros [(-> & -> & z & Hin)|[Hne Hin]].
    + exists (q, z). simpl. rewrite N.eqb_refl. auto.
    + exists (q', y). simpl. destruct (N.eqb_spec q' q); [congruence | auto].
Qed.

Lemma In_mapv q y (f : A -> A) l : In (q, y) (mapv f l) <-> exists x, In (q, x) l /\ y = f x.
Proof.
  unfold mapv. rewrite in_map_iff. split.
  - intros [[q0 x] [He Hin]]. simpl in He. injection He as <- <-. eauto.
  - intros [x [Hin ->]]. exists (q, x). auto.
Qed.

Lemma ids_del q l : map fst (del q l) = filter (fun i => negb (N.eqb i q)) (map fst l).
Proof.
  induction l as [|[q0 y] r IH]; simpl; [reflexivity|].
  destruct (N.eqb q0 q); simpl; rewrite IH; reflexivity.
Qed.

Lemma ids_mapv (f : A -> A) l : map fst (mapv f l) = map fst l.
Proof. unfold mapv. rewrite map_map. reflexivity. Qed.

Lemma get_none_ids q l : get q l = None -> ~ In q (map fst l).
Proof.
  intros H Hin. apply in_map_iff in Hin. destruct Hin as [[q0 x] [He Hin]]. simpl in He. subst.
  exact (get_none_In _ _ _ H Hin).
Qed.

Lemma NoDup_get q x l : NoDup (map fst l) -> In (q, x) l -> get q l = Some x.
Proof.
  induction l as [|[q0 y] r IH]; simpl; [tauto|]. intros Hnd [H|H].
  - injection H as -> ->. rewrite N.eqb_refl. reflexivity.
  - inversion Hnd as [|? ? Hni Hnd']. subst. destruct (N.eqb_spec q0 q) as [->|Hne]; [|auto].
    exfalso. apply Hni. apply in_map_iff. exists (q, x). auto.
Qed.
End AssocFacts.

Lemma NoDup_snoc {B : Type} (l : list B) x : NoDup l -> ~ In x l -> NoDup (l ++ [x]).
Proof.
  induction l as [|y r IH]; simpl; intros Hnd Hni.
  - constructor; [tauto | constructor].
  - inversion Hnd as [|? ? Hy Hr]. subst. constructor.
    + rewrite in_app_iff. simpl. intros [H|[H|[]]]; [tauto | subst; tauto].
    + apply IH; tauto.
Qed.

(* ------------------------------------------------------------------------------------------ *)
(* the specification monitor: what [smonitor es = true] says *)

Lemma gafter_app es1 : forall g es2, gafter g (es1 ++ es2) = gafter (gafter g es1) es2.
Proof. induction es1 as [|e r IH]; intros g es2; simpl; [reflexivity | apply IH]. Qed.

Lemma smonitor_from_app es1 : forall g es2,
  smonitor_from g (es1 ++ es2) = smonitor_from g es1 && smonitor_from (gafter g es1) es2.
Proof.
  induction es1 as [|e r IH]; intros g es2; simpl; [reflexivity|].
  rewrite IH, andb_assoc. reflexivity.
Qed.

Lemma smonitor_at pre e post :
  smonitor (pre ++ e :: post) = true ->
  smonitor pre = true /\ scheck (gafter ginit pre) e = true.
Proof.
  unfold smonitor. rewrite smonitor_from_app. simpl. rewrite !andb_true_iff. tauto.
Qed.

Definition nobegin (q : N) (l : list ev) : Prop := forall k, ~ In (EBegin q k) l.

Lemma nobegin_snoc q l e : nobegin q l -> (forall k, e <> EBegin q k) -> nobegin q (l ++ [e]).
Proof.
  intros H He k Hin. apply in_app_iff in Hin. destruct Hin as [Hin|[Hin|[]]].
  - exact (H k Hin).
  - exact (He k Hin).
Qed.

(* [closes q e]: event e ends read q *)
Definition closes (q : N) (e : ev) : bool :=
  match e with EReturn q' _ | ECancel q' => N.eqb q' q | _ => false end.

(* read q for key k is in progress after the events pre *)
Definition pending (pre : list ev) (q : N) (k : key) : Prop :=
  exists p1 p2, pre = p1 ++ EBegin q k :: p2 /\ forallb (fun e => negb (closes q e)) p2 = true.

Lemma open_kept p2 : forall g q k sn,
  In (q, (k, sn)) (gopen g) -> forallb (fun e => negb (closes q e)) p2 = true ->
  exists sn', In (q, (k, sn')) (gopen (gafter g p2)).
Proof.
  induction p2 as [|e r IH]; intros g q k sn Hin Hc; simpl in *; [eauto|].
  apply andb_true_iff in Hc. destruct Hc as [Hc Hr]. apply negb_true_iff in Hc.
  destruct e as [es w|q' k'|q' v'|q'|q'|d| |]; simpl in Hc;
    try (eapply IH; [|exact Hr]; simpl; eauto; fail).
  - (* EStore *) eapply IH; [|exact Hr]. simpl. unfold refresh. apply In_mapv.
    exists (k, sn). split; [exact Hin | reflexivity].
  - (* EBegin *) eapply IH; [|exact Hr]. simpl. apply in_app_iff. left. exact Hin.
  - (* EReturn *) eapply IH; [|exact Hr]. simpl. apply In_del. split; [exact Hin|].
    apply N.eqb_neq in Hc. congruence.
  - (* ECancel *) eapply IH; [|exact Hr]. simpl. apply In_del. split; [exact Hin|].
    apply N.eqb_neq in Hc. congruence.
Qed.

Lemma pending_open pre q k : pending pre q k -> exists sn, In (q, (k, sn)) (open_after pre).
Proof.
  intros (p1 & p2 & -> & Hc). unfold open_after. rewrite gafter_app. simpl.
  eapply open_kept; [|exact Hc]. simpl. apply in_app_iff. right. left. reflexivity.
Qed.

Section Readings.
Variable es : list ev.
Hypothesis Hmon : smonitor es = true.

(* no lost wake-up: at a quiescent point no read in progress has its key in the store *)
Theorem spec_quiet pre post : es = pre ++ EQuiet :: post ->
  forall q k, pending pre q k -> lookup k (store_after pre) = None.
Proof.
  intros -> q k Hp. apply smonitor_at in Hmon. destruct Hmon as [_ Hc]. simpl in Hc.
  destruct (pending_open _ _ _ Hp) as [sn Hin].
  rewrite forallb_forall in Hc. specialize (Hc _ Hin). unfold absent in Hc. simpl in Hc.
  unfold store_after. destruct (lookup k (gs (gafter ginit pre))); [discriminate | reflexivity].
Qed.

(* a lookup that finds nothing: nothing is stored under the key at that moment *)
Theorem spec_miss pre q post : es = pre ++ EMiss q :: post ->
  exists k sn, get q (open_after pre) = Some (k, sn) /\ lookup k (store_after pre) = None.
Proof.
  intros ->. apply smonitor_at in Hmon. destruct Hmon as [_ Hc]. simpl in Hc.
  unfold open_after, store_after. destruct (get q (gopen (gafter ginit pre))) as [[k sn]|]; [|discriminate].
  exists k, sn. split; [reflexivity|]. destruct (lookup k (gs (gafter ginit pre))); [discriminate | reflexivity].
Qed.

(* result of a store, and its effect on the stored map *)
Theorem spec_store pre ents r post : es = pre ++ EStore ents r :: post ->
  r = snd (put_all ents (store_after pre)) /\
  store_after (pre ++ [EStore ents r]) = fst (put_all ents (store_after pre)).
Proof.
  intros ->. apply smonitor_at in Hmon. destruct Hmon as [_ Hc]. simpl in Hc.
  apply wres_eqb_eq in Hc. split; [exact Hc|].
  unfold store_after. rewrite gafter_app. reflexivity.
Qed.
End Readings.

(* An open read was begun, and not begun again since. *)
Lemma open_begin es : smonitor es = true ->
  forall q k sn, get q (open_after es) = Some (k, sn) ->
  exists p1 p2, es = p1 ++ EBegin q k :: p2 /\ nobegin q p2.
Proof.
  induction es as [|e es IH] using rev_ind; intros Hm q k sn Hg; [discriminate|].
  apply smonitor_at in Hm. destruct Hm as [Hm Hc].
  unfold open_after in Hg. rewrite gafter_app in Hg. simpl in Hg.
  assert (Hext : forall sn0, get q (open_after es) = Some (k, sn0) ->
                 (forall k', e <> EBegin q k') ->
                 exists p1 p2, es ++ [e] = p1 ++ EBegin q k :: p2 /\ nobegin q p2).
  { intros sn0 Hg0 Hne. destruct (IH Hm _ _ _ Hg0) as (p1 & p2 & He & Hnb).
    exists p1, (p2 ++ [e]). split.
    - rewrite He, <- app_assoc. reflexivity.
    - apply nobegin_snoc; assumption. }
  destruct e as [ents w|q' k'|q' v'|q'|q'|d| |]; simpl in Hg;
    try (eapply Hext; [exact Hg | intros; discriminate]; fail).
  - (* EStore *)
    unfold refresh in Hg. rewrite get_mapv in Hg.
    destruct (get q (gopen (gafter ginit es))) as [[k0 sn0]|] eqn:Eg; [|discriminate].
    simpl in Hg. injection Hg as <- <-.
    eapply Hext; [unfold open_after; rewrite Eg; reflexivity | intros; discriminate].
  - (* EBegin *)
    rewrite get_app in Hg. simpl in Hc.
    destruct (N.eqb_spec q' q) as [->|Hne].
    + destruct (get q (gopen (gafter ginit es))); [discriminate|].
      simpl in Hg. rewrite N.eqb_refl in Hg. injection Hg as <- <-.
      exists es, []. split; [reflexivity | intros k0 []].
    + destruct (get q (gopen (gafter ginit es))) as [[k0 sn0]|] eqn:Eg.
      * injection Hg as <- <-. eapply Hext; [unfold open_after; rewrite Eg; reflexivity|].
        intros k0' He. injection He as He _. congruence.
      * simpl in Hg. destruct (N.eqb_spec q' q); [congruence | discriminate].
  - (* EReturn *)
    rewrite get_del in Hg. destruct (N.eqb q q'); [discriminate|].
    eapply Hext; [exact Hg | intros; discriminate].
  - (* ECancel *)
    rewrite get_del in Hg. destruct (N.eqb q q'); [discriminate|].
    eapply Hext; [exact Hg | intros; discriminate].
Qed.

(* The seen-list of an open read: every value in it was the value of the key at some moment
   after the read began. *)
Lemma seen_sound es : smonitor es = true ->
  forall q k seen v, get q (open_after es) = Some (k, seen) -> In v seen ->
  exists p1 p2 p3, es = p1 ++ EBegin q k :: p2 ++ p3 /\ nobegin q (p2 ++ p3) /\
                   lookup k (store_after (p1 ++ EBegin q k :: p2)) = Some v.
Proof.
  induction es as [|e es IH] using rev_ind; intros Hm q k seen v Hg Hv; [discriminate|].
  pose proof Hm as Hm0.
  apply smonitor_at in Hm. destruct Hm as [Hm Hc].
  unfold open_after in Hg. rewrite gafter_app in Hg. simpl in Hg.
  assert (Hext : forall sn0, get q (open_after es) = Some (k, sn0) -> In v sn0 ->
                 (forall k', e <> EBegin q k') ->
                 exists p1 p2 p3, es ++ [e] = p1 ++ EBegin q k :: p2 ++ p3 /\ nobegin q (p2 ++ p3) /\
                   lookup k (store_after (p1 ++ EBegin q k :: p2)) = Some v).
  { intros sn0 Hg0 Hv0 Hne. destruct (IH Hm _ _ _ _ Hg0 Hv0) as (p1 & p2 & p3 & He & Hnb & Hl).
    exists p1, p2, (p3 ++ [e]). split; [|split; [|exact Hl]].
    - rewrite He. rewrite <- !app_assoc. simpl. rewrite <- app_assoc. reflexivity.
    - rewrite app_assoc. apply nobegin_snoc; assumption. }
  destruct e as [ents w|q' k'|q' v'|q'|q'|d| |]; simpl in Hg;
    try (eapply Hext; [exact Hg | exact Hv | intros; discriminate]; fail).
  - (* EStore *)
    unfold refresh in Hg. rewrite get_mapv in Hg.
    destruct (get q (gopen (gafter ginit es))) as [[k0 sn0]|] eqn:Eg; [|discriminate].
    simpl in Hg. injection Hg as <- <-. apply in_app_iff in Hv. destruct Hv as [Hv|Hv].
    + (* the value now stored under the key *)
      destruct (open_begin es Hm q k0 sn0 Eg) as (p1 & p2 & He & Hnb).
      exists p1, (p2 ++ [EStore ents w]), []. split; [|split].
      * rewrite He, app_nil_r, <- app_assoc. reflexivity.
      * rewrite app_nil_r. apply nobegin_snoc; [exact Hnb | intros; discriminate].
      * replace (p1 ++ EBegin q k0 :: p2 ++ [EStore ents w]) with (es ++ [EStore ents w])
          by (rewrite He, <- app_assoc; reflexivity).
        unfold store_after. rewrite gafter_app. simpl. unfold cur in Hv.
        destruct (lookup k0 (fst (put_all ents (gs (gafter ginit es))))) as [x|]; [|destruct Hv].
        destruct Hv as [->|[]]. reflexivity.
    + eapply Hext; [unfold open_after; rewrite Eg; reflexivity | exact Hv | intros; discriminate].
  - (* EBegin *)
    rewrite get_app in Hg. simpl in Hc.
    destruct (N.eqb_spec q' q) as [->|Hne].
    + destruct (get q (gopen (gafter ginit es))); [discriminate|].
      simpl in Hg. rewrite N.eqb_refl in Hg. injection Hg as <- <-.
      exists es, [], []. split; [reflexivity|]. split; [intros k0 []|].
      replace (es ++ [EBegin q k']) with (es ++ [EBegin q k'] ++ []) by (rewrite app_nil_r; reflexivity).
      simpl. unfold store_after. rewrite gafter_app. simpl. unfold cur in Hv.
      destruct (lookup k' (gs (gafter ginit es))) as [x|]; [|destruct Hv].
      destruct Hv as [->|[]]. reflexivity.
    + destruct (get q (gopen (gafter ginit es))) as [[k0 sn0]|] eqn:Eg.
      * injection Hg as <- <-. eapply Hext; [unfold open_after; rewrite Eg; reflexivity | exact Hv|].
        intros k0' He. injection He as He _. congruence.
      * simpl in Hg. destruct (N.eqb_spec q' q); [congruence | discriminate].
  - (* EReturn *)
    rewrite get_del in Hg. destruct (N.eqb q q'); [discriminate|].
    eapply Hext; [exact Hg | exact Hv | intros; discriminate].
  - (* ECancel *)
    rewrite get_del in Hg. destruct (N.eqb q q'); [discriminate|].
    eapply Hext; [exact Hg | exact Hv | intros; discriminate].
Qed.

(* read_returns_stored: a returned value is a value the key held while the read was in
   progress (p2 = what happened between the begin of the read and that moment). *)
Theorem spec_return es : smonitor es = true ->
  forall pre q v post, es = pre ++ EReturn q v :: post ->
  exists p1 k p2 p3, pre = p1 ++ EBegin q k :: p2 ++ p3 /\ nobegin q (p2 ++ p3) /\
                     lookup k (store_after (p1 ++ EBegin q k :: p2)) = Some v.
Proof.
  intros Hm pre q v post ->. apply smonitor_at in Hm. destruct Hm as [Hm Hc]. simpl in Hc.
  destruct (get q (gopen (gafter ginit pre))) as [[k seen]|] eqn:Eg; [|discriminate].
  apply memN_In in Hc.
  destruct (seen_sound pre Hm q k seen v Eg Hc) as (p1 & p2 & p3 & H1 & H2 & H3).
  exists p1, k, p2, p3. auto.
Qed.

(* The value under a key does not change as long as the key's duty does not expire: stores of
   other data under it are rejected (spec_store) and leave the map as it is. *)
Theorem store_stable mid : forall g k v,
  lookup k (gs g) = Some v -> (forall d, In (EExpire d) mid -> d <> kduty k) ->
  lookup k (gs (gafter g mid)) = Some v.
Proof.
  induction mid as [|e r IH]; intros g k v Hl Hne; simpl; [exact Hl|].
  apply IH; [|intros d Hd; apply Hne; right; exact Hd].
  destruct e as [ents w|q' k'|q' v'|q'|q'|d| |]; simpl; try exact Hl.
  - apply put_all_preserves. exact Hl.
  - rewrite lookup_expire. destruct (N.eqb_spec (kduty k) d) as [He|]; [|exact Hl].
    exfalso. apply (Hne d); [left; reflexivity | auto].
Qed.

Corollary store_after_stable pre mid k v :
  lookup k (store_after pre) = Some v -> (forall d, In (EExpire d) mid -> d <> kduty k) ->
  lookup k (store_after (pre ++ mid)) = Some v.
Proof. intros H1 H2. unfold store_after. rewrite gafter_app. apply store_stable; assumption. Qed.

(* ------------------------------------------------------------------------------------------ *)
(* v1: the actor *)

Record Inv1 (s : state1) (g : ghost) : Prop := {
  i1_data : data1 s = gs g;
  i1_q : forall q k st, In (q, (k, st)) (qs s) ->
         exists sn, get q (gopen g) = Some (k, sn) /\
                    match st with
                    | Blocked => lookup k (data1 s) = None
                    | Answered v => In v sn
                    end;
  i1_o : forall q k sn, In (q, (k, sn)) (gopen g) -> exists st, In (q, (k, st)) (qs s)
}.

Lemma inv1_init : Inv1 init1 ginit.
Proof. constructor; simpl; [reflexivity | intros ? ? ? [] | intros ? ? ? []]. Qed.

Lemma exec_query_fst m x : fst (exec_query m x) = fst x.
Proof.
  unfold exec_query. destruct x as [k [|v]]; simpl; [|reflexivity].
  destruct (lookup k m); reflexivity.
Qed.

(* a fresh id on the model side is fresh on the ghost side *)
Lemma fresh1 s g q : Inv1 s g -> get q (qs s) = None -> get q (gopen g) = None.
Proof.
  intros I Hq. destruct (get q (gopen g)) as [[k sn]|] eqn:E; [|reflexivity].
  apply get_In in E. destruct (i1_o _ _ I _ _ _ E) as [st Hin].
  exfalso. exact (get_none_In _ _ _ Hq Hin).
Qed.

Lemma inv1_del s g q : Inv1 s g ->
  Inv1 (mk1 (data1 s) (del q (qs s))) (mkg (gs g) (del q (gopen g))).
Proof.
  intros I. constructor; simpl.
  - apply (i1_data _ _ I).
  - intros q0 k st Hin. apply In_del in Hin. destruct Hin as [Hin Hne].
    destruct (i1_q _ _ I _ _ _ Hin) as [sn [Hg Hst]]. exists sn. split; [|exact Hst].
    rewrite get_del. destruct (N.eqb_spec q0 q); [congruence | exact Hg].
  - intros q0 k sn Hin. apply In_del in Hin. destruct Hin as [Hin Hne].
    destruct (i1_o _ _ I _ _ _ Hin) as [st Hst]. exists st. apply In_del. auto.
Qed.

Lemma step1_sound s g l s' :
  Inv1 s g -> step1 s l = Some s' -> scheck g (ev1 l) = true /\ Inv1 s' (sstep g (ev1 l)).
Proof.
  intros I Hs. destruct l as [k v r|q k|q v|q|d|]; cbv beta iota delta [step1 step1_gen] in Hs.
  - (* LWrite *)
    destruct (put k v (data1 s)) as [m r'] eqn:Ep.
    destruct (wres_eqb r r') eqn:Er; [|discriminate]. injection Hs as <-.
    apply wres_eqb_eq in Er. subst r'.
    assert (Hpa : put_all [(k, v)] (gs g) = (m, r)).
    { rewrite put_all_single, <- (i1_data _ _ I). exact Ep. }
    split.
    + simpl ev1. unfold scheck. rewrite Hpa. simpl. apply wres_eqb_eq. reflexivity.
    + simpl ev1. unfold sstep. rewrite Hpa. simpl fst. constructor; simpl.
      * reflexivity.
      * intros q k0 st Hin. apply In_mapv in Hin. destruct Hin as [[k1 st1] [Hin He]].
        assert (Hk : k0 = k1).
        { pose proof (exec_query_fst m (k1, st1)) as Hf. rewrite <- He in Hf. exact Hf. }
        subst k1. destruct (i1_q _ _ I _ _ _ Hin) as [sn [Hg Hst]].
        exists (cur k0 m ++ sn). split.
        -- unfold refresh. rewrite get_mapv, Hg. reflexivity.
        -- unfold exec_query in He. simpl in He. destruct st1 as [|v1].
           ++ unfold cur. destruct (lookup k0 m) as [x|] eqn:El; injection He as ->.
              ** simpl. auto.
              ** reflexivity.
           ++ injection He as ->. apply in_app_iff. auto.
      * intros q k0 sn Hin. unfold refresh in Hin. apply In_mapv in Hin.
        destruct Hin as [[k1 sn1] [Hin He]]. simpl in He. injection He as -> _.
        destruct (i1_o _ _ I _ _ _ Hin) as [st Hst].
        exists (snd (exec_query m (k1, st))). apply In_mapv. exists (k1, st). split; [exact Hst|].
        rewrite <- (exec_query_fst m (k1, st)) at 1. destruct (exec_query m (k1, st)); reflexivity.
  - (* LQuery *)
    destruct (get q (qs s)) eqn:Eq; [discriminate|]. injection Hs as <-.
    pose proof (fresh1 _ _ _ I Eq) as Hf. split.
    + simpl. rewrite Hf. reflexivity.
    + constructor; simpl.
      * apply (i1_data _ _ I).
      * intros q0 k0 st Hin. apply in_app_iff in Hin. destruct Hin as [Hin|[Hin|[]]].
        -- destruct (i1_q _ _ I _ _ _ Hin) as [sn [Hg Hst]]. exists sn. split; [|exact Hst].
           rewrite get_app, Hg. reflexivity.
        -- injection Hin as <- <- <-. exists (cur k (gs g)). split.
           ++ rewrite get_app, Hf. simpl. rewrite N.eqb_refl. reflexivity.
           ++ unfold cur. rewrite <- (i1_data _ _ I).
              destruct (lookup k (data1 s)); simpl; auto.
      * intros q0 k0 sn Hin. apply in_app_iff in Hin. destruct Hin as [Hin|[Hin|[]]].
        -- destruct (i1_o _ _ I _ _ _ Hin) as [st Hst]. exists st. apply in_app_iff. auto.
        -- injection Hin as <- <- _. eexists. apply in_app_iff. right. left. reflexivity.
  - (* LAnswer *)
    destruct (get q (qs s)) as [[k0 [|v']]|] eqn:Eq; try discriminate.
    destruct (N.eqb_spec v' v) as [->|]; [|discriminate]. injection Hs as <-.
    apply get_In in Eq. destruct (i1_q _ _ I _ _ _ Eq) as [sn [Hg Hst]]. split.
    + simpl. rewrite Hg. apply memN_In. exact Hst.
    + apply inv1_del. exact I.
  - (* LCancel *)
    destruct (get q (qs s)) as [[k0 st]|] eqn:Eq; [|discriminate]. injection Hs as <-.
    apply get_In in Eq. destruct (i1_q _ _ I _ _ _ Eq) as [sn [Hg Hst]]. split.
    + simpl. rewrite Hg. reflexivity.
    + apply inv1_del. exact I.
  - (* LExpire *)
    injection Hs as <-. split; [reflexivity|]. constructor; simpl.
    + rewrite (i1_data _ _ I). reflexivity.
    + intros q k st Hin. destruct (i1_q _ _ I _ _ _ Hin) as [sn [Hg Hst]]. exists sn.
      split; [exact Hg|]. destruct st; [apply lookup_expire_none; exact Hst | exact Hst].
    + apply (i1_o _ _ I).
  - (* LQuiet *)
    destruct (existsb is_answered (qs s)) eqn:Ee; [discriminate|]. injection Hs as <-.
    split; [|exact I]. simpl. apply forallb_forall. intros [q [k sn]] Hin.
    destruct (i1_o _ _ I _ _ _ Hin) as [st Hst]. destruct st as [|v].
    + destruct (i1_q _ _ I _ _ _ Hst) as [sn' [_ Hl]]. unfold absent. simpl.
      rewrite <- (i1_data _ _ I), Hl. reflexivity.
    + exfalso. assert (existsb is_answered (qs s) = true); [|congruence].
      apply existsb_exists. exists (q, (k, Answered v)). auto.
Qed.

Lemma run1_sound_from ls : forall s g s',
  Inv1 s g -> run1 s ls = Some s' ->
  smonitor_from g (map ev1 ls) = true /\ Inv1 s' (gafter g (map ev1 ls)).
Proof.
  induction ls as [|l r IH]; intros s g s' I H.
  - injection H as <-. split; [reflexivity | exact I].
  - simpl in H. unfold run1 in H. simpl in H. fold step1 in H.
    destruct (step1 s l) as [s1|] eqn:E; [|discriminate].
    destruct (step1_sound _ _ _ _ I E) as [Hc I1]. simpl. rewrite Hc. simpl. eapply IH; eauto.
Qed.

Theorem run1_monitor ls s : run1 init1 ls = Some s -> monitor1 ls = true.
Proof. intro H. exact (proj1 (run1_sound_from ls _ _ _ inv1_init H)). Qed.

Lemma run1_inv ls s : run1 init1 ls = Some s -> Inv1 s (gafter ginit (map ev1 ls)).
Proof. intro H. exact (proj2 (run1_sound_from ls _ _ _ inv1_init H)). Qed.

(* the actor's map is the map the specification computes from the trace *)
Theorem run1_data ls s : run1 init1 ls = Some s -> data1 s = store_after (map ev1 ls).
Proof. intro H. exact (i1_data _ _ (run1_inv _ _ H)). Qed.

(* in EVERY reachable state (quiescent or not) a query that is still blocked has its key absent:
   processBlockedQueries has answered every query whose key a write made present *)
Theorem v1_blocked_absent ls s : run1 init1 ls = Some s ->
  forall q k, In (q, (k, Blocked)) (qs s) -> lookup k (data1 s) = None.
Proof.
  intros H q k Hin. destruct (i1_q _ _ (run1_inv _ _ H) _ _ _ Hin) as [sn [_ Hl]]. exact Hl.
Qed.

(* ------------------------------------------------------------------------------------------ *)
(* v2: mutex + broadcast channel (the code as repaired by 8db1efa) *)

Record Inv2 (s : state2) (g : ghost) : Prop := {
  i2_data : data2 s = gs g;
  i2_r : forall r k st, In (r, (k, st)) (rs s) ->
         exists sn, get r (gopen g) = Some (k, sn) /\
                    match st with
                    | Checking => True
                    | Waiting g' => g' <= gen s /\ (gen s <= g' -> lookup k (data2 s) = None)
                    end;
  i2_o : forall r k sn, In (r, (k, sn)) (gopen g) -> exists st, In (r, (k, st)) (rs s);
  i2_cur : forall r k sn v, In (r, (k, sn)) (gopen g) -> lookup k (gs g) = Some v -> In v sn
}.

Lemma inv2_init : Inv2 init2 ginit.
Proof. constructor; simpl; [reflexivity | intros ? ? ? [] | intros ? ? ? [] | intros ? ? ? ? []]. Qed.

Lemma fresh2 s g r : Inv2 s g -> get r (rs s) = None -> get r (gopen g) = None.
Proof.
  intros I Hq. destruct (get r (gopen g)) as [[k sn]|] eqn:E; [|reflexivity].
  apply get_In in E. destruct (i2_o _ _ I _ _ _ E) as [st Hin].
  exfalso. exact (get_none_In _ _ _ Hq Hin).
Qed.

(* the key of a reader id is unique *)
Lemma key_unique2 s g r k k' st st' : Inv2 s g ->
  In (r, (k, st)) (rs s) -> In (r, (k', st')) (rs s) -> k = k'.
Proof.
  intros I H1 H2. destruct (i2_r _ _ I _ _ _ H1) as [sn [Hg _]].
  destruct (i2_r _ _ I _ _ _ H2) as [sn' [Hg' _]]. congruence.
Qed.

Lemma inv2_del s g r : Inv2 s g ->
  Inv2 (mk2 (data2 s) (gen s) (token s) (del r (rs s))) (mkg (gs g) (del r (gopen g))).
Proof.
  intros I. constructor; simpl.
  - apply (i2_data _ _ I).
  - intros q0 k st Hin. apply In_del in Hin. destruct Hin as [Hin Hne].
    destruct (i2_r _ _ I _ _ _ Hin) as [sn [Hg Hst]]. exists sn. split; [|exact Hst].
    rewrite get_del. destruct (N.eqb_spec q0 r); [congruence | exact Hg].
  - intros q0 k sn Hin. apply In_del in Hin. destruct Hin as [Hin Hne].
    destruct (i2_o _ _ I _ _ _ Hin) as [st Hst]. exists st. apply In_del. auto.
  - intros q0 k sn v Hin. apply In_del in Hin. destruct Hin as [Hin _].
    apply (i2_cur _ _ I _ _ _ _ Hin).
Qed.

(* changing the status of reader r (whose key is k) *)
Lemma inv2_upd s g r k st0 st :
  Inv2 s g -> In (r, (k, st0)) (rs s) ->
  match st with
  | Checking => True
  | Waiting g' => g' <= gen s /\ (gen s <= g' -> lookup k (data2 s) = None)
  end ->
  Inv2 (mk2 (data2 s) (gen s) (token s) (upd r (k, st) (rs s))) g.
Proof.
  intros I Hr Hst. constructor; simpl.
  - apply (i2_data _ _ I).
  - intros q0 k0 st1 Hin. apply In_upd in Hin.
    destruct Hin as [(-> & He & _)|[Hne Hin]].
    + injection He as -> ->. destruct (i2_r _ _ I _ _ _ Hr) as [sn [Hg _]]. exists sn. auto.
    + apply (i2_r _ _ I _ _ _ Hin).
  - intros q0 k0 sn Hin. destruct (i2_o _ _ I _ _ _ Hin) as [st1 Hst1].
    destruct (N.eqb_spec q0 r) as [->|Hne].
    + rewrite (key_unique2 _ _ _ _ _ _ _ I Hst1 Hr). exists st. apply In_upd. left. eauto.
    + exists st1. apply In_upd. right. auto.
  - apply (i2_cur _ _ I).
Qed.

Lemma step2_sound s g l s' :
  Inv2 s g -> step2 s l = Some s' -> scheck g (ev2 l) = true /\ Inv2 s' (sstep g (ev2 l)).
Proof.
  intros I Hs. destruct l as [r k|r res|r|d es res|r|d|]; cbv beta iota delta [step2 step2_gen] in Hs.
  - (* LAwait *)
    destruct (get r (rs s)) eqn:Eq; [discriminate|]. injection Hs as <-.
    pose proof (fresh2 _ _ _ I Eq) as Hf. split.
    + simpl. rewrite Hf. reflexivity.
    + constructor; simpl.
      * apply (i2_data _ _ I).
      * intros q0 k0 st Hin. apply in_app_iff in Hin. destruct Hin as [Hin|[Hin|[]]].
        -- destruct (i2_r _ _ I _ _ _ Hin) as [sn [Hg Hst]]. exists sn. split; [|exact Hst].
           rewrite get_app, Hg. reflexivity.
        -- injection Hin as <- <- <-. exists (cur k (gs g)). split; [|exact Logic.I].
           rewrite get_app, Hf. simpl. rewrite N.eqb_refl. reflexivity.
      * intros q0 k0 sn Hin. apply in_app_iff in Hin. destruct Hin as [Hin|[Hin|[]]].
        -- destruct (i2_o _ _ I _ _ _ Hin) as [st Hst]. exists st. apply in_app_iff. auto.
        -- injection Hin as <- <- _. eexists. apply in_app_iff. right. left. reflexivity.
      * intros q0 k0 sn v Hin Hl. apply in_app_iff in Hin. destruct Hin as [Hin|[Hin|[]]].
        -- apply (i2_cur _ _ I _ _ _ _ Hin Hl).
        -- injection Hin as <- <- <-. unfold cur. rewrite Hl. simpl. auto.
  - (* LLookup *)
    destruct (get r (rs s)) as [[k [|g']]|] eqn:Eq; try discriminate.
    destruct (optN_eqb res (lookup k (data2 s))) eqn:Er; [|discriminate].
    apply optN_eqb_eq in Er. apply get_In in Eq.
    destruct (i2_r _ _ I _ _ _ Eq) as [sn [Hg _]].
    destruct res as [v|]; injection Hs as <-.
    + split.
      * simpl. rewrite Hg. apply memN_In. apply get_In in Hg.
        apply (i2_cur _ _ I _ _ _ _ Hg). rewrite <- (i2_data _ _ I). auto.
      * apply inv2_del. exact I.
    + split.
      * simpl. rewrite Hg, <- (i2_data _ _ I), <- Er. reflexivity.
      * simpl sstep. eapply inv2_upd; [exact I | exact Eq|]. split; [lia | auto].
  - (* LWake *)
    destruct (get r (rs s)) as [[k [|g']]|] eqn:Eq; try discriminate.
    destruct (Nat.ltb g' (gen s)) eqn:El; [|discriminate]. injection Hs as <-.
    split; [reflexivity|]. apply get_In in Eq. simpl sstep.
    eapply inv2_upd; [exact I | exact Eq | exact Logic.I].
  - (* LStore *)
    destruct (forallb (fun e => N.eqb (kduty (fst e)) d) es); [|discriminate].
    destruct (put_all es (data2 s)) as [m r'] eqn:Ep.
    destruct (wres_eqb res r') eqn:Er; [|discriminate]. injection Hs as <-.
    apply wres_eqb_eq in Er. subst r'. rewrite (i2_data _ _ I) in Ep. split.
    + simpl. rewrite Ep. simpl. apply wres_eqb_eq. reflexivity.
    + simpl ev2. unfold sstep. rewrite Ep. simpl fst. constructor; simpl.
      * reflexivity.
      * intros q0 k0 st Hin. destruct (i2_r _ _ I _ _ _ Hin) as [sn [Hg Hst]].
        exists (cur k0 m ++ sn). split.
        -- unfold refresh. rewrite get_mapv, Hg. reflexivity.
        -- destruct st as [|g']; [exact Logic.I|]. destruct Hst as [Hle _]. split; lia.
      * intros q0 k0 sn Hin. unfold refresh in Hin. apply In_mapv in Hin.
        destruct Hin as [[k1 sn1] [Hin He]]. simpl in He. injection He as -> _.
        apply (i2_o _ _ I _ _ _ Hin).
      * intros q0 k0 sn v Hin Hl. unfold refresh in Hin. apply In_mapv in Hin.
        destruct Hin as [[k1 sn1] [Hin He]]. simpl in He. injection He as -> ->.
        apply in_app_iff. left. unfold cur. rewrite Hl. simpl. auto.
  - (* LCancel2 *)
    destruct (get r (rs s)) as [[k0 st]|] eqn:Eq; [|discriminate]. injection Hs as <-.
    apply get_In in Eq. destruct (i2_r _ _ I _ _ _ Eq) as [sn [Hg Hst]]. split.
    + simpl. rewrite Hg. reflexivity.
    + apply inv2_del. exact I.
  - (* LExpire2 *)
    injection Hs as <-. split; [reflexivity|]. constructor; simpl.
    + rewrite (i2_data _ _ I). reflexivity.
    + intros q k st Hin. destruct (i2_r _ _ I _ _ _ Hin) as [sn [Hg Hst]]. exists sn.
      split; [exact Hg|]. destruct st as [|g']; [exact Logic.I|]. destruct Hst as [Hle Hab].
      split; [exact Hle|]. intro H. apply lookup_expire_none. auto.
    + apply (i2_o _ _ I).
    + intros q k sn v Hin Hl. apply lookup_expire_some in Hl. apply (i2_cur _ _ I _ _ _ _ Hin Hl).
  - (* LQuiet2 *)
    destruct (existsb (can_move (gen s)) (rs s)) eqn:Ee; [discriminate|]. injection Hs as <-.
    split; [|exact I]. simpl. apply forallb_forall. intros [q [k sn]] Hin.
    destruct (i2_o _ _ I _ _ _ Hin) as [st Hst].
    assert (Hcm : can_move (gen s) (q, (k, st)) = false).
    { destruct (can_move (gen s) (q, (k, st))) eqn:Ec; [|reflexivity].
      assert (existsb (can_move (gen s)) (rs s) = true); [|congruence].
      apply existsb_exists. eauto. }
    destruct (i2_r _ _ I _ _ _ Hst) as [sn' [_ Hl]]. destruct st as [|g']; [discriminate|].
    unfold can_move in Hcm. simpl in Hcm. apply Nat.ltb_ge in Hcm. destruct Hl as [_ Hl].
    unfold absent. simpl. rewrite <- (i2_data _ _ I), (Hl Hcm). reflexivity.
Qed.

Lemma run2_sound_from ls : forall s g s',
  Inv2 s g -> run2 s ls = Some s' ->
  smonitor_from g (map ev2 ls) = true /\ Inv2 s' (gafter g (map ev2 ls)).
Proof.
  induction ls as [|l r IH]; intros s g s' I H.
  - injection H as <-. split; [reflexivity | exact I].
  - unfold run2 in H. simpl in H. fold step2 in H. fold run2 in H.
    destruct (step2 s l) as [s1|] eqn:E; [|discriminate].
    destruct (step2_sound _ _ _ _ I E) as [Hc I1]. simpl. rewrite Hc. simpl. eapply IH; eauto.
Qed.

Theorem run2_monitor ls s : run2 init2 ls = Some s -> monitor2 ls = true.
Proof. intro H. exact (proj1 (run2_sound_from ls _ _ _ inv2_init H)). Qed.

Lemma run2_inv ls s : run2 init2 ls = Some s -> Inv2 s (gafter ginit (map ev2 ls)).
Proof. intro H. exact (proj2 (run2_sound_from ls _ _ _ inv2_init H)). Qed.

Theorem run2_data ls s : run2 init2 ls = Some s -> data2 s = store_after (map ev2 ls).
Proof. intro H. exact (i2_data _ _ (run2_inv _ _ H)). Qed.

(* in every reachable state a reader that waits on the current (not yet closed) channel has its
   key absent; a reader waiting on an older channel can wake *)
Theorem v2_waiting_current_absent ls s : run2 init2 ls = Some s ->
  forall r k g', In (r, (k, Waiting g')) (rs s) ->
  g' <= gen s /\ (g' = gen s -> lookup k (data2 s) = None).
Proof.
  intros H r k g' Hin. destruct (i2_r _ _ (run2_inv _ _ H) _ _ _ Hin) as [sn [_ [Hle Hl]]].
  split; [exact Hle|]. intros ->. apply Hl. lia.
Qed.

(* ------------------------------------------------------------------------------------------ *)
(* ids are unique in the query / reader lists *)

Lemma ids_upd {A : Type} q (x : A) l : map fst (upd q x l) = map fst l.
Proof.
  unfold upd. rewrite map_map. apply map_ext_in. intros [q0 y] _. simpl.
  destruct (N.eqb_spec q0 q); [subst|]; reflexivity.
Qed.

Lemma nodup_del {A : Type} q (l : list (N * A)) : NoDup (map fst l) -> NoDup (map fst (del q l)).
Proof. intro H. rewrite ids_del. apply NoDup_filter. exact H. Qed.

Lemma nodup_snoc_fresh {A : Type} q (x : A) l :
  NoDup (map fst l) -> get q l = None -> NoDup (map fst (l ++ [(q, x)])).
Proof.
  intros H Hg. rewrite map_app. simpl. apply NoDup_snoc; [exact H | apply get_none_ids; exact Hg].
Qed.

Lemma step1_nodup s l s' : NoDup (map fst (qs s)) -> step1 s l = Some s' -> NoDup (map fst (qs s')).
Proof.
  intros H Hs. destruct l as [k v r|q k|q v|q|d|]; cbv beta iota delta [step1 step1_gen] in Hs.
  - destruct (put k v (data1 s)) as [m r']. destruct (wres_eqb r r'); [|discriminate].
    injection Hs as <-. simpl. rewrite ids_mapv. exact H.
  - destruct (get q (qs s)) eqn:E; [discriminate|]. injection Hs as <-. simpl.
    apply nodup_snoc_fresh; assumption.
  - destruct (get q (qs s)) as [[k0 [|v']]|]; try discriminate.
    destruct (N.eqb v' v); [|discriminate]. injection Hs as <-. simpl. apply nodup_del. exact H.
  - destruct (get q (qs s)); [|discriminate]. injection Hs as <-. simpl. apply nodup_del. exact H.
  - injection Hs as <-. exact H.
  - destruct (existsb is_answered (qs s)); [discriminate|]. injection Hs as <-. exact H.
Qed.

Lemma run1_nodup ls : forall s s', NoDup (map fst (qs s)) -> run1 s ls = Some s' -> NoDup (map fst (qs s')).
Proof.
  induction ls as [|l r IH]; intros s s' H Hr; [injection Hr as <-; exact H|].
  unfold run1 in Hr. simpl in Hr. fold step1 in Hr. fold run1 in Hr.
  destruct (step1 s l) as [s1|] eqn:E; [|discriminate].
  eapply IH; [|exact Hr]. eapply step1_nodup; eauto.
Qed.

Lemma step2_nodup s l s' : NoDup (map fst (rs s)) -> step2 s l = Some s' -> NoDup (map fst (rs s')).
Proof.
  intros H Hs. destruct l as [r k|r res|r|d es res|r|d|]; cbv beta iota delta [step2 step2_gen] in Hs.
  - destruct (get r (rs s)) eqn:E; [discriminate|]. injection Hs as <-. simpl.
    apply nodup_snoc_fresh; assumption.
  - destruct (get r (rs s)) as [[k [|g']]|]; try discriminate.
    destruct (optN_eqb res (lookup k (data2 s))); [|discriminate].
    destruct res; injection Hs as <-; simpl; [apply nodup_del | rewrite ids_upd]; exact H.
  - destruct (get r (rs s)) as [[k [|g']]|]; try discriminate.
    destruct (Nat.ltb g' (gen s)); [|discriminate]. injection Hs as <-. simpl. rewrite ids_upd. exact H.
  - destruct (forallb (fun e => N.eqb (kduty (fst e)) d) es); [|discriminate].
    destruct (put_all es (data2 s)) as [m r']. destruct (wres_eqb res r'); [|discriminate].
    injection Hs as <-. exact H.
  - destruct (get r (rs s)); [|discriminate]. injection Hs as <-. simpl. apply nodup_del. exact H.
  - injection Hs as <-. exact H.
  - destruct (existsb (can_move (gen s)) (rs s)); [discriminate|]. injection Hs as <-. exact H.
Qed.

Lemma run2_nodup ls : forall s s', NoDup (map fst (rs s)) -> run2 s ls = Some s' -> NoDup (map fst (rs s')).
Proof.
  induction ls as [|l r IH]; intros s s' H Hr; [injection Hr as <-; exact H|].
  unfold run2 in Hr. simpl in Hr. fold step2 in Hr. fold run2 in Hr.
  destruct (step2 s l) as [s1|] eqn:E; [|discriminate].
  eapply IH; [|exact Hr]. eapply step2_nodup; eauto.
Qed.

Lemma run1_app a : forall s b,
  run1 s (a ++ b) = match run1 s a with Some s1 => run1 s1 b | None => None end.
Proof.
  induction a as [|l r IH]; intros s b; [reflexivity|].
  unfold run1. simpl. destruct (step1_gen true s l); [apply IH | reflexivity].
Qed.

Lemma run2_app a : forall s b,
  run2 s (a ++ b) = match run2 s a with Some s1 => run2 s1 b | None => None end.
Proof.
  induction a as [|l r IH]; intros s b; [reflexivity|].
  unfold run2. simpl. destruct (step2_gen false s l); [apply IH | reflexivity].
Qed.

Lemma run1_cons s l r :
  run1 s (l :: r) = match step1 s l with Some s1 => run1 s1 r | None => None end.
Proof. reflexivity. Qed.

Lemma run2_cons s l r :
  run2 s (l :: r) = match step2 s l with Some s1 => run2 s1 r | None => None end.
Proof. reflexivity. Qed.

(* ------------------------------------------------------------------------------------------ *)
(* readings in terms of the labels of each model *)

Lemma split_begin {L : Type} (f : L -> ev) (pre : list L) p1' q k p2' p3' :
  map f pre = p1' ++ EBegin q k :: p2' ++ p3' ->
  exists p1 x p2 p3, pre = p1 ++ x :: p2 ++ p3 /\ f x = EBegin q k /\
                     map f p1 = p1' /\ map f p2 = p2' /\ map f p3 = p3'.
Proof.
  intro H. apply map_eq_app in H. destruct H as (p1 & b & -> & H1 & H).
  apply map_eq_cons in H. destruct H as (x & c & -> & Hx & H).
  apply map_eq_app in H. destruct H as (p2 & p3 & -> & H2 & H3).
  exists p1, x, p2, p3. auto.
Qed.

Lemma ev1_begin l q k : ev1 l = EBegin q k -> l = LQuery q k.
Proof. destruct l; simpl; intro H; try discriminate. injection H as -> ->. reflexivity. Qed.

Lemma ev2_begin l q k : ev2 l = EBegin q k -> l = LAwait q k.
Proof.
  destruct l as [r k0|r [v|]|r|d es res|r|d|]; simpl; intro H; try discriminate.
  injection H as -> ->. reflexivity.
Qed.

Theorem read_returns_stored_v1 ls s : run1 init1 ls = Some s ->
  forall pre q v post, ls = pre ++ LAnswer q v :: post ->
  exists p1 k p2 p3, pre = p1 ++ LQuery q k :: p2 ++ p3 /\
    (forall k', ~ In (LQuery q k') (p2 ++ p3)) /\
    lookup k (store_after (map ev1 (p1 ++ LQuery q k :: p2))) = Some v.
Proof.
  intros H pre q v post ->. apply run1_monitor in H. unfold monitor1 in H.
  rewrite map_app in H. simpl in H.
  destruct (spec_return _ H _ _ _ _ eq_refl) as (p1' & k & p2' & p3' & He & Hnb & Hl).
  apply split_begin in He. destruct He as (p1 & x & p2 & p3 & -> & Hx & <- & <- & <-).
  apply ev1_begin in Hx. subst x. exists p1, k, p2, p3. split; [reflexivity|]. split.
  - intros k' Hin. apply (Hnb k'). rewrite <- map_app. change (EBegin q k') with (ev1 (LQuery q k')).
    apply in_map. exact Hin.
  - rewrite map_app. exact Hl.
Qed.

Theorem read_returns_stored_v2 ls s : run2 init2 ls = Some s ->
  forall pre r v post, ls = pre ++ LLookup r (Some v) :: post ->
  exists p1 k p2 p3, pre = p1 ++ LAwait r k :: p2 ++ p3 /\
    (forall k', ~ In (LAwait r k') (p2 ++ p3)) /\
    lookup k (store_after (map ev2 (p1 ++ LAwait r k :: p2))) = Some v.
Proof.
  intros H pre q v post ->. apply run2_monitor in H. unfold monitor2 in H.
  rewrite map_app in H. simpl in H.
  destruct (spec_return _ H _ _ _ _ eq_refl) as (p1' & k & p2' & p3' & He & Hnb & Hl).
  apply split_begin in He. destruct He as (p1 & x & p2 & p3 & -> & Hx & <- & <- & <-).
  apply ev2_begin in Hx. subst x. exists p1, k, p2, p3. split; [reflexivity|]. split.
  - intros k' Hin. apply (Hnb k'). rewrite <- map_app. change (EBegin q k') with (ev2 (LAwait q k')).
    apply in_map. exact Hin.
  - rewrite map_app. exact Hl.
Qed.

(* v2 is sharper: a reader returns the value stored at the very moment of its lookup *)
Theorem read_returns_current_v2 ls s : run2 init2 ls = Some s ->
  forall pre r v post, ls = pre ++ LLookup r (Some v) :: post ->
  exists s0 k, run2 init2 pre = Some s0 /\ (exists st, In (r, (k, st)) (rs s0)) /\
               lookup k (data2 s0) = Some v /\ data2 s0 = store_after (map ev2 pre).
Proof.
  intros H pre r v post ->. rewrite run2_app in H.
  destruct (run2 init2 pre) as [s0|] eqn:E0; [|discriminate].
  rewrite run2_cons in H. destruct (step2 s0 (LLookup r (Some v))) as [s1|] eqn:Es; [|discriminate].
  clear H. cbv beta iota delta [step2 step2_gen] in Es.
  destruct (get r (rs s0)) as [[k [|g']]|] eqn:Eg; try discriminate.
  destruct (optN_eqb (Some v) (lookup k (data2 s0))) eqn:Eo; [|discriminate].
  apply optN_eqb_eq in Eo. exists s0, k. split; [reflexivity|]. split; [|split].
  - exists Checking. apply get_In. exact Eg.
  - auto.
  - apply run2_data. exact E0.
Qed.

Lemma pending_v1 p1 q k p2 :
  (forall v, ~ In (LAnswer q v) p2) -> ~ In (LCancel q) p2 ->
  pending (map ev1 (p1 ++ LQuery q k :: p2)) q k.
Proof.
  intros Ha Hc. exists (map ev1 p1), (map ev1 p2). split; [rewrite map_app; reflexivity|].
  apply forallb_forall. intros e Hin. apply in_map_iff in Hin. destruct Hin as [l [<- Hin]].
  apply negb_true_iff. destruct l as [k0 v0 r|q0 k0|q0 v0|q0|d|]; simpl; try reflexivity.
  - apply N.eqb_neq. intros ->. exact (Ha _ Hin).
  - apply N.eqb_neq. intros ->. exact (Hc Hin).
Qed.

Lemma pending_v2 p1 r k p2 :
  (forall v, ~ In (LLookup r (Some v)) p2) -> ~ In (LCancel2 r) p2 ->
  pending (map ev2 (p1 ++ LAwait r k :: p2)) r k.
Proof.
  intros Ha Hc. exists (map ev2 p1), (map ev2 p2). split; [rewrite map_app; reflexivity|].
  apply forallb_forall. intros e Hin. apply in_map_iff in Hin. destruct Hin as [l [<- Hin]].
  apply negb_true_iff. destruct l as [r0 k0|r0 [v0|]|r0|d es res|r0|d|]; simpl; try reflexivity.
  - apply N.eqb_neq. intros ->. exact (Ha _ Hin).
  - apply N.eqb_neq. intros ->. exact (Hc Hin).
Qed.

(* no lost wake-up, v1: at every quiescent point a read that was begun and has neither
   returned nor been cancelled has nothing stored under its key -- equivalently every read
   whose key is stored has returned *)
Theorem no_lost_wakeup_v1 ls s : run1 init1 ls = Some s ->
  forall pre post, ls = pre ++ LQuiet :: post ->
  forall p1 q k p2, pre = p1 ++ LQuery q k :: p2 ->
  (forall v, ~ In (LAnswer q v) p2) -> ~ In (LCancel q) p2 ->
  lookup k (store_after (map ev1 pre)) = None.
Proof.
  intros H pre post -> p1 q k p2 -> Ha Hc. apply run1_monitor in H. unfold monitor1 in H.
  rewrite map_app in H. simpl in H.
  eapply (spec_quiet _ H _ _ eq_refl). apply pending_v1; assumption.
Qed.

Theorem no_lost_wakeup_v2 ls s : run2 init2 ls = Some s ->
  forall pre post, ls = pre ++ LQuiet2 :: post ->
  forall p1 r k p2, pre = p1 ++ LAwait r k :: p2 ->
  (forall v, ~ In (LLookup r (Some v)) p2) -> ~ In (LCancel2 r) p2 ->
  lookup k (store_after (map ev2 pre)) = None.
Proof.
  intros H pre post -> p1 r k p2 -> Ha Hc. apply run2_monitor in H. unfold monitor2 in H.
  rewrite map_app in H. simpl in H.
  eapply (spec_quiet _ H _ _ eq_refl). apply pending_v2; assumption.
Qed.

(* writing different data under an existing key is rejected and changes nothing *)
Theorem conflict_rejected_no_change_v1 ls s : run1 init1 ls = Some s ->
  forall pre k v post, ls = pre ++ LWrite k v WMismatch :: post ->
  (exists v', v' <> v /\ lookup k (store_after (map ev1 pre)) = Some v') /\
  store_after (map ev1 (pre ++ [LWrite k v WMismatch])) = store_after (map ev1 pre).
Proof.
  intros H pre k v post ->. apply run1_monitor in H. unfold monitor1 in H.
  rewrite map_app in H. simpl in H.
  destruct (spec_store _ H _ _ _ _ eq_refl) as [Hr Hs].
  rewrite put_all_single in Hr, Hs.
  destruct (put k v (store_after (map ev1 pre))) as [m' r'] eqn:Ep. simpl in Hr, Hs. subst r'.
  apply put_mismatch in Ep. destruct Ep as [-> (v' & Hl & Hne)]. split; [eauto|].
  rewrite map_app. exact Hs.
Qed.

Theorem conflict_rejected_no_change_v2 ls s : run2 init2 ls = Some s ->
  forall pre d es post, ls = pre ++ LStore d es WMismatch :: post ->
  exists e1 k v e2 v', es = e1 ++ (k, v) :: e2 /\ v' <> v /\
    lookup k (store_after (map ev2 (pre ++ [LStore d es WMismatch]))) = Some v' /\
    put_all e1 (store_after (map ev2 pre)) = (store_after (map ev2 (pre ++ [LStore d es WMismatch])), WOk).
Proof.
  intros H pre d es post ->. apply run2_monitor in H. unfold monitor2 in H.
  rewrite map_app in H. simpl in H.
  destruct (spec_store _ H _ _ _ _ eq_refl) as [Hr Hs].
  destruct (put_all es (store_after (map ev2 pre))) as [m' r'] eqn:Ep. simpl in Hr, Hs. subst r'.
  apply put_all_mismatch in Ep. destruct Ep as (e1 & k & v & e2 & v' & -> & H1 & H2 & H3).
  exists e1, k, v, e2, v'. rewrite map_app. simpl map. rewrite Hs. auto.
Qed.

(* ... and never changes what readers get: whatever happens after a key holds v (further
   stores, conflicting or not, reads, cancellations), it holds v until its duty expires *)
Theorem value_fixed_v1 pre mid k v :
  lookup k (store_after (map ev1 pre)) = Some v -> ~ In (LExpire (kduty k)) mid ->
  lookup k (store_after (map ev1 (pre ++ mid))) = Some v.
Proof.
  intros H Hne. rewrite map_app. apply store_after_stable; [exact H|].
  intros d Hin ->. apply Hne. apply in_map_iff in Hin. destruct Hin as [l [He Hin]].
  destruct l; simpl in He; try discriminate. injection He as ->. exact Hin.
Qed.

Theorem value_fixed_v2 pre mid k v :
  lookup k (store_after (map ev2 pre)) = Some v -> ~ In (LExpire2 (kduty k)) mid ->
  lookup k (store_after (map ev2 (pre ++ mid))) = Some v.
Proof.
  intros H Hne. rewrite map_app. apply store_after_stable; [exact H|].
  intros d Hin ->. apply Hne. apply in_map_iff in Hin. destruct Hin as [l [He Hin]].
  destruct l as [r0 k0|r0 [v0|]|r0|d0 es res|r0|d0|]; simpl in He; try discriminate.
  injection He as ->. exact Hin.
Qed.

(* ------------------------------------------------------------------------------------------ *)
(* a Store whose later entry conflicts *)

(* v2: under one critical section.  The entries before the conflicting one (in iteration order)
   are stored and readable, the map is exactly the one obtained by storing them, and the
   notification channel is closed all the same: every waiting reader holds an older channel,
   so it wakes (LWake is enabled for it) and re-reads. *)
Theorem partial_store_failure_v2 pre s0 d es s :
  run2 init2 pre = Some s0 -> step2 s0 (LStore d es WMismatch) = Some s ->
  exists e1 k v e2 v', es = e1 ++ (k, v) :: e2 /\
    put_all e1 (data2 s0) = (data2 s, WOk) /\
    (forall k1 v1, In (k1, v1) e1 -> lookup k1 (data2 s) = Some v1) /\
    lookup k (data2 s) = Some v' /\ v' <> v /\
    rs s = rs s0 /\ gen s = S (gen s0) /\
    (forall r k0 g, In (r, (k0, Waiting g)) (rs s) -> g < gen s).
Proof.
  intros H0 Hs. pose proof (run2_inv _ _ H0) as I.
  cbv beta iota delta [step2 step2_gen] in Hs.
  destruct (forallb (fun e => N.eqb (kduty (fst e)) d) es); [|discriminate].
  destruct (put_all es (data2 s0)) as [m r'] eqn:Ep.
  destruct (wres_eqb WMismatch r') eqn:Er; [|discriminate]. injection Hs as <-.
  apply wres_eqb_eq in Er. subst r'.
  apply put_all_mismatch in Ep. destruct Ep as (e1 & k & v & e2 & v' & -> & H1 & H2 & H3).
  exists e1, k, v, e2, v'. simpl. repeat split; auto.
  - intros k1 v1 Hin. eapply put_all_ok; eauto.
  - intros r k0 g Hin. destruct (i2_r _ _ I _ _ _ Hin) as [sn [_ [Hle _]]]. lia.
Qed.

(* a successful store likewise closes the channel, and all its entries are readable *)
Theorem store_ok_v2 pre s0 d es s :
  run2 init2 pre = Some s0 -> step2 s0 (LStore d es WOk) = Some s ->
  (forall k v, In (k, v) es -> lookup k (data2 s) = Some v) /\
  (forall r k0 g, In (r, (k0, Waiting g)) (rs s) -> g < gen s).
Proof.
  intros H0 Hs. pose proof (run2_inv _ _ H0) as I.
  cbv beta iota delta [step2 step2_gen] in Hs.
  destruct (forallb (fun e => N.eqb (kduty (fst e)) d) es); [|discriminate].
  destruct (put_all es (data2 s0)) as [m r'] eqn:Ep.
  destruct (wres_eqb WOk r') eqn:Er; [|discriminate]. injection Hs as <-.
  apply wres_eqb_eq in Er. subst r'. simpl. split.
  - intros k v Hin. eapply put_all_ok; eauto.
  - intros r k0 g Hin. destruct (i2_r _ _ I _ _ _ Hin) as [sn [_ [Hle _]]]. lia.
Qed.

(* v1: MemDB.Store sends the entries one by one (memory.go:44-57) and stops at the first error,
   so a partially failing Store is a run of accepted writes followed by a rejected one; the actor
   handles each on its own.  Effect of one write command, accepted or not:
   - rejected: the map is unchanged (and the key holds other data);
   - accepted: the key now holds v;
   - in both cases, afterwards no blocked query has its key present (every query for a present
     key has been answered in this very step), and answers already sent stay. *)
Theorem write_effect_v1 pre s0 k v r s :
  run1 init1 pre = Some s0 -> step1 s0 (LWrite k v r) = Some s ->
  (r = WMismatch -> data1 s = data1 s0 /\ exists v', lookup k (data1 s0) = Some v' /\ v' <> v) /\
  (r = WOk -> lookup k (data1 s) = Some v) /\
  (forall k0 x, lookup k0 (data1 s0) = Some x -> lookup k0 (data1 s) = Some x) /\
  (forall q k0, In (q, (k0, Blocked)) (qs s) -> lookup k0 (data1 s) = None) /\
  (forall q k0, In (q, (k0, Blocked)) (qs s0) ->
     match lookup k0 (data1 s) with
     | Some w => In (q, (k0, Answered w)) (qs s)
     | None => In (q, (k0, Blocked)) (qs s)
     end) /\
  (forall q k0 w, In (q, (k0, Answered w)) (qs s0) -> In (q, (k0, Answered w)) (qs s)).
Proof.
  intros H0 Hs.
  assert (Hrun : run1 init1 (pre ++ [LWrite k v r]) = Some s).
  { rewrite run1_app, H0, run1_cons, Hs. reflexivity. }
  cbv beta iota delta [step1 step1_gen] in Hs.
  destruct (put k v (data1 s0)) as [m r'] eqn:Ep.
  destruct (wres_eqb r r') eqn:Er; [|discriminate]. injection Hs as <-.
  apply wres_eqb_eq in Er. subst r'. simpl. repeat split.
  - subst r. apply put_mismatch in Ep. tauto.
  - subst r. apply put_mismatch in Ep. tauto.
  - intros ->. apply put_ok in Ep. exact Ep.
  - intros k0 x Hl. replace m with (fst (put k v (data1 s0))) by (rewrite Ep; reflexivity).
    apply put_preserves. exact Hl.
  - intros q k0 Hin. apply (v1_blocked_absent _ _ Hrun q k0). exact Hin.
  - intros q k0 Hin. destruct (lookup k0 m) as [w|] eqn:El.
    + apply In_mapv. exists (k0, Blocked). split; [exact Hin|].
      unfold exec_query. simpl. rewrite El. reflexivity.
    + apply In_mapv. exists (k0, Blocked). split; [exact Hin|].
      unfold exec_query. simpl. rewrite El. reflexivity.
  - intros q k0 w Hin. apply In_mapv. exists (k0, Answered w). split; [exact Hin | reflexivity].
Qed.

(* ------------------------------------------------------------------------------------------ *)
(* "run the internal steps to quiescence" has one outcome, whatever the schedule.
   This is what connects the fine-grained semantics (all interleavings of lookups, wake-ups and
   answer pick-ups) with what the harness can observe: the set of reads that have returned at
   the next quiescent point. *)

Lemma internal2_step s g l s' :
  Inv2 s g -> internal2 l = true -> step2 s l = Some s' ->
  data2 s' = data2 s /\ gen s' = gen s /\
  (forall r k st', In (r, (k, st')) (rs s') -> exists st, In (r, (k, st)) (rs s)) /\
  (forall r k st, In (r, (k, st)) (rs s) -> lookup k (data2 s) = None ->
                  exists st', In (r, (k, st')) (rs s')).
Proof.
  intros I Hi Hs. destruct l as [r k|r res|r|d es res|r|d|]; try discriminate;
    cbv beta iota delta [step2 step2_gen] in Hs.
  - destruct (get r (rs s)) as [[k [|g']]|] eqn:Eq; try discriminate.
    destruct (optN_eqb res (lookup k (data2 s))) eqn:Er; [|discriminate].
    apply optN_eqb_eq in Er. apply get_In in Eq.
    destruct res as [v|]; injection Hs as <-; simpl; repeat split; try reflexivity.
    + intros r0 k0 st' Hin. apply In_del in Hin. destruct Hin as [Hin _]. eauto.
    + intros r0 k0 st Hin Hl. destruct (N.eqb_spec r0 r) as [->|Hne].
      * rewrite (key_unique2 _ _ _ _ _ _ _ I Hin Eq) in Hl. congruence.
      * exists st. apply In_del. auto.
    + intros r0 k0 st' Hin. apply In_upd in Hin. destruct Hin as [(-> & He & _)|[_ Hin]]; [|eauto].
      injection He as -> _. eauto.
    + intros r0 k0 st Hin Hl. destruct (N.eqb_spec r0 r) as [->|Hne].
      * rewrite (key_unique2 _ _ _ _ _ _ _ I Hin Eq). eexists. apply In_upd. left. eauto.
      * exists st. apply In_upd. auto.
  - destruct (get r (rs s)) as [[k [|g']]|] eqn:Eq; try discriminate.
    destruct (Nat.ltb g' (gen s)); [|discriminate]. apply get_In in Eq.
    injection Hs as <-; simpl; repeat split; try reflexivity.
    + intros r0 k0 st' Hin. apply In_upd in Hin. destruct Hin as [(-> & He & _)|[_ Hin]]; [|eauto].
      injection He as -> _. eauto.
    + intros r0 k0 st Hin Hl. destruct (N.eqb_spec r0 r) as [->|Hne].
      * rewrite (key_unique2 _ _ _ _ _ _ _ I Hin Eq). eexists. apply In_upd. left. eauto.
      * exists st. apply In_upd. auto.
Qed.

Lemma internal2_run ls : forall s g s',
  Inv2 s g -> forallb internal2 ls = true -> run2 s ls = Some s' ->
  (exists g', Inv2 s' g') /\ data2 s' = data2 s /\ gen s' = gen s /\
  (forall r k st', In (r, (k, st')) (rs s') -> exists st, In (r, (k, st)) (rs s)) /\
  (forall r k st, In (r, (k, st)) (rs s) -> lookup k (data2 s) = None ->
                  exists st', In (r, (k, st')) (rs s')).
Proof.
  induction ls as [|l r IH]; intros s g s' I Hi Hr.
  - injection Hr as <-. split; [eauto|]. repeat split; eauto.
  - simpl in Hi. apply andb_true_iff in Hi. destruct Hi as [Hl Hi].
    rewrite run2_cons in Hr. destruct (step2 s l) as [s1|] eqn:Es; [|discriminate].
    destruct (step2_sound _ _ _ _ I Es) as [_ I1].
    destruct (internal2_step _ _ _ _ I Hl Es) as (D1 & G1 & A1 & B1).
    destruct (IH _ _ _ I1 Hi Hr) as (Ig & D2 & G2 & A2 & B2).
    split; [exact Ig|]. split; [congruence|]. split; [congruence|]. split.
    + intros r0 k st' Hin. destruct (A2 _ _ _ Hin) as [st1 H1]. eauto.
    + intros r0 k st Hin Hlk. destruct (B1 _ _ _ Hin Hlk) as [st1 H1].
      apply (B2 _ _ _ H1). rewrite D1. exact Hlk.
Qed.

(* v2: from a reachable state, every schedule of lookups and wake-ups that ends in a quiescent
   state ends with exactly the readers whose key is absent still waiting; all others have
   returned (and by read_returns_current_v2 with the stored value). *)
Theorem quiescent_outcome_v2 pre s ls s' :
  run2 init2 pre = Some s -> forallb internal2 ls = true -> run2 s ls = Some s' ->
  step2 s' LQuiet2 = Some s' ->
  data2 s' = data2 s /\
  forall r k, (exists st', In (r, (k, st')) (rs s')) <->
              (exists st, In (r, (k, st)) (rs s)) /\ lookup k (data2 s) = None.
Proof.
  intros H0 Hi Hr Hq. pose proof (run2_inv _ _ H0) as I.
  destruct (internal2_run _ _ _ _ I Hi Hr) as ([g' I'] & D & G & A & B).
  split; [exact D|]. intros r k. split.
  - intros [st' Hin]. split; [eauto|].
    destruct (step2_sound _ _ _ _ I' Hq) as [Hc _]. simpl in Hc.
    destruct (i2_r _ _ I' _ _ _ Hin) as [sn [Hg _]]. apply get_In in Hg.
    rewrite forallb_forall in Hc. specialize (Hc _ Hg). unfold absent in Hc. simpl in Hc.
    rewrite <- D, (i2_data _ _ I'). destruct (lookup k (gs g')); [discriminate | reflexivity].
  - intros [[st Hin] Hl]. eauto.
Qed.

(* v2: a state that is not quiescent has an enabled internal step (no deadlock short of
   quiescence). *)
Theorem not_quiet_can_step_v2 pre s :
  run2 init2 pre = Some s -> step2 s LQuiet2 = None ->
  exists l s', internal2 l = true /\ step2 s l = Some s'.
Proof.
  intros H0 Hq. pose proof (run2_nodup pre init2 s (NoDup_nil N) H0) as Hnd.
  cbv beta iota delta [step2 step2_gen] in Hq.
  destruct (existsb (can_move (gen s)) (rs s)) eqn:Ee; [|discriminate].
  apply existsb_exists in Ee. destruct Ee as [[r [k st]] [Hin Hc]].
  pose proof (NoDup_get _ _ _ Hnd Hin) as Hg. destruct st as [|g'].
  - exists (LLookup r (lookup k (data2 s))). cbv beta iota delta [step2 step2_gen]. rewrite Hg.
    assert (Ho : optN_eqb (lookup k (data2 s)) (lookup k (data2 s)) = true) by (apply optN_eqb_eq; reflexivity).
    rewrite Ho. destruct (lookup k (data2 s)); eauto.
  - exists (LWake r). cbv beta iota delta [step2 step2_gen]. rewrite Hg.
    unfold can_move in Hc. simpl in Hc. rewrite Hc. eauto.
Qed.

(* v1: the internal steps are the answer pick-ups. *)
Lemma internal1_run ls : forall s s',
  NoDup (map fst (qs s)) -> forallb internal1 ls = true -> run1 s ls = Some s' ->
  data1 s' = data1 s /\
  (forall q k st, In (q, (k, st)) (qs s') -> In (q, (k, st)) (qs s)) /\
  (forall q k, In (q, (k, Blocked)) (qs s) -> In (q, (k, Blocked)) (qs s')).
Proof.
  induction ls as [|l r IH]; intros s s' Hnd Hi Hr.
  - injection Hr as <-. auto.
  - simpl in Hi. apply andb_true_iff in Hi. destruct Hi as [Hl Hi].
    rewrite run1_cons in Hr. destruct (step1 s l) as [s1|] eqn:Es; [|discriminate].
    pose proof (step1_nodup _ _ _ Hnd Es) as Hnd1.
    destruct (IH _ _ Hnd1 Hi Hr) as (D & A & B).
    destruct l as [k v w|q k|q v|q|d|]; try discriminate.
    cbv beta iota delta [step1 step1_gen] in Es.
    destruct (get q (qs s)) as [[k0 [|v']]|] eqn:Eq; try discriminate.
    destruct (N.eqb v' v); [|discriminate]. injection Es as <-. simpl in *.
    split; [exact D|]. split.
    + intros q0 k st Hin. apply A in Hin. apply In_del in Hin. tauto.
    + intros q0 k Hin. apply B. apply In_del. split; [exact Hin|]. intros ->.
      rewrite (NoDup_get _ _ _ Hnd Hin) in Eq. discriminate.
Qed.

Theorem quiescent_outcome_v1 pre s ls s' :
  run1 init1 pre = Some s -> forallb internal1 ls = true -> run1 s ls = Some s' ->
  step1 s' LQuiet = Some s' ->
  data1 s' = data1 s /\
  forall q k, (exists st', In (q, (k, st')) (qs s')) <-> In (q, (k, Blocked)) (qs s).
Proof.
  intros H0 Hi Hr Hq. pose proof (run1_nodup pre init1 s (NoDup_nil N) H0) as Hnd.
  destruct (internal1_run _ _ _ Hnd Hi Hr) as (D & A & B). split; [exact D|].
  intros q k. split.
  - intros [st' Hin]. destruct st' as [|v]; [apply A; exact Hin|].
    exfalso. cbv beta iota delta [step1 step1_gen] in Hq.
    destruct (existsb is_answered (qs s')) eqn:Ee; [discriminate|].
    assert (existsb is_answered (qs s') = true); [|congruence].
    apply existsb_exists. exists (q, (k, Answered v)). auto.
  - intro Hin. eauto.
Qed.

Theorem not_quiet_can_step_v1 pre s :
  run1 init1 pre = Some s -> step1 s LQuiet = None ->
  exists q v s', step1 s (LAnswer q v) = Some s'.
Proof.
  intros H0 Hq. pose proof (run1_nodup pre init1 s (NoDup_nil N) H0) as Hnd.
  cbv beta iota delta [step1 step1_gen] in Hq.
  destruct (existsb is_answered (qs s)) eqn:Ee; [|discriminate].
  apply existsb_exists in Ee. destruct Ee as [[q [k st]] [Hin Hc]].
  destruct st as [|v]; [discriminate|].
  exists q, v. cbv beta iota delta [step1 step1_gen].
  rewrite (NoDup_get _ _ _ Hnd Hin), N.eqb_refl. eauto.
Qed.

(* ------------------------------------------------------------------------------------------ *)
(* the unrepaired code, non-vacuity, examples *)

Definition kA : key := (40%N, 1%N).
Definition kB : key := (40%N, 2%N).
Definition kC : key := (41%N, 1%N).

(* F3: two readers wait for kA, one store.  The one-slot token wakes reader 1 only; the
   component is then quiescent (token consumed) with reader 2 still waiting for a stored key. *)
Definition f3_trace : list label2 :=
  [LAwait 1 kA; LAwait 2 kA; LLookup 1 None; LLookup 2 None; LQuiet2;
   LStore 40 [(kA, 7%N)] WOk; LWake 1; LLookup 1 (Some 7%N); LQuiet2].

Lemma lost_wakeup_v2_refuted_before_fix :
  (exists s, run2_gen true init2 f3_trace = Some s) /\ monitor2 f3_trace = false /\
  run2 init2 f3_trace = None.
Proof. split; [eexists; vm_compute; reflexivity | split; vm_compute; reflexivity]. Qed.

(* ... and before the fix an erroring Store sent no notification at all: the waiter for the
   entry stored before the conflicting one sleeps on. *)
Definition f3b_trace : list label2 :=
  [LStore 40 [(kB, 5%N)] WOk; LAwait 1 kA; LLookup 1 None; LWake 1; LLookup 1 None; LQuiet2;
   LStore 40 [(kA, 7%N); (kB, 6%N)] WMismatch; LQuiet2].

Lemma partial_store_lost_wakeup_v2_refuted_before_fix :
  (exists s, run2_gen true init2 f3b_trace = Some s) /\ monitor2 f3b_trace = false.
Proof. split; [eexists; vm_compute; reflexivity | vm_compute; reflexivity]. Qed.

(* the repaired model on the same histories *)
Definition f3_trace_fixed : list label2 :=
  [LAwait 1 kA; LAwait 2 kA; LLookup 1 None; LLookup 2 None; LQuiet2;
   LStore 40 [(kA, 7%N)] WOk; LWake 2; LWake 1; LLookup 1 (Some 7%N); LLookup 2 (Some 7%N); LQuiet2].
Definition f3b_trace_fixed : list label2 :=
  [LStore 40 [(kB, 5%N)] WOk; LAwait 1 kA; LLookup 1 None; LQuiet2;
   LStore 40 [(kA, 7%N); (kB, 6%N)] WMismatch; LWake 1; LLookup 1 (Some 7%N); LQuiet2].

Lemma f3_traces_accepted_after_fix :
  (exists s, run2 init2 f3_trace_fixed = Some s) /\ (exists s, run2 init2 f3b_trace_fixed = Some s).
Proof. split; eexists; vm_compute; reflexivity. Qed.

(* v1 without processBlockedQueries after a write: the monitor notices. *)
Definition v1_noreeval_trace : list label1 :=
  [LQuery 1 kA; LQuery 2 kA; LQuiet; LWrite kA 7 WOk; LQuiet].

Lemma v1_needs_reevaluation :
  (exists s, run1_gen false init1 v1_noreeval_trace = Some s) /\ monitor1 v1_noreeval_trace = false /\
  run1 init1 v1_noreeval_trace = None.
Proof. split; [eexists; vm_compute; reflexivity | split; vm_compute; reflexivity]. Qed.

(* non-vacuity: histories with several blocked readers over overlapping keys, conflicting
   re-stores, a cancellation, an expiry followed by a re-store of other data. *)
Definition ex1 : list label1 :=
  [LQuery 1 kA; LQuery 2 kA; LQuery 3 kB; LQuery 4 kC; LQuiet;
   LWrite kB 5 WOk; LAnswer 3 5; LQuiet;
   LCancel 4; LQuiet;
   LWrite kA 7 WOk; LWrite kA 8 WMismatch; LAnswer 2 7; LAnswer 1 7; LQuiet;
   LQuery 5 kA; LAnswer 5 7; LQuiet;
   LExpire 40; LQuery 6 kA; LQuiet; LWrite kA 8 WOk; LAnswer 6 8; LQuiet].

Definition ex2 : list label2 :=
  [LAwait 1 kA; LLookup 1 None; LAwait 2 kA; LAwait 3 kB; LLookup 3 None; LLookup 2 None; LQuiet2;
   LStore 40 [(kB, 5%N)] WOk; LWake 1; LWake 3; LLookup 3 (Some 5%N); LWake 2; LLookup 2 None; LLookup 1 None; LQuiet2;
   LCancel2 2; LQuiet2;
   LStore 40 [(kA, 7%N); (kB, 6%N)] WMismatch; LWake 1; LLookup 1 (Some 7%N); LQuiet2;
   LExpire2 40; LAwait 4 kA; LLookup 4 None; LQuiet2;
   LStore 40 [(kA, 8%N)] WOk; LWake 4; LLookup 4 (Some 8%N); LQuiet2].

Lemma examples_accepted :
  (exists s, run1 init1 ex1 = Some s) /\ (exists s, run2 init2 ex2 = Some s).
Proof. split; eexists; vm_compute; reflexivity. Qed.
