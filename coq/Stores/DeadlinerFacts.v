(* Proofs about the deadliner model: every trace accepted by the model satisfies the trace
   monitor (which transcribes property C16), plus the Prop-level readings of the monitor. *)
From Coq Require Import List ZArith NArith Bool Lia.
From Charon Require Import Stores.Deadliner.
Import ListNotations.
Local Open Scope Z_scope.

Lemma status_eqb_eq a b : status_eqb a b = true <-> a = b.
Proof. destruct a, b; simpl; split; intro H; try reflexivity; try discriminate. Qed.

Lemma mem_In d l : mem d l = true <-> In d l.
Proof.
  induction l as [|x r IH]; simpl; [split; [discriminate|tauto]|].
  rewrite orb_true_iff, IH, N.eqb_eq. tauto.
Qed.

Lemma mem_app d l1 l2 : mem d (l1 ++ l2) = mem d l1 || mem d l2.
Proof. induction l1 as [|x r IH]; simpl; [reflexivity|]. rewrite IH, orb_assoc. reflexivity. Qed.

Lemma mem_add x d l : mem x (add d l) = N.eqb d x || mem x l.
Proof.
  unfold add. destruct (mem d l) eqn:E.
  - destruct (N.eqb_spec d x) as [->|]; simpl; [exact E|reflexivity].
  - rewrite mem_app. simpl. rewrite orb_false_r, orb_comm. reflexivity.
Qed.

Lemma mem_remove x d l : mem x (remove d l) = negb (N.eqb d x) && mem x l.
Proof.
  induction l as [|y r IH]; simpl; [rewrite andb_false_r; reflexivity|].
  destruct (N.eqb_spec y d) as [->|Hyd]; simpl.
  - rewrite IH. destruct (N.eqb d x); reflexivity.
  - rewrite IH. destruct (N.eqb_spec y x) as [->|]; simpl; [|reflexivity].
    destruct (N.eqb_spec d x) as [->|]; [congruence|reflexivity].
Qed.

Section Facts.
Variable dl : N -> option Z.
Notation dlz := (dlz dl).
Notation min_dl := (min_dl dl).

Lemma min_dl_nil l : min_dl l = None -> l = [].
Proof. destruct l as [|d r]; [reflexivity|]. simpl. destruct (min_dl r); discriminate. Qed.

Lemma min_dl_le l m : min_dl l = Some m -> forall d, mem d l = true -> m <= dlz d.
Proof.
  revert m. induction l as [|x r IH]; intros m Hm d Hd; [discriminate|].
  simpl in Hm, Hd. apply orb_true_iff in Hd.
  destruct (min_dl r) as [m'|] eqn:E.
  - injection Hm as <-. destruct Hd as [Hd|Hd].
    + apply N.eqb_eq in Hd. subst. lia.
    + specialize (IH m' eq_refl d Hd). lia.
  - injection Hm as <-. destruct Hd as [Hd|Hd].
    + apply N.eqb_eq in Hd. subst. lia.
    + apply min_dl_nil in E. subst. discriminate.
Qed.

Lemma min_dl_app l d :
  min_dl (l ++ [d]) = match min_dl l with None => Some (dlz d) | Some m => Some (Z.min (dlz d) m) end.
Proof.
  induction l as [|x r IH]; [reflexivity|].
  simpl. rewrite IH. destruct (min_dl r) as [m|]; f_equal; lia.
Qed.

Lemma min_dl_add l d :
  min_dl (add d l) = match min_dl l with None => Some (dlz d) | Some m => Some (Z.min (dlz d) m) end.
Proof.
  unfold add. destruct (mem d l) eqn:E; [|apply min_dl_app].
  destruct (min_dl l) as [m|] eqn:Em.
  - pose proof (min_dl_le _ _ Em _ E). f_equal. lia.
  - apply min_dl_nil in Em. subst. discriminate.
Qed.

(* Simulation invariant between a model state and the ghost state computed from the trace. *)
Record Inv (s : state) (g : ghost) : Prop := {
  i_time : now s = g_time g;
  i_pend : duties s = g_pending g;
  i_out : out s = g_queue g;
  i_cdl : cdl s = min_dl (duties s);
  i_cands : forall d, mem d (cands s) = true -> mem d (duties s) = true /\ cdl s = Some (dlz d);
  i_rep : forall d, mem d (g_reported g) = true -> mem d (duties s) = false /\ dlz d <= now s;
  i_some : forall d, mem d (duties s) = true -> dl d = Some (dlz d)
}.

Lemma inv_init : Inv init ginit.
Proof. constructor; simpl; try reflexivity; intros; discriminate. Qed.

Lemma set_curr_inv s g :
  now s = g_time g -> duties s = g_pending g -> out s = g_queue g ->
  (forall d, mem d (g_reported g) = true -> mem d (duties s) = false /\ dlz d <= now s) ->
  (forall d, mem d (duties s) = true -> dl d = Some (dlz d)) ->
  Inv (set_curr dl s) g.
Proof.
  intros H1 H2 H3 H4 H5. constructor; simpl; try assumption; try reflexivity.
  intros d Hd. destruct (min_dl (duties s)) as [m|] eqn:Em; [|discriminate].
  apply mem_In in Hd. apply filter_In in Hd. destruct Hd as [Hin Heq].
  apply Z.eqb_eq in Heq. split; [apply mem_In; exact Hin | congruence].
Qed.

Lemma all_ge_spec t l : (forall d, mem d l = true -> t <= dlz d) -> all_ge dl t l = true.
Proof.
  intro H. unfold all_ge. apply forallb_forall. intros d Hd.
  apply Z.leb_le. apply H. apply mem_In. exact Hd.
Qed.

Lemma all_gt_spec t l : (forall d, mem d l = true -> t < dlz d) -> all_gt dl t l = true.
Proof.
  intro H. unfold all_gt. apply forallb_forall. intros d Hd.
  apply Z.ltb_lt. apply H. apply mem_In. exact Hd.
Qed.

Lemma step_sound s g l s' :
  Inv s g -> step dl s l = Some s' -> check dl g l = true /\ Inv s' (gstep g l).
Proof.
  intros I Hs. destruct I as [It Ip Io Ic Ica Ir Iso].
  destruct l as [d st|dt|d|d|d|]; cbv beta iota delta [step step_gen] in Hs.
  - (* LAdd *)
    unfold check. destruct (dl d) as [t|] eqn:Edl.
    + assert (Hdz : dlz d = t) by (unfold Deadliner.dlz; rewrite Edl; reflexivity).
      simpl in Hs. destruct (t <=? now s) eqn:Ele.
      * destruct (status_eqb st Expired) eqn:Est; [|discriminate]. injection Hs as <-.
        apply status_eqb_eq in Est. subst st. apply Z.leb_le in Ele. split.
        -- rewrite <- It. destruct (t <? now s); [reflexivity|].
           destruct (now s <? t) eqn:E2; [apply Z.ltb_lt in E2; lia | reflexivity].
        -- simpl. constructor; assumption.
      * destruct (status_eqb st Scheduled) eqn:Est; [|discriminate].
        apply status_eqb_eq in Est. subst st. apply Z.leb_gt in Ele. split.
        -- rewrite <- It. destruct (t <? now s) eqn:E1; [apply Z.ltb_lt in E1; lia|].
           destruct (now s <? t) eqn:E2; [reflexivity | apply Z.ltb_ge in E2; lia].
        -- simpl gstep.
           assert (Hrep : forall x, mem x (g_reported g) = true ->
                                    mem x (add d (duties s)) = false /\ dlz x <= now s).
           { intros x Hx. destruct (Ir x Hx) as [Hnd Hle]. split; [|exact Hle].
             rewrite mem_add, Hnd. destruct (N.eqb_spec d x) as [->|]; [lia | reflexivity]. }
           assert (Hsome : forall x, mem x (add d (duties s)) = true -> dl x = Some (dlz x)).
           { intros x Hx. rewrite mem_add in Hx. apply orb_true_iff in Hx.
             destruct Hx as [Hx|Hx]; [apply N.eqb_eq in Hx; subst; congruence | auto]. }
           destruct (lt_cdl t (cdl s)) eqn:Elt; injection Hs as <-.
           ++ apply set_curr_inv; simpl; try assumption. rewrite Ip. reflexivity.
           ++ constructor; simpl; try assumption.
              ** rewrite Ip. reflexivity.
              ** rewrite min_dl_add, <- Ic. destruct (cdl s) as [m|]; [|discriminate].
                 simpl in Elt. apply Z.ltb_ge in Elt. f_equal. lia.
              ** intros x Hx. destruct (Ica x Hx) as [Hm Hc]. split; [|exact Hc].
                 rewrite mem_add, Hm. apply orb_true_r.
    + destruct (status_eqb st Exempt) eqn:Est; [|discriminate]. injection Hs as <-.
      apply status_eqb_eq in Est. subst st. split; [reflexivity|]. simpl. constructor; assumption.
  - (* LAdv *)
    destruct (0 <=? dt) eqn:E; [|discriminate]. injection Hs as <-. split; [exact E|].
    apply Z.leb_le in E. constructor; simpl; try assumption; try lia.
    intros d Hd. destruct (Ir d Hd). split; [assumption | lia].
  - (* LFire *)
    destruct (enabled s && mem d (cands s) && Nat.ltb (length (out s)) cap) eqn:E; [|discriminate].
    injection Hs as <-. apply andb_true_iff in E. destruct E as [E E3].
    apply andb_true_iff in E. destruct E as [E1 E2].
    destruct (Ica d E2) as [Hmd Hcd]. unfold enabled in E1. rewrite Hcd in E1. apply Z.leb_le in E1.
    split.
    + unfold check. rewrite <- Ip, Hmd, <- It. simpl.
      destruct (mem d (g_reported g)) eqn:Er; [destruct (Ir d Er); congruence|]. simpl.
      apply andb_true_iff. split; [apply Z.leb_le; exact E1|].
      apply all_ge_spec. apply min_dl_le. congruence.
    + simpl gstep. apply set_curr_inv; simpl.
      * exact It.
      * rewrite Ip. reflexivity.
      * rewrite Io. reflexivity.
      * intros x Hx. apply orb_true_iff in Hx. rewrite mem_remove. destruct Hx as [Hx|Hx].
        -- apply N.eqb_eq in Hx. subst x. rewrite N.eqb_refl. simpl. split; [reflexivity|exact E1].
        -- destruct (Ir x Hx) as [Hn Hl]. rewrite Hn, andb_false_r. split; [reflexivity|exact Hl].
      * intros x Hx. rewrite mem_remove in Hx. apply andb_true_iff in Hx. apply Iso. tauto.
  - (* LDrop *)
    destruct (enabled s && mem d (cands s) && Nat.leb cap (length (out s))) eqn:E; [|discriminate].
    injection Hs as <-. apply andb_true_iff in E. destruct E as [E E3].
    apply andb_true_iff in E. destruct E as [E1 E2].
    destruct (Ica d E2) as [Hmd Hcd]. unfold enabled in E1. rewrite Hcd in E1. apply Z.leb_le in E1.
    split.
    + unfold check. rewrite <- Ip, Hmd, <- It, <- Io, E3. simpl.
      destruct (mem d (g_reported g)) eqn:Er; [destruct (Ir d Er); congruence|]. simpl.
      rewrite andb_true_r. apply andb_true_iff. split; [apply Z.leb_le; exact E1|].
      apply all_ge_spec. apply min_dl_le. congruence.
    + simpl gstep. apply set_curr_inv; simpl.
      * exact It.
      * rewrite Ip. reflexivity.
      * exact Io.
      * intros x Hx. apply orb_true_iff in Hx. rewrite mem_remove. destruct Hx as [Hx|Hx].
        -- apply N.eqb_eq in Hx. subst x. rewrite N.eqb_refl. simpl. split; [reflexivity|exact E1].
        -- destruct (Ir x Hx) as [Hn Hl]. rewrite Hn, andb_false_r. split; [reflexivity|exact Hl].
      * intros x Hx. rewrite mem_remove in Hx. apply andb_true_iff in Hx. apply Iso. tauto.
  - (* LRead *)
    destruct (out s) as [|x r] eqn:Eo; [discriminate|].
    destruct (N.eqb x d) eqn:Ex; [|discriminate]. injection Hs as <-. split.
    + unfold check. rewrite <- Io. exact Ex.
    + constructor; simpl; try assumption. rewrite <- Io. reflexivity.
  - (* LQuiet *)
    destruct (enabled s) eqn:E; [discriminate|]. injection Hs as <-. split.
    + unfold check. rewrite <- Ip, <- It. apply all_gt_spec. intros d Hd.
      unfold enabled in E. destruct (cdl s) as [m|] eqn:Ec.
      * apply Z.leb_gt in E. symmetry in Ic. pose proof (min_dl_le _ _ Ic _ Hd). lia.
      * symmetry in Ic. apply min_dl_nil in Ic. rewrite Ic in Hd. discriminate.
    + simpl. constructor; assumption.
Qed.

Lemma run_sound_from ls : forall s g s',
  Inv s g -> run_gen dl false s ls = Some s' -> monitor_from dl g ls = true.
Proof.
  induction ls as [|l r IH]; intros s g s' I H; [reflexivity|].
  simpl in H. destruct (step_gen dl false s l) as [s1|] eqn:E; [|discriminate].
  destruct (step_sound _ _ _ _ I E) as [Hc I1]. simpl. rewrite Hc. simpl. eapply IH; eauto.
Qed.

(* Every trace of the model satisfies the monitor. *)
Theorem run_monitor ls s : run dl init ls = Some s -> monitor dl ls = true.
Proof. intro H. eapply run_sound_from; [apply inv_init | exact H]. Qed.

(* ---- Prop-level readings: what [monitor ls = true] says about the trace. ---- *)

Fixpoint ghost_after (g : ghost) (ls : list label) : ghost :=
  match ls with [] => g | l :: r => ghost_after (gstep g l) r end.

Lemma monitor_prefix pre l post g :
  monitor_from dl g (pre ++ l :: post) = true -> check dl (ghost_after g pre) l = true.
Proof.
  revert g. induction pre as [|x r IH]; intros g H; simpl in *.
  - apply andb_true_iff in H. tauto.
  - apply andb_true_iff in H. apply IH. tauto.
Qed.

Definition time_after (ls : list label) : Z := g_time (ghost_after ginit ls).
Definition pending_after (ls : list label) : list N := g_pending (ghost_after ginit ls).
Definition reported_after (ls : list label) : list N := g_reported (ghost_after ginit ls).

(* pending/reported have their intended meaning *)
Lemma reported_spec ls : forall g d,
  mem d (g_reported (ghost_after g ls)) = true <->
  mem d (g_reported g) = true \/ In (LFire d) ls \/ In (LDrop d) ls.
Proof.
  induction ls as [|l r IH]; intros g d; simpl; [tauto|].
  rewrite IH. destruct l as [x st|dt|x|x|x|]; simpl; try (destruct st); simpl;
    try (split; [intros [H|[H|H]]; auto | intros [H|[[H|H]|[H|H]]]; auto; discriminate]).
  - rewrite orb_true_iff, N.eqb_eq. split.
    + intros [[->|H]|[H|H]]; auto.
    + intros [H|[[H|H]|[H|H]]]; auto; try discriminate. injection H as ->. auto.
  - rewrite orb_true_iff, N.eqb_eq. split.
    + intros [[->|H]|[H|H]]; auto.
    + intros [H|[[H|H]|[H|H]]]; auto; try discriminate. injection H as ->. auto.
Qed.

Lemma pending_sub ls : forall g d,
  mem d (g_pending (ghost_after g ls)) = true ->
  mem d (g_pending g) = true \/ In (LAdd d Scheduled) ls.
Proof.
  induction ls as [|l r IH]; intros g d H; simpl in *; [tauto|].
  apply IH in H. destruct H as [H|H]; [|tauto].
  destruct l as [x st|dt|x|x|x|]; simpl in H; auto.
  - destruct st; simpl in H; auto. rewrite mem_add in H. apply orb_true_iff in H.
    destruct H as [H|H]; auto. apply N.eqb_eq in H. subst. auto.
  - rewrite mem_remove in H. apply andb_true_iff in H. tauto.
  - rewrite mem_remove in H. apply andb_true_iff in H. tauto.
Qed.

Section Readings.
Variable ls : list label.
Hypothesis Hmon0 : monitor dl ls = true.

(* (1) never early, (2) at most once, (3) only duties registered in time, (4) deadline order. *)
Theorem fire_facts pre d post : ls = pre ++ LFire d :: post \/ ls = pre ++ LDrop d :: post ->
  dlz d <= time_after pre /\
  ~ In (LFire d) pre /\ ~ In (LDrop d) pre /\
  In (LAdd d Scheduled) pre /\
  (forall d', mem d' (pending_after pre) = true -> dlz d <= dlz d').
Proof.
  intros Hsplit.
  assert (Hc : mem d (pending_after pre) = true /\ mem d (reported_after pre) = false /\
               dlz d <= time_after pre /\ all_ge dl (dlz d) (pending_after pre) = true).
  { pose proof Hmon0 as Hmon. unfold monitor in Hmon. destruct Hsplit as [E|E]; rewrite E in Hmon;
      apply monitor_prefix in Hmon; unfold check in Hmon;
      repeat (apply andb_true_iff in Hmon; destruct Hmon as [Hmon ?]);
      repeat split; try assumption;
      try (apply Z.leb_le; assumption);
      try (apply negb_true_iff; assumption). }
  destruct Hc as [Hp [Hr [Ht Ha]]]. split; [exact Ht|].
  assert (Hnr : ~ (In (LFire d) pre \/ In (LDrop d) pre)).
  { intro H. assert (mem d (reported_after pre) = true).
    { apply reported_spec. right. exact H. } congruence. }
  split; [tauto|]. split; [tauto|]. split.
  - apply pending_sub in Hp. destruct Hp as [Hp|Hp]; [discriminate|exact Hp].
  - intros d' Hd'. unfold all_ge in Ha. rewrite forallb_forall in Ha.
    apply Z.leb_le. apply Ha. apply mem_In. exact Hd'.
Qed.

(* (5) status returned by Add *)
Theorem add_facts pre d st post : ls = pre ++ LAdd d st :: post ->
  match dl d with
  | None => st = Exempt
  | Some t => st <> Exempt /\ (t < time_after pre -> st = Expired) /\ (time_after pre < t -> st = Scheduled)
  end.
Proof.
  intro E. pose proof Hmon0 as Hmon. unfold monitor in Hmon. rewrite E in Hmon. apply monitor_prefix in Hmon.
  unfold check in Hmon. fold (time_after pre) in Hmon. destruct (dl d) as [t|].
  - destruct (t <? time_after pre) eqn:E1.
    + apply status_eqb_eq in Hmon. subst. apply Z.ltb_lt in E1.
      repeat split; [discriminate | lia].
    + destruct (time_after pre <? t) eqn:E2.
      * apply status_eqb_eq in Hmon. subst. apply Z.ltb_ge in E1.
        repeat split; [discriminate | lia].
      * apply Z.ltb_ge in E1. apply Z.ltb_ge in E2. repeat split; try lia.
        intro. subst. discriminate.
  - apply status_eqb_eq. exact Hmon.
Qed.

(* (6) whenever the component is quiescent, every pending duty is still before its deadline:
       together with [pending_after] = scheduled and not yet reported, every duty whose deadline
       has been reached has been reported (exactly once by [fire_facts]). *)
Theorem quiet_facts pre post : ls = pre ++ LQuiet :: post ->
  forall d, mem d (pending_after pre) = true -> time_after pre < dlz d.
Proof.
  intros E d Hd. pose proof Hmon0 as Hmon. unfold monitor in Hmon. rewrite E in Hmon. apply monitor_prefix in Hmon.
  unfold check, all_gt in Hmon. rewrite forallb_forall in Hmon.
  apply Z.ltb_lt. apply Hmon. apply mem_In. exact Hd.
Qed.

(* exempt duty types are never reported *)
Theorem exempt_never d : dl d = None -> ~ In (LFire d) ls /\ ~ In (LDrop d) ls.
Proof.
  intro Hd.
  assert (Hno : forall pre post, ~ (ls = pre ++ LFire d :: post \/ ls = pre ++ LDrop d :: post)).
  { intros pre post Hs. destruct (fire_facts _ _ _ Hs) as [_ [_ [_ [Hadd _]]]].
    apply in_split in Hadd. destruct Hadd as [p1 [p2 Ep]].
    assert (E : exists rest, ls = p1 ++ LAdd d Scheduled :: rest).
    { destruct Hs as [Hs|Hs]; rewrite Hs, Ep, <- app_assoc; simpl; eexists; reflexivity. }
    destruct E as [rest E].
    pose proof (add_facts _ _ _ _ E) as Hf. rewrite Hd in Hf. discriminate. }
  split; intro Hin; apply in_split in Hin; destruct Hin as [p1 [p2 E]]; eapply Hno; eauto.
Qed.

(* a drop only happens with a full output queue *)
Theorem drop_only_when_full pre d post : ls = pre ++ LDrop d :: post ->
  (cap <= length (g_queue (ghost_after ginit pre)))%nat.
Proof.
  intro E. pose proof Hmon0 as Hmon. unfold monitor in Hmon. rewrite E in Hmon. apply monitor_prefix in Hmon.
  unfold check in Hmon. apply andb_true_iff in Hmon. destruct Hmon as [_ H].
  apply Nat.leb_le. exact H.
Qed.

End Readings.

(* Registering a pending duty again has no effect on the state. *)
Lemma run_inv_from ls : forall s g s',
  Inv s g -> run_gen dl false s ls = Some s' -> Inv s' (ghost_after g ls).
Proof.
  induction ls as [|l r IH]; intros s g s' I H; simpl in *; [injection H as <-; exact I|].
  destruct (step_gen dl false s l) as [s1|] eqn:E; [|discriminate].
  destruct (step_sound _ _ _ _ I E) as [_ I1]. eapply IH; eauto.
Qed.

Theorem readd_pending_noop ls s d s' :
  run dl init ls = Some s ->
  mem d (duties s) = true -> step dl s (LAdd d Scheduled) = Some s' -> s' = s.
Proof.
  intros Hrun Hm H.
  assert (Hc : cdl s = min_dl (duties s)).
  { eapply i_cdl. eapply run_inv_from; [apply inv_init | exact Hrun]. }
  cbv beta iota delta [step step_gen] in H.
  destruct (dl d) as [t|] eqn:Ed; [|discriminate].
  destruct (expired_at false t (now s)); [discriminate|].
  change (status_eqb Scheduled Scheduled) with true in H. cbv iota in H.
  assert (Ha : add d (duties s) = duties s) by (unfold add; rewrite Hm; reflexivity).
  rewrite Ha in H.
  assert (Hlt : lt_cdl t (cdl s) = false).
  { rewrite Hc. destruct (min_dl (duties s)) as [m|] eqn:Em.
    - pose proof (min_dl_le _ _ Em _ Hm) as Hle. unfold Deadliner.dlz in Hle. rewrite Ed in Hle.
      simpl. apply Z.ltb_ge. exact Hle.
    - apply min_dl_nil in Em. rewrite Em in Hm. discriminate. }
  rewrite Hlt in H. injection H as <-. destruct s; reflexivity.
Qed.

End Facts.

(* The code before the repair (refuse only deadline < now) reports a duty twice: F4. *)
Definition f4_dl (d : N) : option Z := Some 5.
Definition f4_trace : list label :=
  [LAdd 1%N Scheduled; LAdv 5; LFire 1%N; LQuiet; LAdd 1%N Scheduled; LFire 1%N].
Lemma readd_at_deadline_refuted_before_fix :
  (exists s, run_gen f4_dl true (init) f4_trace = Some s) /\ monitor f4_dl f4_trace = false.
Proof. split; [eexists; vm_compute; reflexivity | vm_compute; reflexivity]. Qed.

(* Non-vacuity: a non-trivial trace is accepted by the model. *)
Definition ex_dl (d : N) : option Z := if N.eqb (N.modulo d 4) 3 then None else Some (Z.of_N (N.div d 4)).
Definition ex_trace : list label :=
  [LAdd 20%N Scheduled; LAdd 8%N Scheduled; LAdd 9%N Scheduled; LAdd 3%N Exempt; LAdv 1; LQuiet;
   LAdd 4%N Expired; LAdv 1; LFire 8%N; LFire 9%N; LQuiet; LRead 8%N; LAdd 8%N Expired;
   LAdv 10; LFire 20%N; LRead 9%N; LRead 20%N; LQuiet].
Example ex_trace_accepted : exists s, run ex_dl init ex_trace = Some s.
Proof. eexists. vm_compute. reflexivity. Qed.
