(* Shared definitions for the two models of core/aggsigdb (memory.go = v1, memory_v2.go = v2):
   keys, the stored map with the equality check on re-store, small association lists indexed by
   reader id, and the *specification monitor* of property C17 over implementation-independent
   events.  Each model maps its own labels to these events (AggSigDBv1.ev1, AggSigDBv2.ev2); the
   property is the same boolean function of the event sequence for both implementations.

   A key is (duty id, id of (validator pubkey, sync subcommittee index)); a value is the id of a
   core.SignedData value, two values having the same id iff their JSON encodings are equal (this
   is the equality dataEqual uses). *)
From Coq Require Import List NArith Bool Arith.
Import ListNotations.

Definition key := (N * N)%type.
Definition kduty (k : key) : N := fst k.
Definition keyb (a b : key) : bool := N.eqb (fst a) (fst b) && N.eqb (snd a) (snd b).

(* m.data / db.data.  keysByDuty is the index { k in data | k.duty = d }: both append sites use
   key.duty, and expiry deletes exactly the indexed keys, so it is modelled as a filter. *)
Definition store := list (key * N).

Fixpoint lookup (k : key) (m : store) : option N :=
  match m with
  | [] => None
  | (k', v) :: r => if keyb k' k then Some v else lookup k r
  end.

Definition expire (d : N) (m : store) : store :=
  filter (fun e => negb (N.eqb (kduty (fst e)) d)) m.

Inductive wres := WOk | WMismatch.   (* Store / write command returned nil / "mismatching data" *)

Definition wres_eqb (a b : wres) : bool :=
  match a, b with WOk, WOk | WMismatch, WMismatch => true | _, _ => false end.

Definition optN_eqb (a b : option N) : bool :=
  match a, b with
  | Some x, Some y => N.eqb x y
  | None, None => true
  | _, _ => false
  end.

(* execCommand / MemDBV2.store: keep the existing value; error iff the new data differs. *)
Definition put (k : key) (v : N) (m : store) : store * wres :=
  match lookup k m with
  | Some v' => (m, if N.eqb v' v then WOk else WMismatch)
  | None => ((k, v) :: m, WOk)
  end.

(* the loop of Store over the set, in iteration order [es], returning at the first error *)
Fixpoint put_all (es : list (key * N)) (m : store) : store * wres :=
  match es with
  | [] => (m, WOk)
  | (k, v) :: r =>
      match put k v m with
      | (m', WOk) => put_all r m'
      | (m', WMismatch) => (m', WMismatch)
      end
  end.

(* ---- association lists indexed by reader/query id ---- *)
Section Assoc.
Context {A : Type}.
Fixpoint get (q : N) (l : list (N * A)) : option A :=
  match l with
  | [] => None
  | (q', x) :: r => if N.eqb q' q then Some x else get q r
  end.
Definition del (q : N) (l : list (N * A)) : list (N * A) :=
  filter (fun e => negb (N.eqb (fst e) q)) l.
Definition upd (q : N) (x : A) (l : list (N * A)) : list (N * A) :=
  map (fun e => if N.eqb (fst e) q then (q, x) else e) l.
Definition mapv (f : A -> A) (l : list (N * A)) : list (N * A) :=
  map (fun e => (fst e, f (snd e))) l.
End Assoc.

Fixpoint memN (v : N) (l : list N) : bool :=
  match l with [] => false | x :: r => N.eqb x v || memN v r end.

(* ---- the property as a monitor over events ---- *)

Inductive ev :=
| EStore (es : list (key * N)) (r : wres) (* a store of the entries es (in that order) returned r *)
| EBegin (q : N) (k : key)                (* read q for key k begins *)
| EReturn (q : N) (v : N)                 (* read q returns value v *)
| EMiss (q : N)                           (* read q looked its key up and found nothing *)
| ECancel (q : N)                         (* read q is cancelled and returns the context error *)
| EExpire (d : N)                         (* duty d expires *)
| EQuiet                                  (* nothing can move: every goroutine is blocked *)
| ETau.                                   (* internal step with no meaning for the property *)

(* Ghost state computed from the events alone: what has been stored (first value wins, expiry
   removes), and for every read in progress its key and the values that key has held since the
   read began. *)
Record ghost := mkg { gs : store; gopen : list (N * (key * list N)) }.
Definition ginit : ghost := mkg [] [].

Definition cur (k : key) (m : store) : list N :=
  match lookup k m with Some v => [v] | None => [] end.

Definition refresh (m : store) (o : list (N * (key * list N))) : list (N * (key * list N)) :=
  mapv (fun x => (fst x, cur (fst x) m ++ snd x)) o.

Definition absent (m : store) (e : N * (key * list N)) : bool :=
  match lookup (fst (snd e)) m with None => true | Some _ => false end.

Definition scheck (g : ghost) (e : ev) : bool :=
  match e with
  | EStore es r => wres_eqb r (snd (put_all es (gs g)))
  | EBegin q k => match get q (gopen g) with None => true | Some _ => false end
  | EReturn q v => match get q (gopen g) with Some (k, seen) => memN v seen | None => false end
  | EMiss q => match get q (gopen g) with
               | Some (k, _) => match lookup k (gs g) with None => true | Some _ => false end
               | None => false
               end
  | ECancel q => match get q (gopen g) with Some _ => true | None => false end
  | EExpire d => true
  | EQuiet => forallb (absent (gs g)) (gopen g)
  | ETau => true
  end.

Definition sstep (g : ghost) (e : ev) : ghost :=
  match e with
  | EStore es r => let m := fst (put_all es (gs g)) in mkg m (refresh m (gopen g))
  | EBegin q k => mkg (gs g) (gopen g ++ [(q, (k, cur k (gs g)))])
  | EReturn q v => mkg (gs g) (del q (gopen g))
  | EMiss q => g
  | ECancel q => mkg (gs g) (del q (gopen g))
  | EExpire d => mkg (expire d (gs g)) (gopen g)
  | EQuiet => g
  | ETau => g
  end.

Fixpoint smonitor_from (g : ghost) (es : list ev) : bool :=
  match es with [] => true | e :: r => scheck g e && smonitor_from (sstep g e) r end.
Definition smonitor := smonitor_from ginit.

Fixpoint sfirst_violation (g : ghost) (es : list ev) (i : nat) : option nat :=
  match es with
  | [] => None
  | e :: r => if scheck g e then sfirst_violation (sstep g e) r (S i) else Some i
  end.

Fixpoint gafter (g : ghost) (es : list ev) : ghost :=
  match es with [] => g | e :: r => gafter (sstep g e) r end.
Definition store_after (es : list ev) : store := gs (gafter ginit es).
Definition open_after (es : list ev) : list (N * (key * list N)) := gopen (gafter ginit es).
