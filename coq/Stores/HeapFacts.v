(* Facts about the heap model Stores/Heap.v (property C18). *)
From Coq Require Import List Arith Lia Bool.
From Charon Require Import Stores.Heap.
Import ListNotations.

(* ------------------------------------------------------------------------------------------ *)
(* lists *)

Lemma upd_length {A} (l : list A) i x : length (upd l i x) = length l.
Proof. revert i; induction l; intros [|i]; simpl; auto. Qed.

Lemma upd_app_l {A} (a b : list A) i x : i < length a -> upd (a ++ b) i x = upd a i x ++ b.
Proof.
  revert i; induction a; intros i Hi; simpl in *; [lia|].
  destruct i; simpl; [reflexivity|]. rewrite IHa by lia. reflexivity.
Qed.

Lemma upd_app_r {A} (a b : list A) i x : upd (a ++ b) (length a + i) x = a ++ upd b i x.
Proof. induction a; simpl; [reflexivity|]. rewrite IHa. reflexivity. Qed.

Lemma upd_nth_same {A} (l : list A) i x : i < length l -> nth_error (upd l i x) i = Some x.
Proof. revert i; induction l; intros [|i] Hi; simpl in *; try lia; auto. apply IHl; lia. Qed.

Lemma upd_nth_other {A} (l : list A) i j x : i <> j -> nth_error (upd l i x) j = nth_error l j.
Proof.
  revert i j; induction l; intros i j Hij; simpl; [destruct i; reflexivity|].
  destruct i, j; simpl; try reflexivity; try lia. apply IHl; lia.
Qed.

Lemma upd_split {A} (l1 l2 : list A) y x : upd (l1 ++ y :: l2) (length l1) x = l1 ++ x :: l2.
Proof. induction l1; simpl; [reflexivity|]. rewrite IHl1; reflexivity. Qed.

Lemma nth_error_mid {A} (a b c : list A) o : o < length b -> nth_error (a ++ b ++ c) (length a + o) = nth_error b o.
Proof.
  intro Ho. rewrite nth_error_app2 by lia. rewrite Nat.add_comm, Nat.add_sub.
  apply nth_error_app1; assumption.
Qed.

(* ------------------------------------------------------------------------------------------ *)
(* equality test on trees *)

Lemma tree_eqb_node ts us : tree_eqb (TNode ts) (TNode us) = trees_eqb ts us.
Proof. simpl. revert us; induction ts; intros [|u us]; simpl; auto. Qed.

Lemma tree_eqb_eq : forall a b, tree_eqb a b = true <-> a = b.
Proof.
  induction a using tree_ind'; intros [w|us].
  - simpl. rewrite Nat.eqb_eq. split; [intros ->; reflexivity|intros [= ->]; reflexivity].
  - simpl; split; discriminate.
  - simpl; split; discriminate.
  - rewrite tree_eqb_node. revert us; induction H; intros [|u us]; simpl.
    + split; reflexivity.
    + split; discriminate.
    + split; discriminate.
    + rewrite andb_true_iff, H, IHForall. split.
      * intros [-> [= ->]]; reflexivity.
      * intros [= -> ->]; auto.
Qed.

Lemma tree_eqb_refl a : tree_eqb a a = true.
Proof. apply tree_eqb_eq; reflexivity. Qed.

Lemma tree_eqb_neq a b : a <> b -> tree_eqb a b = false.
Proof. intro H. destruct (tree_eqb a b) eqn:E; [apply tree_eqb_eq in E; contradiction|reflexivity]. Qed.

(* ------------------------------------------------------------------------------------------ *)
(* size and layout *)

Lemma size_pos t : 1 <= size t.
Proof. destruct t; simpl; lia. Qed.

Lemma size_node ts : size (TNode ts) = S (sizes ts).
Proof. reflexivity. Qed.

Lemma sizes_cons x r : sizes (x :: r) = size x + sizes r.
Proof. reflexivity. Qed.

Lemma sizes_app a b : sizes (a ++ b) = sizes a + sizes b.
Proof. unfold sizes. rewrite map_app, list_sum_app. reflexivity. Qed.

Lemma layout_node base ts : layout base (TNode ts) = CNode (kids (S base) ts) :: layouts (S base) ts.
Proof.
  reflexivity.
Qed.

Lemma layout_leaf base v : layout base (TLeaf v) = [CLeaf v].
Proof. reflexivity. Qed.

Lemma layout_length : forall t base, length (layout base t) = size t.
Proof.
  induction t using tree_ind'; intros base; [reflexivity|].
  rewrite layout_node, size_node. simpl. f_equal.
  generalize (S base). induction H; intros b; simpl; [reflexivity|].
  rewrite app_length, H, IHForall. reflexivity.
Qed.

Lemma layouts_length ts b : length (layouts b ts) = sizes ts.
Proof.
  revert b; induction ts; intros b; simpl; [reflexivity|].
  rewrite app_length, layout_length, IHts. reflexivity.
Qed.

Lemma kids_length ts b : length (kids b ts) = length ts.
Proof. revert b; induction ts; intros; simpl; auto. Qed.

Lemma kids_app a c b : kids b (a ++ c) = kids b a ++ kids (b + sizes a) c.
Proof.
  revert b; induction a; intros b; simpl.
  - replace (b + sizes []) with b by (unfold sizes; simpl; lia). reflexivity.
  - rewrite IHa. rewrite sizes_cons. f_equal. f_equal. f_equal. lia.
Qed.

Lemma layouts_app a c b : layouts b (a ++ c) = layouts b a ++ layouts (b + sizes a) c.
Proof.
  revert b; induction a; intros b; simpl.
  - replace (b + sizes []) with b by (unfold sizes; simpl; lia). reflexivity.
  - rewrite IHa, sizes_cons, <- app_assoc. f_equal. f_equal. f_equal. lia.
Qed.

(* the kid addresses depend on the sizes of the siblings only *)
Lemma kids_sizes a c b : map size a = map size c -> kids b a = kids b c.
Proof.
  revert c b; induction a; intros [|y c] b Hm; simpl in *; try discriminate; auto.
  injection Hm as H1 H2. rewrite H1. f_equal. apply IHa; assumption.
Qed.

(* ------------------------------------------------------------------------------------------ *)
(* A value laid out in the heap: the block [b, b + size t) of h is the canonical layout of t. *)

Definition holds (h : heap) (b : nat) (t : tree) : Prop :=
  exists h1 h2, h = h1 ++ layout b t ++ h2 /\ length h1 = b.

Definition holds_list (h : heap) (b : nat) (ts : list tree) : Prop :=
  exists h1 h2, h = h1 ++ layouts b ts ++ h2 /\ length h1 = b.

Lemma holds_bound h b t : holds h b t -> b + size t <= length h.
Proof.
  intros (h1 & h2 & -> & <-). rewrite !app_length, layout_length. lia.
Qed.

Lemma holds_cell h b t o : holds h b t -> o < size t -> nth_error h (b + o) = nth_error (layout b t) o.
Proof.
  intros (h1 & h2 & -> & <-) Ho. apply nth_error_mid. rewrite layout_length; assumption.
Qed.

Lemma holds_root_leaf h b v : holds h b (TLeaf v) -> nth_error h b = Some (CLeaf v).
Proof.
  intro H. replace b with (b + 0) by lia. rewrite (holds_cell _ _ _ 0 H) by (simpl; lia). reflexivity.
Qed.

Lemma holds_root_node h b ts : holds h b (TNode ts) -> nth_error h b = Some (CNode (kids (S b) ts)).
Proof.
  intro H. replace b with (b + 0) at 1 by lia. rewrite (holds_cell _ _ _ 0 H) by (simpl; lia).
  rewrite layout_node. reflexivity.
Qed.

Lemma holds_node_list h b ts : holds h b (TNode ts) -> holds_list h (S b) ts.
Proof.
  intros (h1 & h2 & -> & <-). rewrite layout_node.
  exists (h1 ++ [CNode (kids (S (length h1)) ts)]), h2. split.
  - rewrite <- app_assoc. reflexivity.
  - rewrite app_length. simpl. lia.
Qed.

Lemma holds_list_cons h b x r : holds_list h b (x :: r) -> holds h b x /\ holds_list h (b + size x) r.
Proof.
  intros (h1 & h2 & -> & <-). simpl. split.
  - exists h1, (layouts (length h1 + size x) r ++ h2). split; [rewrite <- app_assoc; reflexivity|reflexivity].
  - exists (h1 ++ layout (length h1) x), h2. split.
    + rewrite <- !app_assoc. reflexivity.
    + rewrite app_length, layout_length. reflexivity.
Qed.

Lemma holds_list_split h b a x c :
  holds_list h b (a ++ x :: c) -> holds h (b + sizes a) x.
Proof.
  intros (h1 & h2 & -> & <-). rewrite layouts_app. simpl.
  exists (h1 ++ layouts (length h1) a), (layouts (length h1 + sizes a + size x) c ++ h2). split.
  - rewrite <- !app_assoc. reflexivity.
  - rewrite app_length, layouts_length. reflexivity.
Qed.

(* the k-th child of a laid out node *)
Lemma holds_kid h b ts k tk :
  holds h b (TNode ts) -> nth_error ts k = Some tk ->
  exists a c, ts = a ++ tk :: c /\ length a = k /\
              nth_error (kids (S b) ts) k = Some (S b + sizes a) /\ holds h (S b + sizes a) tk.
Proof.
  intros H Hk. destruct (nth_error_split _ _ Hk) as (a & c & -> & Hl).
  exists a, c. repeat split; auto.
  - rewrite kids_app. rewrite nth_error_app2 by (rewrite kids_length; lia).
    rewrite kids_length, Hl, Nat.sub_diag. reflexivity.
  - apply holds_node_list in H. eapply holds_list_split; eassumption.
Qed.

Lemma holds_extend h b t x : holds h b t -> holds (h ++ x) b t.
Proof.
  intros (h1 & h2 & -> & <-). exists h1, (h2 ++ x). rewrite <- !app_assoc. auto.
Qed.

Lemma holds_alloc h t : holds (h ++ layout (length h) t) (length h) t.
Proof. exists h, []. rewrite app_nil_r. auto. Qed.

(* a write outside the block does not touch it *)
Lemma holds_upd_outside h b t m c :
  holds h b t -> m < b \/ b + size t <= m -> holds (upd h m c) b t.
Proof.
  intros (h1 & h2 & -> & <-) [Hm|Hm].
  - exists (upd h1 m c), (h2). rewrite upd_app_l by assumption. rewrite upd_length. auto.
  - exists h1, (upd h2 (m - (length h1 + size t)) c). split; [|reflexivity].
    replace m with (length h1 + (size t + (m - (length h1 + size t)))) at 1 by lia.
    rewrite upd_app_r. f_equal.
    rewrite <- (layout_length t (length h1)) at 1. rewrite upd_app_r. reflexivity.
Qed.

(* a write inside the block *)
Lemma holds_upd_inside h b t t2 o c :
  holds h b t -> o < size t -> layout b t2 = upd (layout b t) o c -> holds (upd h (b + o) c) b t2.
Proof.
  intros (h1 & h2 & -> & <-) Ho HL. exists h1, h2. split; [|reflexivity].
  rewrite upd_app_r, upd_app_l by (rewrite layout_length; assumption). rewrite HL. reflexivity.
Qed.

(* ------------------------------------------------------------------------------------------ *)
(* reading a laid out value gives the value *)

Lemma readf_node n h l ks :
  nth_error h l = Some (CNode ks) -> readf (S n) h l = option_map TNode (reads n h ks).
Proof.
  intro H. simpl. rewrite H. clear H. f_equal. induction ks; simpl; [reflexivity|]. rewrite IHks. reflexivity.
Qed.

Lemma readf_leaf n h l v : nth_error h l = Some (CLeaf v) -> readf (S n) h l = Some (TLeaf v).
Proof. intro H. simpl. rewrite H. reflexivity. Qed.

Lemma readf_holds : forall t n h b, holds h b t -> size t <= n -> readf n h b = Some t.
Proof.
  induction t using tree_ind'; intros n h b Hh Hn.
  - destruct n; [simpl in Hn; lia|]. apply readf_leaf. apply holds_root_leaf; assumption.
  - destruct n; [simpl in Hn; lia|]. rewrite size_node in Hn.
    rewrite (readf_node _ _ _ _ (holds_root_node _ _ _ Hh)).
    apply holds_node_list in Hh. assert (Hs : sizes ts <= n) by lia. clear Hn.
    enough (reads n h (kids (S b) ts) = Some ts) as -> by reflexivity.
    revert Hh Hs. generalize (S b). induction H; intros b0 Hh Hs; simpl; [reflexivity|].
    apply holds_list_cons in Hh. destruct Hh as [Hx Hr]. rewrite sizes_cons in Hs.
    rewrite (H n h b0 Hx) by lia. rewrite (IHForall _ Hr) by lia. reflexivity.
Qed.

Lemma read_holds h b t : holds h b t -> read h b = Some t.
Proof.
  intro H. apply readf_holds; [assumption|]. pose proof (holds_bound _ _ _ H). lia.
Qed.

(* ------------------------------------------------------------------------------------------ *)
(* everything reachable from the root of a laid out value lies inside its block *)

Lemma layout_kids_inside : forall t b o ks k,
  nth_error (layout b t) o = Some (CNode ks) -> In k ks -> b <= k < b + size t.
Proof.
  induction t using tree_ind'; intros b o ks k Hn Hin.
  - simpl in Hn. destruct o as [|[|o]]; simpl in Hn; discriminate.
  - rewrite layout_node in Hn. rewrite size_node. destruct o as [|o]; simpl in Hn.
    + injection Hn as <-. clear H.
      assert (A : forall b0, In k (kids b0 ts) -> b0 <= k < b0 + sizes ts).
      { clear Hin. induction ts; intros b0 Hin; simpl in Hin; [contradiction|].
        rewrite sizes_cons. pose proof (size_pos a). destruct Hin as [<-|Hin]; [lia|].
        apply IHts in Hin. lia. }
      apply A in Hin. lia.
    + enough (A : forall b0 o, nth_error (layouts b0 ts) o = Some (CNode ks) -> b0 <= k < b0 + sizes ts).
      { apply A in Hn. lia. }
      clear Hn o. induction H; intros b0 o Hn; simpl in Hn; [destruct o; discriminate|].
      rewrite sizes_cons. destruct (Nat.lt_ge_cases o (size x)) as [Ho|Ho].
      * rewrite nth_error_app1 in Hn by (rewrite layout_length; assumption).
        pose proof (H _ _ _ _ Hn Hin). lia.
      * rewrite nth_error_app2 in Hn by (rewrite layout_length; assumption).
        rewrite layout_length in Hn. apply IHForall in Hn. lia.
Qed.

Lemma reach_inside h b t : holds h b t -> forall l m, reach h l m -> b <= l < b + size t -> b <= m < b + size t.
Proof.
  intros Hh l m Hr. induction Hr as [l c Hc|l ks k m Hc Hin Hr IH]; intros Hl; [assumption|].
  apply IH. replace l with (b + (l - b)) in Hc by lia.
  rewrite (holds_cell _ _ _ _ Hh) in Hc by lia.
  eapply layout_kids_inside; eassumption.
Qed.

Lemma reach_root_inside h b t m : holds h b t -> reach h b m -> b <= m < b + size t.
Proof. intros Hh Hr. eapply reach_inside; eauto. pose proof (size_pos t). lia. Qed.

(* ------------------------------------------------------------------------------------------ *)
(* a write through a handle, on the heap and on the value *)

Lemma upd_sizes ts k tk tk' :
  nth_error ts k = Some tk -> size tk' = size tk -> map size (upd ts k tk') = map size ts.
Proof.
  revert k; induction ts; intros [|k] Hk Hs; simpl in *; try discriminate.
  - injection Hk as ->. rewrite Hs. reflexivity.
  - f_equal. eapply IHts; eassumption.
Qed.

Lemma tset_holds : forall p t h b v t',
  holds h b t -> tset p v t = Some t' ->
  exists o, hfind h p b = Some (b + o) /\ o < size t /\ size t' = size t /\
            layout b t' = upd (layout b t) o (CLeaf v).
Proof.
  induction p as [|k p IH]; intros t h b v t' Hh Hs.
  - destruct t as [w|ts]; simpl in Hs; [|discriminate]. injection Hs as <-.
    exists 0. simpl. rewrite (holds_root_leaf _ _ _ Hh). replace (b + 0) with b by lia. auto.
  - destruct t as [w|ts]; simpl in Hs; [discriminate|].
    destruct (nth_error ts k) as [tk|] eqn:Hk; [|discriminate].
    destruct (tset p v tk) as [tk'|] eqn:Ht; [|discriminate]. injection Hs as <-.
    destruct (holds_kid _ _ _ _ _ Hh Hk) as (a & c & -> & Hl & Hkid & Hhk).
    destruct (IH _ _ _ _ _ Hhk Ht) as (o & Hf & Ho & Hsz & HL).
    exists (S (sizes a + o)). repeat split.
    + simpl. rewrite (holds_root_node _ _ _ Hh), Hkid, Hf. f_equal. lia.
    + rewrite size_node, sizes_app, sizes_cons. lia.
    + rewrite <- Hl, upd_split. rewrite !size_node, !sizes_app, !sizes_cons. lia.
    + rewrite <- Hl, upd_split. rewrite !layout_node. simpl. f_equal.
      * f_equal. apply kids_sizes. rewrite !map_app. simpl. rewrite Hsz. reflexivity.
      * rewrite !layouts_app. simpl. rewrite Hsz. simpl in HL.
        replace (sizes a + o) with (length (layouts (S b) a) + o) by (rewrite layouts_length; reflexivity).
        rewrite upd_app_r. f_equal.
        rewrite upd_app_l by (rewrite layout_length; assumption). rewrite HL. reflexivity.
Qed.

(* conversely, a path that the heap can follow is a path of the value *)
Lemma hfind_tset : forall p t h b v m,
  holds h b t -> hfind h p b = Some m -> exists t', tset p v t = Some t'.
Proof.
  induction p as [|k p IH]; intros t h b v m Hh Hf.
  - destruct t as [w|ts]; [eexists; reflexivity|].
    simpl in Hf. rewrite (holds_root_node _ _ _ Hh) in Hf. discriminate.
  - destruct t as [w|ts]; simpl in Hf.
    + rewrite (holds_root_leaf _ _ _ Hh) in Hf. discriminate.
    + rewrite (holds_root_node _ _ _ Hh) in Hf.
      destruct (nth_error (kids (S b) ts) k) as [l'|] eqn:Hk; [|discriminate].
      assert (Hlt : k < length ts).
      { rewrite <- (kids_length ts (S b)). apply nth_error_Some. congruence. }
      destruct (nth_error ts k) as [tk|] eqn:Htk; [|apply nth_error_None in Htk; lia].
      destruct (holds_kid _ _ _ _ _ Hh Htk) as (a & c & -> & Hl & Hkid & Hhk).
      rewrite Hkid in Hk. injection Hk as <-.
      destruct (IH _ _ _ v _ Hhk Hf) as (tk' & Ht).
      simpl. rewrite Htk, Ht. eexists; reflexivity.
Qed.

(* ------------------------------------------------------------------------------------------ *)
(* The invariant that ties the heap to the ghost values: every handle's block is the canonical
   layout of its private value, and the blocks of different handles are disjoint. *)

Definition disjoint_blocks (rs : list loc) (g : list tree) : Prop :=
  forall i j ri rj ti tj, i <> j ->
    nth_error rs i = Some ri -> nth_error rs j = Some rj ->
    nth_error g i = Some ti -> nth_error g j = Some tj ->
    ri + size ti <= rj \/ rj + size tj <= ri.

Record Inv (s : state) (g : list tree) : Prop := mkInv {
  inv_len : length (roots s) = length g;
  inv_holds : forall i r t, nth_error (roots s) i = Some r -> nth_error g i = Some t -> holds (hp s) r t;
  inv_sep : disjoint_blocks (roots s) g }.

Lemma nth_error_snoc {A} (l : list A) x i y :
  nth_error (l ++ [x]) i = Some y -> (i < length l /\ nth_error l i = Some y) \/ (i = length l /\ y = x).
Proof.
  intro H. destruct (Nat.lt_ge_cases i (length l)) as [Hi|Hi].
  - left. rewrite nth_error_app1 in H by assumption. auto.
  - right. rewrite nth_error_app2 in H by assumption.
    destruct (i - length l) as [|d] eqn:E; simpl in H.
    + injection H as <-. split; [lia|reflexivity].
    + destruct d; discriminate.
Qed.

Lemma inv_init : Inv init [].
Proof.
  constructor; simpl; [reflexivity| |].
  - intros [|i] r t H; discriminate.
  - intros [|i] j ri rj ti tj _ H; discriminate.
Qed.

Lemma inv_alloc s g t : Inv s g -> Inv (alloc s t) (g ++ [t]).
Proof.
  intros [Hl Hh Hs]. constructor; unfold alloc; simpl.
  - rewrite !app_length, Hl. reflexivity.
  - intros i r t0 Hr Ht. apply nth_error_snoc in Hr. apply nth_error_snoc in Ht.
    destruct Hr as [[Hi Hr]|[Hi ->]], Ht as [[Hj Ht]|[Hj ->]]; try lia.
    + apply holds_extend. eapply Hh; eassumption.
    + apply holds_alloc.
  - intros i j ri rj ti tj Hij Hri Hrj Hti Htj.
    apply nth_error_snoc in Hri, Hrj, Hti, Htj.
    destruct Hri as [[Hi Hri]|[Hi ->]], Hti as [[Hi' Hti]|[Hi' ->]]; try lia;
    destruct Hrj as [[Hj Hrj]|[Hj ->]], Htj as [[Hj' Htj]|[Hj' ->]]; try lia.
    + eapply Hs; eassumption.
    + left. eapply holds_bound, Hh; eassumption.
    + right. eapply holds_bound, Hh; eassumption.
Qed.

Lemma inv_mutate s g i r t pa v t' m :
  Inv s g -> nth_error (roots s) i = Some r -> nth_error g i = Some t ->
  tset pa v t = Some t' -> hfind (hp s) pa r = Some m ->
  Inv (mk (upd (hp s) m (CLeaf v)) (roots s)) (upd g i t').
Proof.
  intros [Hl Hh Hs] Hr Hg Ht Hf.
  destruct (tset_holds _ _ _ _ _ _ (Hh _ _ _ Hr Hg) Ht) as (o & Hf' & Ho & Hsz & HL).
  rewrite Hf in Hf'. injection Hf' as ->.
  assert (Hi : i < length g) by (apply nth_error_Some; congruence).
  constructor; simpl.
  - rewrite upd_length. assumption.
  - intros j rj tj Hrj Htj. destruct (Nat.eq_dec i j) as [<-|Hij].
    + rewrite upd_nth_same in Htj by assumption. injection Htj as <-.
      rewrite Hr in Hrj. injection Hrj as <-.
      eapply holds_upd_inside; eauto.
    + rewrite upd_nth_other in Htj by assumption.
      apply holds_upd_outside; [eapply Hh; eassumption|].
      destruct (Hs i j r rj t tj Hij Hr Hrj Hg Htj); lia.
  - intros a b ra rb ta tb Hab Hra Hrb Hta Htb.
    assert (E : forall c rc tc, nth_error (roots s) c = Some rc -> nth_error (upd g i t') c = Some tc ->
                exists tc0, nth_error g c = Some tc0 /\ size tc0 = size tc).
    { intros c rc tc Hrc Htc. destruct (Nat.eq_dec i c) as [<-|Hic].
      - rewrite upd_nth_same in Htc by assumption. injection Htc as <-. exists t; auto.
      - rewrite upd_nth_other in Htc by assumption. exists tc; auto. }
    destruct (E _ _ _ Hra Hta) as (ta0 & Hta0 & <-). destruct (E _ _ _ Hrb Htb) as (tb0 & Htb0 & <-).
    eapply Hs; eassumption.
Qed.

Section Steps.
Variable pol : nat -> policy.

Lemma step_inv s g l s' :
  (forall p i, l = LCross p i -> pol p = Clone) ->
  Inv s g -> step pol s l = Some s' -> exists g', gstep g l = Some g' /\ Inv s' g'.
Proof.
  intros Hc HI Hst. pose proof HI as [Hl Hh Hs]. destruct l as [t|p i|i pa v|i t]; simpl in *.
  - injection Hst as <-. eexists; split; [reflexivity|]. apply inv_alloc; assumption.
  - destruct (nth_error (roots s) i) as [r|] eqn:Hr; [|discriminate].
    rewrite (Hc p i eq_refl) in Hst.
    assert (Hi : i < length g) by (rewrite <- Hl; apply nth_error_Some; congruence).
    destruct (nth_error g i) as [t|] eqn:Hg; [|apply nth_error_None in Hg; lia].
    rewrite (read_holds _ _ _ (Hh _ _ _ Hr Hg)) in Hst. injection Hst as <-.
    eexists; split; [reflexivity|]. apply inv_alloc; assumption.
  - destruct (nth_error (roots s) i) as [r|] eqn:Hr; [|discriminate].
    destruct (hfind (hp s) pa r) as [m|] eqn:Hf; [|discriminate]. injection Hst as <-.
    assert (Hi : i < length g) by (rewrite <- Hl; apply nth_error_Some; congruence).
    destruct (nth_error g i) as [t|] eqn:Hg; [|apply nth_error_None in Hg; lia].
    destruct (hfind_tset _ _ _ _ v _ (Hh _ _ _ Hr Hg) Hf) as (t' & Ht). rewrite Ht.
    eexists; split; [reflexivity|]. eapply inv_mutate; eassumption.
  - destruct (nth_error (roots s) i) as [r|] eqn:Hr; [|discriminate].
    assert (Hi : i < length g) by (rewrite <- Hl; apply nth_error_Some; congruence).
    destruct (nth_error g i) as [t0|] eqn:Hg; [|apply nth_error_None in Hg; lia].
    rewrite (read_holds _ _ _ (Hh _ _ _ Hr Hg)) in Hst.
    destruct (tree_eqb t t0); [|discriminate]. injection Hst as <-.
    eexists; split; [reflexivity|assumption].
Qed.

Lemma run_inv : forall ls s g s',
  crosses_clone pol ls -> Inv s g -> run pol s ls = Some s' -> exists g', grun g ls = Some g' /\ Inv s' g'.
Proof.
  induction ls as [|l ls IH]; intros s g s' Hc HI Hr; simpl in *.
  - injection Hr as <-. eauto.
  - destruct (step pol s l) as [s1|] eqn:Hst; [|discriminate].
    destruct (step_inv s g l s1) as (g1 & Hg1 & HI1); auto.
    { intros p i ->. apply (Hc p i). left; reflexivity. }
    rewrite Hg1. apply (IH s1 g1 s'); auto. intros p i Hin. apply (Hc p i). right; assumption.
Qed.

End Steps.

(* ------------------------------------------------------------------------------------------ *)
(* Main theorem: if every boundary crossing is a clone, every history the heap semantics can
   produce satisfies the value-semantics monitor, and handles never reach a common location. *)

Definition separated (s : state) : Prop :=
  forall i j ri rj m, i <> j ->
    nth_error (roots s) i = Some ri -> nth_error (roots s) j = Some rj ->
    reach (hp s) ri m -> reach (hp s) rj m -> False.

Lemma inv_separated s g : Inv s g -> separated s.
Proof.
  intros [Hl Hh Hs] i j ri rj m Hij Hri Hrj Hmi Hmj.
  assert (Hi : i < length g) by (rewrite <- Hl; apply nth_error_Some; congruence).
  assert (Hj : j < length g) by (rewrite <- Hl; apply nth_error_Some; congruence).
  destruct (nth_error g i) as [ti|] eqn:Hgi; [|apply nth_error_None in Hgi; lia].
  destruct (nth_error g j) as [tj|] eqn:Hgj; [|apply nth_error_None in Hgj; lia].
  pose proof (reach_root_inside _ _ _ _ (Hh _ _ _ Hri Hgi) Hmi).
  pose proof (reach_root_inside _ _ _ _ (Hh _ _ _ Hrj Hgj) Hmj).
  destruct (Hs i j ri rj ti tj Hij Hri Hrj Hgi Hgj); lia.
Qed.

Theorem clone_boundary_noninterference : forall pol ls s,
  crosses_clone pol ls -> run pol init ls = Some s -> monitor ls = true /\ separated s.
Proof.
  intros pol ls s Hc Hr. destruct (run_inv pol ls init [] s Hc inv_init Hr) as (g & Hg & HI).
  split; [unfold monitor; rewrite Hg; reflexivity|eapply inv_separated; eassumption].
Qed.

(* what a handle reads is its ghost value *)
Lemma run_read_ghost pol ls s g i r :
  crosses_clone pol ls -> run pol init ls = Some s -> grun [] ls = Some g ->
  nth_error (roots s) i = Some r -> exists t, nth_error g i = Some t /\ read (hp s) r = Some t.
Proof.
  intros Hc Hr Hg Hi. destruct (run_inv pol ls init [] s Hc inv_init Hr) as (g' & Hg' & [Hl Hh Hs]).
  rewrite Hg in Hg'. injection Hg' as <-.
  assert (i < length g) by (rewrite <- Hl; apply nth_error_Some; congruence).
  destruct (nth_error g i) as [t|] eqn:E; [|apply nth_error_None in E; lia].
  exists t. split; [reflexivity|]. apply read_holds. eapply Hh; eassumption.
Qed.

(* ------------------------------------------------------------------------------------------ *)
(* Readings of the monitor. *)

Lemma grun_app g a b : grun g (a ++ b) = match grun g a with Some g' => grun g' b | None => None end.
Proof. revert g; induction a; intros g; simpl; [reflexivity|]. destruct (gstep g a); auto. Qed.

Lemma run_app pol s a b : run pol s (a ++ b) = match run pol s a with Some s' => run pol s' b | None => None end.
Proof. revert s; induction a; intros s; simpl; [reflexivity|]. destruct (step pol s a); auto. Qed.

Lemma monitor_prefix a b : monitor (a ++ b) = true -> monitor a = true.
Proof. unfold monitor. rewrite grun_app. destruct (grun [] a); [reflexivity|discriminate]. Qed.

Definition is_mutate_of (j : nat) (l : label) : Prop := exists pa v, l = LMutate j pa v.

Lemma gstep_stable g l g' j t :
  gstep g l = Some g' -> ~ is_mutate_of j l -> nth_error g j = Some t -> nth_error g' j = Some t.
Proof.
  intros Hs Hn Hj. assert (Hlt : j < length g) by (apply nth_error_Some; congruence).
  destruct l as [t0|p i|i pa v|i t0]; simpl in Hs.
  - injection Hs as <-. rewrite nth_error_app1; assumption.
  - destruct (nth_error g i); [|discriminate]. injection Hs as <-. rewrite nth_error_app1; assumption.
  - destruct (nth_error g i) as [ti|] eqn:Hi; [|discriminate].
    destruct (tset pa v ti); [|discriminate]. injection Hs as <-.
    rewrite upd_nth_other; [assumption|]. intros ->. apply Hn. exists pa, v. reflexivity.
  - destruct (nth_error g i); [|discriminate]. destruct (tree_eqb t0 t1); [|discriminate].
    injection Hs as <-. assumption.
Qed.

Lemma grun_stable : forall mid g g' j t,
  grun g mid = Some g' -> (forall l, In l mid -> ~ is_mutate_of j l) ->
  nth_error g j = Some t -> nth_error g' j = Some t.
Proof.
  induction mid as [|l mid IH]; intros g g' j t Hr Hn Hj; simpl in Hr.
  - injection Hr as <-. assumption.
  - destruct (gstep g l) as [g1|] eqn:Hs; [|discriminate].
    apply (IH g1 g' j t Hr); [intros l' Hl'; apply Hn; right; assumption|].
    eapply gstep_stable; eauto. apply Hn. left; reflexivity.
Qed.

Lemma gstep_read g i t g' : gstep g (LRead i t) = Some g' -> g' = g /\ nth_error g i = Some t.
Proof.
  simpl. destruct (nth_error g i) as [t0|]; [|discriminate].
  destruct (tree_eqb t t0) eqn:E; [|discriminate]. apply tree_eqb_eq in E. subst.
  intros [= <-]. auto.
Qed.

(* Between two reads through the same handle, whatever the other parties do -- build values, pass
   values across boundaries, write through THEIR handles -- the value read does not change. *)
Theorem monitor_reads_stable : forall pre j t1 mid t2 post,
  monitor (pre ++ LRead j t1 :: mid ++ LRead j t2 :: post) = true ->
  (forall l, In l mid -> ~ is_mutate_of j l) -> t1 = t2.
Proof.
  intros pre j t1 mid t2 post Hm Hn. unfold monitor in Hm. rewrite grun_app in Hm.
  destruct (grun [] pre) as [g0|]; [|discriminate]. cbn [grun] in Hm.
  destruct (gstep g0 (LRead j t1)) as [g1|] eqn:H1; [|discriminate].
  apply gstep_read in H1. destruct H1 as [-> Hj].
  rewrite grun_app in Hm. destruct (grun g0 mid) as [g2|] eqn:H2; [|discriminate]. cbn [grun] in Hm.
  destruct (gstep g2 (LRead j t2)) as [g3|] eqn:H3; [|discriminate].
  apply gstep_read in H3. destruct H3 as [_ Hj2].
  pose proof (grun_stable _ _ _ _ _ H2 Hn Hj) as Hj'. congruence.
Qed.

(* number of handles created by a history *)
Fixpoint handles (ls : list label) : nat :=
  match ls with
  | [] => 0
  | LAlloc _ :: r | LCross _ _ :: r => S (handles r)
  | _ :: r => handles r
  end.

Lemma gstep_length g l g' : gstep g l = Some g' -> length g' = length g + handles [l].
Proof.
  destruct l as [t0|p i|i pa v|i t0]; simpl; intro H.
  - injection H as <-. rewrite app_length; simpl; lia.
  - destruct (nth_error g i); [|discriminate]. injection H as <-. rewrite app_length; simpl; lia.
  - destruct (nth_error g i); [|discriminate]. destruct (tset pa v t); [|discriminate].
    injection H as <-. rewrite upd_length. lia.
  - destruct (nth_error g i); [|discriminate]. destruct (tree_eqb t0 t); [|discriminate].
    injection H as <-. lia.
Qed.

Lemma handles_app a b : handles (a ++ b) = handles a + handles b.
Proof. induction a as [|[| | |] a IH]; simpl; lia. Qed.

Lemma grun_length : forall ls g g', grun g ls = Some g' -> length g' = length g + handles ls.
Proof.
  induction ls as [|l ls IH]; intros g g' H; simpl in H.
  - injection H as <-. simpl; lia.
  - destruct (gstep g l) as [g1|] eqn:E; [|discriminate].
    apply IH in H. apply gstep_length in E. change (l :: ls) with ([l] ++ ls).
    rewrite handles_app. lia.
Qed.

(* A value handed across a boundary (into a store, out of a store, to a subscriber) is received as
   it was at that moment: later writes through the giver's handle -- or through any other handle --
   are never seen through the receiver's handle. *)
Theorem monitor_crossed_value_fixed : forall pre i t p mid t' post,
  monitor (pre ++ LRead i t :: LCross p i :: mid ++ LRead (handles pre) t' :: post) = true ->
  (forall l, In l mid -> ~ is_mutate_of (handles pre) l) -> t' = t.
Proof.
  intros pre i t p mid t' post Hm Hn. unfold monitor in Hm. rewrite grun_app in Hm.
  destruct (grun [] pre) as [g0|] eqn:H0; [|discriminate]. simpl in Hm.
  apply grun_length in H0. simpl in H0.
  destruct (nth_error g0 i) as [t0|] eqn:Hi; [|discriminate].
  destruct (tree_eqb t t0) eqn:E; [|discriminate]. apply tree_eqb_eq in E. subst t0.
  rewrite Hi in Hm.
  rewrite grun_app in Hm. destruct (grun (g0 ++ [t]) mid) as [g2|] eqn:H2; [|discriminate]. simpl in Hm.
  assert (Hn0 : nth_error (g0 ++ [t]) (handles pre) = Some t).
  { rewrite nth_error_app2 by lia. rewrite <- H0, Nat.sub_diag. reflexivity. }
  pose proof (grun_stable _ _ _ _ _ H2 Hn Hn0) as Hn2. rewrite Hn2 in Hm.
  destruct (tree_eqb t' t) eqn:E; [|discriminate]. apply tree_eqb_eq in E. assumption.
Qed.

(* ------------------------------------------------------------------------------------------ *)
(* Converse: one Share entry on a path that is exercised breaks isolation.  After ANY history
   (any number of handles), for ANY value t with a writable leaf, the extension
     build t; pass it across p; write the leaf through the giver's handle; read through the receiver's
   is a history of the heap semantics in which the receiver observes the write, and both handles
   reach the written location. *)

Definition share_witness (n : nat) (p : nat) (t : tree) (pa : list nat) (v : nat) (t' : tree) : list label :=
  [LAlloc t; LCross p n; LMutate n pa v; LRead (S n) t'].

Lemma reach_self_holds h b t : holds h b t -> reach h b b.
Proof.
  intro H. destruct t.
  - eapply reach_here. apply holds_root_leaf; eassumption.
  - eapply reach_here. apply holds_root_node; eassumption.
Qed.

Lemma hfind_reach : forall p h l m, hfind h p l = Some m -> reach h l m.
Proof.
  induction p as [|k p IH]; intros h l m H; simpl in H.
  - destruct (nth_error h l) as [[v|ks]|] eqn:E; try discriminate. injection H as <-.
    eapply reach_here; eassumption.
  - destruct (nth_error h l) as [[v|ks]|] eqn:E; try discriminate.
    destruct (nth_error ks k) as [l'|] eqn:Ek; [|discriminate].
    eapply reach_kid; [eassumption|eapply nth_error_In; eassumption|apply IH; assumption].
Qed.

Lemma nth_error_snoc_at {A} (l : list A) x : nth_error (l ++ [x]) (length l) = Some x.
Proof. rewrite nth_error_app2 by lia. rewrite Nat.sub_diag. reflexivity. Qed.

Lemma nth_error_snoc2_at {A} (l : list A) x y : nth_error ((l ++ [x]) ++ [y]) (length l) = Some x.
Proof. rewrite nth_error_app1 by (rewrite app_length; simpl; lia). apply nth_error_snoc_at. Qed.

Lemma nth_error_snoc2_last {A} (l : list A) x y : nth_error ((l ++ [x]) ++ [y]) (S (length l)) = Some y.
Proof.
  replace (S (length l)) with (length (l ++ [x])) by (rewrite app_length; simpl; lia).
  apply nth_error_snoc_at.
Qed.

Lemma hfind_leaf : forall p h l m, hfind h p l = Some m -> exists w, nth_error h m = Some (CLeaf w).
Proof.
  induction p as [|k p IH]; intros h l m H; simpl in H.
  - destruct (nth_error h l) as [[w|ks]|] eqn:E; try discriminate. injection H as <-. eauto.
  - destruct (nth_error h l) as [[w|ks]|] eqn:E; try discriminate.
    destruct (nth_error ks k) as [l'|]; [|discriminate]. eapply IH; eassumption.
Qed.

(* overwriting a leaf cell by a leaf cell keeps every pointer, hence reachability *)
Lemma reach_upd_leaf h m w v l x :
  nth_error h m = Some (CLeaf w) -> reach h l x -> reach (upd h m (CLeaf v)) l x.
Proof.
  intros Hm Hr. assert (Hlt : m < length h) by (apply nth_error_Some; congruence).
  induction Hr as [l c Hc|l ks k x Hc Hin Hr IH].
  - destruct (Nat.eq_dec m l) as [<-|Hne].
    + eapply reach_here. apply upd_nth_same; assumption.
    + eapply reach_here. rewrite upd_nth_other by assumption. eassumption.
  - eapply reach_kid; [|eassumption|assumption].
    rewrite upd_nth_other; [assumption|]. intros <-. congruence.
Qed.

(* the run of the witness from a state *)
Lemma share_witness_run pol p s t pa v t' :
  pol p = Share -> tset pa v t = Some t' ->
  exists o, o < size t /\
    hfind (hp s ++ layout (length (hp s)) t) pa (length (hp s)) = Some (length (hp s) + o) /\
    run pol s (share_witness (length (roots s)) p t pa v t') =
      Some (mk (upd (hp s ++ layout (length (hp s)) t) (length (hp s) + o) (CLeaf v))
               ((roots s ++ [length (hp s)]) ++ [length (hp s)])) /\
    holds (upd (hp s ++ layout (length (hp s)) t) (length (hp s) + o) (CLeaf v)) (length (hp s)) t'.
Proof.
  intros Hp Ht. set (b := length (hp s)).
  assert (Hb : holds (hp s ++ layout b t) b t) by apply holds_alloc.
  destruct (tset_holds _ _ _ _ _ _ Hb Ht) as (o & Hf & Ho & Hsz & HL).
  pose proof (holds_upd_inside _ _ _ _ _ _ Hb Ho HL) as Hb'.
  exists o. split; [assumption|]. split; [assumption|]. split; [|assumption].
  unfold share_witness. cbn [run step alloc hp roots]. fold b.
  rewrite nth_error_snoc_at. rewrite Hp. cbn [hp roots].
  rewrite nth_error_snoc2_at. rewrite Hf. cbn [hp roots].
  rewrite nth_error_snoc2_last. rewrite (read_holds _ _ _ Hb'). rewrite tree_eqb_refl. reflexivity.
Qed.

(* ... and of the ghost *)
Lemma share_witness_ghost g p t pa v t' :
  tset pa v t = Some t' -> t' <> t -> grun g (share_witness (length g) p t pa v t') = None.
Proof.
  intros Ht Hne. unfold share_witness. cbn [grun gstep].
  rewrite nth_error_snoc_at. rewrite nth_error_snoc2_at. rewrite Ht.
  assert (E : upd ((g ++ [t]) ++ [t]) (length g) t' = (g ++ [t']) ++ [t]).
  { rewrite <- app_assoc. simpl. rewrite upd_split. rewrite <- app_assoc. reflexivity. }
  rewrite E. rewrite nth_error_snoc2_last. rewrite tree_eqb_neq by assumption. reflexivity.
Qed.

Theorem share_breaks_isolation : forall pol p,
  pol p = Share ->
  forall pre s, crosses_clone pol pre -> run pol init pre = Some s ->
  forall t pa v t', tset pa v t = Some t' -> t' <> t ->
  let n := length (roots s) in
  let ls := pre ++ share_witness n p t pa v t' in
  (exists s' r m, run pol init ls = Some s' /\
                  nth_error (roots s') n = Some r /\ nth_error (roots s') (S n) = Some r /\
                  reach (hp s') r m /\ nth_error (hp s') m = Some (CLeaf v)) /\
  monitor ls = false.
Proof.
  intros pol p Hp pre s Hc Hr t pa v t' Ht Hne n ls.
  destruct (run_inv pol pre init [] s Hc inv_init Hr) as (g & Hg & [Hl Hh Hs]).
  destruct (share_witness_run pol p s t pa v t' Hp Ht) as (o & Ho & Hf & Hrun & Hb').
  split.
  - eexists _, (length (hp s)), (length (hp s) + o). split; [|split; [|split; [|split]]].
    + unfold ls. rewrite run_app, Hr. exact Hrun.
    + cbn [roots]. apply nth_error_snoc2_at.
    + cbn [roots]. apply nth_error_snoc2_last.
    + cbn [hp]. destruct (hfind_leaf _ _ _ _ Hf) as (w & Hw).
      eapply reach_upd_leaf; [eassumption|]. eapply hfind_reach; eassumption.
    + cbn [hp]. apply upd_nth_same. rewrite app_length, layout_length. lia.
  - unfold ls, monitor. rewrite grun_app, Hg. unfold n. rewrite Hl.
    rewrite (share_witness_ghost g p t pa v t' Ht Hne). reflexivity.
Qed.

(* ------------------------------------------------------------------------------------------ *)
(* Policy tables *)

Lemma in_paths_of ls p i : In (LCross p i) ls -> In p (paths_of ls).
Proof.
  induction ls as [|l ls IH]; simpl; [auto|]. intros [->|H]; [left; reflexivity|].
  destruct l; simpl; auto.
Qed.

Lemma all_clone_pol_of tb p :
  all_clone tb = true -> existsb (fun e => Nat.eqb (fst e) p) tb = true -> pol_of tb p = Clone.
Proof.
  induction tb as [|[q x] tb IH]; simpl; [discriminate|]. unfold all_clone in *. simpl.
  rewrite andb_true_iff. intros [Hx Ha] He. destruct (Nat.eqb q p) eqn:E.
  - destruct x; [reflexivity|discriminate].
  - apply IH; assumption.
Qed.

Lemma table_crosses_clone tb ls :
  all_clone tb = true -> covered tb ls = true -> crosses_clone (pol_of tb) ls.
Proof.
  intros Ha Hc p i Hin. apply all_clone_pol_of; [assumption|].
  unfold covered in Hc. rewrite forallb_forall in Hc. apply Hc. eapply in_paths_of; eassumption.
Qed.

(* The theorem in the form the check uses it: for the table of boundary policies observed on the
   code, if every entry is Clone then every history over the observed paths is isolated. *)
Theorem table_noninterference : forall tb ls s,
  all_clone tb = true -> covered tb ls = true -> run (pol_of tb) init ls = Some s ->
  monitor ls = true /\ separated s.
Proof.
  intros tb ls s Ha Hc Hr. eapply clone_boundary_noninterference; [|eassumption].
  apply table_crosses_clone; assumption.
Qed.

Lemma share_entries_nil tb : share_entries tb = [] <-> all_clone tb = true.
Proof.
  unfold share_entries, all_clone. induction tb as [|[q x] tb IH]; simpl; [tauto|].
  destruct x; simpl; [exact IH|]. split; discriminate.
Qed.

(* ------------------------------------------------------------------------------------------ *)
(* Examples *)

Definition ex_value : tree := TNode [TLeaf 1; TNode [TLeaf 2; TLeaf 3]].
Definition ex_history : list label :=
  [LAlloc ex_value;            (* caller builds x               handle 0 *)
   LCross 0 0;                 (* Store(x): the store's copy    handle 1 *)
   LCross 1 1;                 (* first Await                   handle 2 *)
   LCross 1 1;                 (* second Await                  handle 3 *)
   LMutate 0 [1; 0] 9;         (* caller writes into x *)
   LMutate 2 [0] 7;            (* first reader writes into its result *)
   LRead 3 ex_value;           (* second reader still sees the stored value *)
   LCross 1 1;                 (* a later Await                 handle 4 *)
   LRead 4 ex_value;
   LRead 0 (TNode [TLeaf 1; TNode [TLeaf 9; TLeaf 3]]);
   LRead 2 (TNode [TLeaf 7; TNode [TLeaf 2; TLeaf 3]])].

Lemma example_accepted :
  (exists s, run (fun _ => Clone) init ex_history = Some s) /\ monitor ex_history = true.
Proof. split; [eexists|]; vm_compute; reflexivity. Qed.

Definition f7_history : list label :=
  [LAlloc ex_value; LCross 0 0; LCross 1 1; LCross 1 1; LMutate 2 [0] 7;
   LRead 3 (TNode [TLeaf 7; TNode [TLeaf 2; TLeaf 3]])].

Lemma await_alias_refuted_before_fix :
  (exists s, run (fun p => if Nat.eqb p 1 then Share else Clone) init f7_history = Some s) /\
  monitor f7_history = false.
Proof. split; [eexists|]; vm_compute; reflexivity. Qed.
