(* Model of core/parsigdb/memory.go (MemDB: StoreExternal / StoreInternal / store /
   getThresholdMatching / trackExemptUnsafe / evictExemptShareEntryUnsafe / Trim).

   The model is a labelled transition system  step : state -> label -> option state  whose atomic
   step is ONE critical section of the real component:

     ABegin c i d st b   call c (StoreInternal if i, else StoreExternal) for duty d starts, the
                         deadliner answered st, the set handed in is b (a Go map: distinct pubkeys)
     AEntry c e          call c runs the loop body for entry e of its set: SyncSubcommitteeIndex,
                         then [store] (append + snapshot under db.mu) and getThresholdMatching on
                         that snapshot.  The result is a deterministic function of the state.
     AEnd c err out il   call c returns err; the threshold subscribers were called with out
                         (None = not called); il = the internal subscribers were called
     ATrim d             Trim received d from deadliner.C() and deleted its keys (under db.mu)

   Concurrent StoreExternal/StoreInternal calls are interleavings of these labels (several calls
   open at the same time), because [store] holds db.mu for the whole append+copy and
   getThresholdMatching only reads the private copy.  The order in which a call runs its entries
   (Go map iteration order) is whatever the trace says; theorems quantify over all traces.

   [pre] = true is the code BEFORE the two repairs d3604d8 / d8f5add (F1a: every root group was
   scanned; F1b: the first failing entry returned before the subscribers were called), [prec] =
   true the code before 215089b (F1c: the per-share cap of exempt duties evicted a signature also
   from an entry that had reached the threshold, so the share could store it again and the
   entry fired twice).  They are kept only for the three refutation witnesses; everything else
   is about [pre] = [prec] = false = the code as it is.  The pre-repair getThresholdMatching iterated a Go map of root groups; [thresh_pre]
   resolves that choice to the first group in order of appearance, which is one of the outcomes
   the old code could show (the witnesses have a single candidate group, so nothing hinges on it).

   Not modelled: subscribers that return an error (ours return nil), errors from
   MessageRoot/Clone/json.Marshal of well-formed values, metrics, logging, threshold = 0. *)
From Coq Require Import List Arith Bool Lia PeanoNat.
Import ListNotations.

Definition duty := (nat * nat)%type.                 (* slot, duty type (core.DutyType number) *)
Definition key := (duty * nat * nat)%type.           (* duty, pubkey, sync subcommittee index *)
Definition ekey := (nat * nat * nat)%type.           (* exemptEntryKey: share, pubkey, duty type *)
Definition kduty (k : key) : duty := fst (fst k).
Definition kpk (k : key) : nat := snd (fst k).
Definition dtype (d : duty) : nat := snd d.

(* One partial signature: share index, message root, identity of the JSON encoding (what
   parSignedDataEqual compares). *)
Record partial := P { share : nat; root : nat; pid : nat }.

Inductive entry :=
| EGood (pk sub : nat) (p : partial)   (* SyncSubcommitteeIndex = sub *)
| EBad (pk : nat).                     (* SyncSubcommitteeIndex fails (wrong payload type) *)

Inductive status := Expired | Scheduled | Exempt.
Inductive err := ENone | EMismatch | EOther.
Definition outmap := list (nat * nat * list partial).   (* pubkey, subcommittee of the data, partials *)

Inductive label :=
| ABegin (c : nat) (internal : bool) (d : duty) (st : status) (batch : list entry)
| AEntry (c : nat) (e : entry)
| AEnd (c : nat) (er : err) (out : option outmap) (intl : bool)
| ATrim (d : duty).

Definition ty_signature := 3.
Definition ty_exit := 4.
Definition ty_builder_registration := 6.
Definition max_exempt := 10.            (* maxExemptEntriesPerShare *)

(* ---- decidable equalities ---- *)
Definition duty_eqb (a b : duty) := (fst a =? fst b) && (snd a =? snd b).
Definition key_eqb (a b : key) := duty_eqb (kduty a) (kduty b) && (kpk a =? kpk b) && (snd a =? snd b).
Definition ekey_eqb (a b : ekey) := (fst (fst a) =? fst (fst b)) && (snd (fst a) =? snd (fst b)) && (snd a =? snd b).
Definition partial_eqb (a b : partial) := (share a =? share b) && (root a =? root b) && (pid a =? pid b).
Fixpoint plist_eqb (a b : list partial) : bool :=
  match a, b with
  | [], [] => true
  | x :: r, y :: s => partial_eqb x y && plist_eqb r s
  | _, _ => false
  end.
Definition entry_eqb (a b : entry) : bool :=
  match a, b with
  | EGood pk sub p, EGood pk' sub' p' => (pk =? pk') && (sub =? sub') && partial_eqb p p'
  | EBad pk, EBad pk' => pk =? pk'
  | _, _ => false
  end.
Definition oelt_eqb (a b : nat * nat * list partial) : bool :=
  (fst (fst a) =? fst (fst b)) && (snd (fst a) =? snd (fst b)) && plist_eqb (snd a) (snd b).
Definition status_eqb (a b : status) : bool :=
  match a, b with Expired, Expired | Scheduled, Scheduled | Exempt, Exempt => true | _, _ => false end.
Definition is_nil {A} (l : list A) : bool := match l with [] => true | _ => false end.
Definition is_enone (e : err) : bool := match e with ENone => true | _ => false end.
Definition opt_list {A} (o : option A) : list A := match o with Some x => [x] | None => [] end.

Definition epk (e : entry) : nat := match e with EGood pk _ _ => pk | EBad pk => pk end.
Fixpoint nodupb (l : list nat) : bool :=
  match l with [] => true | x :: r => negb (existsb (Nat.eqb x) r) && nodupb r end.
Definition mem_entry (e : entry) (l : list entry) : bool := existsb (entry_eqb e) l.
Fixpoint remove1 (e : entry) (l : list entry) : list entry :=
  match l with [] => [] | x :: r => if entry_eqb x e then r else x :: remove1 e r end.
Definition mem_out (x : nat * nat * list partial) (l : outmap) : bool := existsb (oelt_eqb x) l.
Definition memk (k : key) (l : list key) : bool := existsb (key_eqb k) l.

(* maps as functions *)
Definition upd {A} (f : key -> A) (k : key) (v : A) : key -> A := fun k' => if key_eqb k' k then v else f k'.
Definition updx {A} (f : ekey -> A) (k : ekey) (v : A) : ekey -> A := fun k' => if ekey_eqb k' k then v else f k'.
Definition updc {A} (f : nat -> A) (c : nat) (v : A) : nat -> A := fun c' => if c' =? c then v else f c'.

(* ---- the same-share check of [store] ---- *)
Inductive verdict := VDup | VMismatch | VNew.
Definition find_share (sh : nat) (l : list partial) : option partial := find (fun q => share q =? sh) l.
Definition classify (p : partial) (l : list partial) : verdict :=
  match find_share (share p) l with
  | Some q => if pid q =? pid p then VDup else VMismatch
  | None => VNew
  end.

(* A call in progress. *)
Record call := C { c_open : bool; c_int : bool; c_duty : duty; c_st : status; c_todo : list entry;
                   c_out : outmap; c_mis : bool; c_oth : bool; c_abort : bool }.
Definition new_call (i : bool) (d : duty) (st : status) (b : list entry) : call :=
  C true i d st (match st with Expired => [] | _ => b end) [] false false false.
Definition took (cl : call) (e : entry) : call :=
  C (c_open cl) (c_int cl) (c_duty cl) (c_st cl) (remove1 e (c_todo cl)) (c_out cl) (c_mis cl) (c_oth cl) (c_abort cl).
Definition add_out (cl : call) (o : outmap) : call :=
  C (c_open cl) (c_int cl) (c_duty cl) (c_st cl) (c_todo cl) (c_out cl ++ o) (c_mis cl) (c_oth cl) (c_abort cl).
Definition set_mis (ab : bool) (cl : call) : call :=
  C (c_open cl) (c_int cl) (c_duty cl) (c_st cl) (c_todo cl) (c_out cl) true (c_oth cl) (c_abort cl || ab).
Definition set_oth (ab : bool) (cl : call) : call :=
  C (c_open cl) (c_int cl) (c_duty cl) (c_st cl) (c_todo cl) (c_out cl) (c_mis cl) true (c_abort cl || ab).
Definition closed (cl : call) : call :=
  C false (c_int cl) (c_duty cl) (c_st cl) (c_todo cl) (c_out cl) (c_mis cl) (c_oth cl) (c_abort cl).

Definition err_ok (cl : call) (e : err) : bool :=
  match e with ENone => negb (c_mis cl) && negb (c_oth cl) | EMismatch => c_mis cl | EOther => c_oth cl end.
Definition out_ok (due : outmap) (out : option outmap) : bool :=
  match out with
  | None => is_nil due
  | Some o => negb (is_nil due) && (length o =? length due)
              && forallb (fun x => mem_out x due) o && forallb (fun x => mem_out x o) due
  end.
Definition exempt_ty (ty : nat) : bool := (ty =? ty_exit) || (ty =? ty_builder_registration).

Section Model.
Variable t : nat.     (* threshold *)

Definition dflt : partial := P 0 0 0.
Definition is_sig (ty : nat) : bool := ty =? ty_signature.

(* getThresholdMatching as it is now *)
Definition thresh (ty : nat) (sigs : list partial) : option (list partial) :=
  if length sigs <? t then None
  else if is_sig ty then (if length sigs =? t then Some sigs else None)
  else let r := root (last sigs dflt) in
       let set := filter (fun q => root q =? r) sigs in
       if length set =? t then Some set else None.

(* getThresholdMatching before d3604d8 *)
Definition thresh_pre (ty : nat) (sigs : list partial) : option (list partial) :=
  if length sigs <? t then None
  else if is_sig ty then (if length sigs =? t then Some sigs else None)
  else find (fun set => length set =? t)
            (map (fun r => filter (fun q => root q =? r) sigs) (map root sigs)).

Record state := St { ent : key -> list partial;        (* db.entries *)
                    kbd : list key;                   (* db.keysByDuty, flattened *)
                    exm : ekey -> list key;           (* db.exemptEntries, oldest first *)
                    calls : nat -> option call }.
Definition init : state := St (fun _ => []) [] (fun _ => []) (fun _ => None).

(* evictExemptShareEntryUnsafe; [prec] = true is the code before 215089b (F1c: no early return
   for entries that already hold threshold partials). *)
Definition evict (prec : bool) (en : key -> list partial) (k : key) (sh : nat) : key -> list partial :=
  if negb prec && (t <=? length (en k)) then en
  else upd en k (filter (fun q => negb (share q =? sh)) (en k)).

(* trackExemptUnsafe *)
Definition track (prec : bool) (en : key -> list partial) (ex : ekey -> list key) (k : key) (sh : nat)
  : (key -> list partial) * (ekey -> list key) :=
  let ek := (sh, kpk k, dtype (kduty k)) in
  let stored := ex ek ++ [k] in
  if max_exempt <? length stored
  then match stored with
       | k0 :: rest => (evict prec en k0 sh, updx ex ek rest)
       | [] => (en, ex)
       end
  else (en, updx ex ek stored).

(* the accepting branch of [store] followed by getThresholdMatching on the returned copy *)
Record stored := Sd { s_ent : key -> list partial; s_kbd : list key; s_exm : ekey -> list key;
                      s_fired : option (list partial) }.
Definition store_new (pre prec : bool) (s : state) (exempt : bool) (k : key) (p : partial) : stored :=
  let isnew := is_nil (ent s k) in
  let en1 := upd (ent s) k (ent s k ++ [p]) in
  let tr := if exempt then track prec en1 (exm s) k (share p) else (en1, exm s) in
  let kb2 := if negb exempt && isnew then kbd s ++ [k] else kbd s in
  Sd (fst tr) kb2 (snd tr) ((if pre then thresh_pre else thresh) (dtype (kduty k)) (fst tr k)).

Definition step_gen (pre prec : bool) (s : state) (l : label) : option state :=
  match l with
  | ABegin c i d st b =>
      match calls s c with
      | Some _ => None
      | None => if nodupb (map epk b)
                then Some (St (ent s) (kbd s) (exm s) (updc (calls s) c (Some (new_call i d st b))))
                else None
      end
  | AEntry c e =>
      match calls s c with
      | None => None
      | Some cl =>
          if c_open cl && negb (c_abort cl) && mem_entry e (c_todo cl) then
            let cl1 := took cl e in
            match e with
            | EBad _ => Some (St (ent s) (kbd s) (exm s) (updc (calls s) c (Some (set_oth pre cl1))))
            | EGood pk sub p =>
                let k := (c_duty cl, pk, sub) in
                match classify p (ent s k) with
                | VDup => Some (St (ent s) (kbd s) (exm s) (updc (calls s) c (Some cl1)))
                | VMismatch => Some (St (ent s) (kbd s) (exm s) (updc (calls s) c (Some (set_mis pre cl1))))
                | VNew =>
                    let r := store_new pre prec s (status_eqb (c_st cl) Exempt) k p in
                    Some (St (s_ent r) (s_kbd r) (s_exm r)
                            (updc (calls s) c
                               (Some (add_out cl1 (opt_list (option_map (fun g => (pk, sub, g)) (s_fired r)))))))
                end
            end
          else None
      end
  | AEnd c er out il =>
      match calls s c with
      | None => None
      | Some cl =>
          if c_open cl
             && (if c_abort cl then match out with None => true | Some _ => false end
                 else is_nil (c_todo cl) && out_ok (c_out cl) out)
             && err_ok cl er
             && Bool.eqb il (c_int cl && is_enone er)
          then Some (St (ent s) (kbd s) (exm s) (updc (calls s) c (Some (closed cl))))
          else None
      end
  | ATrim d =>
      Some (St (fun k => if duty_eqb (kduty k) d && memk k (kbd s) then [] else ent s k)
              (filter (fun k => negb (duty_eqb (kduty k) d)) (kbd s))
              (exm s) (calls s))
  end.

Definition step := step_gen false false.

Fixpoint run_gen (pre prec : bool) (s : state) (ls : list label) : option state :=
  match ls with
  | [] => Some s
  | l :: r => match step_gen pre prec s l with Some s' => run_gen pre prec s' r | None => None end
  end.
Definition run := run_gen false false.

Fixpoint first_reject (pre prec : bool) (s : state) (ls : list label) (i : nat) : option nat :=
  match ls with
  | [] => None
  | l :: r => match step_gen pre prec s l with Some s' => first_reject pre prec s' r (S i) | None => Some i end
  end.

(* Correspondence aid (not used by any theorem): in probe mode the harness sees, for every entry,
   whether [store] appended it (Clone called under the lock) or compared it with a stored partial of
   the same share (MarshalJSON called under the lock).  [verdict_mismatch] returns the index of the
   first AEntry label whose observed verdict differs from the model's. *)
Definition accepts (s : state) (c : nat) (e : entry) : bool :=
  match e, calls s c with
  | EGood pk sub p, Some cl =>
      match classify p (ent s (c_duty cl, pk, sub)) with VNew => true | _ => false end
  | _, _ => false
  end.

Fixpoint verdict_mismatch (s : state) (ls : list label) (obs : list (option bool)) (i : nat) : option nat :=
  match ls with
  | [] => None
  | l :: r =>
      match step s l with
      | None => None
      | Some s' =>
          match l with
          | AEntry c e =>
              match obs with
              | Some b :: obs' => if Bool.eqb b (accepts s c e) then verdict_mismatch s' r obs' (S i) else Some i
              | None :: obs' => verdict_mismatch s' r obs' (S i)
              | [] => verdict_mismatch s' r [] (S i)
              end
          | _ => verdict_mismatch s' r obs (S i)
          end
      end
  end.

(* ---- The property, read off the trace alone (no model state). ----
   The ghost keeps, per key, the partial signatures ACCEPTED so far (first one per share; the list
   is emptied when the duty is trimmed) and per call what is DUE to the threshold subscribers:
   an entry fires iff it is accepted and the partials accepted for its key over its message root
   (itself included) are then exactly t; what is due is exactly that group. *)

Definition eroot (ty : nat) (p : partial) : nat := if is_sig ty then 0 else root p.
Definition group (ty : nat) (p : partial) (l : list partial) : list partial :=
  filter (fun q => eroot ty q =? eroot ty p) l.

Definition fire_of (a : key -> list partial) (d : duty) (e : entry) : option (nat * nat * list partial) :=
  match e with
  | EBad _ => None
  | EGood pk sub p =>
      match classify p (a (d, pk, sub)) with
      | VNew => let g := group (dtype d) p (a (d, pk, sub) ++ [p]) in
                if length g =? t then Some (pk, sub, g) else None
      | _ => None
      end
  end.

Definition acc_entry (a : key -> list partial) (d : duty) (e : entry) : key -> list partial :=
  match e with
  | EBad _ => a
  | EGood pk sub p =>
      match classify p (a (d, pk, sub)) with
      | VNew => upd a (d, pk, sub) (a (d, pk, sub) ++ [p])
      | _ => a
      end
  end.

Definition call_entry (a : key -> list partial) (cl : call) (e : entry) : call :=
  match e with
  | EBad _ => set_oth false (took cl e)
  | EGood pk sub p =>
      match classify p (a (c_duty cl, pk, sub)) with
      | VDup => took cl e
      | VMismatch => set_mis false (took cl e)
      | VNew => add_out (took cl e) (opt_list (fire_of a (c_duty cl) e))
      end
  end.

(* exempt stores accepted so far per (share, pubkey, duty type) *)
Definition gx_entry (a : key -> list partial) (x : ekey -> nat) (cl : call) (e : entry) : ekey -> nat :=
  match e with
  | EBad _ => x
  | EGood pk sub p =>
      match classify p (a (c_duty cl, pk, sub)), c_st cl with
      | VNew, Exempt => let ek := (share p, pk, dtype (c_duty cl)) in updx x ek (S (x ek))
      | _, _ => x
      end
  end.

Record ghost := G { acc : key -> list partial; gcalls : nat -> option call; gx : ekey -> nat }.
Definition ginit : ghost := G (fun _ => []) (fun _ => None) (fun _ => 0).

Definition live (g : ghost) (c : nat) (e : entry) : option call :=
  match gcalls g c with
  | Some cl => if c_open cl && mem_entry e (c_todo cl) then Some cl else None
  | None => None
  end.

Definition gstep (g : ghost) (l : label) : ghost :=
  match l with
  | ABegin c i d st b =>
      match gcalls g c with
      | Some _ => g
      | None => G (acc g) (updc (gcalls g) c (Some (new_call i d st b))) (gx g)
      end
  | AEntry c e =>
      match live g c e with
      | Some cl => G (acc_entry (acc g) (c_duty cl) e)
                     (updc (gcalls g) c (Some (call_entry (acc g) cl e)))
                     (gx_entry (acc g) (gx g) cl e)
      | None => g
      end
  | AEnd c _ _ _ =>
      match gcalls g c with
      | Some cl => G (acc g) (updc (gcalls g) c (Some (closed cl))) (gx g)
      | None => g
      end
  | ATrim d => G (fun k => if duty_eqb (kduty k) d then [] else acc g k) (gcalls g) (gx g)
  end.

(* [check g l] : label l is what the property demands in ghost state g. *)
Definition check (g : ghost) (l : label) : bool :=
  match l with
  | ABegin c _ _ _ b => match gcalls g c with Some _ => false | None => nodupb (map epk b) end
  | AEntry c e => match live g c e with Some _ => true | None => false end
  | AEnd c er out il =>
      match gcalls g c with
      | Some cl => c_open cl && is_nil (c_todo cl) && out_ok (c_out cl) out && err_ok cl er
                   && Bool.eqb il (c_int cl && is_enone er)
      | None => false
      end
  | ATrim _ => true
  end.

Fixpoint monitor_from (g : ghost) (ls : list label) : bool :=
  match ls with [] => true | l :: r => check g l && monitor_from (gstep g l) r end.
Definition monitor := monitor_from ginit.

Fixpoint first_violation (g : ghost) (ls : list label) (i : nat) : option nat :=
  match ls with
  | [] => None
  | l :: r => if check g l then first_violation (gstep g l) r (S i) else Some i
  end.

(* ---- Environment guards (also read off the trace alone) ----
   [status_ok]: the deadliner answers Exempt exactly for the exempt duty types (exit, builder
   registration: core/deadline.go) and never reports those on C().
   [no_evict]: no (share, validator, duty type) gets more than maxExemptEntriesPerShare accepted
   exempt entries, i.e. evictExemptShareEntryUnsafe never runs. *)
Definition lab_status_ok (l : label) : bool :=
  match l with
  | ABegin _ _ d st _ => Bool.eqb (status_eqb st Exempt) (exempt_ty (dtype d))
  | ATrim d => negb (exempt_ty (dtype d))
  | _ => true
  end.
Definition status_ok (ls : list label) : bool := forallb lab_status_ok ls.

Definition evict_free (g : ghost) (l : label) : bool :=
  match l with
  | AEntry c (EGood pk sub p) =>
      match live g c (EGood pk sub p) with
      | Some cl => match classify p (acc g (c_duty cl, pk, sub)), c_st cl with
                   | VNew, Exempt => gx g (share p, pk, dtype (c_duty cl)) <? max_exempt
                   | _, _ => true
                   end
      | None => true
      end
  | _ => true
  end.
Fixpoint no_evict_from (g : ghost) (ls : list label) : bool :=
  match ls with [] => true | l :: r => evict_free g l && no_evict_from (gstep g l) r end.
Definition no_evict := no_evict_from ginit.

Definition ghost_after (g : ghost) (ls : list label) : ghost := fold_left gstep ls g.

End Model.
