(* Model of core/aggsigdb/memory.go (MemDB): one actor goroutine (Run) consumes write commands,
   read queries and expired duties; a query whose key is absent is appended to blockedQueries,
   and after every write command processBlockedQueries re-evaluates all of them.

   Labels = the messages the actor consumes and what the reader goroutines do:
     LWrite k v r   the actor received the write command (k, v) of some Store call, ran execCommand
                    (responding r) and processBlockedQueries, as one step of its loop.  A Store of
                    a set is a sequence of such commands, one per entry in Go map order, ended by
                    the first error (MemDB.Store); the actor treats them independently.
     LQuery q k     the actor received read query q for key k (execQuery; blocked if absent)
     LAnswer q v    Await q received v on its response channel and returned it
     LCancel q      the context of Await q was cancelled; it returned ctx.Err() and closed its
                    cancel channel (also when an answer was already waiting in the response
                    channel: Go's select may take either ready case)
     LExpire d      the actor received duty d from the deadliner channel
     LQuiet         every goroutine is durably blocked (what synctest.Wait observes)

   A query sent by the actor on a response channel (capacity 1) sits there until the reader
   goroutine picks it up: status [Answered v].  Answers are therefore picked up in any order, and
   the actor may consume further messages first.

   Not modelled: ctx cancellation / ErrStopped inside Store; Clone or JSON-marshal errors; a
   cancelled query stays in blockedQueries until the next write drops it (cancelled(query.cancel))
   -- it is never executed again nor observable, the model drops it at once; Await called with an
   already cancelled context (select may or may not send the query). *)
From Coq Require Import List NArith Bool Arith.
From Charon Require Import Stores.AggSigDB.
Import ListNotations.

Inductive qstat := Blocked | Answered (v : N).

Record state1 := mk1 { data1 : store; qs : list (N * (key * qstat)) }.
Definition init1 : state1 := mk1 [] [].

Inductive label1 :=
| LWrite (k : key) (v : N) (r : wres)
| LQuery (q : N) (k : key)
| LAnswer (q : N) (v : N)
| LCancel (q : N)
| LExpire (d : N)
| LQuiet.

(* execQuery on one blocked query against data m *)
Definition exec_query (m : store) (x : key * qstat) : key * qstat :=
  match snd x with
  | Blocked => match lookup (fst x) m with Some v => (fst x, Answered v) | None => x end
  | Answered _ => x
  end.

(* processBlockedQueries.  [reeval = false] is the mutant that forgets it (only used for the
   non-vacuity lemma v1_needs_reevaluation). *)
Definition flush (reeval : bool) (m : store) (l : list (N * (key * qstat))) :=
  if reeval then mapv (exec_query m) l else l.

Definition is_answered (e : N * (key * qstat)) : bool :=
  match snd (snd e) with Answered _ => true | Blocked => false end.

Definition step1_gen (reeval : bool) (s : state1) (l : label1) : option state1 :=
  match l with
  | LWrite k v r =>
      let (m, r') := put k v (data1 s) in
      if wres_eqb r r' then Some (mk1 m (flush reeval m (qs s))) else None
  | LQuery q k =>
      match get q (qs s) with
      | Some _ => None
      | None =>
          Some (mk1 (data1 s)
                    (qs s ++ [(q, (k, match lookup k (data1 s) with Some v => Answered v | None => Blocked end))]))
      end
  | LAnswer q v =>
      match get q (qs s) with
      | Some (_, Answered v') => if N.eqb v' v then Some (mk1 (data1 s) (del q (qs s))) else None
      | _ => None
      end
  | LCancel q =>
      match get q (qs s) with
      | Some _ => Some (mk1 (data1 s) (del q (qs s)))
      | None => None
      end
  | LExpire d => Some (mk1 (expire d (data1 s)) (qs s))
  | LQuiet => if existsb is_answered (qs s) then None else Some s
  end.

Definition step1 := step1_gen true.

Fixpoint run1_gen (reeval : bool) (s : state1) (ls : list label1) : option state1 :=
  match ls with
  | [] => Some s
  | l :: r => match step1_gen reeval s l with Some s' => run1_gen reeval s' r | None => None end
  end.
Definition run1 := run1_gen true.

Fixpoint first_reject1 (s : state1) (ls : list label1) (i : nat) : option nat :=
  match ls with
  | [] => None
  | l :: r => match step1 s l with Some s' => first_reject1 s' r (S i) | None => Some i end
  end.

(* The events of the specification monitor. *)
Definition ev1 (l : label1) : ev :=
  match l with
  | LWrite k v r => EStore [(k, v)] r
  | LQuery q k => EBegin q k
  | LAnswer q v => EReturn q v
  | LCancel q => ECancel q
  | LExpire d => EExpire d
  | LQuiet => EQuiet
  end.

Definition monitor1 (ls : list label1) : bool := smonitor (map ev1 ls).
Definition first_violation1 (ls : list label1) : option nat := sfirst_violation ginit (map ev1 ls) 0.

(* internal steps = those that need no new input from the environment *)
Definition internal1 (l : label1) : bool := match l with LAnswer _ _ => true | _ => false end.
