(* Model of core/aggsigdb/memory_v2.go (MemDBV2): a map behind a sync.RWMutex and a notification
   channel.  Labels = the atomic sections of the code (everything done while holding the lock is
   one step) and the channel operations of the readers, so that [run2] ranges over all
   interleavings of any number of readers, writers and expiries:

     LAwait r k        Await r for key k is called; the reader is about to run query()
     LLookup r res     reader r ran query() under the read lock: res = m.data[key].  Some v: it
                       returns v.  None: it keeps the channel m.notify that was current *while it
                       held the lock* and waits on it
     LWake r           reader r's select received from its (closed) notification channel; it loops
     LStore d es res   Store(duty d, set) under the write lock: the entries in Go map iteration
                       order es, stopping at the first mismatch; the deferred function closes
                       m.notify and installs a fresh channel (on success and on error)
     LCancel r         the context of reader r was cancelled; it returned ctx.Err() (from the
                       select, or from the ctx check at the top of query())
     LExpire d         Run received duty d from the deadliner: deadlineDel under the write lock
     LQuiet            every goroutine is durably blocked

   The notification channel is modelled by a generation counter: a reader waiting on the channel
   of generation g is woken exactly when that channel has been closed, i.e. g < gen.

   [pre_fix = true] is the code before commit 8db1efa (defect F3): m.notify had capacity one, a
   successful Store did a non-blocking send of one token (an erroring Store returned before it),
   and a waiting reader woke by receiving the token -- so one store woke one waiter.

   Not modelled: ctx cancellation / m.closed inside Store; Clone or JSON-marshal errors;
   SyncSubcommitteeIndex errors (ill-typed data for sync-aggregator duties). *)
From Coq Require Import List NArith Bool Arith.
From Charon Require Import Stores.AggSigDB.
Import ListNotations.

Inductive rstate := Checking | Waiting (g : nat).

Record state2 := mk2 { data2 : store; gen : nat; token : bool; rs : list (N * (key * rstate)) }.
Definition init2 : state2 := mk2 [] 0 false [].

Inductive label2 :=
| LAwait (r : N) (k : key)
| LLookup (r : N) (res : option N)
| LWake (r : N)
| LStore (d : N) (es : list (key * N)) (res : wres)
| LCancel2 (r : N)
| LExpire2 (d : N)
| LQuiet2.

Definition is_checking (e : N * (key * rstate)) : bool :=
  match snd (snd e) with Checking => true | Waiting _ => false end.
Definition is_waiting (e : N * (key * rstate)) : bool := negb (is_checking e).

(* a reader that can still move on its own *)
Definition can_move (gn : nat) (e : N * (key * rstate)) : bool :=
  match snd (snd e) with Checking => true | Waiting g => Nat.ltb g gn end.

Definition step2_gen (pre_fix : bool) (s : state2) (l : label2) : option state2 :=
  match l with
  | LAwait r k =>
      match get r (rs s) with
      | Some _ => None
      | None => Some (mk2 (data2 s) (gen s) (token s) (rs s ++ [(r, (k, Checking))]))
      end
  | LLookup r res =>
      match get r (rs s) with
      | Some (k, Checking) =>
          if optN_eqb res (lookup k (data2 s)) then
            match res with
            | Some _ => Some (mk2 (data2 s) (gen s) (token s) (del r (rs s)))
            | None => Some (mk2 (data2 s) (gen s) (token s) (upd r (k, Waiting (gen s)) (rs s)))
            end
          else None
      | _ => None
      end
  | LWake r =>
      match get r (rs s) with
      | Some (k, Waiting g) =>
          if pre_fix then
            if token s then Some (mk2 (data2 s) (gen s) false (upd r (k, Checking) (rs s))) else None
          else
            if Nat.ltb g (gen s) then Some (mk2 (data2 s) (gen s) (token s) (upd r (k, Checking) (rs s)))
            else None
      | _ => None
      end
  | LStore d es res =>
      if forallb (fun e => N.eqb (kduty (fst e)) d) es then
        let (m, r') := put_all es (data2 s) in
        if wres_eqb res r' then
          if pre_fix then
            Some (mk2 m (gen s) (match r' with WOk => true | WMismatch => token s end) (rs s))
          else Some (mk2 m (S (gen s)) (token s) (rs s))
        else None
      else None
  | LCancel2 r =>
      match get r (rs s) with
      | Some _ => Some (mk2 (data2 s) (gen s) (token s) (del r (rs s)))
      | None => None
      end
  | LExpire2 d => Some (mk2 (expire d (data2 s)) (gen s) (token s) (rs s))
  | LQuiet2 =>
      if pre_fix then
        if existsb is_checking (rs s) || (token s && existsb is_waiting (rs s)) then None else Some s
      else
        if existsb (can_move (gen s)) (rs s) then None else Some s
  end.

Definition step2 := step2_gen false.

Fixpoint run2_gen (pre_fix : bool) (s : state2) (ls : list label2) : option state2 :=
  match ls with
  | [] => Some s
  | l :: r => match step2_gen pre_fix s l with Some s' => run2_gen pre_fix s' r | None => None end
  end.
Definition run2 := run2_gen false.

Fixpoint first_reject2 (pre_fix : bool) (s : state2) (ls : list label2) (i : nat) : option nat :=
  match ls with
  | [] => None
  | l :: r => match step2_gen pre_fix s l with Some s' => first_reject2 pre_fix s' r (S i) | None => Some i end
  end.

Definition ev2 (l : label2) : ev :=
  match l with
  | LAwait r k => EBegin r k
  | LLookup r (Some v) => EReturn r v
  | LLookup r None => EMiss r
  | LWake r => ETau
  | LStore d es res => EStore es res
  | LCancel2 r => ECancel r
  | LExpire2 d => EExpire d
  | LQuiet2 => EQuiet
  end.

Definition monitor2 (ls : list label2) : bool := smonitor (map ev2 ls).
Definition first_violation2 (ls : list label2) : option nat := sfirst_violation ginit (map ev2 ls) 0.

Definition internal2 (l : label2) : bool :=
  match l with LLookup _ _ | LWake _ => true | _ => false end.
