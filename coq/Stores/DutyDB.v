(* Model of core/dutydb/memory.go (MemDB: Store / Await* / PubKeyByAttestation / deleteDutyUnsafe).

   Every public operation of MemDB holds db.mu for its whole body, so the component is a
   sequential machine over atomic operations.  The model is a labelled transition system
   step : state -> label -> option state; a label carries what an observer of the real component
   sees, so that correspondence = trace inclusion (the label sequence recorded from the Go
   component must be accepted by [run]).

   * [LAdd d st]: a Store call for duty d asked the deadliner (deadliner.Add(d)) and got verdict [st]
     (scripted in the harness, arbitrary in the theorems).  In the code this happens under db.mu, at
     the start of the critical section that ends with the matching [LStore]: between the two the
     model admits only events that do not need the lock (the deadliner emitting a duty, readers
     returning) -- no other Store, no registration, no PubKeyByAttestation.  The position of [LAdd]
     in the trace is the instant of the verdict, the position of [LStore] the end of the write.
   * [LStore d st vis unv res]: that Store(duty d, set) returned [res] (verdict [st] as in its LAdd); [vis] are the entries of the
     set in the order Go's map iteration visited them (observed: every store*Unsafe starts with
     unsignedData.Clone()), [unv] the entries never visited because an earlier one failed.
     Go returns at the first failing entry: entries before it stay stored (partial effects) and the
     waiting queries are NOT resolved.
   * [LAwaitReg q k]: an Await* call registered query q for key k (and ran resolve*QueriesUnsafe).
   * [LAnswer q k c]: the Await* call of q returned the value with content id c.
   * [LCancel q]: the Await* call of q returned ctx.Err() (its cancel channel is closed, so the query
     is skipped and dropped by the next resolve -- the model drops it at once, which is
     observationally the same).  If the response was already in q's channel, Go's select may still
     take the ctx branch: the response is lost.
   * [LExpire d]: the deadliner put d on C(); it is consumed by the drain loop at the end of the
     next Store call that gets that far.
   * [LPubKey s c v r]: PubKeyByAttestation(s, c, v) returned pubkey r / not found.
   * [LQuiet]: every resolved reader has returned.

   Data values are abstracted to (key fields, clash-determining id(s), content id):
   content id = identity of the whole value (what a reader gets), root = what the clash check of
   the type compares (proposal: block root; attestation: the whole data; contribution: its hash
   tree root; aggregate: the data root, which is also part of the key, so that check is dead code).

   [pre_fix] = true is the code before the repair of F2 (an aggregate with an equal data root
   REPLACED the stored one).

   Simplifications that are observationally exact (argued here, exercised by the correspondence):
   aggKeysBySlot[s] / contribKeysBySlot[s] always hold exactly the stored keys with slot s (key and
   bucket entry are written together and deleted together), so deleting "every key listed in the
   bucket" is modelled as deleting every stored key of that type and slot.  The attester buckets are
   indexed by Duty.Slot while the keys use Data.Slot, so they are modelled literally ([abk]).

   Not modelled: Shutdown; values on which Clone/Slot/Root/HashTreeRoot fail (nil sub-objects,
   unknown versions) -- those return an error before any write for that entry. *)
From Coq Require Import List NArith Bool.
Import ListNotations.
Local Open Scope N_scope.

Inductive kind := KAtt | KPro | KAgg | KCon.
Inductive dtype := DAtt | DPro | DAgg | DCon | DBuilder | DOther.
Inductive status := Expired | Scheduled | Exempt.

Definition kind_eqb (a b : kind) : bool :=
  match a, b with KAtt, KAtt | KPro, KPro | KAgg, KAgg | KCon, KCon => true | _, _ => false end.
Definition dtype_eqb (a b : dtype) : bool :=
  match a, b with
  | DAtt, DAtt | DPro, DPro | DAgg, DAgg | DCon, DCon | DBuilder, DBuilder | DOther, DOther => true
  | _, _ => false
  end.
Definition dt_of (k : kind) : dtype :=
  match k with KAtt => DAtt | KPro => DPro | KAgg => DAgg | KCon => DCon end.

(* Query keys.  att: (slot, committee index, 0); pro: (slot, 0, 0);
   agg: (slot, data root, committee index); con: (slot, subcommittee, beacon block root). *)
Record key := K { k_kind : kind; k_slot : N; k_a : N; k_b : N }.
Definition key_eqb (x y : key) : bool :=
  kind_eqb (k_kind x) (k_kind y) && N.eqb (k_slot x) (k_slot y) && N.eqb (k_a x) (k_a y) && N.eqb (k_b x) (k_b y).

(* Stored value: content id, clash id, source id, target id (the last two for attestations). *)
Record val := V { v_cid : N; v_root : N; v_src : N; v_tgt : N }.

Definition pkkey := (N * N * N)%type.   (* slot, committee index, validator index *)
Definition pkkey_eqb (x y : pkkey) : bool :=
  let '(a, b, c) := x in let '(a', b', c') := y in N.eqb a a' && N.eqb b b' && N.eqb c c'.

Definition duty := (dtype * N)%type.
Definition duty_eqb (x y : duty) : bool := dtype_eqb (fst x) (fst y) && N.eqb (snd x) (snd y).

Inductive err :=
| ERefused       (* not storing unsigned data for expired or exempt duty *)
| ELen           (* unexpected proposer data set length *)
| EDeprecated    (* ErrDeprecatedDutyBuilderProposer (Store or deleteDutyUnsafe) *)
| EUnsupported   (* unsupported duty type *)
| EInvalid       (* type assertion on the cloned entry failed *)
| EClashPK       (* clashing public key *)
| EClashAtt      (* clashing attestation data *)
| EClashSrc      (* clashing attestation data with hardcoded commidx=0 source *)
| EClashTgt      (* ... target *)
| EClashPro      (* clashing blocks *)
| EClashAgg      (* clashing data root *)
| EClashCon      (* clashing sync contributions *)
| EUnknownType.  (* deleteDutyUnsafe: unknown duty type *)

Definition err_eqb (a b : err) : bool :=
  match a, b with
  | ERefused, ERefused | ELen, ELen | EDeprecated, EDeprecated | EUnsupported, EUnsupported
  | EInvalid, EInvalid | EClashPK, EClashPK | EClashAtt, EClashAtt | EClashSrc, EClashSrc
  | EClashTgt, EClashTgt | EClashPro, EClashPro | EClashAgg, EClashAgg | EClashCon, EClashCon
  | EUnknownType, EUnknownType => true
  | _, _ => false
  end.
Definition res_eqb (a b : option err) : bool :=
  match a, b with None, None => true | Some x, Some y => err_eqb x y | _, _ => false end.

(* One entry of an unsigned data set. *)
Inductive entry :=
| EAtt (pk dslot slot comm vidx cid src tgt : N)
    (* pubkey; Duty.Slot; Data.Slot; Duty.CommitteeIndex; Duty.ValidatorIndex; data; source; target *)
| EPro (slot root cid : N)
| EAgg (slot root comm cid : N)
| ECon (cs : list (N * N * N * N)).   (* plural SyncContributions (or a single one): slot, subcommittee, block root, content *)

Inductive label :=
| LStore (d : duty) (st : status) (vis unv : list entry) (res : option err)
| LAwaitReg (q : N) (k : key)
| LAnswer (q : N) (k : key) (c : N)
| LCancel (q : N)
| LExpire (d : duty)
| LPubKey (slot comm vidx : N) (r : option N)
| LQuiet
| LAdd (d : duty) (st : status).

(* ---- the stored maps ---- *)
Record db := mkdb {
  vals : list (key * val);       (* attDuties, proDuties, aggDuties, contribDuties *)
  pks : list (pkkey * N);        (* attPubKeys *)
  abk : list (N * pkkey)         (* attKeysBySlot, flattened: (Duty.Slot, key) in append order *)
}.

Fixpoint lookup (k : key) (m : list (key * val)) : option val :=
  match m with [] => None | (k', v) :: r => if key_eqb k' k then Some v else lookup k r end.
Fixpoint lookup_pk (k : pkkey) (m : list (pkkey * N)) : option N :=
  match m with [] => None | (k', v) :: r => if pkkey_eqb k' k then Some v else lookup_pk k r end.

Definition set_val (k : key) (v : val) (m : list (key * val)) : list (key * val) :=
  (k, v) :: filter (fun kv => negb (key_eqb (fst kv) k)) m.

Definition okr (d : db) : db * option err := (d, None).
Definition bind (r : db * option err) (f : db -> db * option err) : db * option err :=
  match r with (d, None) => f d | (d, Some e) => (d, Some e) end.

(* if value, ok := m[k]; ok { if clash { return err } } else { m[k] = v } *)
Definition put_root (e : err) (k : key) (v : val) (d : db) : db * option err :=
  match lookup k (vals d) with
  | Some w => if N.eqb (v_root w) (v_root v) then okr d else (d, Some e)
  | None => okr (mkdb ((k, v) :: vals d) (pks d) (abk d))
  end.

Definition put_agg (pre_fix : bool) (k : key) (v : val) (d : db) : db * option err :=
  match lookup k (vals d) with
  | Some w => if N.eqb (v_root w) (v_root v)
              then okr (if pre_fix then mkdb (set_val k v (vals d)) (pks d) (abk d) else d)
              else (d, Some EClashAgg)
  | None => okr (mkdb ((k, v) :: vals d) (pks d) (abk d))
  end.

(* committee index 0 copy: only source and target are compared *)
Definition put_att0 (k : key) (v : val) (d : db) : db * option err :=
  match lookup k (vals d) with
  | Some w => if negb (N.eqb (v_src w) (v_src v)) then (d, Some EClashSrc)
              else if negb (N.eqb (v_tgt w) (v_tgt v)) then (d, Some EClashTgt)
              else okr d
  | None => okr (mkdb ((k, v) :: vals d) (pks d) (abk d))
  end.

Definition put_pk (pk : N) (dslot : N) (pkk : pkkey) (d : db) : db * option err :=
  match lookup_pk pkk (pks d) with
  | Some p => if N.eqb p pk then okr d else (d, Some EClashPK)
  | None => okr (mkdb (vals d) ((pkk, pk) :: pks d) (abk d ++ [(dslot, pkk)]))
  end.

(* storeAttestationUnsafe *)
Definition store_att (pk dslot slot comm vidx cid src tgt : N) (d : db) : db * option err :=
  let v := V cid cid src tgt in
  bind (bind (bind (put_pk pk dslot (slot, comm, vidx) d)
                   (put_root EClashAtt (K KAtt slot comm 0) v))
             (put_pk pk dslot (slot, 0, vidx)))
       (put_att0 (K KAtt slot 0 0) v).

(* storeSyncContributionUnsafe: entries one by one, stop at the first clash *)
Fixpoint store_cons (cs : list (N * N * N * N)) (d : db) : db * option err :=
  match cs with
  | [] => okr d
  | (slot, sub, broot, cid) :: r =>
      bind (put_root EClashCon (K KCon slot sub broot) (V cid cid 0 0) d) (store_cons r)
  end.

Definition store_entry (pre_fix : bool) (t : dtype) (e : entry) (d : db) : db * option err :=
  match t, e with
  | DAtt, EAtt pk dslot slot comm vidx cid src tgt => store_att pk dslot slot comm vidx cid src tgt d
  | DPro, EPro slot root cid => put_root EClashPro (K KPro slot 0 0) (V cid root 0 0) d
  | DAgg, EAgg slot root comm cid => put_agg pre_fix (K KAgg slot root comm) (V cid root 0 0) d
  | DCon, ECon cs => store_cons cs d
  | _, _ => (d, Some EInvalid)
  end.

(* The visited entries in order.  None: the label is not admissible (an entry was visited after
   a failing one). *)
Fixpoint store_entries (pre_fix : bool) (t : dtype) (es : list entry) (d : db) : option (db * option err) :=
  match es with
  | [] => Some (d, None)
  | e :: r =>
      match store_entry pre_fix t e d with
      | (d', None) => store_entries pre_fix t r d'
      | (d', Some er) => match r with [] => Some (d', Some er) | _ => None end
      end
  end.

(* ---- deleteDutyUnsafe ---- *)
Definition del_vals (p : key -> bool) (m : list (key * val)) : list (key * val) :=
  filter (fun kv => negb (p (fst kv))) m.
Definition kind_slot (t : kind) (s : N) (k : key) : bool := kind_eqb (k_kind k) t && N.eqb (k_slot k) s.

Definition bucket (s : N) (l : list (N * pkkey)) : list pkkey :=
  map snd (filter (fun bp => N.eqb (fst bp) s) l).
Definition in_pks (k : pkkey) (l : list pkkey) : bool := existsb (pkkey_eqb k) l.
Definition att_key_of (p : pkkey) : key := let '(s, c, _) := p in K KAtt s c 0.
Definition in_keys (k : key) (l : list key) : bool := existsb (key_eqb k) l.

Definition delete_duty (du : duty) (d : db) : db + err :=
  let (t, s) := du in
  match t with
  | DPro => inl (mkdb (del_vals (key_eqb (K KPro s 0 0)) (vals d)) (pks d) (abk d))
  | DBuilder => inr EDeprecated
  | DAtt =>
      let b := bucket s (abk d) in
      inl (mkdb (del_vals (fun k => in_keys k (map att_key_of b)) (vals d))
                (filter (fun kp => negb (in_pks (fst kp) b)) (pks d))
                (filter (fun bp => negb (N.eqb (fst bp) s)) (abk d)))
  | DAgg => inl (mkdb (del_vals (kind_slot KAgg s) (vals d)) (pks d) (abk d))
  | DCon => inl (mkdb (del_vals (kind_slot KCon s) (vals d)) (pks d) (abk d))
  | DOther => inr EUnknownType
  end.

(* for { select { case duty := <-C(): delete; default: break } }: returns at the first error, the
   failing duty has been received already *)
Fixpoint drain (q : list duty) (d : db) : db * list duty * option err :=
  match q with
  | [] => (d, [], None)
  | du :: r => match delete_duty du d with
               | inl d' => drain r d'
               | inr e => (d, r, Some e)
               end
  end.

(* ---- queries ---- *)
Record state := mk {
  st_db : db;
  pend : list (N * key);          (* registered, unresolved, uncancelled queries (all four lists) *)
  outbox : list (N * key * N);    (* responses sitting in the readers' channels *)
  expq : list duty                (* buffered on deadliner.C() *)
}.

Definition init : state := mk (mkdb [] [] []) [] [] [].

(* resolve<T>QueriesUnsafe *)
Fixpoint resolve (t : kind) (m : list (key * val)) (p : list (N * key)) : list (N * key) * list (N * key * N) :=
  match p with
  | [] => ([], [])
  | (q, k) :: r =>
      let (p', o') := resolve t m r in
      if kind_eqb (k_kind k) t then
        match lookup k m with
        | Some v => (p', (q, k, v_cid v) :: o')
        | None => ((q, k) :: p', o')
        end
      else ((q, k) :: p', o')
  end.

Definition do_resolve (t : kind) (s : state) : state :=
  let (p', o') := resolve t (vals (st_db s)) (pend s) in
  mk (st_db s) p' (outbox s ++ o') (expq s).

Definition qid_in_pend (q : N) (p : list (N * key)) : bool := existsb (fun x => N.eqb (fst x) q) p.
Definition qid_in_out (q : N) (o : list (N * key * N)) : bool := existsb (fun x => N.eqb (fst (fst x)) q) o.
Definition ans_eqb (x y : N * key * N) : bool :=
  let '(q, k, c) := x in let '(q', k', c') := y in N.eqb q q' && key_eqb k k' && N.eqb c c'.

Definition kind_of_dt (t : dtype) : option kind :=
  match t with DAtt => Some KAtt | DPro => Some KPro | DAgg => Some KAgg | DCon => Some KCon | _ => None end.

Definition opt_eqb (a b : option N) : bool :=
  match a, b with None, None => true | Some x, Some y => N.eqb x y | _, _ => false end.

Definition nil_entries (l : list entry) : bool := match l with [] => true | _ => false end.

Definition core_step (pre_fix : bool) (s : state) (l : label) : option state :=
  match l with
  | LStore (t, sl) st vis unv res =>
      match st with
      | Expired | Exempt => if res_eqb res (Some ERefused) && nil_entries vis then Some s else None
      | Scheduled =>
          match kind_of_dt t with
          | None =>
              if res_eqb res (Some (match t with DBuilder => EDeprecated | _ => EUnsupported end)) && nil_entries vis
              then Some s else None
          | Some kd =>
              if dtype_eqb t DPro && Nat.ltb 1 (length (vis ++ unv)) then
                (if res_eqb res (Some ELen) && nil_entries vis then Some s else None)
              else
                match store_entries pre_fix t vis (st_db s) with
                | None => None
                | Some (d', Some er) =>
                    if res_eqb res (Some er) then Some (mk d' (pend s) (outbox s) (expq s)) else None
                | Some (d', None) =>
                    if nil_entries unv then
                      let s1 := do_resolve kd (mk d' (pend s) (outbox s) (expq s)) in
                      let '(d2, q2, er) := drain (expq s1) (st_db s1) in
                      if res_eqb res er then Some (mk d2 (pend s1) (outbox s1) q2) else None
                    else None
                end
          end
      end
  | LAwaitReg q k =>
      if qid_in_pend q (pend s) || qid_in_out q (outbox s) then None
      else Some (do_resolve (k_kind k) (mk (st_db s) (pend s ++ [(q, k)]) (outbox s) (expq s)))
  | LAnswer q k c =>
      if existsb (ans_eqb (q, k, c)) (outbox s)
      then Some (mk (st_db s) (filter (fun x => negb (N.eqb (fst x) q)) (pend s))   (* no-op: q is not pending (ids of live readers are distinct) *)
                    (filter (fun x => negb (N.eqb (fst (fst x)) q)) (outbox s)) (expq s))
      else None
  | LCancel q =>
      if qid_in_pend q (pend s) || qid_in_out q (outbox s)
      then Some (mk (st_db s) (filter (fun x => negb (N.eqb (fst x) q)) (pend s))
                    (filter (fun x => negb (N.eqb (fst (fst x)) q)) (outbox s)) (expq s))
      else None
  | LExpire d => Some (mk (st_db s) (pend s) (outbox s) (expq s ++ [d]))
  | LPubKey slot comm vidx r =>
      if opt_eqb r (lookup_pk (slot, comm, vidx) (pks (st_db s))) then Some s else None
  | LQuiet => match outbox s with [] => Some s | _ => None end
  | LAdd _ _ => Some s
  end.

(* The full state: the maps and queries, plus the verdict of the Store call that is inside its
   critical section (between deadliner.Add and return), if any. *)
Definition xstate := (state * option (duty * status))%type.
Definition status_eqb (a b : status) : bool :=
  match a, b with Expired, Expired | Scheduled, Scheduled | Exempt, Exempt => true | _, _ => false end.
Definition add_eqb (a : option (duty * status)) (d : duty) (st : status) : bool :=
  match a with Some (d', st') => duty_eqb d' d && status_eqb st' st | None => false end.
Definition is_none {A} (a : option A) : bool := match a with None => true | _ => false end.
Definition with_add (a : option (duty * status)) (r : option state) : option xstate :=
  match r with Some s' => Some (s', a) | None => None end.

Definition step_gen (pre_fix : bool) (x : xstate) (l : label) : option xstate :=
  let (s, a) := x in
  match l with
  | LAdd d st => if is_none a then Some (s, Some (d, st)) else None
  | LStore d st _ _ _ => if add_eqb a d st then with_add None (core_step pre_fix s l) else None
  | LAwaitReg _ _ | LPubKey _ _ _ _ => if is_none a then with_add None (core_step pre_fix s l) else None   (* need db.mu *)
  | _ => with_add a (core_step pre_fix s l)
  end.

Definition step := step_gen false.
Definition xinit : xstate := (init, None).

Fixpoint run_gen (pre_fix : bool) (s : xstate) (ls : list label) : option xstate :=
  match ls with
  | [] => Some s
  | l :: r => match step_gen pre_fix s l with Some s' => run_gen pre_fix s' r | None => None end
  end.
Definition run := run_gen false.

(* Index of the first label the model refuses (None = whole trace accepted). *)
Fixpoint first_reject (pre_fix : bool) (s : xstate) (ls : list label) (i : nat) : option nat :=
  match ls with
  | [] => None
  | l :: r => match step_gen pre_fix s l with Some s' => first_reject pre_fix s' r (S i) | None => Some i end
  end.

(* Model-guided diagnosis of a refused label (used by the check to turn a correspondence break
   into a concrete finding; no theorem depends on it):
   1 = the model expected a clash error that the implementation did not return,
   2 = quiescence although the model holds a response for a reader (a satisfiable query is blocked),
   3 = a reader got other content than the model's stored value for its key,
   4 = an operation that needs the lock was observed between a Store's deadline verdict and the end
       of that Store (verdict and write are not atomic), 0 = anything else. *)
Definition is_clash (e : err) : bool :=
  match e with EClashPK | EClashAtt | EClashSrc | EClashTgt | EClashPro | EClashAgg | EClashCon => true | _ => false end.
Fixpoint first_err (t : dtype) (es : list entry) (d : db) : option err :=
  match es with
  | [] => None
  | e :: r => match store_entry false t e d with (d', None) => first_err t r d' | (_, Some er) => Some er end
  end.
Definition diagnose (x : xstate) (l : label) : N :=
  let (s, a) := x in
  match l with
  | LAdd _ _ | LAwaitReg _ _ | LPubKey _ _ _ _ => if is_none a then 0 else 4
  | LStore (t, sl) st vis unv res =>
      if negb (add_eqb a (t, sl) st) then 4 else
      match st, kind_of_dt t, first_err t vis (st_db s) with
      | Scheduled, Some _, Some er =>
          if is_clash er && match res with Some e => negb (is_clash e) | None => true end then 1 else 0
      | _, _, _ => 0
      end
  | LQuiet => match outbox s with [] => 0 | _ => 2 end
  | LAnswer q k c =>
      if existsb (fun x => let '(q', k', c') := x in N.eqb q q' && key_eqb k k' && negb (N.eqb c c')) (outbox s) then 3 else 0
  | _ => 0
  end.
Fixpoint first_reject_diag (s : xstate) (ls : list label) (i : nat) : option (nat * N) :=
  match ls with
  | [] => None
  | l :: r => match step_gen false s l with Some s' => first_reject_diag s' r (S i) | None => Some (i, diagnose s l) end
  end.

(* ================= the property, read off the trace alone (no model state) ================= *)

(* Keys an entry provides when it is stored as part of a set of type t, with the content offered. *)
Definition offers (t : dtype) (e : entry) : list (key * N) :=
  match t, e with
  | DAtt, EAtt _ _ slot comm _ cid _ _ => [(K KAtt slot comm 0, cid); (K KAtt slot 0 0, cid)]
  | DPro, EPro slot _ cid => [(K KPro slot 0 0, cid)]
  | DAgg, EAgg slot root comm cid => [(K KAgg slot root comm, cid)]
  | DCon, ECon cs => map (fun c => let '(slot, sub, broot, cid) := c in (K KCon slot sub broot, cid)) cs
  | _, _ => []
  end.
Definition offers_pk (t : dtype) (e : entry) : list (pkkey * N) :=
  match t, e with
  | DAtt, EAtt pk _ slot comm vidx _ _ _ => [((slot, comm, vidx), pk); ((slot, 0, vidx), pk)]
  | _, _ => []
  end.

(* Discipline of the caller (core/fetcher) and of the deadliner (property C16), needed for
   uniqueness ACROSS expiry: every entry of a set stored for duty (t, sl) is about slot sl, and
   a duty the deadliner has emitted never gets the VERDICT Scheduled again (checked at [LAdd], the
   instant of the verdict; that the write belongs to the same atomic step is the store's own job
   and is part of the model / monitor, see [xcheck]). *)
Definition entry_slots_ok (sl : N) (e : entry) : bool :=
  match e with
  | EAtt _ dslot slot _ _ _ _ _ => N.eqb dslot sl && N.eqb slot sl
  | EPro slot _ _ => N.eqb slot sl
  | EAgg slot _ _ _ => N.eqb slot sl
  | ECon cs => forallb (fun c => let '(slot, _, _, _) := c in N.eqb slot sl) cs
  end.
Definition in_duties (d : duty) (l : list duty) : bool := existsb (duty_eqb d) l.

Definition resolved_res (res : option err) : bool :=   (* Store got as far as resolving the queries *)
  match res with None | Some EDeprecated | Some EUnknownType => true | _ => false end.

Record ghost := mkg {
  g_pend : list (N * key);     (* outstanding queries: registered, not yet returned *)
  g_off : list (key * N);      (* (key, content) handed to a non-refused Store in a visited entry *)
  g_offpk : list (pkkey * N);
  g_ans : list (key * N);      (* answers given so far *)
  g_dead : list duty;          (* duties the deadliner has emitted *)
  g_disc : bool;               (* discipline held so far *)
  g_must : list N;             (* queries that must return before the next quiescent point *)
  g_prov : list key;           (* keys provided by successful Stores with no deletion since *)
  g_expn : bool;               (* an emitted duty may still be waiting on C() *)
  g_dirty : list kind          (* types with a failed Store (possible partial effects) since their queries were last resolved *)
}.
Definition ginit : ghost := mkg [] [] [] [] [] true [] [] false [].

Definition pair_in (k : key) (c : N) (l : list (key * N)) : bool :=
  existsb (fun x => key_eqb (fst x) k && N.eqb (snd x) c) l.
Definition pk_in (k : pkkey) (c : N) (l : list (pkkey * N)) : bool :=
  existsb (fun x => pkkey_eqb (fst x) k && N.eqb (snd x) c) l.
Definition qk_in (q : N) (k : key) (l : list (N * key)) : bool :=
  existsb (fun x => N.eqb (fst x) q && key_eqb (snd x) k) l.
Definition nmem (q : N) (l : list N) : bool := existsb (N.eqb q) l.

(* every earlier answer for key k carried content c *)
Definition ans_agree (k : key) (c : N) (l : list (key * N)) : bool :=
  forallb (fun x => negb (key_eqb (fst x) k) || N.eqb (snd x) c) l.

Definition store_disc (g : ghost) (d : duty) (st : status) (vis : list entry) : bool :=
  match st with
  | Scheduled => forallb (entry_slots_ok (snd d)) vis
  | _ => true
  end.
(* the verdict: a duty the deadliner has already emitted is not Scheduled (C16) *)
Definition add_disc (g : ghost) (d : duty) (st : status) : bool :=
  match st with
  | Scheduled => negb (in_duties d (g_dead g))
  | _ => true
  end.

Definition store_keys (t : dtype) (vis : list entry) : list key := map fst (flat_map (offers t) vis).

(* [check g l]: label l is consistent with the property in ghost state g. *)
Definition check (g : ghost) (l : label) : bool :=
  match l with
  | LStore d st vis unv res =>
      match st with
      | Scheduled => negb (res_eqb res (Some ERefused))
      | _ => res_eqb res (Some ERefused) && nil_entries vis       (* expired / exempt: refused, nothing touched *)
      end
  | LAnswer q k c =>
      qk_in q k (g_pend g)                                         (* only outstanding queries are answered *)
      && pair_in k c (g_off g)                                     (* only data handed to a non-refused Store for that key *)
      && (negb (g_disc g) || ans_agree k c (g_ans g))              (* same content as every earlier answer *)
  | LPubKey slot comm vidx (Some p) => pk_in (slot, comm, vidx) p (g_offpk g)
  | LQuiet => match g_must g with [] => true | _ => false end      (* nobody who could be served is still blocked *)
  | _ => true
  end.

(* ... and the deadline verdict and the write of a Store are one atomic step: between LAdd and its
   LStore no other operation that needs the lock is observed ([a] = verdict of the Store in progress) *)
Definition xghost := (ghost * option (duty * status))%type.
Definition xcheck (x : xghost) (l : label) : bool :=
  let (g, a) := x in
  match l with
  | LAdd _ _ => is_none a
  | LStore d st _ _ _ => add_eqb a d st && check g l
  | LAwaitReg _ _ | LPubKey _ _ _ _ => is_none a && check g l
  | _ => check g l
  end.

Definition drop_kind (kd : kind) (l : list kind) : list kind := filter (fun x => negb (kind_eqb x kd)) l.
Definition drop_q (q : N) (l : list (N * key)) : list (N * key) := filter (fun x => negb (N.eqb (fst x) q)) l.
Definition drop_n (q : N) (l : list N) : list N := filter (fun x => negb (N.eqb x q)) l.

Definition gstep (g : ghost) (l : label) : ghost :=
  match l with
  | LStore d st vis unv res =>
      match st with
      | Scheduled =>
          let disc := g_disc g && store_disc g d st vis in
          let off := flat_map (offers (fst d)) vis ++ g_off g in
          let offpk := flat_map (offers_pk (fst d)) vis ++ g_offpk g in
          match kind_of_dt (fst d) with
          | Some kd =>
              if resolved_res res then
                let ks := store_keys (fst d) vis in
                let must := map fst (filter (fun x => in_keys (snd x) ks) (g_pend g)) ++ g_must g in
                let prov := if g_expn g then [] else ks ++ g_prov g in
                mkg (g_pend g) off offpk (g_ans g) (g_dead g) disc must prov
                    (match res with None => false | _ => g_expn g end) (drop_kind kd (g_dirty g))
              else mkg (g_pend g) off offpk (g_ans g) (g_dead g) disc (g_must g) (g_prov g) (g_expn g) (kd :: g_dirty g)
          | None => mkg (g_pend g) off offpk (g_ans g) (g_dead g) disc (g_must g) (g_prov g) (g_expn g) (g_dirty g)
          end
      | _ => g
      end
  | LAwaitReg q k =>
      mkg (g_pend g ++ [(q, k)]) (g_off g) (g_offpk g) (g_ans g) (g_dead g) (g_disc g)
          (if in_keys k (g_prov g) then q :: g_must g else g_must g) (g_prov g) (g_expn g)
          (drop_kind (k_kind k) (g_dirty g))
  | LAnswer q k c =>
      mkg (drop_q q (g_pend g)) (g_off g) (g_offpk g) ((k, c) :: g_ans g)
          (g_dead g) (g_disc g) (drop_n q (g_must g)) (g_prov g) (g_expn g) (g_dirty g)
  | LCancel q =>
      mkg (drop_q q (g_pend g)) (g_off g) (g_offpk g) (g_ans g)
          (g_dead g) (g_disc g) (drop_n q (g_must g)) (g_prov g) (g_expn g) (g_dirty g)
  | LExpire d =>
      mkg (g_pend g) (g_off g) (g_offpk g) (g_ans g) (d :: g_dead g) (g_disc g) (g_must g) (g_prov g) true (g_dirty g)
  | LPubKey _ _ _ _ => g
  | LQuiet => g
  | LAdd d st =>
      mkg (g_pend g) (g_off g) (g_offpk g) (g_ans g) (g_dead g) (g_disc g && add_disc g d st) (g_must g) (g_prov g)
          (g_expn g) (g_dirty g)
  end.

Definition xgstep (x : xghost) (l : label) : xghost :=
  let (g, a) := x in
  (gstep g l,
   match l with
   | LAdd d st => Some (d, st)
   | LStore _ _ _ _ _ | LAwaitReg _ _ | LPubKey _ _ _ _ => None
   | _ => a
   end).
Definition xginit : xghost := (ginit, None).

Fixpoint monitor_from (x : xghost) (ls : list label) : bool :=
  match ls with [] => true | l :: r => xcheck x l && monitor_from (xgstep x l) r end.
Definition monitor := monitor_from xginit.

Fixpoint first_violation (x : xghost) (ls : list label) (i : nat) : option nat :=
  match ls with
  | [] => None
  | l :: r => if xcheck x l then first_violation (xgstep x l) r (S i) else Some i
  end.

Fixpoint xghost_after (x : xghost) (ls : list label) : xghost :=
  match ls with [] => x | l :: r => xghost_after (xgstep x l) r end.

Fixpoint ghost_after (g : ghost) (ls : list label) : ghost :=
  match ls with [] => g | l :: r => ghost_after (gstep g l) r end.

(* whether the whole trace is disciplined (then uniqueness was checked at every answer) *)
Definition disciplined (ls : list label) : bool := g_disc (ghost_after ginit ls).
