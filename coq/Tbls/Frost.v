(* C11 — the FROST key generation as run by dkg/frost.go (runFrostParallel, round1, round2,
   getRound2Inputs, makeShares) over the kryptology participant (modelled, not verified).

   n nodes with share ids 1..n (node index i has id i+1 = [idn F i]), threshold t, numVals
   validators generated in parallel.  Node i holds, per validator v, a polynomial f v i of degree
   < t (kryptology: FeldmanSplit of a fresh secret).  Messages carry the key (ValIdx, SourceID,
   TargetID) of dkg/frost.go (TargetID 0 = broadcast):

     round 1 broadcast  (v, i+1, 0)   |->  commitment to the constant term   pk_of (f v i).[0]
     round 1 p2p        (v, i+1, j+1) |->  f v i evaluated at the id of j    (i <> j)
     round 2 broadcast  (v, i+1, 0)   |->  public share of node i           pk_of (sk v i)

   What a node receives is an ARBITRARY list (arrival order, as collected from channels and
   written into Go maps) that contains exactly the messages addressed to it, each once —
   the contract of the transport (frostp2p.go validates source/target/validator index and
   deduplicates; reliable broadcast is property C13).  The model then does what the Go code does:
   getRound2Inputs filters by validator index and re-keys by SourceID (Go map: the last write for
   a key wins), kryptology's Round2 sums the own share and the received ones over the ids present
   in the broadcast map, makeShares collects the round-2 public shares by (ValIdx, SourceID). *)
From mathcomp Require Import all_ssreflect all_algebra.
From mathcomp Require Import zify.
From Charon Require Import Tbls.Shamir.
Set Implicit Arguments.
Unset Strict Implicit.
Unset Printing Implicit Defensive.
Import GRing.Theory.
Local Open Scope ring_scope.

(* ------------------------------------------------------------------------------------------ *)
(* Go maps built from a list of writes                                                         *)

Section GoMap.
Variables (K : eqType) (A : Type).

(* value stored under k after the writes ms, in order: the last write wins *)
Definition lookup (ms : seq (K * A)) (k : K) : option A :=
  ohead [seq e.2 | e <- rev ms & e.1 == k].

Definition keys (ms : seq (K * A)) : seq K := undup (map fst ms).

End GoMap.

Section GoMapFacts.
Variables (K A : eqType).

Lemma filter_uniq_key (ms : seq (K * A)) k a :
  uniq (map fst ms) -> (k, a) \in ms -> [seq e <- ms | e.1 == k] = [:: (k, a)].
Proof.
elim: ms => [//|[k' a'] ms IH] /= /andP[nin U]; rewrite inE => /orP[/eqP[ek ea]|kin].
  rewrite -ek -ea eqxx; congr (_ :: _); apply/eqP; rewrite -[_ == _]negbK -has_filter; apply/hasPn.
  by move=> e ein; apply: contra nin => /eqP ee; rewrite -ek -ee; exact: map_f.
case: eqP => [e|_]; last exact: IH.
by move: nin; rewrite e (map_f fst kin).
Qed.

(* with unique keys the arrival order is irrelevant: the value found is the one written *)
Lemma lookup_perm (ms ms' : seq (K * A)) k a :
  uniq (map fst ms) -> perm_eq ms' ms -> (k, a) \in ms -> lookup ms' k = Some a.
Proof.
move=> U pe kin; rewrite /lookup.
have pr : perm_eq (rev ms') ms' by rewrite perm_rev.
have U' : uniq (map fst (rev ms')).
  by rewrite (perm_uniq (perm_map fst pr)) (perm_uniq (perm_map fst pe)).
have kin' : (k, a) \in rev ms' by rewrite mem_rev (perm_mem pe).
by rewrite (filter_uniq_key U' kin').
Qed.

Lemma lookup_uniq (ms : seq (K * A)) k a :
  uniq (map fst ms) -> (k, a) \in ms -> lookup ms k = Some a.
Proof. by move=> U; apply: lookup_perm. Qed.

End GoMapFacts.

(* ------------------------------------------------------------------------------------------ *)

Section Frost.
Variable F : fieldType.
Variable G1 : lmodType F.
Variable g1 : G1.
Variables (n t numVals : nat).
Variable f : nat -> nat -> {poly F}.   (* f v i : polynomial of node i for validator v *)
Hypothesis f_deg : forall v i, (size (f v i) <= t)%N.

Local Notation x := (idn F).
Local Notation pk := (pk_of g1).

(* message key (ValIdx, SourceID, TargetID) *)
Definition key := (nat * nat * nat)%type.
Definition kval (k : key) := k.1.1.
Definition ksrc (k : key) := k.1.2.
Definition ktgt (k : key) := k.2.

(* the joint polynomial of validator v and the outputs the ceremony should produce *)
Definition joint (v : nat) : {poly F} := \sum_(i <- iota 0 n) f v i.
Definition sk (v j : nat) : F := (joint v).[x j].
Definition group_key (v : nat) : G1 := pk (joint v).[0].

Lemma size_joint v : (size (joint v) <= t)%N.
Proof.
apply: leq_trans (size_sum _ _ _) _; apply/bigmax_leqP_seq => i _ _; exact: f_deg.
Qed.

Lemma sk_sum v j : sk v j = \sum_(i <- iota 0 n) (f v i).[x j].
Proof. by rewrite /sk /joint horner_sum. Qed.

(* ---- what is sent (dkg/frost.go round1 / round2) *)
Definition p2p_msg (v i j : nat) : key * F := ((v, i.+1, j.+1), (f v i).[x j]).
Definition cast1_msg (v i : nat) : key * G1 := ((v, i.+1, 0%N), pk (f v i).[0]).
Definition cast2_msg (v i : nat) : key * G1 := ((v, i.+1, 0%N), pk (sk v i)).

(* ---- transport contracts: the list received by a node, in any order *)
Definition p2p_contract (j : nat) (recv : seq (key * F)) : Prop :=
  uniq (map fst recv) /\
  forall m, (m \in recv) <->
            (exists v i, [/\ (v < numVals)%N, (i < n)%N, i != j & m = ((v, i.+1, j.+1), (f v i).[x j])]).

Definition cast_contract (msg : nat -> nat -> key * G1) (recv : seq (key * G1)) : Prop :=
  uniq (map fst recv) /\
  forall m, (m \in recv) <->
            (exists v i, [/\ (v < numVals)%N, (i < n)%N, true & m = ((v, i.+1, 0%N), (msg v i).2)]).

(* ---- dkg/frost.go getRound2Inputs: entries of validator v, re-keyed by SourceID *)
Definition r2_inputs (A : Type) (ms : seq (key * A)) (v : nat) : seq (nat * A) :=
  [seq (ksrc m.1, m.2) | m <- ms & kval m.1 == v].

(* ---- kryptology Round2 (modelled): own share + the received share of every other id present
   in the broadcast map; verification key = own commitment + the others' *)
Definition r2_sk (j v : nat) (casts : seq (key * G1)) (p2p : seq (key * F)) : F :=
  (f v j).[x j] +
  \sum_(id <- keys (r2_inputs casts v) | id != j.+1) odflt 0 (lookup (r2_inputs p2p v) id).

Definition r2_vk (j v : nat) (casts : seq (key * G1)) : G1 :=
  pk (f v j).[0] +
  \sum_(id <- keys (r2_inputs casts v) | id != j.+1) odflt 0 (lookup (r2_inputs casts v) id).

(* ---- dkg/frost.go makeShares: PublicShares[v][SourceID] from the round-2 broadcasts *)
Definition out_pubshare (v i : nat) (casts2 : seq (key * G1)) : option G1 :=
  lookup (r2_inputs casts2 v) i.+1.

(* ------------------------------------------------------------------------------------------ *)
(* Routing: a received list that contains, for every validator v < numVals and every admitted
   source i < n, exactly the message ((v, i+1, tg), val v i) — in any order.                     *)

Section Routing.
Variables (A : eqType) (tg : nat) (admitted : pred nat) (val : nat -> nat -> A).

Definition contract (recv : seq (key * A)) : Prop :=
  uniq (map fst recv) /\
  forall m, (m \in recv) <->
            (exists v i, [/\ (v < numVals)%N, (i < n)%N, admitted i & m = ((v, i.+1, tg), val v i)]).

Variable recv : seq (key * A).
Hypothesis C : contract recv.

Lemma contract_perm recv' : perm_eq recv' recv -> contract recv'.
Proof.
case: C => U M pe; split; first by rewrite (perm_uniq (perm_map fst pe)).
by move=> m; rewrite (perm_mem pe).
Qed.

Lemma r2_inputs_mem v i : (v < numVals)%N -> (i < n)%N -> admitted i ->
  (i.+1, val v i) \in r2_inputs recv v.
Proof.
move=> lv li ad; apply/mapP; exists ((v, i.+1, tg), val v i) => //.
by rewrite mem_filter /kval /= eqxx; apply/(proj2 C); exists v, i.
Qed.

Lemma r2_inputs_uniq v : uniq (map fst (r2_inputs recv v)).
Proof.
rewrite /r2_inputs -map_comp map_inj_in_uniq.
  by apply: filter_uniq; apply: map_uniq (proj1 C).
move=> a b; rewrite !mem_filter => /andP[/eqP va /(proj2 C)[va' [ia [_ _ _ ea]]]].
move=> /andP[/eqP vb /(proj2 C)[vb' [ib [_ _ _ eb]]]].
move: va vb; rewrite ea eb /kval /ksrc /= => -> <- [->].
by [].
Qed.

Lemma r2_inputs_only v e : e \in r2_inputs recv v ->
  exists i, [/\ (i < n)%N, admitted i & e = (i.+1, val v i)].
Proof.
case/mapP=> m; rewrite mem_filter => /andP[/eqP vm /(proj2 C)[v' [i [_ li ad em]]]] ->.
by exists i; split=> //; move: vm; rewrite em /kval /ksrc /= => ->.
Qed.

(* every admitted source has exactly one entry, with the value it sent; nothing else is there *)
Lemma routed v i : (v < numVals)%N -> (i < n)%N -> admitted i ->
  lookup (r2_inputs recv v) i.+1 = Some (val v i) /\
  [seq e <- r2_inputs recv v | e.1 == i.+1] = [:: (i.+1, val v i)].
Proof.
move=> lv li ad; split.
  exact: (lookup_uniq (r2_inputs_uniq v) (r2_inputs_mem lv li ad)).
exact: (filter_uniq_key (r2_inputs_uniq v) (r2_inputs_mem lv li ad)).
Qed.

Lemma keys_r2_inputs v : (v < numVals)%N ->
  perm_eq (keys (r2_inputs recv v)) [seq i.+1 | i <- iota 0 n & admitted i].
Proof.
move=> lv; apply: uniq_perm; first exact: undup_uniq.
  by rewrite map_inj_uniq ?filter_uniq ?iota_uniq //; apply: succn_inj.
move=> id; rewrite mem_undup; apply/mapP/mapP => [[e /r2_inputs_only[i [li ad ->]] ->]|[i]].
  by exists i => //; rewrite mem_filter ad mem_iota.
rewrite mem_filter mem_iota add0n /= => /andP[ad li] ->.
by exists (i.+1, val v i) => //; apply: r2_inputs_mem.
Qed.

End Routing.

(* ------------------------------------------------------------------------------------------ *)

(* routing_exact: node j receives, for validator v, exactly one share from every other node i,
   namely f v i at j's id, whatever the arrival order *)
Theorem routing_exact j p2p : p2p_contract j p2p ->
  forall p2p', perm_eq p2p' p2p ->
  forall v i, (v < numVals)%N -> (i < n)%N -> i != j ->
  lookup (r2_inputs p2p' v) i.+1 = Some (f v i).[x j] /\
  [seq e <- r2_inputs p2p' v | e.1 == i.+1] = [:: (i.+1, (f v i).[x j])] /\
  (forall e, e \in r2_inputs p2p' v -> exists i', [/\ (i' < n)%N, i' != j & e = (i'.+1, (f v i').[x j])]).
Proof.
move=> C p2p' pe v i lv li ij.
have C' := contract_perm C pe.
have [L E] := routed C' lv li ij.
by split=> //; split=> // e /(r2_inputs_only C').
Qed.

Lemma sum_ids (V : zmodType) (s : seq nat) (P : pred nat) (E : nat -> V) (j : nat) :
  perm_eq s [seq i.+1 | i <- iota 0 n & P i] ->
  \sum_(id <- s | id != j.+1) E id = \sum_(i <- iota 0 n | P i && (i != j)) E i.+1.
Proof. by move=> pe; rewrite (perm_big _ pe) /= big_map big_filter_cond. Qed.

(* the secret share node j derives is the joint polynomial at j's id *)
Theorem frost_sk j v casts p2p :
  cast_contract cast1_msg casts -> p2p_contract j p2p -> (j < n)%N -> (v < numVals)%N ->
  r2_sk j v casts p2p = sk v j.
Proof.
move=> Cc Cp lj lv; rewrite /r2_sk sk_sum.
rewrite (sum_ids _ _ (keys_r2_inputs Cc lv)) /=.
rewrite [in RHS](bigD1_seq j) ?iota_uniq ?mem_iota //=; congr (_ + _).
rewrite big_seq_cond [in RHS]big_seq_cond; apply: eq_bigr => i; rewrite mem_iota add0n /= => /andP[li ij].
by have [-> _] := routed Cp lv li ij.
Qed.

(* the group public key node j derives is the image of the joint secret *)
Theorem frost_vk j v casts :
  cast_contract cast1_msg casts -> (j < n)%N -> (v < numVals)%N ->
  r2_vk j v casts = group_key v.
Proof.
move=> Cc lj lv; rewrite /r2_vk /group_key /joint horner_sum /pk_of scaler_suml.
rewrite (sum_ids _ _ (keys_r2_inputs Cc lv)) /=.
rewrite [in RHS](bigD1_seq j) ?iota_uniq ?mem_iota //=; congr (_ + _).
rewrite big_seq_cond [in RHS]big_seq_cond; apply: eq_bigr => i; rewrite mem_iota add0n /= => /andP[li ij].
by have [-> _] := routed Cc lv li isT.
Qed.

(* the public shares every node files under (v, i) are the images of the secret shares *)
Theorem frost_pubshare v i casts2 :
  cast_contract cast2_msg casts2 -> (v < numVals)%N -> (i < n)%N ->
  out_pubshare v i casts2 = Some (pk (sk v i)).
Proof. by move=> C lv li; rewrite /out_pubshare; have [-> _] := routed C lv li isT. Qed.

(* ------------------------------------------------------------------------------------------ *)
(* The concrete network: everything the n honest nodes send; node j receives the messages
   addressed to it in an arbitrary order.                                                       *)

Definition vis : seq (nat * nat) := [seq (v, i) | v <- iota 0 numVals, i <- iota 0 n].

Definition sent_p2p : seq (key * F) :=
  [seq m <- [seq ((vi.1, vi.2.+1, j.+1), (f vi.1 vi.2).[x j]) | vi <- vis, j <- iota 0 n]
   | ksrc m.1 != ktgt m.1].

Definition delivered_to (j : nat) : seq (key * F) := [seq m <- sent_p2p | ktgt m.1 == j.+1].

Definition sent_cast (msg : nat -> nat -> key * G1) : seq (key * G1) :=
  [seq ((vi.1, vi.2.+1, 0%N), (msg vi.1 vi.2).2) | vi <- vis].

Lemma vis_uniq : uniq vis.
Proof. by apply: allpairs_uniq; rewrite ?iota_uniq // => -[a1 a2] [b1 b2] _ _ /=. Qed.

Lemma mem_vis v i : ((v, i) \in vis) = (v < numVals)%N && (i < n)%N.
Proof.
apply/allpairsP/andP => [[[v' i'] /= [vin iin [-> ->]]]|[lv li]].
  by move: vin iin; rewrite !mem_iota.
by exists (v, i); rewrite /= !mem_iota.
Qed.

Lemma delivered_contract j recv : (j < n)%N -> perm_eq recv (delivered_to j) -> p2p_contract j recv.
Proof.
move=> lj pe; split.
  rewrite (perm_uniq (perm_map fst pe)) /delivered_to /sent_p2p.
  apply: (subseq_uniq (map_subseq fst (filter_subseq _ _))).
  apply: (subseq_uniq (map_subseq fst (filter_subseq _ _))).
  rewrite map_allpairs /=; apply: allpairs_uniq; rewrite ?iota_uniq ?vis_uniq //.
  by move=> [[v i] j1] [[v' i'] j2] _ _ /= [-> -> ->].
move=> m; rewrite (perm_mem pe) /delivered_to /sent_p2p !mem_filter; split.
  case/and3P=> /eqP tj st /allpairsP[[[v i] j'] /= [vin jin em]].
  move: tj st; rewrite em /ktgt /ksrc /= => -[ej]; rewrite eqSS ej => ij.
  by move: vin; rewrite mem_vis => /andP[lv li]; exists v, i; split=> //; rewrite ej.
case=> v [i [lv li ij ->]]; rewrite /ktgt /ksrc /= eqxx eqSS ij /=.
apply/allpairsP; exists ((v, i), j) => /=; split=> //; first by rewrite mem_vis lv li.
by rewrite mem_iota add0n.
Qed.

Lemma sent_cast_contract msg recv : perm_eq recv (sent_cast msg) -> cast_contract msg recv.
Proof.
move=> pe; split.
  rewrite (perm_uniq (perm_map fst pe)) /sent_cast -map_comp map_inj_uniq ?vis_uniq //.
  by move=> [v i] [v' i'] /= [-> ->].
move=> m; rewrite (perm_mem pe); split.
  case/mapP=> [[v i]]; rewrite mem_vis => /andP[lv li] ->.
  by exists v, i.
case=> v [i [lv li _ ->]]; apply/mapP; exists (v, i) => //.
by rewrite mem_vis lv li.
Qed.

(* routing_exact on the concrete network *)
Theorem routing_exact_net j p2p' : (j < n)%N -> perm_eq p2p' (delivered_to j) ->
  forall v i, (v < numVals)%N -> (i < n)%N -> i != j ->
  lookup (r2_inputs p2p' v) i.+1 = Some (f v i).[x j] /\
  [seq e <- r2_inputs p2p' v | e.1 == i.+1] = [:: (i.+1, (f v i).[x j])] /\
  (forall e, e \in r2_inputs p2p' v -> exists i', [/\ (i' < n)%N, i' != j & e = (i'.+1, (f v i').[x j])]).
Proof. by move=> lj pe; apply: (routing_exact (delivered_contract lj (perm_refl _)) pe). Qed.

(* frost_consistent.  For every node j < n, whatever the orders in which the round-1 p2p shares
   addressed to it, the round-1 broadcasts and the round-2 broadcasts arrive: its secret share is
   the joint polynomial at its id, its group key is the image of the joint secret, the public
   share it files for every node i is the image of i's secret share, and the joint polynomial
   has degree < t.  The right-hand sides do not mention j or the arrival orders: all nodes
   hold the same group key and the same public shares, and every secret share matches the
   public share published for it. *)
Theorem frost_consistent j p2p casts1 casts2 :
  (j < n)%N ->
  perm_eq p2p (delivered_to j) ->
  perm_eq casts1 (sent_cast cast1_msg) ->
  perm_eq casts2 (sent_cast cast2_msg) ->
  forall v, (v < numVals)%N ->
  [/\ r2_sk j v casts1 p2p = sk v j,
      r2_vk j v casts1 = group_key v,
      forall i, (i < n)%N -> out_pubshare v i casts2 = Some (pk (sk v i)),
      out_pubshare v j casts2 = Some (pk (r2_sk j v casts1 p2p))
    & (size (joint v) <= t)%N].
Proof.
move=> lj pp pc1 pc2 v lv.
have Cp := delivered_contract lj pp.
have C1 := sent_cast_contract pc1.
have C2 := sent_cast_contract pc2.
split; first exact: frost_sk.
- exact: frost_vk.
- by move=> i li; apply: frost_pubshare.
- by rewrite (frost_sk C1 Cp lj lv); apply: frost_pubshare.
- exact: size_joint.
Qed.

(* ... so all C08 theorems apply to the joint polynomial: any t public shares reconstruct the
   group key (and any >= t) *)
Theorem frost_pubshares_reconstruct v js :
  char_above F n -> uniq js -> {subset js <= iota 0 n} -> (t <= size js)%N ->
  recover x js (fun i => pk (sk v i)) = group_key v.
Proof.
move=> ch U sub tj; have [D _] := nat_ids_ok ch U sub.
exact: (recover_image g1 D (size_joint v) tj).
Qed.

End Frost.

(* any t secret shares sign validly: the partial signatures of >= t nodes combine to the signature
   of the joint secret, which verifies under the group key; and a combination with one wrong
   partial verifies only in the degenerate cases of C08 *)
Section FrostSign.
Variables (F : fieldType) (G1 G2 GT : lmodType F) (e : G1 -> G2 -> GT) (g1 : G1).
Hypothesis e_scalel : forall a u v, e (a *: u) v = a *: e u v.
Hypothesis e_scaler : forall a u v, e u (a *: v) = a *: e u v.
Hypothesis e_subr : forall u v w, e u (v - w) = e u v - e u w.
Hypothesis e_nondeg : forall v, e g1 v = 0 -> v = 0.
Variables (n t : nat) (f : nat -> nat -> {poly F}).
Hypothesis f_deg : forall v i, (size (f v i) <= t)%N.
Hypothesis ch : char_above F n.

Theorem frost_threshold_signature v js h :
  uniq js -> {subset js <= iota 0 n} -> (t <= size js)%N ->
  recover (idn F) js (fun i => sign (sk n f v i) h) = sign (joint n f v).[0] h /\
  verify e g1 (group_key g1 n f v) h (recover (idn F) js (fun i => sign (sk n f v i) h)).
Proof.
move=> U sub tj; have [D _] := nat_ids_ok ch U sub.
have [A [_ B]] := threshold_signature_correct e_scalel e_scaler e_subr e_nondeg
                    (@size_joint F n t f f_deg v) tj D h.
by split.
Qed.

Theorem frost_wrong_partial_iff v js h j (sig' : G2) :
  uniq js -> {subset js <= iota 0 n} -> (t <= size js)%N -> j \in js ->
  verify e g1 (group_key g1 n f v) h
    (recover (idn F) js (fun k => if k == j then sig' else sign (sk n f v k) h))
  <-> sig' = sign (sk n f v j) h.
Proof.
move=> U sub tj jin; have [D N] := nat_ids_ok ch U sub.
exact: (wrong_partial_iff e_scalel e_scaler e_subr e_nondeg (@size_joint F n t f f_deg v) tj D N).
Qed.

End FrostSign.
