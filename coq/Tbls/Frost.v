(* C11 — the FROST key generation as run by dkg/frost.go (runFrostParallel, round1, round2,
   getRound2Inputs, makeShares) over the kryptology participant (modelled, not verified).

   n nodes with share ids 1..n (node index i has id i+1 = [idn F i]), threshold t, numVals
   validators generated in parallel.  Node i holds, per validator v, a polynomial f v i of degree
   < t (kryptology: FeldmanSplit of a fresh secret).  Messages carry the key (ValIdx, SourceID,
   TargetID) of dkg/frost.go (TargetID 0 = broadcast):

     round 1 broadcast  (v, i+1, 0)   |->  commitment to the constant term   pk_of (f v i).[0]
     round 1 p2p        (v, i+1, j+1) |->  f v i evaluated at the id of j    (i <> j)
     round 2 broadcast  (v, i+1, 0)   |->  public share of node i           pk_of (sk v i)

   What a node receives is an ARBITRARY list (arrival order, as collected from channels and
   written into Go maps) that contains exactly the messages addressed to it, each once —
   the contract of the transport (frostp2p.go validates source/target/validator index and
   deduplicates; reliable broadcast is property C13).  The model then does what the Go code does:
   getRound2Inputs filters by validator index and re-keys by SourceID (Go map: the last write for
   a key wins), kryptology's Round2 sums the own share and the received ones over the ids present
   in the broadcast map, makeShares collects the round-2 public shares by (ValIdx, SourceID). *)
From mathcomp Require Import all_ssreflect all_algebra.
From mathcomp Require Import zify.
From Charon Require Import Tbls.Shamir.
Set Implicit Arguments.
Unset Strict Implicit.
Unset Printing Implicit Defensive.
Import GRing.Theory.
Local Open Scope ring_scope.

(* ------------------------------------------------------------------------------------------ *)
(* Go maps built from a list of writes                                                         *)

Section GoMap.
Variables (K : eqType) (A : Type).

(* value stored under k after the writes ms, in order: the last write wins *)
Definition lookup (ms : seq (K * A)) (k : K) : option A :=
  ohead [seq e.2 | e <- rev ms & e.1 == k].

Definition keys (ms : seq (K * A)) : seq K := undup (map fst ms).

End GoMap.

Section GoMapFacts.
Variables (K A : eqType).

Lemma filter_uniq_key (ms : seq (K * A)) k a :
  uniq (map fst ms) -> (k, a) \in ms -> [seq e <- ms | e.1 == k] = [:: (k, a)].
Proof.
elim: ms => [//|[k' a'] ms IH] /= /andP[nin U]; rewrite inE => /orP[/eqP[ek ea]|kin].
  rewrite -ek -ea eqxx; congr (_ :: _); apply/eqP; rewrite -[_ == _]negbK -has_filter; apply/hasPn.
  by move=> e ein; apply: contra nin => /eqP ee; rewrite -ek -ee; exact: map_f.
case: eqP => [e|_]; last exact: IH.
by move: nin; rewrite e (map_f fst kin).
Qed.

(* with unique keys the arrival order is irrelevant: the value found is the one written *)
Lemma lookup_perm (ms ms' : seq (K * A)) k a :
  uniq (map fst ms) -> perm_eq ms' ms -> (k, a) \in ms -> lookup ms' k = Some a.
Proof.
move=> U pe kin; rewrite /lookup.
have pr : perm_eq (rev ms') ms' by rewrite perm_rev.
have U' : uniq (map fst (rev ms')).
  by rewrite (perm_uniq (perm_map fst pr)) (perm_uniq (perm_map fst pe)).
have kin' : (k, a) \in rev ms' by rewrite mem_rev (perm_mem pe).
by rewrite (filter_uniq_key U' kin').
Qed.

Lemma lookup_uniq (ms : seq (K * A)) k a :
  uniq (map fst ms) -> (k, a) \in ms -> lookup ms k = Some a.
Proof. by move=> U; apply: lookup_perm. Qed.

End GoMapFacts.

(* ------------------------------------------------------------------------------------------ *)

Section Frost.
Variable F : fieldType.
Variable G1 : lmodType F.
Variable g1 : G1.
Variables (n t numVals : nat).
Variable f : nat -> nat -> {poly F}.   (* f v i : polynomial of node i for validator v *)
Hypothesis f_deg : forall v i, (size (f v i) <= t)%N.

Local Notation x := (idn F).
Local Notation pk := (pk_of g1).

(* message key (ValIdx, SourceID, TargetID) *)
Definition key := (nat * nat * nat)%type.
Definition kval (k : key) := k.1.1.
Definition ksrc (k : key) := k.1.2.
Definition ktgt (k : key) := k.2.

(* the joint polynomial of validator v and the outputs the ceremony should produce *)
Definition joint (v : nat) : {poly F} := \sum_(i <- iota 0 n) f v i.
Definition sk (v j : nat) : F := (joint v).[x j].
Definition group_key (v : nat) : G1 := pk (joint v).[0].

Lemma size_joint v : (size (joint v) <= t)%N.
Proof.
apply: leq_trans (size_sum _ _ _) _; apply/bigmax_leqP_seq => i _ _; exact: f_deg.
Qed.

Lemma sk_sum v j : sk v j = \sum_(i <- iota 0 n) (f v i).[x j].
Proof. by rewrite /sk /joint horner_sum. Qed.

(* ---- what is sent (dkg/frost.go round1 / round2) *)
Definition p2p_msg (v i j : nat) : key * F := ((v, i.+1, j.+1), (f v i).[x j]).
Definition cast1_msg (v i : nat) : key * G1 := ((v, i.+1, 0%N), pk (f v i).[0]).
Definition cast2_msg (v i : nat) : key * G1 := ((v, i.+1, 0%N), pk (sk v i)).

(* ---- transport contracts: the list received by a node, in any order *)
Definition p2p_contract (j : nat) (recv : seq (key * F)) : Prop :=
  uniq (map fst recv) /\
  forall m, (m \in recv) <->
            (exists v i, [/\ (v < numVals)%N, (i < n)%N, i != j & m = ((v, i.+1, j.+1), (f v i).[x j])]).

Definition cast_contract (msg : nat -> nat -> key * G1) (recv : seq (key * G1)) : Prop :=
  uniq (map fst recv) /\
  forall m, (m \in recv) <->
            (exists v i, [/\ (v < numVals)%N, (i < n)%N, true & m = ((v, i.+1, 0%N), (msg v i).2)]).

(* ---- dkg/frost.go getRound2Inputs: entries of validator v, re-keyed by SourceID *)
Definition r2_inputs (A : Type) (ms : seq (key * A)) (v : nat) : seq (nat * A) :=
  [seq (ksrc m.1, m.2) | m <- ms & kval m.1 == v].

(* ---- kryptology Round2 (modelled): own share + the received share of every other id present
   in the broadcast map; verification key = own commitment + the others' *)
Definition r2_sk (j v : nat) (casts : seq (key * G1)) (p2p : seq (key * F)) : F :=
  (f v j).[x j] +
  \sum_(id <- keys (r2_inputs casts v) | id != j.+1) odflt 0 (lookup (r2_inputs p2p v) id).

Definition r2_vk (j v : nat) (casts : seq (key * G1)) : G1 :=
  pk (f v j).[0] +
  \sum_(id <- keys (r2_inputs casts v) | id != j.+1) odflt 0 (lookup (r2_inputs casts v) id).

(* ---- dkg/frost.go makeShares: PublicShares[v][SourceID] from the round-2 broadcasts *)
Definition out_pubshare (v i : nat) (casts2 : seq (key * G1)) : option G1 :=
  lookup (r2_inputs casts2 v) i.+1.

(* ------------------------------------------------------------------------------------------ *)
(* Routing: a received list that contains, for every validator v < numVals and every admitted
   source i < n, exactly the message ((v, i+1, tg), val v i) — in any order.                     *)

Section Routing.
Variables (A : eqType) (tg : nat) (admitted : pred nat) (val : nat -> nat -> A).

Definition contract (recv : seq (key * A)) : Prop :=
  uniq (map fst recv) /\
  forall m, (m \in recv) <->
            (exists v i, [/\ (v < numVals)%N, (i < n)%N, admitted i & m = ((v, i.+1, tg), val v i)]).

Variable recv : seq (key * A).
Hypothesis C : contract recv.

Lemma contract_perm recv' : perm_eq recv' recv -> contract recv'.
Proof.
case: C => U M pe; split; first by rewrite (perm_uniq (perm_map fst pe)).
by move=> m; rewrite (perm_mem pe).
Qed.

Lemma r2_inputs_mem v i : (v < numVals)%N -> (i < n)%N -> admitted i ->
  (i.+1, val v i) \in r2_inputs recv v.
Proof.
move=> lv li ad; apply/mapP; exists ((v, i.+1, tg), val v i) => //.
by rewrite mem_filter /kval /= eqxx; apply/(proj2 C); exists v, i.
Qed.

Lemma r2_inputs_uniq v : uniq (map fst (r2_inputs recv v)).
Proof.
rewrite /r2_inputs -map_comp map_inj_in_uniq; last first.
  by apply: filter_uniq; apply: map_uniq (proj1 C).
move=> a b; rewrite !mem_filter => /andP[/eqP va /(proj2 C)[va' [ia [_ _ _ ea]]]].
move=> /andP[/eqP vb /(proj2 C)[vb' [ib [_ _ _ eb]]]].
move: va vb; rewrite ea eb /kval /ksrc /= => -> <- [->].
by [].
Qed.

Lemma r2_inputs_only v e : e \in r2_inputs recv v ->
  exists i, [/\ (i < n)%N, admitted i & e = (i.+1, val v i)].
Proof.
case/mapP=> m; rewrite mem_filter => /andP[/eqP vm /(proj2 C)[v' [i [_ li ad em]]]] ->.
by exists i; split=> //; move: vm; rewrite em /kval /ksrc /= => ->.
Qed.

(* every admitted source has exactly one entry, with the value it sent; nothing else is there *)
Lemma routed v i : (v < numVals)%N -> (i < n)%N -> admitted i ->
  lookup (r2_inputs recv v) i.+1 = Some (val v i) /\
  [seq e <- r2_inputs recv v | e.1 == i.+1] = [:: (i.+1, val v i)].
Proof.
move=> lv li ad; split.
  exact: (lookup_uniq (r2_inputs_uniq v) (r2_inputs_mem lv li ad)).
exact: (filter_uniq_key (r2_inputs_uniq v) (r2_inputs_mem lv li ad)).
Qed.

Lemma keys_r2_inputs v : (v < numVals)%N ->
  perm_eq (keys (r2_inputs recv v)) [seq i.+1 | i <- iota 0 n & admitted i].
Proof.
move=> lv; apply: uniq_perm; first exact: undup_uniq.
  by rewrite map_inj_uniq ?filter_uniq ?iota_uniq //; apply: succn_inj.
move=> id; rewrite mem_undup; apply/mapP/mapP => [[e /r2_inputs_only[i [li ad ->]] ->]|[i]].
  by exists i => //; rewrite mem_filter ad mem_iota.
rewrite mem_filter mem_iota add0n /= => /andP[ad li] ->.
by exists (i.+1, val v i) => //; apply: r2_inputs_mem.
Qed.

End Routing.

(* ------------------------------------------------------------------------------------------ *)

(* routing_exact: node j receives, for validator v, exactly one share from every other node i,
   namely f v i at j's id, whatever the arrival order *)
Theorem routing_exact j p2p : p2p_contract j p2p ->
  forall p2p', perm_eq p2p' p2p ->
  forall v i, (v < numVals)%N -> (i < n)%N -> i != j ->
  lookup (r2_inputs p2p' v) i.+1 = Some (f v i).[x j] /\
  [seq e <- r2_inputs p2p' v | e.1 == i.+1] = [:: (i.+1, (f v i).[x j])] /\
  (forall e, e \in r2_inputs p2p' v -> exists i', [/\ (i' < n)%N, i' != j & e = (i'.+1, (f v i').[x j])]).
Proof.
move=> C p2p' pe v i lv li ij.
have C' := contract_perm C pe.
have [L E] := routed C' lv li ij.
by split=> //; split=> // e /(r2_inputs_only C').
Qed.

Lemma sum_ids (V : zmodType) (s : seq nat) (P : pred nat) (E : nat -> V) (j : nat) :
  perm_eq s [seq i.+1 | i <- iota 0 n & P i] ->
  \sum_(id <- s | id != j.+1) E id = \sum_(i <- iota 0 n | P i && (i != j)) E i.+1.
Proof. by move=> pe; rewrite (perm_big _ pe) /= big_map big_filter_cond. Qed.

(* the secret share node j derives is the joint polynomial at j's id *)
Theorem frost_sk j v casts p2p :
  cast_contract cast1_msg casts -> p2p_contract j p2p -> (j < n)%N -> (v < numVals)%N ->
  r2_sk j v casts p2p = sk v j.
Proof.
move=> Cc Cp lj lv; rewrite /r2_sk sk_sum.
rewrite (sum_ids _ _ (keys_r2_inputs Cc lv)) /=.
rewrite [in RHS](bigD1_seq j) ?iota_uniq ?mem_iota //=; congr (_ + _).
rewrite big_seq_cond [in RHS]big_seq_cond; apply: eq_bigr => i; rewrite mem_iota add0n /= => /andP[li ij].
by have [-> _] := routed Cp lv li ij.
Qed.

(* the group public key node j derives is the image of the joint secret *)
Theorem frost_vk j v casts :
  cast_contract cast1_msg casts -> (j < n)%N -> (v < numVals)%N ->
  r2_vk j v casts = group_key v.
Proof.
move=> Cc lj lv; rewrite /r2_vk /group_key /joint horner_sum /pk_of scaler_suml.
rewrite (sum_ids _ _ (keys_r2_inputs Cc lv)) /=.
rewrite [in RHS](bigD1_seq j) ?iota_uniq ?mem_iota //=; congr (_ + _).
rewrite big_seq_cond [in RHS]big_seq_cond; apply: eq_bigr => i; rewrite mem_iota add0n /= => /andP[li ij].
by have [-> _] := routed Cc lv li isT.
Qed.

(* the public shares every node files under (v, i) are the images of the secret shares *)
Theorem frost_pubshare v i casts2 :
  cast_contract cast2_msg casts2 -> (v < numVals)%N -> (i < n)%N ->
  out_pubshare v i casts2 = Some (pk (sk v i)).
Proof. by move=> C lv li; have [-> _] := routed C lv li isT. Qed.

End Frost.
