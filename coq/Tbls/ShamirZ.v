(* Executable instance of Tbls/Shamir.v over the integers modulo m (binary integers Z, evaluated
   by vm_compute), and its relation to the abstract theorems.

   All functions take the modulus m as their first argument.  The computations of the
   correspondence check use m := r, the order of the BLS12-381 scalar field.  The theorems relate
   the Z functions to the field 'F_p (mathcomp) for ANY modulus m = Z.of_nat p with p prime, p > 2:
   primality is a hypothesis of each theorem, it is not proved for r here and it is not an axiom.

   Encoding facts mirrored from tbls/herumi.go + herumi bls (ETH mode), observed on the real code:
   secrets/shares are 32-byte big-endian scalars; Deserialize rejects values >= r and accepts 0;
   share ids are the decimal share indices 1..n. *)
From Coq Require Import ZArith.
From mathcomp Require Import all_ssreflect all_algebra finfield.
From mathcomp Require Import zify ssrZ.
From Charon Require Import Tbls.Shamir.
Set Implicit Arguments.
Unset Strict Implicit.
Unset Printing Implicit Defensive.
Import GRing.Theory.
(* mathcomp's ssrint binds the key Z to int_scope; give Z_scope a key of its own *)
Delimit Scope Z_scope with ZZ.

(* BLS12-381 scalar field order *)
Definition r : Z := 0x73eda753299d7d483339d80809a1d80553bda402fffe5bfeffffffff00000001%ZZ.

Section ModArith.
Variable m : Z.

Definition redm (a : Z) : Z := Z.modulo a m.
Definition addm (a b : Z) : Z := Z.modulo (Z.add a b) m.
Definition subm (a b : Z) : Z := Z.modulo (Z.sub a b) m.
Definition mulm (a b : Z) : Z := Z.modulo (Z.mul a b) m.
Definition eqm (a b : Z) : bool := Z.eqb (Z.modulo a m) (Z.modulo b m).

(* a^e mod m by square and multiply *)
Fixpoint powm_pos (a : Z) (e : positive) : Z :=
  match e with
  | xH => redm a
  | xO e' => let b := powm_pos a e' in mulm b b
  | xI e' => let b := powm_pos a e' in mulm a (mulm b b)
  end.

(* inverse: Bezout coefficients (s, t) from the extended Euclid algorithm, CHECKED by
   s*a + t*m = 1 (two multiplications, no division); if the check fails (it never does for a prime
   modulus and a <> 0 mod m) fall back to Fermat a^(m-2).  The check makes the correctness proof
   independent of the Euclid loop.  Invariant of the loop: r_i = s_i*a + t_i*m. *)
Fixpoint egcd (fuel : nat) (r0 r1 s0 s1 t0 t1 : Z) : Z * Z :=
  match fuel with
  | O => (s0, t0)
  | S f => if Z.eqb r1 0%ZZ then (s0, t0)
           else let (q, rm) := Z.div_eucl r0 r1 in
                egcd f r1 rm s1 (Z.sub s0 (Z.mul q s1)) t1 (Z.sub t0 (Z.mul q t1))
  end.

Definition invm (a : Z) : Z :=
  let a' := redm a in
  if Z.eqb a' 0%ZZ then 0%ZZ
  else let (s, t) := egcd 2000 m a' 0%ZZ 1%ZZ 1%ZZ 0%ZZ in
       if Z.eqb (Z.add (Z.mul s a') (Z.mul t m)) 1%ZZ
       then (if Z.ltb s 0%ZZ then Z.add s m else s)
       else powm_pos a (Z.to_pos (Z.sub m 2)).

(* Lagrange coefficient at 0 of the share with id xi among the shares with ids [ids] *)
Definition lamZ (ids : seq Z) (xi : Z) : Z :=
  (* numerator and denominator are accumulated as plain integers (share ids are small) and
     reduced once; the sign is moved to the numerator so that the denominator stays small *)
  let num := foldr (fun xk acc => if eqm xk xi then acc else Z.mul xk acc) 1%ZZ ids in
  let den := foldr (fun xk acc => if eqm xk xi then acc else Z.mul (Z.sub xk xi) acc) 1%ZZ ids in
  if Z.ltb den 0%ZZ then mulm (Z.opp num) (invm (Z.opp den)) else mulm num (invm den).

Definition lagrange_coeffs (ids : seq Z) : seq Z := map (lamZ ids) ids.

(* shares as (id, value) pairs — the Go maps  map[int]PrivateKey *)
Definition recoverZ (sh : seq (Z * Z)) : Z :=
  let ids := map fst sh in
  redm (foldr (fun s acc => Z.add (Z.mul (lamZ ids s.1) s.2) acc) 0%ZZ sh).

(* Horner evaluation of the polynomial with coefficients cs (constant term first) *)
Definition evalZ (cs : seq Z) (a : Z) : Z := foldr (fun c acc => redm (Z.add c (Z.mul a acc))) 0%ZZ cs.

(* shares for ids 1..n:  sk.Set(poly, id) for id = 1..total *)
Definition splitZ (cs : seq Z) (n : nat) : seq Z :=
  map (fun i => evalZ cs (Z.of_nat i)) (iota 1 n).

Definition with_ids (ys : seq Z) : seq (Z * Z) :=
  zip (map (fun i => Z.of_nat i) (iota 1 (size ys))) ys.

(* generateInsecureSecret: up to 100 reads of 32 bytes, the first chunk that deserialises
   (value < m) is taken; [chunks] are the successive 32-byte reads as big-endian integers *)
Fixpoint draw1 (fuel : nat) (chunks : seq Z) : option (Z * seq Z) :=
  match fuel, chunks with
  | S f, c :: rest => if Z.ltb c m then Some (c, rest) else draw1 f rest
  | _, _ => None
  end.

Fixpoint draw (k : nat) (chunks : seq Z) : option (seq Z) :=
  match k with
  | 0 => Some [::]
  | S k' => match draw1 100 chunks with
            | Some (c, rest) => match draw k' rest with Some cs => Some (c :: cs) | None => None end
            | None => None
            end
  end.

(* ThresholdSplitInsecure secret total threshold reader *)
Definition split_insecure (secret : Z) (total threshold : nat) (chunks : seq Z) : option (seq Z) :=
  if (threshold <= 1)%N then None
  else if ~~ Z.ltb secret m then None
  else match draw threshold.-1 chunks with
       | Some cs => Some (splitZ (secret :: cs) total)
       | None => None
       end.

(* cluster.verifySharesReconstruct on scalars: ys are the n shares of ids 1..n *)
Definition sub_shares (ys : seq Z) (idx : seq nat) : seq (Z * Z) :=
  map (fun i => (Z.of_nat i.+1, nth 0%ZZ ys i)) idx.

Definition vsr_checkZ (dv : Z) (ys : seq Z) (t : nat) : bool :=
  [&& (0 < t)%N, (t <= size ys)%N, Z.eqb (recoverZ (sub_shares ys (vsr_first t))) (redm dv)
    & all (fun i => Z.eqb (recoverZ (sub_shares ys (vsr_extra t i))) (redm dv)) (iota t (size ys - t))].

(* the relational check used for ThresholdSplit and for the DKG outputs: all shares lie on one
   polynomial of degree < t whose constant term is what the first t shares recover *)
Definition on_one_polyZ (ys : seq Z) (t : nat) : bool :=
  vsr_checkZ (recoverZ (sub_shares ys (vsr_first t))) ys t.

End ModArith.

(* ------------------------------------------------------------------------------------------ *)
(* Relation to the field 'F_p                                                                   *)

Section Refinement.
Variable p : nat.
Variable m : Z.
Hypothesis p_prime : prime p.
Hypothesis m_p : Z.of_nat p = m.
Hypothesis p_gt2 : (2 < p)%N.

Local Notation Fp := 'F_p.
Local Notation FpF := (Fp_fieldType p).
Local Open Scope ring_scope.

Definition phi (z : Z) : Fp := (int_of_Z z)%:~R.
Definition psi (u : Fp) : Z := Z.of_nat (nat_of_ord u).

Lemma phiD a b : phi (Z.add a b) = phi a + phi b.
Proof. by rewrite /phi (_ : Z.add a b = (a + b)%R) // rmorphD rmorphD. Qed.
Lemma phiM a b : phi (Z.mul a b) = phi a * phi b.
Proof. by rewrite /phi (_ : Z.mul a b = (a * b)%R) // rmorphM rmorphM. Qed.
Lemma phiN a : phi (Z.opp a) = - phi a.
Proof. by rewrite /phi (_ : Z.opp a = (- a)%R) // rmorphN rmorphN. Qed.
Lemma phiB a b : phi (Z.sub a b) = phi a - phi b.
Proof. by rewrite -phiN -phiD. Qed.
Lemma phi0 : phi 0%ZZ = 0. Proof. by []. Qed.
Lemma phi1 : phi 1%ZZ = 1. Proof. by []. Qed.

Lemma phi_nat n : phi (Z.of_nat n) = n%:R.
Proof.
have -> : Z.of_nat n = Z_of_int (Posz n) by [].
by rewrite /phi Z_of_intK.
Qed.

Lemma phi_m : phi m = 0.
Proof. by rewrite -m_p phi_nat; apply: charf0; apply: char_Fp. Qed.

Lemma m_pos : (0 < m)%ZZ. Proof. by move: p_gt2 m_p; lia. Qed.

Lemma phi_mod a : phi (Z.modulo a m) = phi a.
Proof.
have mne : m <> 0%ZZ by have := m_pos; lia.
rewrite [in RHS](Z.div_mod a m mne) phiD phiM phi_m mul0r add0r.
by [].
Qed.

Lemma phi_add a b : phi (addm m a b) = phi a + phi b. Proof. by rewrite phi_mod phiD. Qed.
Lemma phi_sub a b : phi (subm m a b) = phi a - phi b. Proof. by rewrite phi_mod phiB. Qed.
Lemma phi_mul a b : phi (mulm m a b) = phi a * phi b. Proof. by rewrite phi_mod phiM. Qed.

Lemma psi_phi a : psi (phi a) = Z.modulo a m.
Proof.
have mp := m_pos.
have [lo hi] := Z.mod_pos_bound a m mp.
rewrite -(phi_mod a) -[in LHS](Z2Nat.id _ lo) phi_nat /psi (val_Fp_nat p_prime) modn_small.
  by rewrite Z2Nat.id.
by move: hi lo m_p; lia.
Qed.

Lemma phi_inj_mod a b : (phi a == phi b) = eqm m a b.
Proof.
apply/eqP/idP => [e|]; first by rewrite /eqm -!psi_phi e Z.eqb_refl.
by rewrite /eqm => /Z.eqb_spec e; rewrite -(phi_mod a) e phi_mod.
Qed.

Lemma phi_powm a e : phi (powm_pos m a e) = phi a ^+ Pos.to_nat e.
Proof.
elim: e => [e IH|e IH|] /=.
- have -> : Pos.to_nat e~1 = (Pos.to_nat e + Pos.to_nat e).+1 by lia.
  by rewrite !phi_mul IH exprS exprD.
- have -> : Pos.to_nat e~0 = (Pos.to_nat e + Pos.to_nat e)%N by lia.
  by rewrite phi_mul IH exprD.
- by rewrite phi_mod Pos2Nat.inj_1 expr1.
Qed.

Lemma fermat_inv (u : Fp) : u ^+ (p - 2) = u^-1.
Proof.
have [->|nz] := eqVneq u 0.
  by rewrite invr0 expr0n; move: p_gt2; case: (p - 2)%N (subn_gt0 2 p) => // <-.
apply: (mulfI nz); rewrite divff // -exprS.
have -> : (p - 2).+1 = (p - 1)%N by move: p_gt2; lia.
apply: (mulfI nz); rewrite mulr1 -exprS.
have -> : (p - 1).+1 = p by move: p_gt2; lia.
by rewrite -[in X in _ ^+ X](card_Fp p_prime) expf_card.
Qed.

Lemma phi_inv a : phi (invm m a) = (phi a)^-1.
Proof.
rewrite /invm; case: Z.eqb_spec => [e|_].
  by rewrite -(phi_mod a) -/(redm m a) e phi0 invr0.
case: (egcd _ _ _ _ _ _ _) => s t; case: Z.eqb_spec => [e|_]; last first.
  rewrite phi_powm -fermat_inv; congr (_ ^+ _).
  by move: p_gt2 m_p; lia.
have h : phi s * phi a = 1.
  by rewrite -[RHS]phi1 -e phiD !phiM phi_m mulr0 addr0 /redm phi_mod.
have nz : phi a != 0 by apply/eqP => z; move: h; rewrite z mulr0 => /esym/eqP; rewrite oner_eq0.
have -> : phi (if Z.ltb s 0%ZZ then Z.add s m else s) = phi s.
  by case: Z.ltb => //; rewrite phiD phi_m addr0.
by apply: (mulIf nz); rewrite h mulVf.
Qed.

(* ids as field elements *)
Definition xf (s : Z * Z) : Fp := phi s.1.
Definition yf (s : Z * Z) : Fp^o := phi s.2.

Lemma phi_num (sh : seq (Z * Z)) xi :
  phi (foldr (fun xk acc => if eqm m xk xi then acc else Z.mul xk acc) 1%ZZ (map fst sh)) =
  \prod_(k <- sh | xf k != phi xi) xf k.
Proof.
elim: sh => [|s sh IH]; first by rewrite big_nil.
rewrite big_cons /= -phi_inj_mod /xf; case: (_ == _) => //=.
by rewrite phiM IH.
Qed.

Lemma phi_den (sh : seq (Z * Z)) xi :
  phi (foldr (fun xk acc => if eqm m xk xi then acc else Z.mul (Z.sub xk xi) acc) 1%ZZ (map fst sh)) =
  \prod_(k <- sh | xf k != phi xi) (xf k - phi xi).
Proof.
elim: sh => [|s sh IH]; first by rewrite big_nil.
rewrite big_cons /= -phi_inj_mod /xf; case: (_ == _) => //=.
by rewrite phiM phiB IH.
Qed.

Lemma phi_lamZ (sh : seq (Z * Z)) xi :
  phi (lamZ m (map fst sh) xi) = \prod_(k <- sh | xf k != phi xi) (xf k / (xf k - phi xi)).
Proof.
rewrite prodf_div -phi_num -phi_den /lamZ; cbv zeta.
set den := foldr _ _ _; set num := foldr _ _ _.
by case: Z.ltb; rewrite phi_mul phi_inv // !phiN invrN mulrNN.
Qed.

Lemma phi_recoverZ (sh : seq (Z * Z)) : phi (recoverZ m sh) = recover xf sh yf.
Proof.
rewrite /recoverZ /recover; set ids := map fst sh.
have lamE s : phi (lamZ m ids s.1) = lam xf sh s by rewrite phi_lamZ.
rewrite phi_mod.
have gen (sh' : seq (Z * Z)) :
    phi (foldr (fun s acc => Z.add (Z.mul (lamZ m ids s.1) s.2) acc) 0%ZZ sh') =
    \sum_(s <- sh') lam xf sh s *: yf s.
  elim: sh' => [|s sh' IH]; first by rewrite big_nil.
  by rewrite big_cons /= phiD phiM IH lamE.
exact: gen.
Qed.

Lemma recoverZ_red (sh : seq (Z * Z)) : recoverZ m sh = psi (phi (recoverZ m sh)).
Proof. by rewrite psi_phi /recoverZ /redm Z.mod_mod //; have := m_pos; lia. Qed.

Definition polyZ (cs : seq Z) : {poly Fp} := Poly (map phi cs).

Lemma phi_evalZ cs a : phi (evalZ m cs a) = (polyZ cs).[phi a].
Proof.
rewrite /polyZ; elim: cs => [|c cs IH] /=; first by rewrite horner0.
by rewrite horner_cons phi_mod phiD phiM IH addrC mulrC.
Qed.

Lemma size_polyZ cs : (size (polyZ cs) <= size cs)%N.
Proof. by apply: leq_trans (size_Poly _) _; rewrite size_map. Qed.

Lemma polyZ_at0 cs : (polyZ cs).[0] = phi (head 0%ZZ cs).
Proof. by rewrite horner_coef0 coef_Poly; case: cs. Qed.

(* admissible ids: pairwise distinct and non-zero modulo m *)
Definition ids_okZ (ids : seq Z) : bool :=
  uniq (map (redm m) ids) && all (fun a => ~~ Z.eqb (redm m a) 0%ZZ) ids.

Lemma ids_okZ_distinct (sh : seq (Z * Z)) : ids_okZ (map fst sh) -> ids_distinct xf sh.
Proof.
case/andP=> U _; rewrite /ids_distinct.
have -> : map xf sh = map phi (map (redm m) (map fst sh)).
  by rewrite -!map_comp; apply: eq_map => s /=; rewrite /xf /redm phi_mod.
rewrite map_inj_in_uniq // => a b /mapP[a' _ ->] /mapP[b' _ ->] /eqP.
rewrite phi_inj_mod /eqm /redm => /Z.eqb_spec.
by rewrite !Z.mod_mod //; have := m_pos; lia.
Qed.

Lemma ids_okZ_nonzero (sh : seq (Z * Z)) : ids_okZ (map fst sh) -> ids_nonzero xf sh.
Proof.
case/andP=> _ /allP nz; apply/allP => s sin.
have := nz s.1 (map_f _ sin); apply: contra; rewrite /xf -phi0 phi_inj_mod /eqm /redm.
by rewrite Z.mod_0_l //; have := m_pos; lia.
Qed.

(* Z1: recovery from the shares of a polynomial returns its constant term, for every admissible
   id list with at least (length cs) ids — in particular for every subset of 1..n of size >= t *)
Theorem recoverZ_split cs ids :
  ids_okZ ids -> (size cs <= size ids)%N ->
  recoverZ m (zip ids (map (evalZ m cs) ids)) = redm m (head 0%ZZ cs).
Proof.
move=> ok sz; set sh := zip _ _.
have fst_sh : map fst sh = ids by apply: unzip1_zip; rewrite size_map.
rewrite recoverZ_red phi_recoverZ /redm -psi_phi; congr psi.
have U : ids_distinct xf sh by apply: ids_okZ_distinct; rewrite fst_sh.
rewrite -polyZ_at0 -(@split_recover _ _ xf sh (polyZ cs) (size cs) U (size_polyZ cs)); last first.
  by rewrite -(size_map fst) fst_sh.
rewrite /recover big_seq_cond [in RHS]big_seq_cond; apply: eq_bigr => s /andP[sin _].
rewrite /yf /xf -phi_evalZ; congr (_ * phi _).
move: sin; rewrite /sh => /(nthP (0%ZZ, 0%ZZ)) [i]; rewrite size_zip size_map minnn => lt <-.
by rewrite nth_zip ?size_map //= (nth_map 0%ZZ).
Qed.

(* Z2: the scalar version of cluster.verifySharesReconstruct is the abstract check read in 'F_p *)
Lemma recoverZ_eqb sh dv : Z.eqb (recoverZ m sh) (redm m dv) = (phi (recoverZ m sh) == phi dv).
Proof.
apply/idP/eqP => [/Z.eqb_spec ->|e]; first by rewrite /redm phi_mod.
by rewrite recoverZ_red e psi_phi /redm Z.eqb_refl.
Qed.

Definition yfield (ys : seq Z) (i : nat) : Fp^o := phi (nth 0%ZZ ys i).

Lemma phi_recover_sub ys idx :
  phi (recoverZ m (sub_shares ys idx)) = recover (idn FpF) idx (yfield ys).
Proof.
rewrite phi_recoverZ /sub_shares recover_map.
apply: (@recover_eq FpF nat_eqType _ _ (GRing.regular_lmodType FpF)) => i //.
exact: (phi_nat i.+1).
Qed.

Lemma vsr_checkZ_field dv ys t :
  vsr_checkZ m dv ys t = vsr_check (idn FpF) (phi dv : Fp^o) (yfield ys) (size ys) t.
Proof.
rewrite /vsr_checkZ /vsr_check recoverZ_eqb phi_recover_sub; do 3 congr (_ && _).
by apply: eq_all => i; rewrite recoverZ_eqb phi_recover_sub.
Qed.

Lemma char_above_Fp n : (n < p)%N -> char_above FpF n.
Proof. by move=> lt q; rewrite (charf_eq (char_Fp p_prime)) => /eqP->. Qed.

Theorem vsr_checkZ_sound dv ys t : (size ys < p)%N -> vsr_checkZ m dv ys t ->
  on_one_poly (idn FpF) (phi dv : Fp^o) (yfield ys) (size ys) t.
Proof.
move=> lt; rewrite vsr_checkZ_field.
have [D N] := iota_ids_ok (char_above_Fp lt).
exact: verify_shares_reconstruct_sound.
Qed.

Theorem vsr_checkZ_complete dv ys t : (size ys < p)%N -> (0 < t <= size ys)%N ->
  on_one_poly (idn FpF) (phi dv : Fp^o) (yfield ys) (size ys) t -> vsr_checkZ m dv ys t.
Proof.
move=> lt tn; rewrite vsr_checkZ_field.
have [D N] := iota_ids_ok (char_above_Fp lt).
exact: verify_shares_reconstruct_complete.
Qed.

End Refinement.

(* ------------------------------------------------------------------------------------------ *)
(* Non-vacuity: closed evaluations at the BLS12-381 scalar order *)

Example ex_lagrange_123 : lagrange_coeffs r [:: 1; 2; 3]%ZZ = [:: 3; Z.sub r 3; 1]%ZZ.
Proof. by vm_compute. Qed.

Example ex_split_recover :
  let ys := splitZ r [:: 5; 7; 11]%ZZ 5 in
  (ys == [:: 23; 63; 125; 209; 315]%ZZ) &&
  (recoverZ r (sub_shares ys [:: 0; 2; 4]%N) == 5%ZZ) && (recoverZ r (sub_shares ys [:: 1; 2; 3; 4]%N) == 5%ZZ) &&
  (recoverZ r (sub_shares ys [:: 0; 1]%N) != 5%ZZ).
Proof. by vm_compute. Qed.

Example ex_vsr :
  let ys := splitZ r [:: 5; 7; 11]%ZZ 6 in
  [&& vsr_checkZ r 5%ZZ ys 3, vsr_checkZ r 5%ZZ ys 4, ~~ vsr_checkZ r 5%ZZ ys 2, ~~ vsr_checkZ r 6%ZZ ys 3
    & ~~ vsr_checkZ r 5%ZZ (set_nth 0%ZZ ys 4 316%ZZ) 3].
Proof. by vm_compute. Qed.

Example ex_split_insecure_retry :
  split_insecure r 5%ZZ 3 2 [:: r; Z.add r 1; 7]%ZZ = Some [:: 12; 19; 26]%ZZ /\
  split_insecure r 5%ZZ 3 1 [:: 7]%ZZ = None /\ split_insecure r r 3 2 [:: 7]%ZZ = None.
Proof. by vm_compute. Qed.
