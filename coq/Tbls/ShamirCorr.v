(* Evaluation helpers for the C08/C11 correspondence files (gen/cases_C08_*.v, gen/cases_C11_*.v):
   each function returns the ids of the cases on which the Go observation differs from the model
   Tbls/ShamirZ.v at the BLS12-381 scalar order r.  No theorem here. *)
From Coq Require Import ZArith List Bool.
From Charon Require Import Tbls.ShamirZ.
Import ListNotations.
Local Open Scope Z_scope.

Fixpoint zlist_eqb (a b : list Z) : bool :=
  match a, b with
  | [], [] => true
  | x :: a', y :: b' => Z.eqb x y && zlist_eqb a' b'
  | _, _ => false
  end.

Definition bad {A : Type} (ok : A -> bool) (cases : list (nat * A)) : list nat :=
  flat_map (fun c => if ok (snd c) then [] else [fst c]) cases.

(* (ids, coefficients observed from RecoverSecret on unit vectors) *)
Definition lag_ok (c : list Z * list Z) : bool := zlist_eqb (lagrange_coeffs r (fst c)) (snd c).

(* ((secret, total, threshold, chunks), observed shares or error) *)
Definition split_ok (c : (Z * nat * nat * list Z) * option (list Z)) : bool :=
  let '((secret, n, t, chunks), obs) := c in
  match split_insecure r secret n t chunks, obs with
  | Some ys, Some ys' => zlist_eqb ys ys'
  | None, None => true
  | _, _ => false
  end.

(* ThresholdSplit with the CSPRNG, relational: (secret, threshold, observed shares 1..n):
   all shares on one polynomial of degree < t, constant term = secret, and (minimality) not on a
   polynomial of degree < t-1 *)
Definition secure_ok (c : Z * nat * list Z) : bool :=
  let '(secret, t, ys) := c in
  vsr_checkZ r secret ys t && negb (on_one_polyZ r ys (t - 1)).

(* (shares (id, value), observed RecoverSecret) *)
Definition recover_ok (c : list (Z * Z) * Z) : bool := Z.eqb (recoverZ r (fst c)) (snd c).

(* cluster.verifySharesReconstruct: (group key scalar, share scalars, threshold, observed "no error") *)
Definition vsr_ok (c : Z * list Z * nat * bool) : bool :=
  let '(dv, ys, t, verdict) := c in Bool.eqb (vsr_checkZ r dv ys t) verdict.

(* DKG output of one validator: (threshold, secret shares of nodes 1..n): all shares on one polynomial of
   degree < t, and (the configured threshold is the real one) not on a polynomial of degree < t-1 *)
Definition dkg_ok (c : nat * list Z) : bool :=
  on_one_polyZ r (snd c) (fst c) && negb (on_one_polyZ r (snd c) (fst c - 1)).
