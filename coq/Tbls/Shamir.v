(* Threshold (Shamir / Lagrange-at-zero) algebra behind tbls/herumi.go, over an arbitrary field.

   Share ids are field elements [x j] (herumi: bls.ID is an Fr element, set from the decimal share
   index); a set of shares is a list [js] of indices whose ids [map x js] are pairwise distinct.
   [lam js j] is the Lagrange coefficient at 0 that blsSecretKeyRecover / blsPublicKeyRecover /
   blsSignatureRecover apply to the share with index [j] when given exactly the shares [js]
   (they always interpolate through ALL the shares handed to them).

   Nothing here is specific to BLS12-381; the groups G1/G2/GT of the signature layer are arbitrary
   vector spaces over the scalar field with a bilinear map that is non-degenerate at the
   generator (Section hypotheses, never axioms). *)
From mathcomp Require Import all_ssreflect all_algebra.
From mathcomp Require Import zify.
Set Implicit Arguments.
Unset Strict Implicit.
Unset Printing Implicit Defensive.
Import GRing.Theory.
Local Open Scope ring_scope.

(* ------------------------------------------------------------------------------------------ *)
(* Lagrange interpolation on a duplicate-free list of points                                   *)

Section LagrangeSeq.
Variable F : fieldType.
Implicit Types (xs : seq F) (a b c : F) (p : {poly F}).

(* coefficient at 0 *)
Definition lam0 xs a : F := \prod_(b <- xs | b != a) (b / (b - a)).

(* basis polynomial: 1 at a, 0 at the other points of xs *)
Definition lbasis xs a : {poly F} := \prod_(b <- xs | b != a) ((a - b)^-1 *: ('X - b%:P)).

Lemma size_lin_prod (s : seq F) (P : pred F) (k : F -> F) :
  (size (\prod_(b <- s | P b) (k b *: ('X - b%:P)))%R <= (count P s).+1)%N.
Proof.
elim: s => [|b s IH]; first by rewrite big_nil size_poly1.
rewrite big_cons /=; case: (P b); last by rewrite add0n.
apply: leq_trans (size_mul_leq _ _) _.
have h2 : (size (k b *: ('X - b%:P))%R <= 2)%N.
  by apply: leq_trans (size_scale_leq _ _) _; rewrite size_XsubC.
move: h2 IH; set A := size _; set B := size _; lia.
Qed.

Lemma count_neq xs a : uniq xs -> a \in xs -> (count (fun b => b != a) xs).+1 = size xs.
Proof.
move=> U ain.
have := count_predC (pred1 a) xs; rewrite (count_uniq_mem a U) ain /= add1n => <-.
by congr _.+1; apply: eq_count => b.
Qed.

Lemma size_lbasis xs a : uniq xs -> a \in xs -> (size (lbasis xs a) <= size xs)%N.
Proof. by move=> U ain; rewrite -(count_neq U ain); apply: size_lin_prod. Qed.

Lemma lbasis_at xs a c : uniq xs -> a \in xs -> c \in xs -> (lbasis xs a).[c] = (c == a)%:R.
Proof.
move=> U ain cin; rewrite /lbasis horner_prod.
have [->|cna] := eqVneq c a.
  apply: big1_seq => // b /andP[bna _]; rewrite hornerZ hornerXsubC mulVf //.
  by rewrite subr_eq0 eq_sym.
rewrite -big_filter (bigD1_seq c) /=; first by rewrite hornerZ hornerXsubC subrr mulr0 mul0r.
  by rewrite mem_filter cna.
exact: filter_uniq.
Qed.

Lemma lbasis_at0 xs a : (lbasis xs a).[0] = lam0 xs a.
Proof.
rewrite /lbasis /lam0 horner_prod; apply: eq_bigr => b bna.
rewrite hornerZ hornerXsubC sub0r mulrC -[a - b]opprB invrN mulNr mulrN opprK.
by [].
Qed.

(* the interpolant of p through xs is p itself when size p <= #points *)
Theorem lagrange_interp xs p : uniq xs -> (size p <= size xs)%N ->
  p = \sum_(a <- xs) p.[a] *: lbasis xs a.
Proof.
move=> U sz; apply/eqP; rewrite -subr_eq0; apply/eqP.
apply: (@roots_geq_poly_eq0 _ _ xs) => //.
  apply/allP => c cin; rewrite /root hornerD hornerN horner_sum.
  rewrite (bigD1_seq c) //= hornerZ lbasis_at // eqxx mulr1.
  rewrite big1_seq ?addr0 ?subrr // => a /andP[anc ain].
  by rewrite hornerZ lbasis_at // eq_sym (negbTE anc) mulr0.
apply: leq_trans (size_add _ _) _; rewrite size_opp geq_max sz /=.
apply: leq_trans (size_sum _ _ _) _.
apply/bigmax_leqP_seq => a ain _.
by apply: leq_trans (size_scale_leq _ _) _; apply: size_lbasis.
Qed.

(* Lagrange at zero: what RecoverSecret computes on shares of p *)
Theorem recover_at0 xs p : uniq xs -> (size p <= size xs)%N ->
  \sum_(a <- xs) lam0 xs a * p.[a] = p.[0].
Proof.
move=> U sz; rewrite {2}(lagrange_interp U sz) horner_sum.
by apply: eq_bigr => a _; rewrite hornerZ lbasis_at0 mulrC.
Qed.

Lemma lam0_neq0 xs a : (forall b, b \in xs -> b != a -> b != 0) -> lam0 xs a != 0.
Proof.
move=> nz; rewrite /lam0 prodf_seq_neq0; apply/allP => b bin; apply/implyP => bna.
by rewrite mulf_neq0 ?invr_eq0 ?subr_eq0 // nz.
Qed.

End LagrangeSeq.

(* ------------------------------------------------------------------------------------------ *)
(* Shares indexed by an arbitrary index type J, with ids x : J -> F                            *)

Section Shares.
Variable F : fieldType.
Variable J : eqType.
Variable x : J -> F.
Implicit Types (js : seq J) (j k : J) (p : {poly F}).

(* ids of the set pairwise distinct, resp. all non-zero *)
Definition ids_distinct js := uniq (map x js).
Definition ids_nonzero js := all (fun j => x j != 0) js.

Definition lam js j : F := \prod_(k <- js | x k != x j) (x k / (x k - x j)).

Lemma lamE js j : lam js j = lam0 (map x js) (x j).
Proof. by rewrite /lam /lam0 big_map. Qed.

Lemma ids_distinct_uniq js : ids_distinct js -> uniq js.
Proof. by move=> U; apply: map_uniq U. Qed.

Lemma lam_neq0 js j : ids_nonzero js -> lam js j != 0.
Proof.
move=> /allP nz; rewrite lamE; apply: lam0_neq0 => b /mapP[k kin ->] _; exact: nz.
Qed.

Section Module.
Variable V : lmodType F.
Implicit Types (y : J -> V).

(* what herumi's Recover computes from the shares {j |-> y j : j in js}, in any of the groups *)
Definition recover js y : V := \sum_(j <- js) lam js j *: y j.

(* a "polynomial" with coefficients c 0 .. c (t-1) in V, evaluated at a scalar *)
Definition evalV (c : nat -> V) (t : nat) (a : F) : V := \sum_(i < t) a ^+ i *: c i.

Lemma recover_ext js y y' : (forall j, j \in js -> y j = y' j) -> recover js y = recover js y'.
Proof. by move=> e; apply: eq_big_seq => j jin; rewrite e. Qed.

End Module.

(* scalar side *)
Theorem split_recover js p t : ids_distinct js -> (size p <= t)%N -> (t <= size js)%N ->
  \sum_(j <- js) lam js j * p.[x j] = p.[0].
Proof.
move=> U sp st.
have := @recover_at0 F (map x js) p U; rewrite size_map => /(_ (leq_trans sp st)) <-.
by rewrite big_map; apply: eq_bigr => j _; rewrite lamE.
Qed.

(* any two sets of at least t shares give the same secret *)
Corollary recover_same_secret js js' p t : ids_distinct js -> ids_distinct js' ->
  (size p <= t)%N -> (t <= size js)%N -> (t <= size js')%N ->
  \sum_(j <- js) lam js j * p.[x j] = \sum_(j <- js') lam js' j * p.[x j].
Proof. by move=> U U' sp st st'; rewrite (split_recover U sp st) (split_recover U' sp st'). Qed.

Lemma lam_moments js i : ids_distinct js -> (i < size js)%N ->
  \sum_(j <- js) lam js j * x j ^+ i = (i == 0%N)%:R.
Proof.
move=> U lt; have := @split_recover js 'X^i i.+1 U; rewrite size_polyXn => /(_ (leqnn _) lt).
rewrite hornerXn expr0n => <-; by apply: eq_bigr => j _; rewrite hornerXn.
Qed.

Section Module2.
Variable V : lmodType F.
Implicit Types (y : J -> V).

(* the same coefficients recover c 0 from the values of a V-valued polynomial of degree < t *)
Theorem split_recover_lmod js (c : nat -> V) t : ids_distinct js -> (0 < t)%N -> (t <= size js)%N ->
  recover js (fun j => evalV c t (x j)) = c 0%N.
Proof.
move=> U t0 st; rewrite /recover /evalV.
have -> : \sum_(j <- js) lam js j *: (\sum_(i < t) x j ^+ i *: c i) =
          \sum_(i < t) (\sum_(j <- js) lam js j * x j ^+ i) *: c i.
  rewrite (eq_bigr (fun j => \sum_(i < t) (lam js j * x j ^+ i) *: c i)); last first.
    by move=> j _; rewrite scaler_sumr; apply: eq_bigr => i _; rewrite scalerA.
  by rewrite exchange_big /=; apply: eq_bigr => i _; rewrite scaler_suml.
rewrite (bigD1 (Ordinal t0)) //= lam_moments ?(leq_trans t0 st) // eqxx scale1r.
rewrite big1 ?addr0 // => i ne.
rewrite lam_moments ?(leq_trans (ltn_ord i) st) //.
have -> : (i == 0%N :> nat) = false by apply/negbTE; apply: contra ne => /eqP h; apply/eqP/val_inj.
by rewrite scale0r.
Qed.

(* Lagrange recovery commutes with every linear map: secret -> public key -> signature *)
Theorem recover_linear (W : lmodType F) (g : {linear V -> W}) js y :
  g (recover js y) = recover js (g \o y).
Proof. by rewrite /recover linear_sum; apply: eq_bigr => j _; rewrite linearZ. Qed.

(* replacing the share at one position changes the result unless the replacement is equal *)
Theorem wrong_share_iff js y y' j : ids_distinct js -> ids_nonzero js -> j \in js ->
  (forall k, k \in js -> k != j -> y' k = y k) ->
  (recover js y' = recover js y <-> y' j = y j).
Proof.
move=> U nz jin same; have Uj := ids_distinct_uniq U.
rewrite /recover (bigD1_seq j jin Uj).
rewrite [X in _ = X <-> _](bigD1_seq j jin Uj).
rewrite /=.
have -> : \sum_(i <- js | i != j) lam js i *: y' i = \sum_(i <- js | i != j) lam js i *: y i.
  by rewrite big_seq_cond [in RHS]big_seq_cond; apply: eq_bigr => k /andP[kin knj]; rewrite same.
split=> [/addIr /eqP|-> //].
rewrite -subr_eq0 -scalerBr scaler_eq0 (negbTE (lam_neq0 j nz)) /= subr_eq0.
by move/eqP.
Qed.

End Module2.

(* recovery of images: scalar recovered first, then mapped = images recovered *)
Corollary recover_image (V : lmodType F) (v : V) js p t :
  ids_distinct js -> (size p <= t)%N -> (t <= size js)%N ->
  recover js (fun j => p.[x j] *: v) = p.[0] *: v.
Proof.
move=> U sp st; rewrite /recover -(split_recover U sp st) scaler_suml.
by apply: eq_bigr => j _; rewrite scalerA.
Qed.

End Shares.

(* ------------------------------------------------------------------------------------------ *)
(* Sub-families of an admissible id family are admissible                                      *)

Section SubIds.
Variables (F : fieldType) (J : eqType) (x : J -> F).

Lemma uniq_map_inj (s : seq J) : uniq (map x s) -> {in s &, injective x}.
Proof.
move=> U i j iin jin e.
have hi : (index i s < size (map x s))%N by rewrite size_map index_mem.
have hj : (index j s < size (map x s))%N by rewrite size_map index_mem.
have := nth_uniq (x i) hi hj U.
rewrite !(nth_map i) -?index_mem ?index_mem // !nth_index // e eqxx => /esym/eqP ii.
by rewrite -(nth_index i iin) ii nth_index.
Qed.

Lemma sub_ids_distinct (all_js js : seq J) :
  ids_distinct x all_js -> uniq js -> {subset js <= all_js} -> ids_distinct x js.
Proof.
move=> U Ujs sub; rewrite /ids_distinct map_inj_in_uniq // => i j iin jin.
by apply: (uniq_map_inj U); apply: sub.
Qed.

Lemma sub_ids_nonzero (all_js js : seq J) :
  ids_nonzero x all_js -> {subset js <= all_js} -> ids_nonzero x js.
Proof. by move=> /allP nz sub; apply/allP => j /sub /nz. Qed.

End SubIds.

(* re-indexing: shares listed through f : K -> J *)
Lemma recover_map (F : fieldType) (J K : eqType) (x : J -> F) (V : lmodType F) (f : K -> J)
    (ks : seq K) (y : J -> V) :
  recover x (map f ks) y = recover (x \o f) ks (y \o f).
Proof.
rewrite /recover big_map; apply: eq_bigr => k _.
by rewrite /lam big_map.
Qed.

Lemma recover_eq (F : fieldType) (J : eqType) (x x' : J -> F) (V : lmodType F) (js : seq J)
    (y y' : J -> V) : x =1 x' -> y =1 y' -> recover x js y = recover x' js y'.
Proof.
move=> ex ey; rewrite /recover; apply: eq_bigr => j _; rewrite ey; congr (_ *: _).
by rewrite /lam; apply: eq_big => k; rewrite !ex.
Qed.

(* ------------------------------------------------------------------------------------------ *)
(* Share ids 1..n (cluster: share index = node index + 1)                                      *)

Section NatIds.
Variable F : fieldType.

Definition idn (i : nat) : F := (i.+1)%:R.

(* "n < char F or char F = 0" *)
Definition char_above (n : nat) := forall q, q \in [char F] -> (n < q)%N.

Lemma natr_small_neq0 n m : char_above n -> (0 < m <= n)%N -> m%:R != 0 :> F.
Proof.
move=> ch /andP[m0 mn]; apply/negP => m0F; have [q qch] := natf0_char m0 m0F.
have := ch q qch; move: m0F; rewrite -(dvdn_charf qch) => /(dvdn_leq m0) le ltq.
by move: (leq_ltn_trans (leq_trans le mn) ltq); rewrite ltnn.
Qed.

Lemma idn_neq0 n i : char_above n -> (i < n)%N -> idn i != 0.
Proof. by move=> ch lt; apply: (natr_small_neq0 ch). Qed.

Lemma idn_inj n i j : char_above n -> (i < n)%N -> (j < n)%N -> idn i = idn j -> i = j.
Proof.
move=> ch.
wlog le : i j / (i <= j)%N.
  move=> h; case/orP: (leq_total i j) => le li lj e; first exact: h.
  by symmetry; apply: h.
move=> li lj /eqP; rewrite /idn eq_sym -subr_eq0 -natrB ?ltnS // subSS => z.
apply/eqP; rewrite eqn_leq le /= -subn_eq0; apply/negPn/negP => nz.
have := @natr_small_neq0 n (j - i)%N ch; rewrite lt0n nz /= z.
by move=> /(_ (leq_trans (leq_subr _ _) (ltnW lj))).
Qed.

(* ids 1..n are admissible share ids as soon as n < char F (or char F = 0) *)
Lemma iota_ids_ok n : char_above n ->
  ids_distinct idn (iota 0 n) /\ ids_nonzero idn (iota 0 n).
Proof.
move=> ch; split.
  rewrite /ids_distinct map_inj_in_uniq ?iota_uniq // => i j.
  by rewrite !mem_iota !add0n /= => li lj; apply: (idn_inj ch).
by apply/allP => i; rewrite mem_iota add0n /= => li; apply: (idn_neq0 ch).
Qed.

(* every duplicate-free sub-list of 0..n-1 is an admissible share set *)
Lemma nat_ids_ok n : char_above n ->
  forall js : seq nat, uniq js -> {subset js <= iota 0 n} ->
  ids_distinct idn js /\ ids_nonzero idn js.
Proof.
move=> ch js U sub; have [D N] := iota_ids_ok ch.
by split; [apply: sub_ids_distinct D U sub | apply: sub_ids_nonzero N sub].
Qed.

End NatIds.

(* ------------------------------------------------------------------------------------------ *)
(* cluster.verifySharesReconstruct (cluster/lock.go): shares[0..n-1] carry ids x 0 .. x (n-1)
   (Go: subset[i+1] = shares[i]); it recovers from the first t shares, then from the first t-1
   shares together with each later share, and compares every result with the group key.        *)

Section VerifySharesReconstruct.
Variables (F : fieldType) (V : lmodType F) (x : nat -> F).
Implicit Types (y : nat -> V) (dv : V).

Definition vsr_first (t : nat) : seq nat := iota 0 t.
Definition vsr_extra (t i : nat) : seq nat := rcons (iota 0 t.-1) i.

Definition vsr_check dv y (n t : nat) : bool :=
  [&& (0 < t)%N, (t <= n)%N, recover x (vsr_first t) y == dv
    & all (fun i => recover x (vsr_extra t i) y == dv) (iota t (n - t))].

(* "all n shares lie on one polynomial of degree < t whose constant term is the group key" *)
Definition on_one_poly dv y (n t : nat) : Prop :=
  exists c : nat -> V, c 0%N = dv /\ forall i, (i < n)%N -> y i = evalV c t (x i).

Variables (n t : nat).
Hypothesis Hdist : ids_distinct x (iota 0 n).
Hypothesis Hnz : ids_nonzero x (iota 0 n).

Let sub_first : (t <= n)%N -> {subset vsr_first t <= iota 0 n}.
Proof. by move=> tn i; rewrite !mem_iota !add0n /= => lt; apply: leq_trans lt tn. Qed.

Let sub_extra i : (0 < t)%N -> (t <= i < n)%N -> {subset vsr_extra t i <= iota 0 n}.
Proof.
move=> t0 /andP[ti lin] k; rewrite mem_rcons inE mem_iota !add0n /= => /orP[/eqP->|lt].
  by rewrite mem_iota.
by rewrite mem_iota /=; move: lt ti lin; lia.
Qed.

Let uniq_extra i : (0 < t)%N -> (t <= i)%N -> uniq (vsr_extra t i).
Proof.
move=> t0 ti; rewrite rcons_uniq iota_uniq andbT mem_iota add0n /=.
by move: t0 ti; lia.
Qed.

Theorem verify_shares_reconstruct_sound dv y :
  vsr_check dv y n t -> on_one_poly dv y n t.
Proof.
case/and4P=> t0 tn /eqP r0 /allP rex.
have U0 : ids_distinct x (vsr_first t) := sub_ids_distinct Hdist (iota_uniq 0 t) (sub_first tn).
pose xs0 := map x (vsr_first t).
have szxs0 : size xs0 = t by rewrite size_map size_iota.
pose c (k : nat) : V := \sum_(j <- vsr_first t) (lbasis xs0 (x j))`_k *: y j.
have evc a : evalV c t a = \sum_(j <- vsr_first t) (lbasis xs0 (x j)).[a] *: y j.
  rewrite /evalV /c.
  rewrite (eq_bigr (fun i : 'I_t => \sum_(j <- vsr_first t) ((lbasis xs0 (x j))`_i * a ^+ i) *: y j));
    last by move=> i _; rewrite scaler_sumr; apply: eq_bigr => j _; rewrite scalerA mulrC.
  rewrite exchange_big /= big_seq_cond [in RHS]big_seq_cond; apply: eq_bigr => j /andP[jin _].
  rewrite -scaler_suml -horner_coef_wide // -szxs0; apply: size_lbasis => //.
  by apply: map_f.
have ev_in i : i \in vsr_first t -> evalV c t (x i) = y i.
  move=> iin; rewrite evc (bigD1_seq i iin (iota_uniq 0 t)) /=.
  rewrite lbasis_at ?map_f // eqxx scale1r big_seq_cond big1 ?addr0 // => j /andP[jin jni].
  rewrite lbasis_at ?map_f //.
  have -> : (x i == x j) = false.
    by apply/negbTE; apply: contra jni => /eqP /(uniq_map_inj U0 iin jin) ->.
  by rewrite scale0r.
have c0 : c 0%N = dv.
  rewrite -r0 /c /recover; apply: eq_bigr => j _.
  by rewrite -horner_coef0 lbasis_at0 lamE.
exists c; split=> // i lin.
case: (ltnP i t) => [lt|ti]; first by rewrite ev_in // mem_iota.
have tin : (t <= i < n)%N by rewrite ti lin.
have Ui : ids_distinct x (vsr_extra t i) :=
  sub_ids_distinct Hdist (uniq_extra t0 ti) (sub_extra t0 tin).
have nzi : ids_nonzero x (vsr_extra t i) := sub_ids_nonzero Hnz (sub_extra t0 tin).
have iin : i \in vsr_extra t i by rewrite mem_rcons inE eqxx.
have szi : (t <= size (vsr_extra t i))%N by rewrite size_rcons size_iota prednK.
have ri : recover x (vsr_extra t i) y = dv.
  by apply/eqP/rex; rewrite mem_iota ti /=; move: tn lin; lia.
have ri' : recover x (vsr_extra t i) (fun j => evalV c t (x j)) = dv.
  by rewrite split_recover_lmod.
have same k : k \in vsr_extra t i -> k != i -> evalV c t (x k) = y k.
  rewrite mem_rcons inE => /orP[/eqP->|kin]; first by rewrite eqxx.
  by move=> _; apply: ev_in; move: kin; rewrite !mem_iota !add0n /=; move: t0; lia.
have [h _] := wrong_share_iff (y:=y) (y':=fun j => evalV c t (x j)) Ui nzi iin same.
by symmetry; apply: h; rewrite ri ri'.
Qed.

Theorem verify_shares_reconstruct_complete dv y :
  (0 < t <= n)%N -> on_one_poly dv y n t -> vsr_check dv y n t.
Proof.
case/andP=> t0 tn [c [c0 yc]].
have U0 : ids_distinct x (vsr_first t) := sub_ids_distinct Hdist (iota_uniq 0 t) (sub_first tn).
apply/and4P; split=> //.
  rewrite -c0 -(split_recover_lmod c U0 t0) ?size_iota //; apply/eqP.
  apply: recover_ext => j jin; apply: yc.
  by move: jin; rewrite mem_iota add0n /= => lt; apply: leq_trans lt tn.
apply/allP => i; rewrite mem_iota => /andP[ti lin0].
have lin : (i < n)%N by move: lin0 tn; lia.
have tin : (t <= i < n)%N by rewrite ti lin.
have Ui : ids_distinct x (vsr_extra t i) :=
  sub_ids_distinct Hdist (uniq_extra t0 ti) (sub_extra t0 tin).
have szi : (t <= size (vsr_extra t i))%N by rewrite size_rcons size_iota prednK.
rewrite -c0 -(split_recover_lmod c Ui t0 szi); apply/eqP.
apply: recover_ext => j jin; apply: yc.
by have := sub_extra t0 tin jin; rewrite mem_iota add0n.
Qed.

End VerifySharesReconstruct.

(* ------------------------------------------------------------------------------------------ *)
(* BLS layer: G1 (public keys), G2 (signatures), GT (pairing target) are vector spaces over the
   scalar field; e is bilinear and non-degenerate at the generator g1.  These are Section
   hypotheses: properties of the pairing group that the herumi library is trusted to provide. *)

Section BLS.
Variables (F : fieldType) (G1 G2 GT : lmodType F).
Variable e : G1 -> G2 -> GT.
Variable g1 : G1.
Hypothesis e_scalel : forall a u v, e (a *: u) v = a *: e u v.
Hypothesis e_scaler : forall a u v, e u (a *: v) = a *: e u v.
Hypothesis e_subr : forall u v w, e u (v - w) = e u v - e u w.
Hypothesis e_nondeg : forall v, e g1 v = 0 -> v = 0.

Definition pk_of (s : F) : G1 := s *: g1.
Definition sign (s : F) (h : G2) : G2 := s *: h.
(* core verification equation e(g1, sig) = e(pk, H(m)); h stands for the curve point H(m) *)
Definition verify (pk : G1) (h : G2) (sig : G2) : bool := e g1 sig == e pk h.

(* signatures are unique: exactly one group element verifies *)
Lemma verify_iff s h sig : verify (pk_of s) h sig <-> sig = sign s h.
Proof.
rewrite /verify /pk_of /sign e_scalel -e_scaler -subr_eq0 -e_subr; split.
  by move/eqP/e_nondeg/eqP; rewrite subr_eq0 => /eqP.
by move=> ->; rewrite subrr; apply/eqP; rewrite -(scale0r 0) e_scaler scale0r.
Qed.

Variables (J : eqType) (x : J -> F).
Variables (p : {poly F}) (t : nat) (js : seq J).
Hypothesis Hp : (size p <= t)%N.
Hypothesis Ht : (t <= size js)%N.
Hypothesis Hdist : ids_distinct x js.

(* partial signatures of the shares in js over one message combine to the signature of the
   undivided key p.[0]; the public shares combine to the group public key; and it verifies *)
Theorem threshold_signature_correct h :
  recover x js (fun j => sign p.[x j] h) = sign p.[0] h /\
  recover x js (fun j => pk_of p.[x j]) = pk_of p.[0] /\
  verify (pk_of p.[0]) h (recover x js (fun j => sign p.[x j] h)).
Proof.
have rs := recover_image h Hdist Hp Ht; have rp := recover_image g1 Hdist Hp Ht.
by split=> //; split=> //; apply/verify_iff.
Qed.

Hypothesis Hnz : ids_nonzero x js.

(* a combination in which the partial signature at position j is replaced by ANY group element
   verifies iff the replacement equals the honest partial signature *)
Theorem wrong_partial_iff h j (sig' : G2) : j \in js ->
  verify (pk_of p.[0]) h (recover x js (fun k => if k == j then sig' else sign p.[x k] h))
  <-> sig' = sign p.[x j] h.
Proof.
move=> jin; rewrite verify_iff /sign -(recover_image h Hdist Hp Ht).
have same k : k \in js -> k != j ->
    (fun k => if k == j then sig' else p.[x k] *: h) k = (fun k => p.[x k] *: h) k.
  by move=> _ /negbTE /= ->.
by have := wrong_share_iff Hdist Hnz jin same; rewrite /= eqxx.
Qed.

(* ... produced by a different secret s' (wrong share) *)
Corollary wrong_share_sig_iff h j s' : j \in js ->
  verify (pk_of p.[0]) h (recover x js (fun k => if k == j then sign s' h else sign p.[x k] h))
  <-> (s' = p.[x j] \/ h = 0).
Proof.
move=> jin; rewrite wrong_partial_iff // /sign; split.
  move/eqP; rewrite -subr_eq0 -scalerBl scaler_eq0 subr_eq0 => /orP[/eqP->|/eqP->]; by [left|right].
by case=> ->; rewrite ?scaler0.
Qed.

(* ... the partial signature of share k presented under index j (wrong index) *)
Corollary wrong_index_iff h j k : j \in js ->
  verify (pk_of p.[0]) h (recover x js (fun i => if i == j then sign p.[x k] h else sign p.[x i] h))
  <-> (p.[x k] = p.[x j] \/ h = 0).
Proof. exact: wrong_share_sig_iff. Qed.

(* ... share j signing another message h' (different message) *)
Corollary wrong_message_iff h h' j : j \in js ->
  verify (pk_of p.[0]) h (recover x js (fun k => if k == j then sign p.[x j] h' else sign p.[x k] h))
  <-> (p.[x j] = 0 \/ h' = h).
Proof.
move=> jin; rewrite wrong_partial_iff // /sign; split.
  move/eqP; rewrite -subr_eq0 -scalerBr scaler_eq0 subr_eq0 => /orP[/eqP->|/eqP->]; by [left|right].
by case=> ->; rewrite ?scale0r.
Qed.

End BLS.

(* the hypotheses of Section BLS are satisfiable: F itself, e = multiplication, g1 = 1 *)
Lemma bls_model_exists (F : fieldType) :
  exists (G1 G2 GT : lmodType F) (e : G1 -> G2 -> GT) (g1 : G1),
  (forall a u v, e (a *: u) v = a *: e u v) /\ (forall a u v, e u (a *: v) = a *: e u v) /\
  (forall u v w, e u (v - w) = e u v - e u w) /\ (forall v, e g1 v = 0 -> v = 0) /\ g1 != 0.
Proof.
exists (GRing.regular_lmodType F), (GRing.regular_lmodType F), (GRing.regular_lmodType F).
exists (fun u v : F^o => u * v : F^o), (1 : F^o); split; first by move=> a u v; rewrite -mulrA.
split; first by move=> a u v; rewrite /GRing.scale /= mulrCA.
split; first by move=> u v w; rewrite mulrBr.
by split; [move=> v; rewrite mul1r | rewrite oner_eq0].
Qed.
