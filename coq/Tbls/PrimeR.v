(* Primality of the BLS12-381 scalar field order r, proved inside Coq (no axiom, no external
   certificate checker): Pocklington's test with the factored part
   F = 2^32 * 3 * 906349^2 * 254760293^2 of r - 1 (F > sqrt r), base 7; the prime factors of F
   (all < 2^28) are certified by trial division.
   All big-number computation is done on binary integers Z by vm_compute and transferred to the
   mathcomp statement [prime (Z.to_nat r)] through generic lemmas in which the modulus is a
   variable (so the unary number is never computed). *)
From Coq Require Import ZArith.
From mathcomp Require Import all_ssreflect all_algebra finfield.
From mathcomp Require Import zify ssrZ.
From Charon Require Import Tbls.Shamir Tbls.ShamirZ.
Set Implicit Arguments.
Unset Strict Implicit.
Unset Printing Implicit Defensive.
Import GRing.Theory.
Delimit Scope Z_scope with ZZ.
Local Open Scope ring_scope.

Section Lucas.

Lemma expr_gcd1 (R : ringType) (u : R) (m n : nat) : (0 < m)%N ->
  u ^+ m = 1 -> u ^+ n = 1 -> u ^+ gcdn m n = 1.
Proof.
move=> m0 um un; case: (egcdnP n m0) => km kn e _.
have : u ^+ (km * m) = u ^+ (kn * n + gcdn m n) by rewrite e.
by rewrite exprD mulnC exprM um expr1n mulnC exprM un expr1n mul1r => <-.
Qed.

Lemma Fp_nat_eq (p : nat) (a b : nat) : prime p -> (a = b %[mod p])%N -> a%:R = b%:R :> 'F_p.
Proof. by move=> pp e; apply: val_inj; rewrite /= !(val_Fp_nat pp) e. Qed.

Lemma Fp_nat_eq1 (p : nat) (a : nat) : prime p -> a%:R = 1 :> 'F_p -> (a %% p = 1)%N.
Proof.
move=> pp e; have : (a%:R : 'F_p) = 1%:R by rewrite e.
move/(congr1 (@nat_of_ord _)); rewrite !(val_Fp_nat pp) => ->.
by rewrite modn_small // prime_gt1.
Qed.

Lemma fermat_Fp (p : nat) (u : 'F_p) : prime p -> u != 0 -> u ^+ (p - 1) = 1.
Proof.
move=> pp nz; apply: (mulfI nz); rewrite mulr1 -exprS.
have -> : (p - 1).+1 = p by move: (prime_gt1 pp); lia.
by rewrite -[in X in _ ^+ X](card_Fp pp) expf_card.
Qed.

(* Pocklington's test: F divides N - 1, N < (F + 1)^2, and for every prime q dividing F the base a
   satisfies a^(N-1) = 1 (mod N) and gcd (a^((N-1)/q) - 1, N) = 1.  Then every prime factor p of N
   has F | p - 1, so p^2 > N: N is prime. *)
Lemma pocklington (N a F : nat) : (1 < N)%N -> (0 < F)%N -> (F %| N - 1)%N -> (N < (F + 1) ^ 2)%N ->
  (a ^ (N - 1) = 1 %[mod N])%N ->
  (forall q, prime q -> (q %| F)%N -> coprime ((a ^ ((N - 1) %/ q)) %% N - 1) N) ->
  prime N.
Proof.
move=> N1 F0 FN NF aN H.
pose p := pdiv N; have pp : prime p := pdiv_prime N1; have pN : (p %| N)%N := pdiv_dvd N.
have p1 := prime_gt1 pp.
pose u : 'F_p := a%:R.
have uN : u ^+ (N - 1) = 1.
  rewrite /u -natrX -[1]/(1%:R); apply: (Fp_nat_eq pp).
  by rewrite -(modn_dvdm _ pN) aN (modn_dvdm _ pN).
have N10 : (0 < N - 1)%N by lia.
have unz : u != 0.
  by apply/eqP => u0; move: uN; rewrite u0 expr0n; case: (N - 1)%N N10 => // k _ /eqP; rewrite eq_sym oner_eq0.
have up := fermat_Fp pp unz.
suff dv : (F %| p - 1)%N.
  have le : (F <= p - 1)%N by apply: dvdn_leq dv; lia.
  apply: ltn_pdiv2_prime; first by lia.
  apply: leq_trans NF _; rewrite -/p leq_exp2r //; lia.
apply/dvdn_partP => // q; rewrite mem_primes => /and3P[pq _ qF].
have qd : (q %| N - 1)%N := dvdn_trans qF FN.
rewrite p_part pfactor_dvdn //; last by lia.
apply: leq_trans (dvdn_leq_log q N10 FN) _.
rewrite leqNgt; apply/negP => lt.
pose g := gcdn (N - 1) (p - 1).
have ug : u ^+ g = 1 by apply: expr_gcd1.
have gd : (g %| N - 1)%N by apply: dvdn_gcdl.
have g0 : (0 < g)%N by rewrite gcdn_gt0 N10.
have lg : (logn q g < logn q (N - 1))%N.
  apply: leq_ltn_trans lt; apply: dvdn_leq_log; first by lia.
  exact: dvdn_gcdr.
have gq : (g %| (N - 1) %/ q)%N.
  case/dvdnP: gd => c ec.
  have c0 : (0 < c)%N by move: N10; rewrite ec; case: c {ec}.
  have qc : (q %| c)%N.
    have := lg; rewrite ec lognM // -[X in (X < _)%N]add0n ltn_add2r logn_gt0 mem_primes pq c0 /=.
    by [].
  case/dvdnP: qc => c' ec'; rewrite ec ec' mulnAC mulnK ?prime_gt0 //.
  exact: dvdn_mull.
have ue : u ^+ ((N - 1) %/ q) = 1.
  by case/dvdnP: gq => c ->; rewrite mulnC exprM ug expr1n.
have := H q pq qF; set b := (_ %% N)%N => cop.
have bp : (b %% p = 1)%N.
  rewrite /b (modn_dvdm _ pN); apply: Fp_nat_eq1 => //.
  by rewrite natrX.
have b1 : (1 <= b)%N by rewrite lt0n; apply/eqP => b0; move: bp; rewrite b0 mod0n.
have pb : (p %| b - 1)%N.
  have : (b - 1 + 1 == 0 + 1 %[mod p])%N by rewrite subnK // add0n bp modn_small.
  by rewrite eqn_modDr mod0n.
have : (p %| gcdn (b - 1) N)%N by rewrite dvdn_gcd pb pN.
by move: cop; rewrite /coprime => /eqP ->; rewrite dvdn1 => /eqP e; move: p1; rewrite e.
Qed.
End Lucas.

(* ------------------------------------------------------------------------------------------ *)
(* nat <-> Z bridges *)

Lemma Zof_modn m n : (0 < n)%N -> Z.of_nat (m %% n) = Z.modulo (Z.of_nat m) (Z.of_nat n).
Proof. by move=> n0; apply: (@Z.mod_unique_pos _ _ (Z.of_nat (m %/ n))); lia. Qed.

Lemma Zof_divn m n : (0 < n)%N -> Z.of_nat (m %/ n) = Z.div (Z.of_nat m) (Z.of_nat n).
Proof. by move=> n0; apply: (@Z.div_unique_pos _ _ _ (Z.of_nat (m %% n))); lia. Qed.

Lemma Zof_gcdn x y : Z.of_nat (gcdn x y) = Z.gcd (Z.of_nat x) (Z.of_nat y).
Proof. lia. Qed.

Lemma Zof_pred b : (1 <= b)%N -> Z.of_nat (b - 1) = Z.sub (Z.of_nat b) 1.
Proof. lia. Qed.

Lemma powm_pos_nat (n a : nat) e : (0 < n)%N ->
  powm_pos (Z.of_nat n) (Z.of_nat a) e = Z.of_nat ((a ^ Pos.to_nat e) %% n).
Proof.
move=> n0; elim: e => [e IH|e IH|] /=.
- have -> : Pos.to_nat e~1 = (Pos.to_nat e + Pos.to_nat e).+1 by lia.
  rewrite /mulm IH -Nat2Z.inj_mul -Zof_modn // -Nat2Z.inj_mul -Zof_modn //; congr Z.of_nat.
  by rewrite !multE modnMm modnMmr expnS expnD.
- have -> : Pos.to_nat e~0 = (Pos.to_nat e + Pos.to_nat e)%N by lia.
  by rewrite /mulm IH -Nat2Z.inj_mul -Zof_modn //; congr Z.of_nat; rewrite !multE modnMm expnD.
- by rewrite /redm Pos2Nat.inj_1 expn1 Zof_modn.
Qed.

(* ------------------------------------------------------------------------------------------ *)
(* small primes by trial division on Z *)

Fixpoint nodiv (q d : Z) (fuel : nat) : bool :=
  match fuel with
  | O => true
  | S f => if Z.eqb (Z.modulo q d) 0%ZZ then false else nodiv q (Z.add d 1) f
  end.

Definition check_prime (q : Z) : bool := Z.ltb 1 q && nodiv q 2 (Z.to_nat (Z.sub (Z.sqrt q) 1)).

Lemma nodivP q d0 fuel : nodiv q d0 fuel ->
  forall d, (d0 <= d)%ZZ -> (d < d0 + Z.of_nat fuel)%ZZ -> Z.modulo q d <> 0%ZZ.
Proof.
elim: fuel d0 => [|f IH] d0 /=; first by move=> _ d; lia.
case: Z.eqb_spec => // ne /IH H d lo hi.
have [->//|nd] := Z.eq_dec d d0.
by apply: H; lia.
Qed.

Lemma check_primeP q : check_prime q -> prime (Z.to_nat q).
Proof.
case/andP=> /Z.ltb_spec0 q1 nd; apply/negPn/negP => /primePns[|[p [pp p2 pd]]]; first by lia.
have p1 := prime_gt1 pp.
pose d := Z.of_nat p.
have dq : (d * d <= q)%ZZ by move: p2; rewrite expnS expn1 /d; lia.
have ds : (d <= Z.sqrt q)%ZZ.
  rewrite -(Z.sqrt_square d); last by rewrite /d; lia.
  by apply: Z.sqrt_le_mono.
have := nodivP nd (d := d); case; [rewrite /d; lia| lia |].
have := pd; rewrite /dvdn => /eqP md.
have := Zof_modn (Z.to_nat q) (ltnW p1); rewrite md -/d.
have -> : Z.of_nat (Z.to_nat q) = q by lia.
by move=> <-.
Qed.

(* ------------------------------------------------------------------------------------------ *)
(* the certificate checker: F = product of qs (with multiplicity) divides m - 1, m < (F+1)^2, every
   q in qs is prime, a^(m-1) = 1 mod m, gcd (a^((m-1)/q) - 1, m) = 1 for every q *)

Definition lucas_check (m a : Z) (qs : seq Z) : bool :=
  let F := foldr Z.mul 1%ZZ qs in
  [&& Z.ltb 1 m, Z.ltb 0 a,
      Z.eqb (Z.modulo (Z.sub m 1) F) 0%ZZ && Z.ltb m (Z.mul (Z.add F 1) (Z.add F 1)),
      all check_prime (undup qs),
      Z.eqb (powm_pos m a (Z.to_pos (Z.sub m 1))) 1%ZZ
    & all (fun q => Z.eqb (Z.gcd (Z.sub (powm_pos m a (Z.to_pos (Z.div (Z.sub m 1) q))) 1) m) 1%ZZ) (undup qs)].

Lemma prod_to_nat (qs : seq Z) : all (fun q => Z.ltb 0 q) qs ->
  Z.of_nat (\prod_(q <- qs) Z.to_nat q)%N = foldr Z.mul 1%ZZ qs.
Proof.
elim: qs => [|q qs IH] /=; first by rewrite big_nil.
by case/andP=> /Z.ltb_spec0 q0 /IH e; rewrite big_cons Nat2Z.inj_mul e; lia.
Qed.

Lemma prime_dvd_prod (p : nat) (s : seq nat) : prime p -> (p %| \prod_(x <- s) x)%N ->
  has (fun x => p %| x)%N s.
Proof.
move=> pp; elim: s => [|x s IH]; first by rewrite big_nil dvdn1 => /eqP e; move: (prime_gt1 pp); rewrite e.
by rewrite big_cons Euclid_dvdM //= => /orP[->//|/IH ->]; rewrite orbT.
Qed.

Definition hide (P : Prop) : Prop := P.

Theorem lucas_certificate (m a : Z) (qs : seq Z) : lucas_check m a qs -> prime (Z.to_nat m).
Proof.
rewrite /lucas_check; set Fz := foldr Z.mul 1%ZZ qs.
case/andP=> /Z.ltb_spec0 m1 /and5P[/Z.ltb_spec0 a0 /andP[/Z.eqb_spec fdiv0 /Z.ltb_spec0 fsq0] /allP primes0 /Z.eqb_spec pw /allP wit0].
have fhid : hide ((m - 1) mod Fz = 0 /\ m < (Fz + 1) * (Fz + 1))%ZZ by split.
clear fdiv0 fsq0.
have primes q : q \in qs -> check_prime q by rewrite -mem_undup; apply: primes0.
have wit q : q \in qs -> _ := fun h => wit0 q (etrans (mem_undup qs q) h).
pose N := Z.to_nat m; pose A := Z.to_nat a.
have HN : Z.of_nat N = m by rewrite /N; lia.
have HA : Z.of_nat A = a by rewrite /A; lia.
have N1 : (1 < N)%N by lia.
have N0 : (0 < N)%N by lia.
have qpos : all (fun q => Z.ltb 0 q) qs.
  by apply/allP => q /primes /andP[/Z.ltb_spec0 q1 _]; apply/Z.ltb_spec0; lia.
pose F := (\prod_(q <- qs) Z.to_nat q)%N.
have HF : Z.of_nat F = Fz by rewrite /F (prod_to_nat qpos).
have F0 : (0 < F)%N.
  rewrite /F big_seq; apply: prodn_cond_gt0 => q /(allP qpos) /Z.ltb_spec0; lia.
have HN1 : Z.of_nat (N - 1) = (m - 1)%ZZ by lia.
have [FN NF] : (F %| N - 1)%N /\ (N < (F + 1) ^ 2)%N.
  case: fhid => fdiv fsq; split.
    by rewrite /dvdn; apply/eqP; apply: Nat2Z.inj; rewrite (Zof_modn _ F0) HF HN1.
  rewrite expnS expn1; apply/ltP/Nat2Z.inj_lt; rewrite -!multE Nat2Z.inj_mul -plusE Nat2Z.inj_add HF HN.
  exact: fsq.
clear fhid.
have aN1 : (A ^ (N - 1) %% N = 1)%N.
  have e : Pos.to_nat (Z.to_pos (m - 1)) = (N - 1)%N by lia.
  have := powm_pos_nat A (Z.to_pos (m - 1)) N0; rewrite HN HA pw e => h.
  by apply: Nat2Z.inj; rewrite -h.
apply: (@pocklington N A F) => //; first by rewrite aN1 modn_small.
move=> q pq qF; have qd : (q %| N - 1)%N := dvdn_trans qF FN.
have : has (fun x => q %| x)%N (map Z.to_nat qs).
  by apply: prime_dvd_prod => //; rewrite big_map.
case/hasP=> x /mapP[z zin ->] qz.
have pz : prime (Z.to_nat z) by apply: check_primeP; apply: primes.
have eq : q = Z.to_nat z by apply/eqP; rewrite -(dvdn_prime2 pq pz).
have z1 : (1 < z)%ZZ by have /andP[/Z.ltb_spec0] := primes _ zin.
have /Z.eqb_spec := wit _ zin.
have q0 : (0 < q)%N := prime_gt0 pq.
have ediv : Pos.to_nat (Z.to_pos ((m - 1) / z)) = ((N - 1) %/ q)%N.
  have := Zof_divn (N - 1) q0; rewrite eq HN1.
  have -> : Z.of_nat (Z.to_nat z) = z by clear -z1; lia.
  move=> h.
  have zle : (z <= m - 1)%ZZ.
    have N10 : (0 < N - 1)%N by clear -N1; lia.
    have le' : (Z.to_nat z <= N - 1)%N by rewrite -eq; apply: dvdn_leq qd.
    by clear -le' HN1 z1; lia.
  have pos : (0 < (m - 1) / z)%ZZ by apply: Z.div_str_pos; clear -z1 zle; lia.
  by clear -h pos; lia.
have := powm_pos_nat A (Z.to_pos ((m - 1) / z)) N0; rewrite HN HA ediv => ->.
set b := (_ %% N)%N => g.
rewrite /coprime; apply/eqP; apply: Nat2Z.inj.
have b1 : (1 <= b)%N.
  rewrite lt0n; apply/eqP => b0.
  have : (A ^ (N - 1) %% N = 0)%N.
    have -> : (A ^ (N - 1) = (A ^ ((N - 1) %/ q)) ^ q)%N by rewrite -expnM divnK.
    by rewrite -modnXm -/b b0 exp0n // mod0n.
  by rewrite aN1.
by rewrite Zof_gcdn HN Zof_pred.
Qed.

(* ------------------------------------------------------------------------------------------ *)

(* F = 2^32 * 3 * 906349^2 * 254760293^2 > sqrt r; it divides r - 1 *)
Definition r_factors : seq Z := (nseq 32 2 ++ [:: 3; 906349; 906349; 254760293; 254760293])%ZZ.

Lemma r_certificate : lucas_check r 7%ZZ r_factors.
Proof. by vm_compute. Qed.

Theorem r_prime : prime (Z.to_nat r).
Proof. exact: lucas_certificate r_certificate. Qed.

Lemma r_to_nat : Z.of_nat (Z.to_nat r) = r.
Proof. by rewrite Z2Nat.id. Qed.

Lemma r_gt2 : (2 < Z.to_nat r)%N.
Proof. by have : (2 < r)%ZZ by []; lia. Qed.

(* the executable instance at r, without any primality hypothesis *)
Theorem recoverZ_split_r cs ids :
  ids_okZ r ids -> (size cs <= size ids)%N ->
  recoverZ r (zip ids (map (evalZ r cs) ids)) = redm r (head 0%ZZ cs).
Proof. exact: (recoverZ_split r_prime r_to_nat r_gt2). Qed.

Theorem vsr_checkZ_sound_r dv ys t :
  (size ys < Z.to_nat r)%N -> vsr_checkZ r dv ys t ->
  on_one_poly (idn (Fp_fieldType (Z.to_nat r))) (phi (Z.to_nat r) dv : ('F_(Z.to_nat r))^o)
              (yfield (Z.to_nat r) ys) (size ys) t.
Proof. exact: (vsr_checkZ_sound r_prime r_to_nat r_gt2). Qed.
