(* C03 -- validity at network level WITH compare failures (extends Properties/C03.v, whose network-level theorems assume
   executions without CmpFail).

   The three network-level statements hold for EVERY execution of Qbft/Net.v, with NO hypothesis on Definition.Compare
   (CmpOk / CmpFail / CmpTimeout in any pattern, not even a function of (member, value)): for every n >= 1, every set of at
   most f = floor((n-1)/3) Byzantine members, every leader function, FIFO limit, schedule and map order,
   * [C03_cmp_decide_nonzero]: no honest member decides the zero value;
   * [C03_cmp_decide_leader_proposed]: a decided (v, r) was proposed by a deliverable PRE-PREPARE(r, v) whose source is the
     leader of round r (broadcast by that honest leader, or carrying a Byzantine source);
   * [C03_cmp_validity_no_byz]: with no Byzantine member, a decided value is non-zero and was the Input of some member.
   Reason: the compareFailureRound+1 shortcut of isJustifiedPrePrepare skips only the justification (quorum of round
   changes) of a PRE-PREPARE, not the leader / non-zero checks; an honest leader proposes its input or a prepared value
   whatever compareFailureRound is.  (Agreement DOES need a hypothesis: Properties/C02_cmp.v.)
   * [C03_cmp_nonvacuous] / [C03_cmp_nonvacuous_byz]: recorded executions of four real qbft.Run processes with compare
     failures in which members decide (all honest; one Byzantine member with an accepted unjustified proposal).
   Proofs: Qbft/CmpInv.v, Qbft/AgreementCmp.v, Qbft/ValidityCmp.v. *)
From Coq Require Import List NArith Arith Bool.
From Charon Require Import Common.Quorum Qbft.Model Qbft.Monitor Qbft.ModelFacts Qbft.Inv Qbft.Card Qbft.Net Qbft.NetInv
  Qbft.CmpInv Qbft.AgreementCmp Qbft.ValidityCmp Qbft.NetExamples Qbft.CmpExamples.
Import ListNotations.

Theorem C03_cmp_decide_nonzero : forall c nt tr, wf_cfg c -> nreach c nt tr ->
  forall i v r, In (i, v, r) (trace_decides tr) -> v <> 0%N.
Proof. exact decide_nonzero_any. Qed.
Print Assumptions C03_cmp_decide_nonzero.

Theorem C03_cmp_decide_leader_proposed : forall c nt tr, wf_cfg c -> nreach c nt tr ->
  forall i v r, In (i, v, r) (trace_decides tr) ->
  exists ppm, deliv c (sent nt) ppm /\ ty ppm = PrePrepare /\ rnd ppm = r /\ val ppm = v /\ src ppm = c_leader c r.
Proof. exact decide_leader_proposed_any. Qed.
Print Assumptions C03_cmp_decide_leader_proposed.

Theorem C03_cmp_validity_no_byz : forall c nt tr, wf_cfg c -> (forall i, i < c_n c -> c_honest c i = true) ->
  nreach c nt tr ->
  forall i v r, In (i, v, r) (trace_decides tr) -> v <> 0%N /\ exists j outs, In (j, LInput v outs) tr.
Proof. exact validity_no_byz_any. Qed.
Print Assumptions C03_cmp_validity_no_byz.

(* what the correspondence check uses: every global trace the executable replay accepts *)
Theorem C03_cmp_observed : forall c tr nt, wf_cfg c -> nrun c net_init tr = Some nt ->
  forall i v r, In (i, v, r) (trace_decides tr) ->
  v <> 0%N /\ exists ppm, deliv c (sent nt) ppm /\ ty ppm = PrePrepare /\ rnd ppm = r /\ val ppm = v /\ src ppm = c_leader c r.
Proof.
  intros c tr nt Hw Hr i v r Hi.
  exact (conj (decide_nonzero_any c nt tr Hw (nrun_sound c tr nt Hr) i v r Hi)
              (decide_leader_proposed_any c nt tr Hw (nrun_sound c tr nt Hr) i v r Hi)).
Qed.
Print Assumptions C03_cmp_observed.

(* the invariant behind them holds in every reachable state, whatever Compare answers *)
Theorem C03_cmp_invariant_any : forall c nt tr, wf_cfg c -> nreach c nt tr -> cinv anyv anyv c nt tr.
Proof. exact nreach_cinv_any. Qed.
Print Assumptions C03_cmp_invariant_any.

(* Non-vacuity, all honest: member 3's comparison fails on the leader's value; all four decide 7 = Input of member 0. *)
Theorem C03_cmp_nonvacuous :
  nrun_ok exhon_cfg exhon_trace = true /\ existsb (fun e => negb (label_nofail (snd e))) exhon_trace = true
  /\ trace_decides exhon_trace = [(0, 7%N, 1); (1, 7%N, 1); (2, 7%N, 1); (3, 7%N, 1)]
  /\ In (0, LInput 7%N [Bcast (mk PrePrepare 0 1 7 0 0) []]) exhon_trace.
Proof. exact (conj exhon_accepted (conj exhon_has_failure (conj exhon_decides exhon_input))). Qed.
Print Assumptions C03_cmp_nonvacuous.

(* Non-vacuity, one Byzantine member: two compare failures, an unjustified proposal accepted through the shortcut. *)
Theorem C03_cmp_nonvacuous_byz :
  nrun_ok excmp_cfg excmp_trace = true /\ existsb (fun e => negb (label_nofail (snd e))) excmp_trace = true
  /\ trace_decides excmp_trace = [(0, 7%N, 1); (1, 7%N, 1); (3, 7%N, 1)].
Proof. exact (conj excmp_accepted (conj excmp_has_failure excmp_decides)). Qed.
Print Assumptions C03_cmp_nonvacuous_byz.
