(* C16 — Duty deadlines are reported exactly once, never early, never for late adds.
   Only statements here; proofs are in Stores/DeadlinerFacts.v.  [run dl init ls = Some s] says
   "ls is a label sequence the deadliner model can produce"; the correspondence check establishes
   that the label sequences recorded from core/deadline.go are of that kind. *)
From Coq Require Import List ZArith NArith Bool.
From Charon Require Import Stores.Deadliner Stores.DeadlinerFacts.
Import ListNotations.
Local Open Scope Z_scope.

(* Every trace of the model passes the trace monitor that transcribes the property. *)
Theorem C16_monitor : forall dl ls s, run dl init ls = Some s -> monitor dl ls = true.
Proof. exact run_monitor. Qed.
Print Assumptions C16_monitor.

(* A report (queued or dropped because the consumer let the queue fill) of d happens at or after
   d's deadline, at most once, only after d was registered in time, and not while a duty with an
   earlier deadline is pending. *)
Theorem C16_report : forall dl ls s, run dl init ls = Some s ->
  forall pre d post, ls = pre ++ LFire d :: post \/ ls = pre ++ LDrop d :: post ->
  dlz dl d <= time_after pre /\
  ~ In (LFire d) pre /\ ~ In (LDrop d) pre /\
  In (LAdd d Scheduled) pre /\
  (forall d', mem d' (pending_after pre) = true -> dlz dl d <= dlz dl d').
Proof. intros dl ls s H. exact (fire_facts dl ls (run_monitor dl ls s H)). Qed.
Print Assumptions C16_report.

(* Status returned by a registration: exempt types are Exempt, a deadline in the past is refused,
   a deadline in the future is scheduled. *)
Theorem C16_add_status : forall dl ls s, run dl init ls = Some s ->
  forall pre d st post, ls = pre ++ LAdd d st :: post ->
  match dl d with
  | None => st = Exempt
  | Some t => st <> Exempt /\ (t < time_after pre -> st = Expired) /\ (time_after pre < t -> st = Scheduled)
  end.
Proof. intros dl ls s H. exact (add_facts dl ls (run_monitor dl ls s H)). Qed.
Print Assumptions C16_add_status.

(* Whenever the component is idle, no registered and unreported duty has reached its deadline:
   every due duty has been reported (and by C16_report exactly once). *)
Theorem C16_all_due_reported : forall dl ls s, run dl init ls = Some s ->
  forall pre post, ls = pre ++ LQuiet :: post ->
  forall d, mem d (pending_after pre) = true -> time_after pre < dlz dl d.
Proof. intros dl ls s H. exact (quiet_facts dl ls (run_monitor dl ls s H)). Qed.
Print Assumptions C16_all_due_reported.

Theorem C16_exempt_never : forall dl ls s, run dl init ls = Some s ->
  forall d, dl d = None -> ~ In (LFire d) ls /\ ~ In (LDrop d) ls.
Proof. intros dl ls s H. exact (exempt_never dl ls (run_monitor dl ls s H)). Qed.
Print Assumptions C16_exempt_never.

(* A report is lost only when the consumer has let 10 reports pile up unread. *)
Theorem C16_drop_only_when_full : forall dl ls s, run dl init ls = Some s ->
  forall pre d post, ls = pre ++ LDrop d :: post ->
  (cap <= length (g_queue (ghost_after ginit pre)))%nat.
Proof. intros dl ls s H. exact (drop_only_when_full dl ls (run_monitor dl ls s H)). Qed.
Print Assumptions C16_drop_only_when_full.

Theorem C16_readd_pending_noop : forall dl ls s d s',
  run dl init ls = Some s -> mem d (duties s) = true -> step dl s (LAdd d Scheduled) = Some s' -> s' = s.
Proof. exact readd_pending_noop. Qed.
Print Assumptions C16_readd_pending_noop.

(* The unrepaired code (refuse only deadline < now) admits a trace that the monitor rejects. *)
Theorem C16_readd_at_deadline_refuted_before_fix :
  (exists s, run_gen f4_dl true init f4_trace = Some s) /\ monitor f4_dl f4_trace = false.
Proof. exact readd_at_deadline_refuted_before_fix. Qed.
Print Assumptions C16_readd_at_deadline_refuted_before_fix.
