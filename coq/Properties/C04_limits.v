(* C04 -- "no honest message is rejected": the verifyMsgLimits clause (core/consensus/qbft/qbft.go verifyMsgLimits: a wire
   message with more than 2 * nodes justification parts, or more than 2 * (parts + 1) values, is dropped before any other
   check).  Extends Properties/C04.v, whose honest_never_unjust covers isJustified only.

   * [C04_limits_net]: network level (Qbft/Net.v), for every n, ANY set of Byzantine members, any compare verdicts, any
     schedule and map order: if every message handed to a member's qbft.Run carries at most 2n justification parts (the
     receiving wrapper's own verifyMsgLimits; sources are members by deliverability), every message an honest member
     broadcasts has at most 2n justification parts and the wrapper attaches at most 2 * (parts + 1) values to it -- it
     passes verifyMsgLimits at every member.  Per type: PREPARE / COMMIT carry none, ROUND-CHANGE at most n, PRE-PREPARE and
     DECIDED at most 2n.
   * [C04_limits_run]: the same for one process over every label sequence of the model.
   * [C04_limits_refuted_without_receive_check]: the receive-side hypothesis is needed -- a member handed a DECIDED with 9
     parts (n = 4) re-broadcasts them.
   * value clause: [msg_values] = the distinct non-zero value / prepared-value hashes of the main part and of every
     justification part, which is what transport.Broadcast attaches (checked against the real transport on every run).
   Proofs: Qbft/MsgLimits.v, Qbft/MsgLimitsEx.v. *)
From Coq Require Import List NArith Arith Bool.
From Charon Require Import Common.Quorum Qbft.Model Qbft.Monitor Qbft.ModelFacts Qbft.Net Qbft.NetInv Qbft.NetExamples
  Qbft.CmpExamples Qbft.MsgLimits Qbft.MsgLimitsEx.
Import ListNotations.

Theorem C04_limits_net : forall c nt tr, nreach c nt tr -> trace_recv_limited c tr ->
  forall i l b J, In (i, l) tr -> In (Bcast b J) (label_outs l) ->
  length J <= just_bound (pp c i) b /\ limits_ok (c_n c) b J.
Proof. intros c nt tr Hr Hl. exact (proj2 (net_bcast_limits c nt tr Hr Hl)). Qed.
Print Assumptions C04_limits_net.

(* the reading "passes verifyMsgLimits at every member" *)
Theorem C04_limits_net_passes : forall c nt tr, nreach c nt tr -> trace_recv_limited c tr ->
  forall i l b J, In (i, l) tr -> In (Bcast b J) (label_outs l) ->
  wrapper_limits_okb (c_n c) (length J) (length (msg_values b J)) = true.
Proof.
  intros c nt tr Hr Hl i l b J Hi Hb. rewrite <- limits_okb_wrapper.
  exact (proj2 (limits_okb_spec (c_n c) b J) (honest_bcast_within_limits c nt tr Hr Hl i l b J Hi Hb)).
Qed.
Print Assumptions C04_limits_net_passes.

Theorem C04_limits_run : forall p ls s, run p init ls = Some s -> (forall l, In l ls -> ev_ok p (event_of l)) ->
  forall l b J, In l ls -> In (Bcast b J) (label_outs l) -> length J <= just_bound p b /\ limits_ok (nodes p) b J.
Proof. exact run_bcast_limits. Qed.
Print Assumptions C04_limits_run.

(* the second clause holds of any message, by the way the transport collects values *)
Theorem C04_limits_values : forall b J, length (msg_values b J) <= 2 * (length J + 1).
Proof. exact msg_values_bound. Qed.
Print Assumptions C04_limits_values.

(* getJustifiedQrc never returns more than 2n parts when the buffer holds members' parts only *)
Theorem C04_limits_qrc : forall p all r J, adm_qrc p all r J = true -> srcs_below (nodes p) all -> length J <= 2 * nodes p.
Proof. exact adm_qrc_length. Qed.
Print Assumptions C04_limits_qrc.

(* what the correspondence check uses *)
Theorem C04_limits_observed : forall c tr nt, nrun c net_init tr = Some nt -> recv_limited_b (c_n c) tr = true ->
  bcast_over (c_n c) tr = [].
Proof. exact limits_observed. Qed.
Print Assumptions C04_limits_observed.

Theorem C04_limits_nonvacuous :
  nrun_ok excmp_cfg excmp_trace = true /\ recv_limited_b 4 excmp_trace = true /\ bcast_over 4 excmp_trace = []
  /\ flat_map (fun e => flat_map (fun o => match o with
                                           | Bcast b J => match J with [] => [] | _ => [(ty b, length J, length (msg_values b J))] end
                                           | _ => [] end) (label_outs (snd e))) excmp_trace
     = [(RoundChange, 3, 1); (PrePrepare, 6, 1); (Decided, 3, 1)].
Proof. exact (conj excmp_accepted (conj exlim_recv (conj exlim_none_over exlim_sizes))). Qed.
Print Assumptions C04_limits_nonvacuous.

Theorem C04_limits_refuted_without_receive_check :
  exists p ls s, run p init ls = Some s
    /\ (forall l m cm outs, In l ls -> l = LRecv m cm outs -> src (main m) < nodes p /\ forall y, In y (just m) -> src y < nodes p)
    /\ exists l b J, In l ls /\ In (Bcast b J) (label_outs l) /\ 2 * nodes p < length J.
Proof. exact limits_refuted_without_receive_check. Qed.
Print Assumptions C04_limits_refuted_without_receive_check.
