(* C02 -- Consensus agreement: honest nodes never decide different values for a duty.

   Proved here (all for EVERY n >= 1, every set of at most f = floor((n-1)/3) Byzantine members, every leader
   function and FIFO limit -- the property text names n in 3..7; nothing is bounded):

   * [C02_agreement_default]: in every execution of the network semantics Qbft/Net.v in which Compare never reports a
     mismatch (the default configuration: feature chain_split_halt off), any two Decide callbacks of honest members
     carry the same value.  Net.v: every honest member runs the executable model of qbft.Run (Qbft/Model.v, for every
     choice of Go's map orders); the adversary delivers, at any time and to anybody, any message each of whose parts
     (main part and every justification part) was broadcast by an honest member or carries a Byzantine source -- which
     covers delay, loss, reordering, duplication, replay, cross-assembly of justifications, equivocating proposals,
     votes for several values and forged prepared-claims; timeouts and inputs may happen at any time; crashed or late
     members are members that take no steps.  Signatures are symbolic (a part with an honest source exists only if that
     member broadcast it); sources are members (the wrapper rejects unknown peers).
   * the supporting single-process facts over ALL label sequences of the model: one PREPARE and one COMMIT per round,
     a ROUND-CHANGE carries a prepared round at least every round the member committed in (and the committed value
     if equal), every Decide is backed by a commit quorum; and the quorum arithmetic.
   * [C02_agreement_refuted_if_compare_arbitrary]: the documented NEGATIVE result -- an execution of Net.v (n = 4, one
     Byzantine member) recorded from the real core/qbft.Run in which Compare answers differently for the same
     (member, value) at different times and two honest members decide different values.  This is why agreement is stated
     for executions without compare failures (resp. needs a verdict that is a function of (member, value)).
   * [C02_agreement_observed]: the same conclusion for every global trace the executable replay [nrun] accepts; the
     check replays the cluster executions recorded from the real qbft.Run through [nrun] (Qbft/Corr.v).

   | TODO-stage-2 (full intended statements not yet proved, DESIGN.md section C02):
     | Theorem agreement : the same with CmpFail allowed at process i on value x only if cmpfail i x for a fixed relation
       (the compareFailureRound+1 shortcut of isJustifiedPrePrepare); needs the "contiguous chain of failed comparisons"
       argument on top of Qbft/Agreement.v.
   Proofs: Common/Quorum.v, Qbft/ModelFacts.v, Qbft/Inv.v, Qbft/NetInv.v, Qbft/Agreement.v. *)
From Coq Require Import List NArith Arith Bool.
From Charon Require Import Common.Quorum Qbft.Model Qbft.Monitor Qbft.ModelFacts Qbft.Inv Qbft.Card Qbft.Net Qbft.NetInv
  Qbft.Agreement Qbft.NetExamples Qbft.Refuted.
Import ListNotations.

(* quorum n = ceil(2n/3), faulty n = floor((n-1)/3): the Go definitions. *)
Theorem C02_quorum_is_ceil : forall n, 2 * n <= 3 * quorum n /\ 3 * quorum n < 2 * n + 3.
Proof. exact quorum_is_ceil. Qed.
Print Assumptions C02_quorum_is_ceil.

Theorem C02_faulty_is_floor : forall n, 1 <= n -> 3 * faulty n <= n - 1 /\ n - 1 < 3 * faulty n + 3.
Proof. exact faulty_is_floor. Qed.
Print Assumptions C02_faulty_is_floor.

(* Two quorums intersect in more than f processes: 2q - n > f. *)
Theorem C02_quorum_intersection : forall n, 1 <= n -> faulty n < 2 * quorum n - n.
Proof. exact quorum_intersection_sub. Qed.
Print Assumptions C02_quorum_intersection.

(* On cardinalities: |A|, |B| >= q and |A| + |B| <= n + |A n B|  imply  |A n B| > f. *)
Theorem C02_two_quorums_share_honest : forall n a b i, 1 <= n -> quorum n <= a -> quorum n <= b ->
  a + b <= n + i -> faulty n < i.
Proof. exact two_quorums_card. Qed.
Print Assumptions C02_two_quorums_share_honest.

(* A quorum meets the honest part (>= q - f) of any other quorum: q + (q - f) - n >= 1. *)
Theorem C02_quorum_meets_honest_part : forall n, 1 <= n -> n + 1 <= quorum n + (quorum n - faulty n).
Proof. exact quorum_meets_honest_part. Qed.
Print Assumptions C02_quorum_meets_honest_part.

(* The processes outside a quorum are fewer than the honest part of a quorum: n - q < q - f. *)
Theorem C02_outside_quorum_lt_honest_part : forall n, 1 <= n -> n - quorum n < quorum n - faulty n.
Proof. exact outside_quorum_lt_honest_part. Qed.
Print Assumptions C02_outside_quorum_lt_honest_part.

(* f < q <= n - f <= n: f Byzantine members never form a quorum, the non-faulty ones always do. *)
Theorem C02_thresholds : forall n, 1 <= n ->
  faulty n < quorum n /\ quorum n <= n - faulty n /\ 3 * faulty n < n /\ faulty n + 1 <= quorum n.
Proof.
  intros n H. exact (conj (faulty_lt_quorum n H) (conj (nonfaulty_form_quorum n H) (conj (three_f_lt_n n H) (fplus1_le_quorum n H)))).
Qed.
Print Assumptions C02_thresholds.

(* Single process, all label sequences: a Decide(v, r, qcommit) is backed by COMMIT(r, v) of a quorum of
   distinct sources (the fact that turns two decisions into two intersecting quorums). *)
Theorem C02_decide_needs_commit_quorum : forall p ls s, 1 <= nodes p -> run p init ls = Some s ->
  forall v r qc, In (v, r, qc) (decs ls) -> quorum (nodes p) <= nsrc (f_trv Commit r v) qc.
Proof. intros p ls s Hn H. exact (mon3_backed_from p ls g3_init (run_mon3 p ls s Hn H)). Qed.
Print Assumptions C02_decide_needs_commit_quorum.

(* ---- agreement ---- *)

(* Any two Decide callbacks (member, value, round) of a reachable execution without compare failures agree. *)
Theorem C02_agreement_default : forall c nt tr, wf_cfg c -> nreach c nt tr -> trace_nofail tr ->
  forall i v r j v' r', In (i, v, r) (trace_decides tr) -> In (j, v', r') (trace_decides tr) -> v = v'.
Proof. exact agreement_default. Qed.
Print Assumptions C02_agreement_default.

(* State form: in any global state satisfying the network invariant, two decided honest members hold the same value. *)
Theorem C02_agreement_states : forall c nt, wf_cfg c -> ninv c nt ->
  forall i j, good c i -> good c j -> decided (nst nt i) = true -> decided (nst nt j) = true ->
  qcommitV (nst nt i) = qcommitV (nst nt j).
Proof. exact agreement_states. Qed.
Print Assumptions C02_agreement_states.

(* What the correspondence check uses: a global trace accepted by the executable replay is an execution. *)
Theorem C02_agreement_observed : forall c tr nt, wf_cfg c -> nrun c net_init tr = Some nt -> trace_nofail tr ->
  forall i v r j v' r', In (i, v, r) (trace_decides tr) -> In (j, v', r') (trace_decides tr) -> v = v'.
Proof. intros c tr nt Hw Hr. exact (agreement_default c nt tr Hw (nrun_sound c tr nt Hr)). Qed.
Print Assumptions C02_agreement_observed.

(* Single process, all label sequences: at most one PREPARE value and one COMMIT value per round. *)
Theorem C02_one_prepare_per_round : forall p ls s, 1 <= nodes p -> run p init ls = Some s ->
  forall b b', In b (log_of ls) -> In b' (log_of ls) -> ty b = Prepare -> ty b' = Prepare -> rnd b = rnd b' -> val b = val b'.
Proof. exact one_prepare_per_round. Qed.
Print Assumptions C02_one_prepare_per_round.

Theorem C02_one_commit_per_round : forall p ls s, 1 <= nodes p -> run p init ls = Some s ->
  forall b b', In b (log_of ls) -> In b' (log_of ls) -> ty b = Commit -> ty b' = Commit -> rnd b = rnd b' -> val b = val b'.
Proof. exact one_commit_per_round. Qed.
Print Assumptions C02_one_commit_per_round.

(* A ROUND-CHANGE for a round above one the member committed in carries pr >= that round (and the committed value if equal). *)
Theorem C02_round_change_carries_lock : forall p ls s, 1 <= nodes p -> run p init ls = Some s ->
  forall c b, In c (log_of ls) -> In b (log_of ls) -> ty c = Commit -> ty b = RoundChange -> rnd c < rnd b ->
  rnd c <= pr b /\ (rnd c = pr b -> val c = pv b).
Proof. exact round_change_carries_lock. Qed.
Print Assumptions C02_round_change_carries_lock.

(* Non-vacuity: a recorded execution of four real qbft.Run processes (one crashed, a round change) is an execution of
   Net.v without compare failures in which three members decide (the same value). *)
Theorem C02_net_nonvacuous :
  nrun_ok exnet_cfg exnet_trace = true /\ forallb (fun e => label_nofail (snd e)) exnet_trace = true
  /\ length (trace_decides exnet_trace) = 3.
Proof. exact (conj exnet_accepted (conj exnet_nofail (f_equal (@length _) exnet_decides))). Qed.
Print Assumptions C02_net_nonvacuous.

(* NEGATIVE result: with compare verdicts that are not a function of (member, value), agreement fails (n = 4, f = 1): the
   execution below is accepted by the network semantics, has one Byzantine member, and two honest members decide 7 and 8. *)
Theorem C02_agreement_refuted_if_compare_arbitrary :
  exists c tr nt, wf_cfg c /\ nrun c net_init tr = Some nt /\ nreach c nt tr
    /\ exists i v r j v' r', In (i, v, r) (trace_decides tr) /\ In (j, v', r') (trace_decides tr)
                             /\ good c i /\ good c j /\ v <> v'.
Proof. exact agreement_refuted_if_compare_arbitrary. Qed.
Print Assumptions C02_agreement_refuted_if_compare_arbitrary.
