(* C02 -- Consensus agreement: honest nodes never decide different values for a duty.

   STAGE 1 (this file now): the quorum arithmetic every agreement argument rests on, for EVERY n >= 1
   (the property text names n in 3..7; nothing here is bounded), about the same quorum/faulty
   functions the model of qbft.Run uses (Common/Quorum.v, compared with the Go Quorum()/Faulty()
   for n = 1..200 on every check), and the single-process facts about COMMIT/Decide.
   Proofs are in Common/Quorum.v and Qbft/ModelFacts.v; the model is Qbft/Model.v.

   TODO-stage-2 (full intended statements, DESIGN.md section C02; to be added over Qbft/Net.v):

     | Theorem agreement : forall n (Byz : list nat) (leader : nat -> nat) fifo inputs,
       1 <= n -> length (nodup Byz) <= faulty n ->
       forall tr, net_trace n Byz leader fifo inputs cmpfail tr ->     (* every finite trace of Net: honest steps of
            Qbft.Model.fstep for every oracle + adversarial deliveries of any message whose main part and every
            justification part is in [sent] or has a Byzantine source; CmpFail at process i on value x only if
            cmpfail i x *)
       forall i j v v' r r' qc qc', ~ In i Byz -> ~ In j Byz ->
         emitted tr i (Decide v r qc) -> emitted tr j (Decide v' r' qc') -> v = v'.
     | Theorem agreement_default : same statement for traces without CmpFail, no hypothesis on compare verdicts.
     | Theorem agreement_refuted_if_compare_arbitrary : n = 4 witness when CmpFail may depend on more than (process, value).
     supporting (Qbft/Inv.v): rounds monotone before the decision; at most one PREPARE and one COMMIT per round per
       honest process; exactly one ROUND-CHANGE per entered round carrying the current (pr, pv) with a quorum of
       PREPARE(pr, pv); COMMIT(r, v) only after such a quorum is buffered; containsJustifiedQrc accepts only the value
       of the highest prepared round of the attached quorum. *)
From Coq Require Import List NArith Arith Bool.
From Charon Require Import Common.Quorum Qbft.Model Qbft.Monitor Qbft.ModelFacts.
Import ListNotations.

(* quorum n = ceil(2n/3), faulty n = floor((n-1)/3): the Go definitions. *)
Theorem C02_quorum_is_ceil : forall n, 2 * n <= 3 * quorum n /\ 3 * quorum n < 2 * n + 3.
Proof. exact quorum_is_ceil. Qed.
Print Assumptions C02_quorum_is_ceil.

Theorem C02_faulty_is_floor : forall n, 1 <= n -> 3 * faulty n <= n - 1 /\ n - 1 < 3 * faulty n + 3.
Proof. exact faulty_is_floor. Qed.
Print Assumptions C02_faulty_is_floor.

(* Two quorums intersect in more than f processes: 2q - n > f. *)
Theorem C02_quorum_intersection : forall n, 1 <= n -> faulty n < 2 * quorum n - n.
Proof. exact quorum_intersection_sub. Qed.
Print Assumptions C02_quorum_intersection.

(* On cardinalities: |A|, |B| >= q and |A| + |B| <= n + |A n B|  imply  |A n B| > f. *)
Theorem C02_two_quorums_share_honest : forall n a b i, 1 <= n -> quorum n <= a -> quorum n <= b ->
  a + b <= n + i -> faulty n < i.
Proof. exact two_quorums_card. Qed.
Print Assumptions C02_two_quorums_share_honest.

(* A quorum meets the honest part (>= q - f) of any other quorum: q + (q - f) - n >= 1. *)
Theorem C02_quorum_meets_honest_part : forall n, 1 <= n -> n + 1 <= quorum n + (quorum n - faulty n).
Proof. exact quorum_meets_honest_part. Qed.
Print Assumptions C02_quorum_meets_honest_part.

(* The processes outside a quorum are fewer than the honest part of a quorum: n - q < q - f. *)
Theorem C02_outside_quorum_lt_honest_part : forall n, 1 <= n -> n - quorum n < quorum n - faulty n.
Proof. exact outside_quorum_lt_honest_part. Qed.
Print Assumptions C02_outside_quorum_lt_honest_part.

(* f < q <= n - f <= n: f Byzantine members never form a quorum, the non-faulty ones always do. *)
Theorem C02_thresholds : forall n, 1 <= n ->
  faulty n < quorum n /\ quorum n <= n - faulty n /\ 3 * faulty n < n /\ faulty n + 1 <= quorum n.
Proof.
  intros n H. exact (conj (faulty_lt_quorum n H) (conj (nonfaulty_form_quorum n H) (conj (three_f_lt_n n H) (fplus1_le_quorum n H)))).
Qed.
Print Assumptions C02_thresholds.

(* Single process, all label sequences: a Decide(v, r, qcommit) is backed by COMMIT(r, v) of a quorum of
   distinct sources (the fact that turns two decisions into two intersecting quorums). *)
Theorem C02_decide_needs_commit_quorum : forall p ls s, 1 <= nodes p -> run p init ls = Some s ->
  forall v r qc, In (v, r, qc) (decs ls) -> quorum (nodes p) <= nsrc (f_trv Commit r v) qc.
Proof. intros p ls s Hn H. exact (mon3_backed_from p ls g3_init (run_mon3 p ls s Hn H)). Qed.
Print Assumptions C02_decide_needs_commit_quorum.
