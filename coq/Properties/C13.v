(* C13 - DKG broadcast delivers a payload only if every member signed exactly it.
   Only statements here; proofs are in Flow/BcastFacts.v, the model is Flow/Bcast.v.

   [run D D_eqb hash n faulty cur ls = Some st] says "ls is a label sequence the model of dkg/bcast (as the code
   is now) can produce": an interleaving of RegisterMessageIDFuncs calls, handleSigRequest / handleMessage
   invocations at honest instances (session, member) with ANY transport peer, id, payload and signature list
   (that is the adversary: any number of faulty members and outsiders), local signatures and returns of honest
   clients.  The correspondence check establishes that the label sequences recorded from real bcast components
   on libp2p hosts are of that kind.  Everything is for all member counts n, all sets of faulty members, all
   sessions, all trace lengths.  Assumptions (hypotheses, not axioms): the digest function is injective, and - built
   into [step] - a signature of an honest member appears in a message only after that member executed sign on
   that digest (unforgeability), and a handler never runs with the own peer id as transport peer. *)
From Coq Require Import List NArith Arith Bool.
From Charon Require Import Flow.Bcast Flow.BcastFacts.
Import ListNotations.

Section C13.
Variable D : Type.
Variable D_eqb : D -> D -> bool.
Hypothesis D_eqb_ok : forall a b, D_eqb a b = true <-> a = b.
Variable hash : N -> option nat -> N -> payload -> D.
Hypothesis hash_inj : forall s q i p s' q' i' p',
  hash s q i p = hash s' q' i' p' -> s = s' /\ q = q' /\ i = i' /\ p = p'.
Variable n : nat.
Variable faulty : nat -> bool.
Notation runi := (run D D_eqb hash n faulty cur).
Notation stepc := (step D D_eqb hash n faulty cur).

(* Every trace of the model passes the trace monitor that transcribes the property. *)
Theorem C13_monitor : forall ls st, runi ls = Some st -> monitor D n faulty ls = true.
Proof. exact (run_monitor D D_eqb D_eqb_ok hash hash_inj n faulty). Qed.

(* A callback invocation for (sender q, id, p) at the instance (s, r): r is an honest member, and every honest
   member m - the receiver included - has, earlier in the trace, a sign event for exactly (s, q, id, p). *)
Theorem C13_deliver_all_signed : forall ls st, runi ls = Some st ->
  forall pre s r q id p sigs um post, ls = pre ++ LMsg s r q id p sigs um ODeliver :: post ->
  (r < n /\ faulty r = false /\ q <> r) /\
  forall m, m < n -> faulty m = false -> exists l, In l pre /\ sign_label D s m q id p l.
Proof. exact (deliver_all_signed D D_eqb D_eqb_ok hash hash_inj n faulty). Qed.

(* The same in model terms: at a delivery the signature list is exactly [Sig 0 h; ..; Sig (n-1) h] with
   h = H(session, sender, id, payload), and every honest member has executed sign on exactly h. *)
Theorem C13_deliver_all_signed_state : forall pre st s r q id p sigs um st',
  runi pre = Some st -> stepc st (LMsg s r q id p sigs um ODeliver) = Some st' ->
  length sigs = n /\
  (forall k, k < n -> nth_error sigs k = Some (Sig k (hash s (Some q) id p))) /\
  (forall m, m < n -> faulty m = false -> In (m, hash s (Some q) id p) (signed st)).
Proof. exact (deliver_all_signed_state D D_eqb D_eqb_ok hash n faulty). Qed.

(* Whatever an honest member ever signed is H(s, q, id, p) of a sign event the trace shows, for a registered id. *)
Theorem C13_signed_sound : forall ls st, runi ls = Some st ->
  forall m d, In (m, d) (signed st) ->
  exists s q id p, d = hash s (Some q) id p /\ (exists l, In l ls /\ sign_label D s m q id p l) /\ In (LReg s m id) ls.
Proof. exact (signed_sound D D_eqb D_eqb_ok hash hash_inj n faulty). Qed.

(* Honest members sign at most one payload per (session, requester, id). *)
Theorem C13_no_equivocation_per_requester : forall ls st, runi ls = Some st ->
  forall pre s r q id p1 ck1 x1 p2 ck2 x2 post,
  ls = pre ++ LSigReq s r q id p2 ck2 (OSig x2) :: post ->
  In (LSigReq s r q id p1 ck1 (OSig x1)) pre -> p1 = p2.
Proof. exact (no_equivocation_per_requester D D_eqb D_eqb_ok hash hash_inj n faulty). Qed.

Theorem C13_no_equivocation_state : forall ls st, runi ls = Some st ->
  forall s r q id p1 p2, q <> r ->
  In (r, hash s (Some q) id p1) (signed st) -> In (r, hash s (Some q) id p2) (signed st) -> p1 = p2.
Proof. exact (no_equivocation_state D D_eqb D_eqb_ok hash hash_inj n faulty). Qed.

(* No two honest members deliver different payloads for the same sender and message id - any number of faulty
   members, equivocating, withholding, replaying, relaying. *)
Theorem C13_agreement_per_sender : forall ls st, runi ls = Some st ->
  forall s r1 r2 q id p1 p2 sg1 sg2 u1 u2,
  In (LMsg s r1 q id p1 sg1 u1 ODeliver) ls -> In (LMsg s r2 q id p2 sg2 u2 ODeliver) ls -> p1 = p2.
Proof. exact (agreement_per_sender D D_eqb D_eqb_ok hash hash_inj n faulty). Qed.

(* Replays: a signature over another session's hash (or, more generally, over any other (session, sender, id,
   payload)) anywhere in the list makes delivery impossible, in every state. *)
Theorem C13_cross_session_replay_rejected : forall (st : state D) s r q id p sigs um k m s' q' id' p',
  nth_error sigs k = Some (Sig m (hash s' q' id' p')) -> s' <> s ->
  stepc st (LMsg s r q id p sigs um ODeliver) = None.
Proof. exact (cross_session_replay_rejected D D_eqb D_eqb_ok hash hash_inj n faulty). Qed.

Theorem C13_replay_rejected : forall (st : state D) s r q id p sigs um k m s' q' id' p',
  nth_error sigs k = Some (Sig m (hash s' q' id' p')) -> (s', q', id', p') <> (s, Some q, id, p) ->
  stepc st (LMsg s r q id p sigs um ODeliver) = None.
Proof. exact (replay_rejected D D_eqb D_eqb_ok hash hash_inj n faulty). Qed.

(* Ids that are not registered at an instance are neither signed nor delivered there. *)
Theorem C13_allowlist : forall ls st, runi ls = Some st ->
  forall pre l post, ls = pre ++ l :: post ->
  forall s r id,
  ((exists q p ck x, l = LSigReq s r q id p ck (OSig x)) \/
   (exists q p sigs um, l = LMsg s r q id p sigs um ODeliver) \/
   (exists p, l = LSelfSign s r id p true)) ->
  In (LReg s r id) pre.
Proof. exact (allowlist D D_eqb D_eqb_ok hash hash_inj n faulty). Qed.

(* A signature is returned only after the application's checkMessage passed, and it is over exactly
   H(session, requester, id, payload). *)
Theorem C13_signed_only_after_check : forall ls st, runi ls = Some st ->
  forall s r q id p ck x, In (LSigReq s r q id p ck (OSig x)) ls -> ck = true /\ x = Sig r (hash s (Some q) id p).
Proof. exact (signed_only_after_check D D_eqb D_eqb_ok hash n faulty). Qed.

(* An honest client's Broadcast returns nil only if every honest member signed exactly its message. *)
Theorem C13_broadcast_ok_all_signed : forall ls st, runi ls = Some st ->
  forall pre s m id p post, ls = pre ++ LBcastRet s m id p true :: post ->
  forall i, i < n -> faulty i = false -> exists l, In l pre /\ sign_label D s i m id p l.
Proof. exact (broadcast_ok_all_signed D D_eqb D_eqb_ok hash hash_inj n faulty). Qed.

End C13.
Print Assumptions C13_monitor.
Print Assumptions C13_deliver_all_signed.
Print Assumptions C13_deliver_all_signed_state.
Print Assumptions C13_signed_sound.
Print Assumptions C13_no_equivocation_per_requester.
Print Assumptions C13_no_equivocation_state.
Print Assumptions C13_agreement_per_sender.
Print Assumptions C13_cross_session_replay_rejected.
Print Assumptions C13_replay_rejected.
Print Assumptions C13_allowlist.
Print Assumptions C13_signed_only_after_check.
Print Assumptions C13_broadcast_ok_all_signed.

(* The Section hypotheses are satisfiable (the tuple digest used for evaluation is injective). *)
Theorem C13_hypotheses_satisfiable :
  (forall a b, TD_eqb a b = true <-> a = b) /\
  (forall s q i p s' q' i' p', thash s q i p = thash s' q' i' p' -> s = s' /\ q = q' /\ i = i' /\ p = p').
Proof. exact (conj TD_eqb_ok thash_inj). Qed.
Print Assumptions C13_hypotheses_satisfiable.

(* Non-vacuity: a trace with an honest broadcast, a complete broadcast by a faulty member, and refusals of every
   error class is accepted. *)
Theorem C13_ok_trace_accepted : (exists st, trun cur ok_trace = Some st) /\ tmon ok_trace = true.
Proof. exact ok_trace_accepted. Qed.
Print Assumptions C13_ok_trace_accepted.

(* F8: before commit bbde178 (hash without the sender) the relay is a trace of the model in which two honest
   members deliver different payloads for the same sender and id. *)
Theorem C13_agreement_per_sender_refuted_before_fix :
  (exists st, trun pre_fix (relay_trace false ODeliver) = Some st) /\
  In (LMsg 1 0 2 1 P2 (full (thash 1 None 1 P2)) true ODeliver) (relay_trace false ODeliver) /\
  In (LMsg 1 1 2 1 P0 (full (thash 1 None 1 P0)) true ODeliver) (relay_trace false ODeliver) /\
  P2 <> P0 /\ tmon (relay_trace false ODeliver) = false.
Proof. exact agreement_per_sender_refuted_before_fix. Qed.
Print Assumptions C13_agreement_per_sender_refuted_before_fix.

Theorem C13_relay_rejected_now :
  trun cur (relay_trace true ODeliver) = None /\
  (exists st, trun cur (relay_trace true (OMErr (Some EBadSig))) = Some st).
Proof. exact relay_rejected_now. Qed.
Print Assumptions C13_relay_rejected_now.

(* Design of the repair: checking in handleMessage that the receiver had signed that hash for that peer, WITHOUT
   binding the sender into the hash, would not have sufficed (two honest broadcasters under one id). *)
Theorem C13_dedup_check_alone_insufficient :
  (exists st, trun weak_fix weak_trace = Some st) /\
  In (LMsg 1 1 2 1 P1 (full (thash 1 None 1 P1)) true ODeliver) weak_trace /\
  In (LMsg 1 0 2 1 P2 (full (thash 1 None 1 P2)) true ODeliver) weak_trace /\
  P1 <> P2 /\ tmon weak_trace = false.
Proof. exact dedup_check_alone_insufficient. Qed.
Print Assumptions C13_dedup_check_alone_insufficient.
