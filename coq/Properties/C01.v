(* C01 — The cluster never emits two different signed objects for one duty and validator.
   Only statements here; proofs are in Flow/PipelineFacts.v and Flow/WiringFacts.v.

   [run c init ls = Some s] says "ls is a label sequence the cluster model Flow/Pipeline.v can
   produce" for the cluster c = (n nodes, threshold t, Byzantine set, which keys are consensus
   duties): any interleaving of consensus decisions, validator-client signatures, releases to the
   peers, deliveries (delayed, reordered, duplicated, lost), adversarial injections made with the
   Byzantine shares (any root, any key, any node, any number of times, also garbage under any
   share index) and threshold aggregations, of any length.  [LAggregate nd k r shares] is an
   object for key k (duty and validator) with signing root r reaching AggSigDB.Store /
   Broadcaster.Broadcast on node nd.  Signatures are symbolic (see Flow/Pipeline.v): that an
   aggregate of t genuine partials of distinct shares over r verifies under the group key, and
   that nothing else does, is the content of the C08 theorems and an assumption here.
   The wiring the model assumes is checked on the list regenerated from core.Wire (C01_wiring). *)
From Coq Require Import List Arith Bool.
From Charon Require Import Common.Quorum Flow.Pipeline Flow.PipelineFacts Flow.WiringCheck Flow.WiringFacts gen.Wiring
  Flow.AppWiringCheck Flow.AppWiringFacts Flow.AppWiringSharesFacts gen.AppWiring.
Import ListNotations.

(* 2t - n > f for t = ceil(2n/3), f = floor((n-1)/3), every n >= 1; and in general. *)
Theorem C01_threshold_arith : forall n t f, 2 * n <= 3 * t -> 3 * f + 1 <= n -> n + f < 2 * t.
Proof. exact threshold_arith. Qed.
Print Assumptions C01_threshold_arith.

Theorem C01_threshold_arith_charon : forall n, 1 <= n -> n + faulty n < 2 * quorum n.
Proof. exact threshold_arith_charon. Qed.
Print Assumptions C01_threshold_arith_charon.

(* Every trace of the model passes the monitor that transcribes the property. *)
Theorem C01_monitor : forall c ls s, wf c -> run c init ls = Some s -> monitor c ls = true.
Proof. exact run_monitor. Qed.
Print Assumptions C01_monitor.

(* Every object that reaches AggSigDB.Store / Broadcast combines exactly t partials of distinct
   shares below n over ONE root r, each genuinely signed over (k, r): by a Byzantine share, or by
   the validator client of that honest node earlier in the trace.  (=> it verifies under the
   group public key, by the symbolic-signature assumption.)  No bound on the Byzantine set. *)
Theorem C01_broadcast_valid : forall c ls s, run c init ls = Some s ->
  forall pre nd k r shares post, ls = pre ++ LAggregate nd k r shares :: post ->
  length shares = c_t c /\ NoDup shares /\
  forall sh, In sh shares ->
    sh < c_n c /\
    (is_byz c sh = true \/ exists pre1 b o post1, pre = pre1 ++ LSign sh b o :: post1 /\ In (k, r) b).
Proof. exact broadcast_valid. Qed.
Print Assumptions C01_broadcast_valid.

(* Any two objects emitted for the same key -- by any nodes, at any time -- have the same signing
   root, whenever n + |Byz| < 2t. *)
Theorem C01_single_root : forall c ls s, wf c -> run c init ls = Some s ->
  forall nd1 nd2 k r1 r2 sh1 sh2,
  In (LAggregate nd1 k r1 sh1) ls -> In (LAggregate nd2 k r2 sh2) ls -> r1 = r2.
Proof. exact single_root. Qed.
Print Assumptions C01_single_root.

(* ... in particular for charon's parameters, every cluster size n >= 1. *)
Theorem C01_single_root_charon : forall n byz ckey ls s, 1 <= n -> length byz <= faulty n ->
  run (mkCfg n (quorum n) byz ckey) init ls = Some s ->
  forall nd1 nd2 k r1 r2 sh1 sh2,
  In (LAggregate nd1 k r1 sh1) ls -> In (LAggregate nd2 k r2 sh2) ls -> r1 = r2.
Proof. exact single_root_charon. Qed.
Print Assumptions C01_single_root_charon.

(* Companion, conditional on C02 (agreement) and C06 (duty-store uniqueness), both stated as
   hypotheses about the decisions in the trace: every root an honest validator client signs for a
   consensus duty is the decided root (so the honest partials can reach the threshold). *)
Theorem C01_honest_sign_same : forall c ls s k nd0 r0,
  run c init ls = Some s -> c_ckey c k = true ->
  (forall nd nd' r r', nd <> nd' -> In (LDecide nd k r true) ls -> In (LDecide nd' k r' true) ls -> r = r') ->
  (forall nd r r', In (LDecide nd k r true) ls -> In (LDecide nd k r' true) ls -> r = r') ->
  In (LDecide nd0 k r0 true) ls ->
  forall nd b o r, In (LSign nd b o) ls -> In (k, r) b -> r = r0.
Proof. exact honest_sign_same. Qed.
Print Assumptions C01_honest_sign_same.

(* Boolean form of the companion, evaluated on every observed trace by the correspondence check. *)
Theorem C01_sign_same_all : forall c ls s, run c init ls = Some s -> sign_same_all c ls = true.
Proof. exact sign_same_all_true. Qed.
Print Assumptions C01_sign_same_all.

(* The wiring regenerated from core.Wire has the shape the model assumes. *)
Theorem C01_wiring : wiring_check bindings edges wrappers = true.
Proof. exact wiring_ok. Qed.
Print Assumptions C01_wiring.

(* The construction code of the workflow (app/app.go wireCoreWorkflow, regenerated into gen/AppWiring.v)
   has the shape the theorems assume: the partial-signature store and the aggregator are built with the
   SAME threshold expression lock.Threshold; the aggregator's verifier is exactly sigagg.NewVerifier(eth2Cl);
   peer partials pass parsigex.NewEth2Verifier and core.NewDutyGater; the components handed to core.Wire
   are those constructor results; no further subscriber is attached to the signing path. *)
Theorem C01_app_wiring : app_wiring_check app_params app_wire_args app_wire_opts app_defs app_hooks = true.
Proof. exact app_wiring_ok. Qed.
Print Assumptions C01_app_wiring.

(* ... and the public-share maps given to the validator API and to the peer verifier have exactly the
   entries i+1 -> PubShares[i] (share indices 1..n; no entry for an out-of-range index such as 0). *)
Theorem C01_app_pubshares : pubshares_check app_pubshares_sites = true.
Proof. exact app_pubshares_ok. Qed.
Print Assumptions C01_app_pubshares.

(* Non-vacuity: a trace with equivocation by the Byzantine share, a duplicate delivery after
   aggregation, garbage, and an equivocating client is accepted and passes the monitor. *)
Theorem C01_nonvacuous : (exists s, run ex_cfg init ex_trace = Some s) /\ monitor ex_cfg ex_trace = true.
Proof. exact (conj ex_accepted ex_monitor). Qed.
Print Assumptions C01_nonvacuous.

(* The bound is tight: f + 1 Byzantine shares (n = 4, t = 3) publish two roots for one key. *)
Theorem C01_too_many_byzantine_refuted :
  length (c_byz bad_cfg) = faulty (c_n bad_cfg) + 1 /\ c_t bad_cfg = quorum (c_n bad_cfg) /\
  (exists s, run bad_cfg init bad_trace = Some s) /\
  monitor_valid bad_cfg bad_trace = true /\ monitor_single bad_cfg bad_trace = false /\
  In (LAggregate 0 7 1 [0; 2; 3]) bad_trace /\ In (LAggregate 1 7 2 [1; 2; 3]) bad_trace.
Proof. exact too_many_byzantine_refuted. Qed.
Print Assumptions C01_too_many_byzantine_refuted.
