(* C02 -- Consensus agreement WITH compare failures (the non-default feature chain_split_halt; extends Properties/C02.v).

   Hypothesis [trace_cmp_fun cf tr]: the verdict of a COMPLETED comparison is a fixed function cf of (member, proposed
   value): in every label in which qbft.Run consults Definition.Compare (rule UponJustifiedPrePrepare), the verdict is
   CmpFail only if cf i x = true and CmpOk only if cf i x = false; a comparison cut off by the round timer (CmpTimeout) is
   unrestricted.  Executions without CmpFail satisfy it with cf = (accept everything) [C02_cmp_default_is_instance].

   * [C02_cmp_agreement]: for EVERY n >= 1, every set of at most f = floor((n-1)/3) Byzantine members, every leader
     function, FIFO limit, schedule and choice of Go's map orders: in every execution of the network semantics
     Qbft/Net.v satisfying the hypothesis, any two Decide callbacks of honest members carry the same value.  The adversary of
     Net.v may in particular send UNJUSTIFIED PRE-PREPAREs for round compareFailureRound+1 of any honest member, which that
     member accepts (isJustifiedPrePrepare's shortcut).
   * supporting facts over all such executions: a member whose comparison failed in round r never PREPAREs in round r; an
     honest PREPARE carries a value its sender's comparison accepts.
   * [C02_cmp_refuted_if_cmpok_unrestricted]: NEGATIVE result -- DESIGN.md's literal wording of the hypothesis ("CmpFail at
     member i on value x only if cmpfail i x; CmpOk unrestricted") does NOT give agreement: the execution recorded from the real
     qbft.Run in Qbft/NetExamples.v (member 1 accepts 7 in round 1 and rejects 7 in round 2) satisfies it and two honest members
     decide 7 and 8.  Both halves (CmpFail => cf, CmpOk => not cf) are needed.
   * [C02_cmp_nonvacuous]: an execution recorded from four real qbft.Run processes with two compare failures, in which the
     Byzantine leader's unjustified proposal IS accepted through the shortcut by one member, satisfies the hypothesis and
     three honest members decide.
   Proofs: Qbft/CmpInv.v (invariant), Qbft/AgreementCmp.v, Qbft/CmpExamples.v. *)
From Coq Require Import List NArith Arith Bool.
From Charon Require Import Common.Quorum Qbft.Model Qbft.Monitor Qbft.ModelFacts Qbft.Inv Qbft.Card Qbft.Net Qbft.NetInv
  Qbft.Agreement Qbft.CmpInv Qbft.AgreementCmp Qbft.NetExamples Qbft.CmpExamples.
Import ListNotations.

(* Generic form: every successful comparison satisfies acc, every failed one rej, and no (member, value) satisfies both. *)
Theorem C02_cmp_agreement_gen : forall (acc rej : nat -> N -> Prop) c nt tr, (forall i x, acc i x -> rej i x -> False) ->
  wf_cfg c -> nreach c nt tr -> trace_cmp_gen acc rej tr ->
  forall i v r j v' r', In (i, v, r) (trace_decides tr) -> In (j, v', r') (trace_decides tr) -> v = v'.
Proof. exact agreement_gen. Qed.
Print Assumptions C02_cmp_agreement_gen.

Theorem C02_cmp_agreement : forall cf c nt tr, wf_cfg c -> nreach c nt tr -> trace_cmp_fun cf tr ->
  forall i v r j v' r', In (i, v, r) (trace_decides tr) -> In (j, v', r') (trace_decides tr) -> v = v'.
Proof. exact agreement_cmp. Qed.
Print Assumptions C02_cmp_agreement.

(* State form: in any global state satisfying the invariant of CmpInv.v, two decided honest members hold the same value. *)
Theorem C02_cmp_agreement_states : forall cf c nt tr, wf_cfg c -> cinvf cf c nt tr ->
  forall i j, good c i -> good c j -> decided (nst nt i) = true -> decided (nst nt j) = true ->
  qcommitV (nst nt i) = qcommitV (nst nt j).
Proof. exact agreement_states_cmpf. Qed.
Print Assumptions C02_cmp_agreement_states.

(* The invariant holds in every reachable state of an execution satisfying the hypothesis. *)
Theorem C02_cmp_invariant_reachable : forall cf c nt tr, wf_cfg c -> nreach c nt tr -> trace_cmp_fun cf tr -> cinvf cf c nt tr.
Proof. exact nreach_cinvf. Qed.
Print Assumptions C02_cmp_invariant_reachable.

(* The default configuration (no CmpFail at all) is the instance cf = accept everything. *)
Theorem C02_cmp_default_is_instance : forall tr, trace_nofail tr -> trace_cmp_fun (fun _ _ => false) tr.
Proof. exact nofail_cmp_fun. Qed.
Print Assumptions C02_cmp_default_is_instance.

(* What the correspondence check uses: a global trace accepted by the executable replay whose consulted comparisons never
   give both verdicts for one (member, value). *)
Theorem C02_cmp_agreement_observed : forall c tr nt, wf_cfg c -> nrun c net_init tr = Some nt -> trace_cmp_fun_b tr = true ->
  forall i v r j v' r', In (i, v, r) (trace_decides tr) -> In (j, v', r') (trace_decides tr) -> v = v'.
Proof. exact agreement_cmp_observed. Qed.
Print Assumptions C02_cmp_agreement_observed.

Theorem C02_cmp_checker_sound : forall tr, trace_cmp_fun_b tr = true -> trace_cmp_fun (cf_of tr) tr.
Proof. exact trace_cmp_fun_b_sound. Qed.
Print Assumptions C02_cmp_checker_sound.

(* A member whose comparison failed in round r never broadcasts PREPARE(r, .). *)
Theorem C02_cmp_failed_round_no_prepare : forall cf c nt tr, wf_cfg c -> nreach c nt tr -> trace_cmp_fun cf tr ->
  forall i r, good c i -> failed tr i r -> forall b, In b (sent nt) -> src b = i -> ty b = Prepare -> rnd b <> r.
Proof. exact failed_round_no_prepare. Qed.
Print Assumptions C02_cmp_failed_round_no_prepare.

(* An honest PREPARE carries a non-zero value its sender's comparison accepts. *)
Theorem C02_cmp_prepare_value_accepted : forall cf c nt tr, wf_cfg c -> nreach c nt tr -> trace_cmp_fun cf tr ->
  forall b, In b (sent nt) -> ty b = Prepare -> val b <> 0%N /\ cf (src b) (val b) = false.
Proof. exact prepare_value_accepted. Qed.
Print Assumptions C02_cmp_prepare_value_accepted.

(* Non-vacuity: a recorded execution with compare failures and an accepted unjustified proposal; three members decide. *)
Theorem C02_cmp_nonvacuous :
  exists cf c tr nt, wf_cfg c /\ nrun c net_init tr = Some nt /\ nreach c nt tr /\ trace_cmp_fun cf tr
    /\ (exists i r, failed tr i r) /\ 2 <= length (trace_decides tr).
Proof. exact agreement_cmp_nonvacuous. Qed.
Print Assumptions C02_cmp_nonvacuous.

Theorem C02_cmp_shortcut_exercised :
  nrun_ok excmp_cfg excmp_trace = true /\ trace_cmp_fun_b excmp_trace = true
  /\ In (3, LRecv (mkm (mk PrePrepare 2 3 8 0 0) []) CmpOk
             [Upon JustPrePrepare; RoundChg 2 3 JustPrePrepare; StopTimer; NewTimer 3; Bcast (mk Prepare 3 3 8 0 0) []]) excmp_trace
  /\ trace_decides excmp_trace = [(0, 7%N, 1); (1, 7%N, 1); (3, 7%N, 1)].
Proof. exact (conj excmp_accepted (conj excmp_consistent (conj excmp_shortcut_used excmp_decides))). Qed.
Print Assumptions C02_cmp_shortcut_exercised.

(* NEGATIVE: constraining only CmpFail (CmpOk unrestricted) does not give agreement (n = 4, f = 1). *)
Theorem C02_cmp_refuted_if_cmpok_unrestricted :
  exists cf c tr nt, wf_cfg c /\ nrun c net_init tr = Some nt /\ nreach c nt tr /\ trace_cmpfail_only cf tr
    /\ exists i v r j v' r', In (i, v, r) (trace_decides tr) /\ In (j, v', r') (trace_decides tr)
                             /\ good c i /\ good c j /\ v <> v'.
Proof. exact agreement_refuted_if_cmpok_unrestricted. Qed.
Print Assumptions C02_cmp_refuted_if_cmpok_unrestricted.
