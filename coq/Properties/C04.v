(* C04 -- Termination under timely delivery with at most f crashed members; no honest message is rejected as
   unjustified.  PARTIAL.

   STAGE 1 (this file now): the producer/verifier agreement on justifications, single process, over ALL label
   sequences of the model (Qbft/Model.v) and all map-iteration choices:
     - every ROUND-CHANGE and every DECIDED the process broadcasts passes isJustified at every receiver with
       the same node count, whatever the receiver's state;
     - whatever justification getJustifiedQrc may return (every map order), containsJustifiedQrc accepts it;
     - every PRE-PREPARE broadcast comes from the leader of its round and carries the empty justification in
       round 1 or one containsJustifiedQrc accepts.
   Proofs: Qbft/Justified.v.  The termination half is, at this stage, only observed on the real code (timely
   cluster schedules in harness/qbft; see the check's evidence) -- not a theorem.

   TODO-stage-2 (full intended statements, DESIGN.md section C04; need Qbft/Net.v):
     | Theorem honest_never_unjust : in every Net trace with Byz = [] (crashed/silent/late processes allowed, any
        partial broadcast) and without CmpFail, every Bcast output, delivered with the justification it was sent with,
        satisfies the receiver's isJustified whatever the receiver's state, and respects verifyMsgLimits
        (<= 2n justification parts).   (What is missing locally: the value of a re-proposal is non-zero and equals the
        justified prepared value -- needs "every prepare quorum contains an honest PREPARE" from the network level.)
     | Lemma unjust_refuted_with_cmpfail : with CmpFail the statement is false (a leader whose own compare failed
        proposes its own value with a justification naming another).
     | Theorem good_round_decides : R a set of >= quorum n processes in round r whose leader is in R and has its input
        (or r > 1 and all of R sent ROUND-CHANGE r), everybody else silent, reachable states, every message sent in
        round r among R delivered (any order, duplication, stale messages interleaved) before any timer of R fires and
        fewer than FIFOLimit - 4 deliveries per source: every process of R emits Decide.
     | Theorem rotation_bound : among any faulty n + 1 consecutive rounds one has a leader outside a given set of
        <= faulty n processes (round-robin leader). *)
From Coq Require Import List NArith Arith Bool.
From Charon Require Import Common.Quorum Qbft.Model Qbft.Monitor Qbft.ModelFacts Qbft.Justified.
Import ListNotations.

(* Every ROUND-CHANGE / DECIDED broadcast of the model is justified for every receiver (params p' with the same
   number of nodes, any compareFailureRound c). *)
Theorem C04_rc_decided_never_unjust_partial : forall p ls s, 1 <= nodes p -> run p init ls = Some s ->
  forall l b J, In l ls -> In (Bcast b J) (label_outs l) -> (ty b = RoundChange \/ ty b = Decided) ->
  forall p' c, nodes p' = nodes p -> justified p' (mkm b J) c = true.
Proof. exact run_bcast_justified. Qed.
Print Assumptions C04_rc_decided_never_unjust_partial.

(* PREPARE and COMMIT need no justification: isJustified is constantly true on them. *)
Theorem C04_prepare_commit_never_unjust : forall p' b J c, (ty b = Prepare \/ ty b = Commit) -> justified p' (mkm b J) c = true.
Proof. exact prepare_commit_justified. Qed.
Print Assumptions C04_prepare_commit_never_unjust.

(* getJustifiedQrc => containsJustifiedQrc for every map order. *)
Theorem C04_qrc_producer_verifier_agree : forall p all r J, 1 <= qn p -> adm_qrc p all r J = true ->
  exists x, contains_jqrc (qn p) J r = Some x /\ (x = 0%N \/ exists spr, single (qn p) J = (spr, x, true)).
Proof. exact adm_qrc_contains. Qed.
Print Assumptions C04_qrc_producer_verifier_agree.

(* Every PRE-PREPARE broadcast: sent by the leader of its round, with the empty justification in round 1 or a
   justification the receiver's containsJustifiedQrc accepts. *)
Theorem C04_preprepare_shape_partial : forall p ls s, 1 <= nodes p -> run p init ls = Some s ->
  forall l b J, In l ls -> In (Bcast b J) (label_outs l) -> ty b = PrePrepare ->
  src b = self p /\ is_leader p (rnd b) (self p) = true
  /\ ((rnd b = 1 /\ J = []) \/ exists x, contains_jqrc (qn p) J (rnd b) = Some x).
Proof. exact run_preprepare_shape. Qed.
Print Assumptions C04_preprepare_shape_partial.

(* Counting fact behind "at most one rotation": the n - f non-faulty members form a quorum, f+1 members contain
   a non-faulty one. *)
Theorem C04_live_quorum : forall n, 1 <= n -> quorum n <= n - faulty n /\ faulty n < faulty n + 1 <= n.
Proof. intros n H. exact (conj (nonfaulty_form_quorum n H) (fplus1_has_honest n H)). Qed.
Print Assumptions C04_live_quorum.
