(* C04 -- Termination under timely delivery with at most f crashed members; no honest message is rejected as
   unjustified.  PARTIAL (the termination half is not a theorem).

   Proved here:
   * [C04_honest_never_unjust]: network level (Qbft/Net.v), no Byzantine members (members may crash, stay silent, start
     late, broadcast partially; the network may delay, drop, duplicate, reorder), Compare never fails (default
     configuration): every message any member broadcasts, delivered with the justification it was sent with, passes
     isJustified at every member, whatever that member's state.  For every n >= 1, leader function, FIFO limit, schedule
     and Go map order.
   * single process, over ALL label sequences of the model and all map-iteration choices (also with Byzantine peers and
     compare failures): every ROUND-CHANGE and every DECIDED the process broadcasts passes isJustified at every receiver;
     whatever justification getJustifiedQrc may return, containsJustifiedQrc accepts it; every PRE-PREPARE broadcast comes
     from the leader of its round and carries the empty justification in round 1 or one containsJustifiedQrc accepts.
   * [C04_rotation_bound]: with the round-robin leader, among any f+1 consecutive rounds one has an honest leader
     (so at most one rotation passes before an honest leader's round), every n >= 1, at most f Byzantine members.
   Proofs: Qbft/Justified.v, Qbft/NeverUnjust.v, Qbft/Rotation.v.

   | TODO-stage-2 (not proved; DESIGN.md section C04):
     | Theorem good_round_decides : R a set of >= quorum n processes in round r whose leader is in R and has its input
        (or r > 1 and all of R sent ROUND-CHANGE r), everybody else silent, reachable states, every message sent in
        round r among R delivered (any order, duplication, stale messages interleaved) before any timer of R fires and
        fewer than FIFOLimit - 4 deliveries per source: every process of R emits Decide.
        At this stage termination is only OBSERVED on the real code (timely cluster schedules in harness/qbft).
     | Lemma unjust_refuted_with_cmpfail : with CmpFail honest_never_unjust is false (a leader whose own compare failed
        proposes its own value with a justification naming another).
     | the verifyMsgLimits clause (<= 2n justification parts) of honest_never_unjust. *)
From Coq Require Import List NArith Arith Bool.
From Charon Require Import Common.Quorum Qbft.Model Qbft.Monitor Qbft.ModelFacts Qbft.Justified Qbft.Card
  Qbft.Net Qbft.NetInv Qbft.NeverUnjust Qbft.Rotation.
Import ListNotations.

(* Every ROUND-CHANGE / DECIDED broadcast of the model is justified for every receiver (params p' with the same
   number of nodes, any compareFailureRound c). *)
Theorem C04_rc_decided_never_unjust_partial : forall p ls s, 1 <= nodes p -> run p init ls = Some s ->
  forall l b J, In l ls -> In (Bcast b J) (label_outs l) -> (ty b = RoundChange \/ ty b = Decided) ->
  forall p' c, nodes p' = nodes p -> justified p' (mkm b J) c = true.
Proof. exact run_bcast_justified. Qed.
Print Assumptions C04_rc_decided_never_unjust_partial.

(* PREPARE and COMMIT need no justification: isJustified is constantly true on them. *)
Theorem C04_prepare_commit_never_unjust : forall p' b J c, (ty b = Prepare \/ ty b = Commit) -> justified p' (mkm b J) c = true.
Proof. exact prepare_commit_justified. Qed.
Print Assumptions C04_prepare_commit_never_unjust.

(* getJustifiedQrc => containsJustifiedQrc for every map order. *)
Theorem C04_qrc_producer_verifier_agree : forall p all r J, 1 <= qn p -> adm_qrc p all r J = true ->
  exists x, contains_jqrc (qn p) J r = Some x /\ (x = 0%N \/ exists spr, single (qn p) J = (spr, x, true)).
Proof. exact adm_qrc_contains. Qed.
Print Assumptions C04_qrc_producer_verifier_agree.

(* Every PRE-PREPARE broadcast: sent by the leader of its round, with the empty justification in round 1 or a
   justification the receiver's containsJustifiedQrc accepts. *)
Theorem C04_preprepare_shape_partial : forall p ls s, 1 <= nodes p -> run p init ls = Some s ->
  forall l b J, In l ls -> In (Bcast b J) (label_outs l) -> ty b = PrePrepare ->
  src b = self p /\ is_leader p (rnd b) (self p) = true
  /\ ((rnd b = 1 /\ J = []) \/ exists x, contains_jqrc (qn p) J (rnd b) = Some x).
Proof. exact run_preprepare_shape. Qed.
Print Assumptions C04_preprepare_shape_partial.

(* Counting fact behind "at most one rotation": the n - f non-faulty members form a quorum, f+1 members contain
   a non-faulty one. *)
Theorem C04_live_quorum : forall n, 1 <= n -> quorum n <= n - faulty n /\ faulty n < faulty n + 1 <= n.
Proof. intros n H. exact (conj (nonfaulty_form_quorum n H) (fplus1_has_honest n H)). Qed.
Print Assumptions C04_live_quorum.

(* honest_never_unjust (network level, no Byzantine members, no compare failures) *)
Theorem C04_honest_never_unjust : forall c nt tr, wf_cfg c -> (forall k, k < c_n c -> c_honest c k = true) ->
  nreach c nt tr -> trace_nofail tr ->
  forall i l b J, In (i, l) tr -> In (Bcast b J) (label_outs l) ->
  forall j c', justified (pp c j) (mkm b J) c' = true.
Proof. exact honest_never_unjust. Qed.
Print Assumptions C04_honest_never_unjust.

(* rotation_bound: leader (off + round) mod n; among rounds r .. r+f one has an honest leader *)
Theorem C04_rotation_bound : forall n hon off r, 1 <= n -> byz_count n hon <= faulty n ->
  exists k, k <= faulty n /\ hon (lead_rr off n (r + k)) = true.
Proof. exact rotation_bound. Qed.
Print Assumptions C04_rotation_bound.
