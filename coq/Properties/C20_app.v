(* C20, application wiring: the duties cache's InvalidateCache is subscribed to chain-reorg events under exactly the
   condition that creates and installs the cache (no further feature flag), next to the scheduler's and fetcher's
   subscriptions as the clean tree has them.  app/app.go wireCoreWorkflow is regenerated from the source on every run
   (translator/appwire -> gen/AppWiring.v) and compared, as printed expressions, by Flow/AppWiringCheck.v. *)
From Charon Require Flow.AppWiringCheck Flow.AppWiringReorgFacts gen.AppWiring.

Theorem C20_app_cache_invalidated_on_reorg :
  AppWiringCheck.reorg_subs_check AppWiring.app_sse_subs AppWiring.app_cache_sites = true.
Proof. exact AppWiringReorgFacts.app_reorg_subs_ok. Qed.
Print Assumptions C20_app_cache_invalidated_on_reorg.
