(* C05 -> C02 bridge: the receive handler of the consensus wrapper lets through only what the
   adversary of the network semantics Qbft/Net.v may deliver.  Statements only; definitions, proofs,
   the exact list of kept/dropped fields and the residual gap are in Flow/WireToNet.v.

   absb: wire content -> Qbft.Model.bmsg keeps type, source (peer index), round, value hash,
   prepared round, prepared value hash (hashes as numbers, nil/zero hash = 0); it drops the duty
   (fixed per instance: every accepted part carries the duty d of the main part), the signature,
   the attached values and unknown proto fields.
   Premises: injective serialisation, collision-free hash, unforgeable signatures for the keys of
   members that are honest in the Net.v configuration c; the component holds one key per member
   (nodes e = c_n c); and [honest_signs_only_broadcasts]: whatever an honest member signed for duty d
   abstracts to an element of l (Net.v's [sent]). *)
From Coq Require Import List ZArith NArith Bool.
From Charon Require Import Flow.WireMsg Flow.WireMsgFacts Flow.WireToNet Flow.WireMsgCorr Flow.WireSend Flow.WireCompose Flow.WireSendCorr Qbft.Model Qbft.Net.
Import ListNotations.

Theorem C05_bridge_accepted_is_deliverable :
  forall (key sigT ebytes digest typeurl vbytes cbytes extra : Type)
    (encode : content extra -> ebytes) (H : ebytes -> digest) (verify : key -> digest -> sigT -> bool)
    (decode : typeurl -> vbytes -> option cbytes) (Hv : cbytes -> N)
    (signed : key -> content extra -> Prop),
  (forall c c', encode c = encode c' -> c = c') ->
  (forall b b', H b = H b' -> b = b') ->
  forall (c : cfg) (e : env key) (l : list bmsg),
  (forall k cnt s, honest_key c e k -> verify k (H (encode cnt)) s = true ->
                   exists c0, signed k c0 /\ H (encode c0) = H (encode cnt)) ->
  WireMsg.nodes e = c_n c ->
  forall d : dutyv,
  (forall k cnt, honest_key c e k -> signed k cnt -> c_duty cnt = Some d -> In (absb cnt) l) ->
  forall (st : WireMsg.state sigT typeurl vbytes extra) (id : N) req dl st' (w : wire sigT typeurl vbytes extra),
  handle encode H verify decode Hv e st id req = (Accept, dl, st') ->
  req = Some w -> wire_duty req = Some d ->
  exists m, abs_wire w = Some m /\ msg_deliv c l m /\
            length (just m) = length (w_just w) /\ length (just m) <= 2 * c_n c.
Proof. exact accepted_is_deliverable. Qed.
Print Assumptions C05_bridge_accepted_is_deliverable.

(* Contrapositive: a message with a part that names an honest member but abstracts to something
   that member never broadcast is rejected by handle. *)
Theorem C05_bridge_undeliverable_is_rejected :
  forall (key sigT ebytes digest typeurl vbytes cbytes extra : Type)
    (encode : content extra -> ebytes) (H : ebytes -> digest) (verify : key -> digest -> sigT -> bool)
    (decode : typeurl -> vbytes -> option cbytes) (Hv : cbytes -> N)
    (signed : key -> content extra -> Prop),
  (forall c c', encode c = encode c' -> c = c') ->
  (forall b b', H b = H b' -> b = b') ->
  forall (c : cfg) (e : env key) (l : list bmsg),
  (forall k cnt s, honest_key c e k -> verify k (H (encode cnt)) s = true ->
                   exists c0, signed k c0 /\ H (encode c0) = H (encode cnt)) ->
  WireMsg.nodes e = c_n c ->
  forall d : dutyv,
  (forall k cnt, honest_key c e k -> signed k cnt -> c_duty cnt = Some d -> In (absb cnt) l) ->
  forall (st : WireMsg.state sigT typeurl vbytes extra) (id : N) (w : wire sigT typeurl vbytes extra) (p : part sigT extra),
  In (Some p) (w_msg w :: w_just w) ->
  wire_duty (Some w) = Some d ->
  c_honest c (Z.to_nat (c_peer (p_c p))) = true ->
  ~ In (absb (p_c p)) l ->
  exists r dl st', handle encode H verify decode Hv e st id (Some w) = (Reject r, dl, st').
Proof. exact undeliverable_is_rejected. Qed.
Print Assumptions C05_bridge_undeliverable_is_rejected.

(* Non-vacuity of the abstraction on a concrete accepted message. *)
Theorem C05_bridge_abstraction_example :
  exists m, abs_wire Ex.good = Some m /\
    main m = mk PrePrepare 0 2 7002 0 0 /\
    just m = [mk RoundChange 1 2 0 0 0; mk RoundChange 2 2 0 1 7002; mk RoundChange 3 2 0 0 0; mk Prepare 2 1 7002 0 0] /\
    msg_deliv_b BridgeEx.cfg4 (main m :: just m) m = true /\
    msg_deliv_b BridgeEx.cfg4 (just m) m = false.
Proof. exact BridgeEx.abstraction_example. Qed.
Print Assumptions C05_bridge_abstraction_example.

(* ------------------------------------------------------------------------------------------------ *)
(* Sending side (Flow/WireSend.v: transport.Broadcast -> createMsg -> signMsg, ProcessReceives) and the
   composed system (Flow/WireCompose.v). *)

(* sign_only_in_broadcast: everything a transport ever signed is the content built from the arguments
   of a successful Broadcast call (ghost signing log of the model). *)
Theorem C05_send_sign_only_in_broadcast :
  forall (key sigT ebytes digest typeurl vbytes extra : Type)
    (encode : content extra -> ebytes) (H : ebytes -> digest) (sign : key -> digest -> sigT) (extra0 : extra)
    (weq : wire sigT typeurl vbytes extra -> wire sigT typeurl vbytes extra -> bool)
    (k : key) (ls : list (slabel sigT typeurl vbytes extra)) (st : sstate key typeurl vbytes extra),
  srun encode H sign extra0 weq (sinit typeurl vbytes extra k) ls = Some st ->
  forall c, In c (s_log st) ->
  exists a newv w, In (SBcast a newv (Some w)) ls /\ c = content_of extra0 a.
Proof. exact sign_only_in_broadcast_init. Qed.
Print Assumptions C05_send_sign_only_in_broadcast.

(* A successful Broadcast sends wire_of(arguments, values) where the values are the cache bindings of
   exactly the needed hashes, and signs exactly content_of(arguments); a failing one signs nothing. *)
Theorem C05_send_values_from_cache :
  forall (key sigT ebytes digest typeurl vbytes extra : Type)
    (encode : content extra -> ebytes) (H : ebytes -> digest) (sign : key -> digest -> sigT) (extra0 : extra)
    (st : sstate key typeurl vbytes extra) (a : bargs sigT extra) (newv : option (N * value typeurl vbytes))
    (st' : sstate key typeurl vbytes extra) (w : wire sigT typeurl vbytes extra) (vals : vmap typeurl vbytes),
  do_bcast encode H sign extra0 st a newv = (st', Some (w, vals)) ->
  w = wire_of encode H sign extra0 (s_key st) a vals /\ map fst vals = needed a /\
  (forall h v, In (h, v) vals -> vlookup (drain newv (s_cache st)) h = Some v) /\
  s_log st' = s_log st ++ [content_of extra0 a].
Proof. exact bcast_values_from_cache. Qed.
Print Assumptions C05_send_values_from_cache.

Theorem C05_send_error_signs_nothing :
  forall (key sigT ebytes digest typeurl vbytes extra : Type)
    (encode : content extra -> ebytes) (H : ebytes -> digest) (sign : key -> digest -> sigT) (extra0 : extra)
    (st : sstate key typeurl vbytes extra) (a : bargs sigT extra) (newv : option (N * value typeurl vbytes))
    (st' : sstate key typeurl vbytes extra),
  do_bcast encode H sign extra0 st a newv = (st', None) -> s_log st' = s_log st.
Proof. exact bcast_error_signs_nothing. Qed.
Print Assumptions C05_send_error_signs_nothing.

(* wire_roundtrip: the wire message abstracts back to the Bcast output it was built for; the
   justification list is preserved in order. *)
Theorem C05_send_wire_roundtrip :
  forall (key sigT ebytes digest typeurl vbytes extra : Type)
    (encode : content extra -> ebytes) (H : ebytes -> digest) (sign : key -> digest -> sigT) (extra0 : extra)
    (k : key) (a : bargs sigT extra) (vals : vmap typeurl vbytes),
  abs_wire (wire_of encode H sign extra0 k a vals) =
  Some (mkm (absb (content_of extra0 a)) (map (fun j => absb (p_c j)) (a_just a))).
Proof. exact wire_roundtrip. Qed.
Print Assumptions C05_send_wire_roundtrip.

Theorem C05_send_args_of_bmsg_roundtrip :
  forall (sigT extra : Type) (extra0 : extra) (d : dutyv) (b : bmsg) (J : list (part sigT extra)),
  absb (content_of extra0 (args_of d b J)) = b.
Proof. exact args_of_bmsg_roundtrip. Qed.
Print Assumptions C05_send_args_of_bmsg_roundtrip.

(* Premise (a) of the bridge as a theorem of the composed system (node_ok: every honest member runs
   WireSend on top of its qbft.Run, the Broadcast callback of instance d being the transport's Broadcast). *)
Theorem C05_bridge_honest_signs_only_broadcasts :
  forall (key sigT ebytes digest typeurl vbytes extra : Type)
    (encode : content extra -> ebytes) (H : ebytes -> digest) (sign : key -> digest -> sigT) (extra0 : extra)
    (weq : wire sigT typeurl vbytes extra -> wire sigT typeurl vbytes extra -> bool)
    (c : cfg) (d : dutyv) (nt : net) (tr : list (nat * label)),
  nreach c nt tr ->
  forall (keyof : nat -> key) (nruns : nat -> list (dutyv * list (slabel sigT typeurl vbytes extra))),
  node_ok encode H sign extra0 weq c d tr keyof nruns ->
  forall k cnt, node_signed encode H sign extra0 weq c keyof nruns k cnt -> c_duty cnt = Some d ->
  In (absb cnt) (sent nt).
Proof. exact composed_honest_signs_only_broadcasts. Qed.
Print Assumptions C05_bridge_honest_signs_only_broadcasts.

(* The bridge with the sending side included: premise (a) replaced by node_ok. *)
Theorem C05_bridge_accepted_is_deliverable_composed :
  forall (key sigT ebytes digest typeurl vbytes cbytes extra : Type)
    (encode : content extra -> ebytes) (H : ebytes -> digest) (verify : key -> digest -> sigT -> bool)
    (decode : typeurl -> vbytes -> option cbytes) (Hv : cbytes -> N) (sign : key -> digest -> sigT) (extra0 : extra)
    (weq : wire sigT typeurl vbytes extra -> wire sigT typeurl vbytes extra -> bool)
    (c : cfg) (d : dutyv) (e : env key) (nt : net) (tr : list (nat * label)),
  nreach c nt tr ->
  forall (keyof : nat -> key) (nruns : nat -> list (dutyv * list (slabel sigT typeurl vbytes extra))),
  node_ok encode H sign extra0 weq c d tr keyof nruns ->
  (forall x y, encode x = encode y -> x = y) ->
  (forall x y, H x = H y -> x = y) ->
  (forall k cnt s, honest_key c e k -> verify k (H (encode cnt)) s = true ->
                   exists c0, node_signed encode H sign extra0 weq c keyof nruns k c0 /\ H (encode c0) = H (encode cnt)) ->
  WireMsg.nodes e = c_n c ->
  forall (st : WireMsg.state sigT typeurl vbytes extra) (id : N) req dl st' (w : wire sigT typeurl vbytes extra),
  handle encode H verify decode Hv e st id req = (Accept, dl, st') ->
  req = Some w -> wire_duty req = Some d ->
  exists m, abs_wire w = Some m /\ msg_deliv c (sent nt) m /\
            length (just m) = length (w_just w) /\ length (just m) <= 2 * c_n c.
Proof. exact accepted_is_deliverable_composed. Qed.
Print Assumptions C05_bridge_accepted_is_deliverable_composed.

(* Non-vacuity of the transport model: missing value (error), own value drained and attached, a re-typed
   value received (F11) replaces the cached one and is re-broadcast. *)
Theorem C05_send_nonvacuous : c_sfirst_reject (sinit N N N SendEx.k0) SendEx.trace 0 = None.
Proof. exact SendEx.trace_accepted. Qed.
Print Assumptions C05_send_nonvacuous.
