(* C05 -> C02 bridge: the receive handler of the consensus wrapper lets through only what the
   adversary of the network semantics Qbft/Net.v may deliver.  Statements only; definitions, proofs,
   the exact list of kept/dropped fields and the residual gap are in Flow/WireToNet.v.

   absb: wire content -> Qbft.Model.bmsg keeps type, source (peer index), round, value hash,
   prepared round, prepared value hash (hashes as numbers, nil/zero hash = 0); it drops the duty
   (fixed per instance: every accepted part carries the duty d of the main part), the signature,
   the attached values and unknown proto fields.
   Premises: injective serialisation, collision-free hash, unforgeable signatures for the keys of
   members that are honest in the Net.v configuration c; the component holds one key per member
   (nodes e = c_n c); and [honest_signs_only_broadcasts]: whatever an honest member signed for duty d
   abstracts to an element of l (Net.v's [sent]). *)
From Coq Require Import List ZArith NArith Bool.
From Charon Require Import Flow.WireMsg Flow.WireMsgFacts Flow.WireToNet Flow.WireMsgCorr Qbft.Model Qbft.Net.
Import ListNotations.

Theorem C05_bridge_accepted_is_deliverable :
  forall (key sigT ebytes digest typeurl vbytes cbytes extra : Type)
    (encode : content extra -> ebytes) (H : ebytes -> digest) (verify : key -> digest -> sigT -> bool)
    (decode : typeurl -> vbytes -> option cbytes) (Hv : cbytes -> N)
    (signed : key -> content extra -> Prop),
  (forall c c', encode c = encode c' -> c = c') ->
  (forall b b', H b = H b' -> b = b') ->
  forall (c : cfg) (e : env key) (l : list bmsg),
  (forall k cnt s, honest_key c e k -> verify k (H (encode cnt)) s = true ->
                   exists c0, signed k c0 /\ H (encode c0) = H (encode cnt)) ->
  WireMsg.nodes e = c_n c ->
  forall d : dutyv,
  (forall k cnt, honest_key c e k -> signed k cnt -> c_duty cnt = Some d -> In (absb cnt) l) ->
  forall (st : WireMsg.state sigT typeurl vbytes extra) (id : N) req dl st' (w : wire sigT typeurl vbytes extra),
  handle encode H verify decode Hv e st id req = (Accept, dl, st') ->
  req = Some w -> wire_duty req = Some d ->
  exists m, abs_wire w = Some m /\ msg_deliv c l m /\
            length (just m) = length (w_just w) /\ length (just m) <= 2 * c_n c.
Proof. exact accepted_is_deliverable. Qed.
Print Assumptions C05_bridge_accepted_is_deliverable.

(* Contrapositive: a message with a part that names an honest member but abstracts to something
   that member never broadcast is rejected by handle. *)
Theorem C05_bridge_undeliverable_is_rejected :
  forall (key sigT ebytes digest typeurl vbytes cbytes extra : Type)
    (encode : content extra -> ebytes) (H : ebytes -> digest) (verify : key -> digest -> sigT -> bool)
    (decode : typeurl -> vbytes -> option cbytes) (Hv : cbytes -> N)
    (signed : key -> content extra -> Prop),
  (forall c c', encode c = encode c' -> c = c') ->
  (forall b b', H b = H b' -> b = b') ->
  forall (c : cfg) (e : env key) (l : list bmsg),
  (forall k cnt s, honest_key c e k -> verify k (H (encode cnt)) s = true ->
                   exists c0, signed k c0 /\ H (encode c0) = H (encode cnt)) ->
  WireMsg.nodes e = c_n c ->
  forall d : dutyv,
  (forall k cnt, honest_key c e k -> signed k cnt -> c_duty cnt = Some d -> In (absb cnt) l) ->
  forall (st : WireMsg.state sigT typeurl vbytes extra) (id : N) (w : wire sigT typeurl vbytes extra) (p : part sigT extra),
  In (Some p) (w_msg w :: w_just w) ->
  wire_duty (Some w) = Some d ->
  c_honest c (Z.to_nat (c_peer (p_c p))) = true ->
  ~ In (absb (p_c p)) l ->
  exists r dl st', handle encode H verify decode Hv e st id (Some w) = (Reject r, dl, st').
Proof. exact undeliverable_is_rejected. Qed.
Print Assumptions C05_bridge_undeliverable_is_rejected.

(* Non-vacuity of the abstraction on a concrete accepted message. *)
Theorem C05_bridge_abstraction_example :
  exists m, abs_wire Ex.good = Some m /\
    main m = mk PrePrepare 0 2 7002 0 0 /\
    just m = [mk RoundChange 1 2 0 0 0; mk RoundChange 2 2 0 1 7002; mk RoundChange 3 2 0 0 0; mk Prepare 2 1 7002 0 0] /\
    msg_deliv_b BridgeEx.cfg4 (main m :: just m) m = true /\
    msg_deliv_b BridgeEx.cfg4 (just m) m = false.
Proof. exact BridgeEx.abstraction_example. Qed.
Print Assumptions C05_bridge_abstraction_example.
