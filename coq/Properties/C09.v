(* C09 — The aggregator publishes only group-valid signatures over the signed payload.
   Only statements here; proofs are in Flow/SigAggFacts.v, the model is Flow/SigAgg.v.
   [accepts l = true] says "l is a call of Aggregate as the model allows it to be observed": the
   batch handed in, the error class returned and the sets handed to the subscribers.  The
   correspondence check establishes that the labels recorded from core/sigagg (real tbls keys,
   real verifier) are of that kind.  [content]/[sroot] are abstract: signed content and its signing
   root (message root wrapped with domain and epoch); injectivity of [sroot] is a hypothesis of
   the one theorem that needs it, never an axiom. *)
From Coq Require Import List ZArith NArith Bool.
From Charon Require Import Flow.SigAgg Flow.SigAggFacts.
Import ListNotations.

(* Every trace of the model passes the trace monitor that transcribes the property. *)
Theorem C09_monitor : forall content sroot ls s,
  run content sroot init ls = Some s -> monitor content sroot ls = true.
Proof. exact run_monitor. Qed.
Print Assumptions C09_monitor.

(* Every object handed to a subscriber verifies under the validator's group key for its own
   signing root; the partials that went into it (one per distinct share index) are at least
   threshold many and each is the signature of that validator's share with that very index over
   that same root; and (signing root injective) any content a contributing partial was made over
   is the published object's content. *)
Theorem C09_published_valid : forall content sroot,
  (forall c c', sroot c = sroot c' -> c = c') ->
  forall l, accepts content sroot l = true ->
  forall call v po, In call (l_calls _ l) -> In (v, po) call ->
  exists ps po', In (v, ps) (l_batch _ l) /\ lookup v call = Some po' /\
    po_verifies _ po' = true /\
    (l_t _ l <= length (share_map content ps))%nat /\
    (forall i s, In (i, s) (share_map content ps) -> s = PSig v i (sroot (po_content _ po'))) /\
    (forall i v' j c, In (i, PSig v' j (sroot c)) (share_map content ps) -> v' = v /\ j = i /\ c = po_content _ po').
Proof. exact published_valid. Qed.
Print Assumptions C09_published_valid.

(* The function itself: an aggregate is returned only if every entry of the share map is the
   genuine partial of its index over the returned payload's root -- also when the payload's data
   was taken from a partial that was overwritten in the map. *)
Theorem C09_aggregate_sound : forall content sroot t v ps o m,
  aggregate content sroot t v ps = inr (o, m) ->
  (t <= length (share_map content ps))%nat /\
  forall i s, In (i, s) (share_map content ps) -> s = PSig v i (sroot (o_content _ o)).
Proof. exact aggregate_sound. Qed.
Print Assumptions C09_aggregate_sound.

(* Any validator failing (for whatever reason) => no subscriber call at all, and an error. *)
Theorem C09_batch_atomic : forall content sroot l, accepts content sroot l = true ->
  forall v ps e, In (v, ps) (l_batch _ l) -> aggregate content sroot (l_t _ l) v ps = inl e ->
  l_calls _ l = [] /\ l_err _ l <> None.
Proof. exact batch_atomic. Qed.
Print Assumptions C09_batch_atomic.

Theorem C09_too_few_never : forall content sroot l, accepts content sroot l = true ->
  forall v ps, In (v, ps) (l_batch _ l) -> (length (share_map content ps) < l_t _ l)%nat -> l_calls _ l = [].
Proof. exact too_few_never. Qed.
Print Assumptions C09_too_few_never.

Theorem C09_mixed_content_never : forall content sroot l, accepts content sroot l = true ->
  forall v ps i j v1 v2 k1 k2 r1 r2, In (v, ps) (l_batch _ l) ->
  In (i, PSig v1 k1 r1) (share_map content ps) -> In (j, PSig v2 k2 r2) (share_map content ps) -> r1 <> r2 ->
  l_calls _ l = [].
Proof. exact mixed_content_never. Qed.
Print Assumptions C09_mixed_content_never.

Theorem C09_invalid_share_never : forall content sroot l, accepts content sroot l = true ->
  forall v ps i s, In (v, ps) (l_batch _ l) -> In (i, s) (share_map content ps) ->
  (forall rho, s <> PSig v i rho) -> l_calls _ l = [].
Proof. exact invalid_share_never. Qed.
Print Assumptions C09_invalid_share_never.

(* The share map keeps, per share index, the LAST partial given (so "repeat a share" is judged on
   the distinct indices, N1). *)
Theorem C09_share_map_last : forall content (pre : list (parsig content)) p post,
  (forall q, In q post -> p_idx _ q <> p_idx _ p) ->
  get (p_idx _ p) (share_map content (pre ++ p :: post)) = Some (p_sig _ p).
Proof. exact share_map_last. Qed.
Print Assumptions C09_share_map_last.

(* N1 (documented deviation from the literal wording, not a safety issue): with more than
   threshold inputs containing a repeated share the code still publishes, and the object is valid. *)
Theorem C09_repeat_with_surplus_still_valid :
  aggregate N (fun c => c) 2 7%N n1_ps = inr (mkobj KTyped 0%N 5%N, [(1%Z, PSig 7 1 5); (2%Z, PSig 7 2 5)])
  /\ comb_valid 2 7%N 5%N [(1%Z, PSig 7 1 5); (2%Z, PSig 7 2 5)] = true.
Proof. exact repeat_with_surplus_still_valid. Qed.
Print Assumptions C09_repeat_with_surplus_still_valid.

(* Completeness: the model (like the code) does publish whenever the counting partials are >= t and
   all genuine over the payload's root, however many repeats the input has: the theorems above are
   not vacuous. *)
Theorem C09_repeats_irrelevant : forall content sroot t v p0 r,
  (forall p, In p (p0 :: r) -> is_badlen (p_sig _ p) = false) ->
  (forall i s, In (i, s) (share_map content (p0 :: r)) -> i <> 0%Z) ->
  o_kind _ (payload content p0 (p0 :: r)) <> KRaw ->
  comb_valid t v (sroot (o_content _ (payload content p0 (p0 :: r)))) (share_map content (p0 :: r)) = true ->
  exists a, aggregate content sroot t v (p0 :: r) = inr a.
Proof. exact repeats_irrelevant. Qed.
Print Assumptions C09_repeats_irrelevant.
