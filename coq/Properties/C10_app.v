(* C10, application wiring: the public-share tables the node hands to the validator API and to the peer verifier are
   built in app/app.go with the share of index i+1 taken from lock position i (indices 1..n, nothing at index 0), and are
   handed to nothing else.  The construction code is regenerated from the source on every run (translator/appwire ->
   gen/AppWiring.v) and compared, as printed expressions, by Flow/AppWiringCheck.v. *)
From Charon Require Flow.AppWiringCheck Flow.AppWiringSharesFacts gen.AppWiring.

Theorem C10_app_pubshares_by_share_index :
  AppWiringCheck.pubshares_check AppWiring.app_pubshares_sites = true.
Proof. exact AppWiringSharesFacts.app_pubshares_ok. Qed.
Print Assumptions C10_app_pubshares_by_share_index.
