(* C17 — Aggregate-signature store: reads return the stored value with no lost wake-ups; both
   in-memory implementations.  Only statements here; proofs are in Stores/AggSigDBFacts.v.

   [run1 init1 ls = Some s] : ls is a label sequence the model of memory.go (actor) can produce;
   [run2 init2 ls = Some s] : the same for memory_v2.go (mutex + broadcast channel, as repaired).
   Labels are the atomic steps of the code (message consumed by the actor / critical section /
   channel operation of one reader), so the theorems range over ALL interleavings of any number
   of readers, writers, cancellations and expiries, of any length.
   [store_after (map ev ls)] is the map "first value stored under a key, until the duty expires"
   computed from the trace alone; C17_v1_data / C17_v2_data say it is the map the code holds. *)
From Coq Require Import List NArith Bool Arith.
From Charon Require Import Stores.AggSigDB Stores.AggSigDBv1 Stores.AggSigDBv2 Stores.AggSigDBFacts.
Import ListNotations.

(* Every trace of either model passes the one specification monitor that transcribes C17. *)
Theorem C17_v1_monitor : forall ls s, run1 init1 ls = Some s -> monitor1 ls = true.
Proof. exact run1_monitor. Qed.
Print Assumptions C17_v1_monitor.

Theorem C17_v2_monitor : forall ls s, run2 init2 ls = Some s -> monitor2 ls = true.
Proof. exact run2_monitor. Qed.
Print Assumptions C17_v2_monitor.

Theorem C17_v1_data : forall ls s, run1 init1 ls = Some s -> data1 s = store_after (map ev1 ls).
Proof. exact run1_data. Qed.
Print Assumptions C17_v1_data.

Theorem C17_v2_data : forall ls s, run2 init2 ls = Some s -> data2 s = store_after (map ev2 ls).
Proof. exact run2_data. Qed.
Print Assumptions C17_v2_data.

(* read_returns_stored: a read that returns v was begun for some key k, and k held v at some
   moment (after p2) between the begin of the read and its return. *)
Theorem C17_v1_read_returns_stored : forall ls s, run1 init1 ls = Some s ->
  forall pre q v post, ls = pre ++ LAnswer q v :: post ->
  exists p1 k p2 p3, pre = p1 ++ LQuery q k :: p2 ++ p3 /\
    (forall k', ~ In (LQuery q k') (p2 ++ p3)) /\
    lookup k (store_after (map ev1 (p1 ++ LQuery q k :: p2))) = Some v.
Proof. exact read_returns_stored_v1. Qed.
Print Assumptions C17_v1_read_returns_stored.

Theorem C17_v2_read_returns_stored : forall ls s, run2 init2 ls = Some s ->
  forall pre r v post, ls = pre ++ LLookup r (Some v) :: post ->
  exists p1 k p2 p3, pre = p1 ++ LAwait r k :: p2 ++ p3 /\
    (forall k', ~ In (LAwait r k') (p2 ++ p3)) /\
    lookup k (store_after (map ev2 (p1 ++ LAwait r k :: p2))) = Some v.
Proof. exact read_returns_stored_v2. Qed.
Print Assumptions C17_v2_read_returns_stored.

(* v2 returns the value held at the very moment of the (atomic) lookup. *)
Theorem C17_v2_read_returns_current : forall ls s, run2 init2 ls = Some s ->
  forall pre r v post, ls = pre ++ LLookup r (Some v) :: post ->
  exists s0 k, run2 init2 pre = Some s0 /\ (exists st, In (r, (k, st)) (rs s0)) /\
               lookup k (data2 s0) = Some v /\ data2 s0 = store_after (map ev2 pre).
Proof. exact read_returns_current_v2. Qed.
Print Assumptions C17_v2_read_returns_current.

(* The value under a key never changes until the key's duty expires -- whatever is stored,
   read or cancelled meanwhile.  With read_returns_stored: absent an expiry of its duty, every
   read of k returns the first value stored under k. *)
Theorem C17_v1_value_fixed : forall pre mid k v,
  lookup k (store_after (map ev1 pre)) = Some v -> ~ In (LExpire (kduty k)) mid ->
  lookup k (store_after (map ev1 (pre ++ mid))) = Some v.
Proof. exact value_fixed_v1. Qed.
Print Assumptions C17_v1_value_fixed.

Theorem C17_v2_value_fixed : forall pre mid k v,
  lookup k (store_after (map ev2 pre)) = Some v -> ~ In (LExpire2 (kduty k)) mid ->
  lookup k (store_after (map ev2 (pre ++ mid))) = Some v.
Proof. exact value_fixed_v2. Qed.
Print Assumptions C17_v2_value_fixed.

(* no_lost_wakeup: at every quiescent point (no goroutine can move) a read that was begun and
   has neither returned nor been cancelled has nothing stored under its key; i.e. every read
   whose key has been stored has returned. *)
Theorem C17_v1_no_lost_wakeup : forall ls s, run1 init1 ls = Some s ->
  forall pre post, ls = pre ++ LQuiet :: post ->
  forall p1 q k p2, pre = p1 ++ LQuery q k :: p2 ->
  (forall v, ~ In (LAnswer q v) p2) -> ~ In (LCancel q) p2 ->
  lookup k (store_after (map ev1 pre)) = None.
Proof. exact no_lost_wakeup_v1. Qed.
Print Assumptions C17_v1_no_lost_wakeup.

Theorem C17_v2_no_lost_wakeup : forall ls s, run2 init2 ls = Some s ->
  forall pre post, ls = pre ++ LQuiet2 :: post ->
  forall p1 r k p2, pre = p1 ++ LAwait r k :: p2 ->
  (forall v, ~ In (LLookup r (Some v)) p2) -> ~ In (LCancel2 r) p2 ->
  lookup k (store_after (map ev2 pre)) = None.
Proof. exact no_lost_wakeup_v2. Qed.
Print Assumptions C17_v2_no_lost_wakeup.

(* Stronger state facts behind it, in every reachable state (quiescent or not).
   v1: a query still in blockedQueries has its key absent.
   v2: a reader waiting on the current notification channel has its key absent (one waiting on a
   closed channel can wake). *)
Theorem C17_v1_blocked_absent : forall ls s, run1 init1 ls = Some s ->
  forall q k, In (q, (k, Blocked)) (qs s) -> lookup k (data1 s) = None.
Proof. exact v1_blocked_absent. Qed.
Print Assumptions C17_v1_blocked_absent.

Theorem C17_v2_waiting_current_absent : forall ls s, run2 init2 ls = Some s ->
  forall r k g', In (r, (k, Waiting g')) (rs s) ->
  g' <= gen s /\ (g' = gen s -> lookup k (data2 s) = None).
Proof. exact v2_waiting_current_absent. Qed.
Print Assumptions C17_v2_waiting_current_absent.

(* conflict_rejected_no_change: a write of other data under an existing key is rejected and the
   stored map is unchanged (so, by value_fixed, readers keep getting the first value). *)
Theorem C17_v1_conflict_rejected_no_change : forall ls s, run1 init1 ls = Some s ->
  forall pre k v post, ls = pre ++ LWrite k v WMismatch :: post ->
  (exists v', v' <> v /\ lookup k (store_after (map ev1 pre)) = Some v') /\
  store_after (map ev1 (pre ++ [LWrite k v WMismatch])) = store_after (map ev1 pre).
Proof. exact conflict_rejected_no_change_v1. Qed.
Print Assumptions C17_v1_conflict_rejected_no_change.

(* v2, multi-entry: the Store is rejected because of an entry (k, v) whose key holds v' <> v;
   the map afterwards is the one obtained by storing only the entries e1 iterated before it. *)
Theorem C17_v2_conflict_rejected_no_change : forall ls s, run2 init2 ls = Some s ->
  forall pre d es post, ls = pre ++ LStore d es WMismatch :: post ->
  exists e1 k v e2 v', es = e1 ++ (k, v) :: e2 /\ v' <> v /\
    lookup k (store_after (map ev2 (pre ++ [LStore d es WMismatch]))) = Some v' /\
    put_all e1 (store_after (map ev2 pre)) = (store_after (map ev2 (pre ++ [LStore d es WMismatch])), WOk).
Proof. exact conflict_rejected_no_change_v2. Qed.
Print Assumptions C17_v2_conflict_rejected_no_change.

(* partial_store_failure, v2, exactly: entries before the conflicting one are stored and
   readable; the notification channel is closed even though Store returns an error, so every
   waiting reader holds a closed channel (g < gen: LWake is enabled) and re-reads. *)
Theorem C17_v2_partial_store_failure : forall pre s0 d es s,
  run2 init2 pre = Some s0 -> step2 s0 (LStore d es WMismatch) = Some s ->
  exists e1 k v e2 v', es = e1 ++ (k, v) :: e2 /\
    put_all e1 (data2 s0) = (data2 s, WOk) /\
    (forall k1 v1, In (k1, v1) e1 -> lookup k1 (data2 s) = Some v1) /\
    lookup k (data2 s) = Some v' /\ v' <> v /\
    rs s = rs s0 /\ gen s = S (gen s0) /\
    (forall r k0 g, In (r, (k0, Waiting g)) (rs s) -> g < gen s).
Proof. exact partial_store_failure_v2. Qed.
Print Assumptions C17_v2_partial_store_failure.

Theorem C17_v2_store_ok : forall pre s0 d es s,
  run2 init2 pre = Some s0 -> step2 s0 (LStore d es WOk) = Some s ->
  (forall k v, In (k, v) es -> lookup k (data2 s) = Some v) /\
  (forall r k0 g, In (r, (k0, Waiting g)) (rs s) -> g < gen s).
Proof. exact store_ok_v2. Qed.
Print Assumptions C17_v2_store_ok.

(* partial_store_failure, v1: MemDB.Store issues one write command per entry and stops at the
   first error; the actor handles each command on its own.  One command, accepted or rejected:
   rejected = map unchanged; accepted = key holds v; earlier values stay; afterwards every
   query that was blocked is answered iff its key is now present; sent answers stay. *)
Theorem C17_v1_write_effect : forall pre s0 k v r s,
  run1 init1 pre = Some s0 -> step1 s0 (LWrite k v r) = Some s ->
  (r = WMismatch -> data1 s = data1 s0 /\ exists v', lookup k (data1 s0) = Some v' /\ v' <> v) /\
  (r = WOk -> lookup k (data1 s) = Some v) /\
  (forall k0 x, lookup k0 (data1 s0) = Some x -> lookup k0 (data1 s) = Some x) /\
  (forall q k0, In (q, (k0, Blocked)) (qs s) -> lookup k0 (data1 s) = None) /\
  (forall q k0, In (q, (k0, Blocked)) (qs s0) ->
     match lookup k0 (data1 s) with
     | Some w => In (q, (k0, Answered w)) (qs s)
     | None => In (q, (k0, Blocked)) (qs s)
     end) /\
  (forall q k0 w, In (q, (k0, Answered w)) (qs s0) -> In (q, (k0, Answered w)) (qs s)).
Proof. exact write_effect_v1. Qed.
Print Assumptions C17_v1_write_effect.

(* Fine-grained semantics vs. what can be observed at quiescence: whatever the schedule of the
   internal steps (v2: lookups and wake-ups; v1: answer pick-ups), a run of them that ends in a
   quiescent state ends with exactly the reads whose key is absent still pending; and a
   non-quiescent state always has an enabled internal step. *)
Theorem C17_v2_quiescent_outcome : forall pre s ls s',
  run2 init2 pre = Some s -> forallb internal2 ls = true -> run2 s ls = Some s' ->
  step2 s' LQuiet2 = Some s' ->
  data2 s' = data2 s /\
  forall r k, (exists st', In (r, (k, st')) (rs s')) <->
              (exists st, In (r, (k, st)) (rs s)) /\ lookup k (data2 s) = None.
Proof. exact quiescent_outcome_v2. Qed.
Print Assumptions C17_v2_quiescent_outcome.

Theorem C17_v1_quiescent_outcome : forall pre s ls s',
  run1 init1 pre = Some s -> forallb internal1 ls = true -> run1 s ls = Some s' ->
  step1 s' LQuiet = Some s' ->
  data1 s' = data1 s /\
  forall q k, (exists st', In (q, (k, st')) (qs s')) <-> In (q, (k, Blocked)) (qs s).
Proof. exact quiescent_outcome_v1. Qed.
Print Assumptions C17_v1_quiescent_outcome.

Theorem C17_v2_not_quiet_can_step : forall pre s,
  run2 init2 pre = Some s -> step2 s LQuiet2 = None ->
  exists l s', internal2 l = true /\ step2 s l = Some s'.
Proof. exact not_quiet_can_step_v2. Qed.
Print Assumptions C17_v2_not_quiet_can_step.

Theorem C17_v1_not_quiet_can_step : forall pre s,
  run1 init1 pre = Some s -> step1 s LQuiet = None ->
  exists q v s', step1 s (LAnswer q v) = Some s'.
Proof. exact not_quiet_can_step_v1. Qed.
Print Assumptions C17_v1_not_quiet_can_step.

(* F3, the code before 8db1efa (one-slot notification token): two waiters, one store, one of
   them sleeps on although its key is stored -- accepted by the model of the old code, rejected
   by the monitor (and by the model of the repaired code). *)
Theorem C17_lost_wakeup_v2_refuted_before_fix :
  (exists s, run2_gen true init2 f3_trace = Some s) /\ monitor2 f3_trace = false /\
  run2 init2 f3_trace = None.
Proof. exact lost_wakeup_v2_refuted_before_fix. Qed.
Print Assumptions C17_lost_wakeup_v2_refuted_before_fix.

Theorem C17_partial_store_lost_wakeup_v2_refuted_before_fix :
  (exists s, run2_gen true init2 f3b_trace = Some s) /\ monitor2 f3b_trace = false.
Proof. exact partial_store_lost_wakeup_v2_refuted_before_fix. Qed.
Print Assumptions C17_partial_store_lost_wakeup_v2_refuted_before_fix.

(* Non-vacuity: the actor without processBlockedQueries violates the monitor; non-trivial
   histories are accepted by both models. *)
Theorem C17_v1_needs_reevaluation :
  (exists s, run1_gen false init1 v1_noreeval_trace = Some s) /\ monitor1 v1_noreeval_trace = false /\
  run1 init1 v1_noreeval_trace = None.
Proof. exact v1_needs_reevaluation. Qed.
Print Assumptions C17_v1_needs_reevaluation.

Theorem C17_examples_accepted :
  (exists s, run1 init1 ex1 = Some s) /\ (exists s, run2 init2 ex2 = Some s).
Proof. exact examples_accepted. Qed.
Print Assumptions C17_examples_accepted.
