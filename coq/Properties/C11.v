(* C11 — Key generation ceremony yields one consistent threshold key per validator.

   Only statements here; the model and the proofs are in Tbls/Frost.v (on top of Tbls/Shamir.v).
   n nodes (ids 1..n = [idn F i] for node index i), threshold t, numVals validators; node i holds
   a polynomial f v i of degree < t per validator v (kryptology's Feldman split, modelled).
   [joint v] = sum_i f v i, [sk v j] = (joint v) at j's id, [group_key v] = pk_of (joint v).[0].
   Messages are keyed (ValIdx, SourceID, TargetID) as in dkg/frost.go; what a node receives is an
   arbitrary permutation (arrival order) of the messages addressed to it; getRound2Inputs /
   kryptology Round2 / makeShares are modelled by r2_inputs (Go map: last write wins), r2_sk,
   r2_vk, out_pubshare. *)
From mathcomp Require Import all_ssreflect all_algebra.
From Charon Require Import Tbls.Shamir Tbls.Frost.
Import GRing.Theory.
Local Open Scope ring_scope.

(* routing_exact: whatever the arrival order, node j's round-2 input for validator v holds exactly
   one share from every other node i — the value f v i at j's id — and nothing else. *)
Theorem C11_routing_exact :
  forall (F : fieldType) (n numVals : nat) (f : nat -> nat -> {poly F}) (j : nat) (p2p' : seq (key * F)),
  (j < n)%N -> perm_eq p2p' (delivered_to n numVals f j) ->
  forall v i, (v < numVals)%N -> (i < n)%N -> i != j ->
  lookup (r2_inputs p2p' v) i.+1 = Some (f v i).[idn F j] /\
  [seq e <- r2_inputs p2p' v | e.1 == i.+1] = [:: (i.+1, (f v i).[idn F j])] /\
  (forall e, e \in r2_inputs p2p' v ->
     exists i', [/\ (i' < n)%N, i' != j & e = (i'.+1, (f v i').[idn F j])]).
Proof. exact: routing_exact_net. Qed.
Print Assumptions C11_routing_exact.

(* frost_consistent: for every node and all arrival orders, the secret share is the joint
   polynomial at the node's id, the group key is the image of the joint secret, the public share
   filed for every node i is the image of i's secret share (in particular the node's own secret
   share matches the public share published for it), and the joint polynomial has degree < t.
   The right-hand sides do not depend on the node or on the orders: all nodes agree. *)
Theorem C11_frost_consistent :
  forall (F : fieldType) (G1 : lmodType F) (g1 : G1) (n t numVals : nat) (f : nat -> nat -> {poly F}),
  (forall v i, (size (f v i) <= t)%N) ->
  forall (j : nat) (p2p : seq (key * F)) (casts1 casts2 : seq (key * G1)),
  (j < n)%N ->
  perm_eq p2p (delivered_to n numVals f j) ->
  perm_eq casts1 (sent_cast n numVals (cast1_msg g1 f)) ->
  perm_eq casts2 (sent_cast n numVals (cast2_msg g1 n f)) ->
  forall v, (v < numVals)%N ->
  [/\ r2_sk f j v casts1 p2p = sk n f v j,
      r2_vk g1 f j v casts1 = group_key g1 n f v,
      forall i, (i < n)%N -> out_pubshare v i casts2 = Some (pk_of g1 (sk n f v i)),
      out_pubshare v j casts2 = Some (pk_of g1 (r2_sk f j v casts1 p2p))
    & (size (joint n f v) <= t)%N].
Proof. exact: frost_consistent. Qed.
Print Assumptions C11_frost_consistent.

(* ... so the C08 theorems apply to the joint polynomial: any >= t public shares reconstruct the
   group key (ids 1..n admissible: n below the field characteristic) *)
Theorem C11_pubshares_reconstruct :
  forall (F : fieldType) (G1 : lmodType F) (g1 : G1) (n t : nat) (f : nat -> nat -> {poly F}),
  (forall v i, (size (f v i) <= t)%N) ->
  forall (v : nat) (js : seq nat),
  char_above F n -> uniq js -> {subset js <= iota 0 n} -> (t <= size js)%N ->
  recover (idn F) js (fun i => pk_of g1 (sk n f v i)) = group_key g1 n f v.
Proof. exact: frost_pubshares_reconstruct. Qed.
Print Assumptions C11_pubshares_reconstruct.

(* ... any >= t secret shares produce partial signatures that combine into the signature of the
   joint secret, valid under the group key (pairing hypotheses as in C08) *)
Theorem C11_threshold_signature :
  forall (F : fieldType) (G1 G2 GT : lmodType F) (e : G1 -> G2 -> GT) (g1 : G1),
  (forall a u v, e (a *: u) v = a *: e u v) -> (forall a u v, e u (a *: v) = a *: e u v) ->
  (forall u v w, e u (v - w) = e u v - e u w) -> (forall v, e g1 v = 0 -> v = 0) ->
  forall (n t : nat) (f : nat -> nat -> {poly F}),
  (forall v i, (size (f v i) <= t)%N) -> char_above F n ->
  forall (v : nat) (js : seq nat) (h : G2),
  uniq js -> {subset js <= iota 0 n} -> (t <= size js)%N ->
  recover (idn F) js (fun i => sign (sk n f v i) h) = sign (joint n f v).[0] h /\
  verify e g1 (group_key g1 n f v) h (recover (idn F) js (fun i => sign (sk n f v i) h)).
Proof. exact: frost_threshold_signature. Qed.
Print Assumptions C11_threshold_signature.

(* ... and a combination containing one foreign partial signature verifies only if it equals
   the honest one *)
Theorem C11_wrong_partial_iff :
  forall (F : fieldType) (G1 G2 GT : lmodType F) (e : G1 -> G2 -> GT) (g1 : G1),
  (forall a u v, e (a *: u) v = a *: e u v) -> (forall a u v, e u (a *: v) = a *: e u v) ->
  (forall u v w, e u (v - w) = e u v - e u w) -> (forall v, e g1 v = 0 -> v = 0) ->
  forall (n t : nat) (f : nat -> nat -> {poly F}),
  (forall v i, (size (f v i) <= t)%N) -> char_above F n ->
  forall (v : nat) (js : seq nat) (h : G2) (j : nat) (sig' : G2),
  uniq js -> {subset js <= iota 0 n} -> (t <= size js)%N -> j \in js ->
  verify e g1 (group_key g1 n f v) h
    (recover (idn F) js (fun k => if k == j then sig' else sign (sk n f v k) h))
  <-> sig' = sign (sk n f v j) h.
Proof. exact: frost_wrong_partial_iff. Qed.
Print Assumptions C11_wrong_partial_iff.
