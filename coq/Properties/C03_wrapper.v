(* C03 at the wrapper's public behaviour: one consensus instance (duty) of one Consensus component decides --
   calls its subscribers -- at most once, and nothing is accepted or started after the duty expired.
   Statements only; model and proofs in Flow/InstanceLife.v.  The correspondence check establishes that the
   lifecycle label sequences recorded from real components (harness zz_verif_wrapper_test.go) are runs. *)
From Coq Require Import List Bool Arith.
From Charon Require Import Flow.InstanceLife.
Import ListNotations.

Theorem C03_wrapper_decide_at_most_once : forall ls s, lrun linit ls = Some s -> decides ls <= 1.
Proof. exact decide_at_most_once. Qed.
Print Assumptions C03_wrapper_decide_at_most_once.

(* An instance is started at most once per duty; qbft.Run is entered at most as often as a start was granted, a
   Decide needs a granted start. *)
Theorem C03_wrapper_started_at_most_once : forall ls s, lrun linit ls = Some s ->
  starts ls <= 1 /\ runs ls <= starts ls /\ decides ls <= starts ls.
Proof. exact started_at_most_once. Qed.
Print Assumptions C03_wrapper_started_at_most_once.

Theorem C03_wrapper_monitor : forall ls s, lrun linit ls = Some s -> lmonitor ls = true.
Proof. exact lrun_monitor. Qed.
Print Assumptions C03_wrapper_monitor.

(* Releasing the instance state when the run decides (instead of at expiry) admits a second decision. *)
Theorem C03_wrapper_delete_on_decide_refuted :
  (exists s, lrun_gen true linit mut_trace = Some s) /\ decides mut_trace = 2 /\ lrun linit mut_trace = None.
Proof. exact delete_on_decide_refuted. Qed.
Print Assumptions C03_wrapper_delete_on_decide_refuted.

(* A qbft.Run entered by a late Propose after the duty expired (seeded change C02-r6m2) is not a run of the
   model and fails the monitor; without it the same history is a run. *)
Theorem C03_wrapper_run_after_expiry_refuted : lrun linit late_trace = None /\ lmonitor late_trace = false /\
  exists s, lrun linit [LStart Started; LRun; LDecide; LExpire; LHandle false; LStart Skipped] = Some s.
Proof. exact run_after_expiry_refuted. Qed.
Print Assumptions C03_wrapper_run_after_expiry_refuted.

Theorem C03_wrapper_nonvacuous :
  exists s, lrun linit [LHandle true; LStart Started; LRun; LHandle true; LDecide; LHandle true; LStart Joined; LExpire; LHandle false; LStart Skipped; LStart Joined] = Some s.
Proof. exact life_nonvacuous. Qed.
Print Assumptions C03_wrapper_nonvacuous.
