(* C01 as a composition: the component hypotheses of the cluster theorems, discharged from the
   component models (C07 ParSigDB, C09 SigAgg, C06 DutyDB, C02 QBFT).  Only statements here; proofs
   and the precise gaps are in Flow/PipelineBridge.v (header).

   [crun c gen rootof cinit ls = Some cs]: ls is a run of the COMPOSED cluster -- every node's
   partial-signature store is a state of the ParSigDB model (Stores/ParSigDB.v) and every store
   action (validator-client submission, peer delivery, adversarial injection) is a complete call
   ABegin / AEntry* / AEnd executed by ParSigDB.step on a Scheduled duty; an aggregate is published
   exactly when SigAgg.aggregate (Flow/SigAgg.v) returns one for the group handed over by the
   threshold output.  Nothing about "one entry per share", "mismatch is not released", "fires on the
   new root group reaching t", "publishes only verified groups" is assumed: it is what those two
   models do.

   REMAINS ASSUMED: symbolic BLS (a genuine partial of an honest share exists only if that node's
   validator client made it; SigAgg's symbolic verification = C08 + unforgeability); the wiring
   obligation C01_wiring (visible here as the shape of the composed step and as the coupling
   predicates [decide_coupled] / [vc_follows]); validator-client honesty (only in the companion);
   n + |Byz| < 2t.  NOT covered by the ParSigDB refinement: exempt and expired duties, trimming at
   the deadline, concurrent calls on one node (calls run one after the other), EBad entries. *)
From Coq Require Import List Arith Bool NArith.
From Charon Require Import Common.Quorum Flow.Pipeline Flow.PipelineFacts Flow.PipelineBridge.
Import ListNotations.

(* (1) PARSIG REFINEMENT.  One entry of a Scheduled call: ParSigDB's verdict, store and threshold
   output agree with Pipeline's node rule on the abstracted partial. *)
Theorem C01b_parsig_entry : forall t gen rootof nd s st k p,
  Rn gen nd s st -> wfstore rootof s -> wfp rootof p ->
  match PS.classify p (PS.ent s k) with
  | PS.VNew =>
      store1 t st nd (kenc k) (pabs gen (kty k) p) =
      (st ++ [(nd, kenc k, pabs gen (kty k) p)], Stored,
       option_map (map (pabs gen (kty k))) (PS.thresh t (kty k) (PS.ent s k ++ [p])))
  | PS.VDup => store1 t st nd (kenc k) (pabs gen (kty k) p) = (st, Dup, None)
  | PS.VMismatch => exists r, store1 t st nd (kenc k) (pabs gen (kty k) p) = (st, r, None) /\ r <> Stored
  end.
Proof. exact store1_abs. Qed.
Print Assumptions C01b_parsig_entry.

(* A whole call is a piece of a ParSigDB trace ... *)
Theorem C01b_parsig_call_is_trace : forall t s c i d es er out il,
  psdb_call t s c i d es er out il =
  PS.run t s (PS.ABegin c i d PS.Scheduled es :: map (PS.AEntry c) es ++ [PS.AEnd c er out il]).
Proof. exact psdb_call_is_run. Qed.
Print Assumptions C01b_parsig_call_is_trace.

(* ... and is simulated by Pipeline's store_batch: same store (through the abstraction), same
   threshold outputs in the same order, the subscribers get exactly them, and the internal
   subscribers run (il) only for an internal call without error, in which case every partial of
   the set sits in the store. *)
Theorem C01b_parsig_call_sim : forall t gen rootof nd s st c i d es er out il s',
  psdb_call t s c i d es er out il = Some s' ->
  Rn gen nd s st -> wfstore rootof s -> Forall (good_entry rootof) es ->
  PS.calls s c = None /\
  Rn gen nd s' (b_st (store_batch t st nd (map (eabs gen d) es))) /\ wfstore rootof s' /\
  exists cl, PS.calls s' c = Some cl /\ PS.c_duty cl = d /\
    map (absout gen nd d) (PS.c_out cl) = b_fired (store_batch t st nd (map (eabs gen d) es)) /\
    (forall x, In x (PF.outl out) <-> In x (PS.c_out cl)) /\
    (er = PS.EMismatch -> PS.c_mis cl = true) /\
    (il = true -> i = true /\ er = PS.ENone /\
       forall e, In e es -> In (nd, fst (eabs gen d e), snd (eabs gen d e)) (b_st (store_batch t st nd (map (eabs gen d) es)))) /\
    (forall c0, c0 <> c -> PS.calls s' c0 = PS.calls s c0).
Proof. exact call_sim. Qed.
Print Assumptions C01b_parsig_call_sim.

(* the three facts, as corollaries of C07 *)
Theorem C01b_one_entry_per_share : forall t gen ls s nd st k,
  PS.run t PS.init ls = Some s -> Rn gen nd s st -> NoDup (map p_share (entries st nd (kenc k))).
Proof. exact parsig_one_entry_per_share. Qed.
Print Assumptions C01b_one_entry_per_share.

Theorem C01b_mismatch_not_released : forall t p1 c pk sub p p2 er out il p3 s s0 cl,
  PS.run t PS.init (p1 ++ PS.AEntry c (PS.EGood pk sub p) :: p2 ++ PS.AEnd c er out il :: p3) = Some s ->
  PS.run t PS.init p1 = Some s0 -> PS.calls s0 c = Some cl ->
  PS.classify p (PS.ent s0 (PF.ekey_of cl pk sub)) = PS.VMismatch -> er <> PS.ENone /\ il = false.
Proof. exact parsig_mismatch_not_released. Qed.
Print Assumptions C01b_mismatch_not_released.

Theorem C01b_fires_iff : forall t gen rootof nd s st cl pk sub p,
  Rn gen nd s st -> wfstore rootof s -> wfp rootof p -> PS.c_st cl = PS.Scheduled ->
  PS.classify p (PS.ent s (PF.ekey_of cl pk sub)) = PS.VNew ->
  let k := PF.ekey_of cl pk sub in
  snd (store1 t st nd (kenc k) (pabs gen (kty k) p)) =
    option_map (fun x => map (pabs gen (kty k)) (snd x)) (PF.mfire t s cl (PS.EGood pk sub p)) /\
  (PF.mfire t s cl (PS.EGood pk sub p) <> None <->
   length (PS.group (kty k) p (PS.ent s k ++ [p])) = t).
Proof. exact parsig_fires_iff. Qed.
Print Assumptions C01b_fires_iff.

(* (4) SIGAGG: what the aggregator model publishes for a group with distinct shares is a group of
   genuine partials over one root (from C09_aggregate_sound). *)
Theorem C01b_sigagg_only_genuine : forall t k g,
  NoDup (map p_share g) -> sa_publishes t k g = true ->
  forallb genuine g = true /\ t <= length g /\ exists r, forall p, In p g -> p_root p = r.
Proof. exact sigagg_publishes_only_genuine. Qed.
Print Assumptions C01b_sigagg_only_genuine.

(* REFINEMENT of the cluster: a run of the composed cluster reads as a run of Flow/Pipeline.v. *)
Theorem C01b_composed_refines : forall c gen rootof ls cs, crun c gen rootof cinit ls = Some cs ->
  exists ps, run c init (flat_map (lmap gen) ls) = Some ps /\ RC gen rootof cs ps.
Proof. exact composed_refines. Qed.
Print Assumptions C01b_composed_refines.

(* C01_composed: single root and validity for the composed cluster. *)
Theorem C01_composed_single_root : forall c gen rootof ls cs, wf c -> crun c gen rootof cinit ls = Some cs ->
  forall nd1 nd2 k r1 r2 sh1 sh2,
  In (CAggregate nd1 k r1 sh1) ls -> In (CAggregate nd2 k r2 sh2) ls -> r1 = r2.
Proof. exact composed_single_root. Qed.
Print Assumptions C01_composed_single_root.

Theorem C01_composed_single_root_charon : forall n byz ckey gen rootof ls cs, 1 <= n -> length byz <= faulty n ->
  crun (mkCfg n (quorum n) byz ckey) gen rootof cinit ls = Some cs ->
  forall nd1 nd2 k r1 r2 sh1 sh2,
  In (CAggregate nd1 k r1 sh1) ls -> In (CAggregate nd2 k r2 sh2) ls -> r1 = r2.
Proof.
  intros n byz ckey gen rootof ls cs Hn Hb. apply composed_single_root.
  unfold wf. simpl. pose proof (threshold_arith_charon n Hn). apply Nat.le_lt_trans with (n + faulty n); auto.
  apply Nat.add_le_mono_l. exact Hb.
Qed.
Print Assumptions C01_composed_single_root_charon.

Theorem C01_composed_broadcast_valid : forall c gen rootof ls cs, crun c gen rootof cinit ls = Some cs ->
  forall pre nd k r shares post, ls = pre ++ CAggregate nd k r shares :: post ->
  length shares = c_t c /\ NoDup shares /\
  forall sh, In sh shares ->
    sh < c_n c /\
    (is_byz c sh = true \/
     exists cid d es er out il e, In (CStore KSign sh cid d es er out il) pre /\ In e es /\
                                  kr_of gen d e = (kenc k, r)).
Proof. exact composed_broadcast_valid. Qed.
Print Assumptions C01_composed_broadcast_valid.

(* (2) DUTYDB: all answers of a duty store for one key carry one content (C06_answers_unique, order
   free), hence a validator client that signs what it is served signs at most one root per key. *)
Theorem C01b_dutydb_answers_one_content : forall dls ds, DD.run DD.xinit dls = Some ds -> DD.disciplined dls = true ->
  forall q1 q2 k c1 c2, In (DD.LAnswer q1 k c1) dls -> In (DD.LAnswer q2 k c2) dls -> c1 = c2.
Proof. exact dutydb_answers_one_content. Qed.
Print Assumptions C01b_dutydb_answers_one_content.

Theorem C01b_vc_one_root_per_key : forall ckey ls nd dls ds dkey croot,
  DD.run DD.xinit dls = Some ds -> DD.disciplined dls = true -> vc_follows ckey ls nd dls dkey croot ->
  forall b o b' o' k r r', ckey k = true ->
    In (LSign nd b o) ls -> In (k, r) b -> In (LSign nd b' o') ls -> In (k, r') b' -> r = r'.
Proof. exact vc_one_root_per_key. Qed.
Print Assumptions C01b_vc_one_root_per_key.

(* (3) CONSENSUS: all decisions reaching the duty stores for one duty carry one root (C02_agreement_default,
   and with compare failures C02_cmp_agreement). *)
Theorem C01b_consensus_one_decided_root : forall cq nt tr ls k vroot,
  QN.wf_cfg cq -> QN.nreach cq nt tr -> QN.trace_nofail tr -> decide_coupled ls k tr vroot ->
  forall nd nd' r r' ok ok', In (LDecide nd k r ok) ls -> In (LDecide nd' k r' ok') ls -> r = r'.
Proof. exact consensus_one_decided_root. Qed.
Print Assumptions C01b_consensus_one_decided_root.

Theorem C01b_consensus_one_decided_root_cmp : forall cf cq nt tr ls k vroot,
  QN.wf_cfg cq -> QN.nreach cq nt tr -> QC.trace_cmp_fun cf tr -> decide_coupled ls k tr vroot ->
  forall nd nd' r r' ok ok', In (LDecide nd k r ok) ls -> In (LDecide nd' k r' ok') ls -> r = r'.
Proof. exact consensus_one_decided_root_cmp. Qed.
Print Assumptions C01b_consensus_one_decided_root_cmp.

(* the companion C01_honest_sign_same with its C02 / C06 hypotheses discharged by the consensus theorem *)
Theorem C01_composed_sign_same : forall c gen rootof cls cs k cq nt tr vroot nd0 r0,
  crun c gen rootof cinit cls = Some cs -> c_ckey c (kenc k) = true ->
  QN.wf_cfg cq -> QN.nreach cq nt tr -> QN.trace_nofail tr ->
  decide_coupled (flat_map (lmap gen) cls) (kenc k) tr vroot ->
  In (CDecide nd0 k r0 true) cls ->
  forall nd cid d es er out il e, In (CStore KSign nd cid d es er out il) cls -> In e es ->
    fst (kr_of gen d e) = kenc k -> snd (kr_of gen d e) = r0.
Proof. exact composed_cluster_sign_same. Qed.
Print Assumptions C01_composed_sign_same.

(* Non-vacuity of the composed cluster: equivocation by the Byzantine share, a rejected second root, a
   threshold by count containing garbage that SigAgg refuses, a real aggregate. *)
Theorem C01b_composed_nonvacuous :
  (exists cs, crun cx_cfg cx_gen cx_rootof cinit cx_trace = Some cs) /\
  cx_ok (firstn 6 cx_trace ++ [CAggregate 0 cx_k 5 [0; 1; 2]]) = false /\
  cx_ok (firstn 6 cx_trace ++ [CAggFail 0 cx_k]) = true.
Proof. exact (conj cx_accepted_ex (conj (proj1 cx_garbage_not_published) (proj1 (proj2 cx_garbage_not_published)))). Qed.
Print Assumptions C01b_composed_nonvacuous.
