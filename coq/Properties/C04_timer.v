(* C04, round-timer part -- arithmetic of the consensus round timers (core/consensus/timer).
   Only statements here; proofs are in Qbft/TimerFacts.v, the model in Qbft/Timer.v.

   Units: nanoseconds in Z ([ms] = 10^6, [sec] = 10^9).  [run c init ls = Some st] says "ls is a
   sequence of Timer(round) calls, with the durations and firing instants observed, that the model
   of the timer configured by c can produce"; the correspondence check establishes that the
   sequences recorded from the real timers under a fake clock are of that kind.

   DEFAULT timer = eager double linear (eager_double_linear and proposal_timeout are stable
   features, linear is alpha), always built with genesis time and slot duration, so
   [duty_start c = Some start] with start = genesis + slot*slotDuration + (0 | slotDuration/3 |
   2*slotDuration/3 by duty type).  timeout(r) = r*1s + e, e = 500ms for proposer duties, else 0.
   D1 c start r = start + timeout(r)  (first deadline),  D2 c start r = start + 2*timeout(r).

   NOT PROVED (here or elsewhere): the real-time bridge of C04 -- "message latency below a third of
   the shortest round timeout, start offsets below a round, fair scheduling  =>  the hypothesis of
   good_round_decides (all messages of a good round are delivered before any timer of the round
   fires)".  The theorems below are the arithmetic facts such a bridge would use. *)
From Coq Require Import List ZArith Bool.
From Charon Require Import Qbft.Timer Qbft.TimerFacts.
Import ListNotations.
Local Open Scope Z_scope.

(* Every trace of the model passes the closed-form trace monitor. *)
Theorem C04_timer_monitor : forall c ls st, run c init ls = Some st -> monitor c ls = true.
Proof. exact run_monitor. Qed.
Print Assumptions C04_timer_monitor.

(* With the default feature set GetRoundTimerFunc returns the eager double linear timer for every duty. *)
Theorem C04_timer_default_is_eager : forall dtype, select_kind default_flags dtype = KEager.
Proof. exact default_is_eager. Qed.
Print Assumptions C04_timer_default_is_eager.

(* Deadlines are absolute: in every call history, every request for round r gets the deadline
   D1 (first request of r) or D2 (every later request: one doubling, never more), whatever the clock
   reads; the returned channel fires at max(now, deadline) (or not within the watched interval). *)
Theorem C04_timer_eager_deadline_absolute : forall c start ls st,
  c_kind c = KEager -> duty_start c = Some start ->
  run c init ls = Some st ->
  forall pre r now dur fire until post, ls = pre ++ LReq r now dur fire until :: post ->
  now + dur = (if requested r pre then D2 c start r else D1 c start r) /\
  fire = expected_fire now dur until.
Proof. exact eager_deadline_absolute. Qed.
Print Assumptions C04_timer_eager_deadline_absolute.

(* ... hence identical on all processes running the same duty with the same chain timing. *)
Theorem C04_timer_eager_deadlines_agree : forall c1 c2 ls1 ls2 st1 st2 start,
  c_kind c1 = KEager -> c_kind c2 = KEager ->
  c_dtype c1 = c_dtype c2 -> c_slot c1 = c_slot c2 -> c_genesis c1 = c_genesis c2 ->
  c_slotdur c1 = c_slotdur c2 -> c_proposal c1 = c_proposal c2 ->
  duty_start c1 = Some start ->
  run c1 init ls1 = Some st1 -> run c2 init ls2 = Some st2 ->
  forall r pre1 now1 dur1 fire1 until1 post1 pre2 now2 dur2 fire2 until2 post2,
  ls1 = pre1 ++ LReq r now1 dur1 fire1 until1 :: post1 ->
  ls2 = pre2 ++ LReq r now2 dur2 fire2 until2 :: post2 ->
  requested r pre1 = requested r pre2 ->
  now1 + dur1 = now2 + dur2.
Proof. exact eager_deadlines_agree. Qed.
Print Assumptions C04_timer_eager_deadlines_agree.

(* Closed forms, monotonicity and the exact relation between a doubled round and later rounds. *)
Theorem C04_timer_eager_deadline_formulas : forall c s r r',
  D1 c s r = s + r * sec + ext c /\ D2 c s r = s + 2 * r * sec + 2 * ext c /\
  (ext c = 0 \/ ext c = 500 * ms) /\
  D1 c s r - D1 c s (r - 1) = sec /\
  (r < r' -> D1 c s r < D1 c s r' /\ D2 c s r < D2 c s r') /\
  (1 <= r -> D1 c s r < D2 c s r) /\
  (D1 c s r' <= D2 c s r <-> r' <= 2 * r).
Proof. exact eager_deadline_formulas. Qed.
Print Assumptions C04_timer_eager_deadline_formulas.

(* Un-doubled occupancy: a process that enters round r (unseen so far) no later than D1 r and is
   driven by the timer alone enters round r+n+1 exactly at D1 (r+n): an un-doubled round k occupies
   [start+(k-1)*1s+e, start+k*1s+e). *)
Theorem C04_timer_eager_undoubled_occupancy : forall c start, c_kind c = KEager -> duty_start c = Some start ->
  forall n st r t, wf c start st -> fresh_from r st -> t <= D1 c start r ->
  exists st', walk c no_pp (S n) st r t = (st', r + Z.of_nat (S n), D1 c start (r + Z.of_nat n)).
Proof. exact eager_undoubled_occupancy. Qed.
Print Assumptions C04_timer_eager_undoubled_occupancy.

(* Re-alignment: a process whose round r >= 1 is doubled (second request at any instant tq) leaves r
   at D2 r = start + 2r*1s + 2e, passes rounds r+1..2r at that same instant on deadlines that have
   already expired (D1 j <= D2 r), and enters round 2r+1 at D2 r; a process that did not double is
   in round 2r+1 at that instant (since D1 (2r) <= D2 r < D1 (2r+1)); the timer then handed out for
   round 2r+1 has the positive duration 1s - e and the common deadline D1 (2r+1). *)
Theorem C04_timer_eager_realign : forall c start, c_kind c = KEager -> duty_start c = Some start ->
  forall q k st t tq r, r = Z.of_nat k ->
  (1 <= k)%nat -> wf c start st -> fresh_from r st -> t <= D2 c start r ->
  q r = Some tq -> (forall j, r < j -> q j = None) ->
  exists st' st'',
    walk c q (S k) st r t = (st', 2 * r + 1, D2 c start r) /\
    walk c no_pp (S k) st r t = (st'', 2 * r + 1, Z.max t (D1 c start (2 * r))) /\
    Z.max t (D1 c start (2 * r)) <= D2 c start r < D1 c start (2 * r + 1) /\
    undoubled_round_at c start (D2 c start r) = 2 * r + 1 /\
    tstep c st' (2 * r + 1) (D2 c start r)
      = ((2 * r + 1, D1 c start (2 * r + 1)) :: st', sec - ext c) /\ 0 < sec - ext c /\
    (forall j, r < j <= 2 * r -> D1 c start j <= D2 c start r).
Proof. exact eager_realign. Qed.
Print Assumptions C04_timer_eager_realign.

(* [undoubled_round_at] is the round whose un-doubled interval contains t. *)
Theorem C04_timer_undoubled_round_at_spec : forall c s t k,
  D1 c s (k - 1) <= t < D1 c s k <-> undoubled_round_at c s t = k.
Proof. exact undoubled_round_at_spec. Qed.
Print Assumptions C04_timer_undoubled_round_at_spec.

(* The states reached by any call history satisfy the invariant used above. *)
Theorem C04_timer_reachable_wf : forall c start ls st,
  c_kind c = KEager -> duty_start c = Some start -> run c init ls = Some st -> wf c start st.
Proof. exact reachable_wf. Qed.
Print Assumptions C04_timer_reachable_wf.

(* Clamp: the code computes deadline - now without a clamp; a non-positive duration fires at once,
   so the channel fires at max(now, deadline); the duration is positive exactly before the deadline. *)
Theorem C04_timer_clamp : forall now deadline,
  fire_time now (deadline - now) = Z.max now deadline /\ (0 < deadline - now <-> now < deadline).
Proof. exact clamp_facts. Qed.
Print Assumptions C04_timer_clamp.

(* Positivity of the timeouts for rounds >= 1 (all three timers). *)
Theorem C04_timer_timeouts_positive : forall c r, 1 <= r ->
  0 < inc_timeout c r /\ 0 < lin_timeout c r /\ 0 < eager_timeout c r.
Proof. exact timeouts_positive. Qed.
Print Assumptions C04_timer_timeouts_positive.

(* Increasing timer: every request of every history gets 750ms + r*250ms (1.5s in round 1 of a
   proposer duty with proposal_timeout), relative to the instant of the request. *)
Theorem C04_timer_inc_duration : forall c ls st,
  c_kind c = KInc -> run c init ls = Some st ->
  forall pre r now dur fire until post, ls = pre ++ LReq r now dur fire until :: post ->
  dur = (if prop_on c && (r =? 1) then 1500 * ms else 750 * ms + r * (250 * ms)) /\
  fire = expected_fire now dur until.
Proof. exact inc_duration. Qed.
Print Assumptions C04_timer_inc_duration.

(* Linear timer: 1s in round 1 (1.5s for a proposer duty with proposal_timeout), r*200ms afterwards. *)
Theorem C04_timer_linear_duration : forall c ls st,
  c_kind c = KLinear -> run c init ls = Some st ->
  forall pre r now dur fire until post, ls = pre ++ LReq r now dur fire until :: post ->
  dur = (if r =? 1 then (if prop_on c then 1500 * ms else 1000 * ms) else r * (200 * ms)) /\
  fire = expected_fire now dur until.
Proof. exact linear_duration. Qed.
Print Assumptions C04_timer_linear_duration.

(* rotation_time_bound (default timer).  A process driven by its round timer, whatever rounds it
   doubles and whenever ([q] arbitrary), starting at instant t in any reachable timer state, has
   entered round f+2 -- rounds 1..f+1, i.e. f+1 consecutive leaders, are over -- no later than
   max t (start + 2(f+1)*1s + 2e)  <=  max t (start + 2(f+1)*T1),  T1 = timeout of round 1. *)
Theorem C04_timer_rotation_time_bound : forall c start, c_kind c = KEager -> duty_start c = Some start ->
  forall q f st t, wf c start st ->
  let T1 := eager_timeout c 1 in
  let '(_, r', t') := walk c q (S f) st 1 t in
  r' = Z.of_nat f + 2 /\
  t' <= Z.max t (start + 2 * (Z.of_nat f + 1) * sec + 2 * ext c) /\
  t' <= Z.max t (start + 2 * (Z.of_nat f + 1) * T1).
Proof. exact rotation_time_bound_eager. Qed.
Print Assumptions C04_timer_rotation_time_bound.

(* ... and exactly at max t (start + (f+1)*1s + e) when no round is doubled. *)
Theorem C04_timer_rotation_time_exact_undoubled : forall c start, c_kind c = KEager -> duty_start c = Some start ->
  forall f t, exists st', walk c no_pp (S f) init 1 t =
              (st', Z.of_nat f + 2, Z.max t (start + (Z.of_nat f + 1) * sec + ext c)).
Proof. exact rotation_time_exact_eager_undoubled. Qed.
Print Assumptions C04_timer_rotation_time_exact_undoubled.

(* rotation_time_bound, increasing timer (relative timeouts; a justified PRE-PREPARE restarts the
   round's timer once, so a round lasts between 1x and 2x its timeout):
   Sm = e1 + (f+1)*750ms + 125ms*(f+1)(f+2), e1 = 500ms for a proposer duty with proposal_timeout. *)
Theorem C04_timer_rotation_time_bound_inc : forall c q f st t,
  c_kind c = KInc ->
  let T1 := inc_timeout c 1 in
  let Sm := pextra c + (Z.of_nat f + 1) * (750 * ms) + (125 * ms) * ((Z.of_nat f + 1) * (Z.of_nat f + 2)) in
  let '(_, r', t') := walk c q (S f) st 1 t in
  r' = Z.of_nat f + 2 /\ t + Sm <= t' <= t + 2 * Sm /\ ((forall j, q j = None) -> t' = t + Sm) /\
  Sm <= (Z.of_nat f + 1) * T1 + (125 * ms) * (Z.of_nat f * (Z.of_nat f + 1)).
Proof. exact rotation_time_bound_inc. Qed.
Print Assumptions C04_timer_rotation_time_bound_inc.

(* rotation_time_bound, linear timer: Sm = e1 + 1s + 100ms*f(f+3). *)
Theorem C04_timer_rotation_time_bound_linear : forall c q f st t,
  c_kind c = KLinear ->
  let T1 := lin_timeout c 1 in
  let Sm := pextra c + 1000 * ms + (100 * ms) * (Z.of_nat f * (Z.of_nat f + 3)) in
  let '(_, r', t') := walk c q (S f) st 1 t in
  r' = Z.of_nat f + 2 /\ t + Sm <= t' <= t + 2 * Sm /\ ((forall j, q j = None) -> t' = t + Sm) /\
  Sm <= (Z.of_nat f + 1) * T1 + (100 * ms) * (Z.of_nat f * (Z.of_nat f + 1)).
Proof. exact rotation_time_bound_linear. Qed.
Print Assumptions C04_timer_rotation_time_bound_linear.

(* The eager timer built WITHOUT genesis (constructors used by the repo's tests only): deadlines are
   relative to the first request of the round, and therefore not aligned across processes. *)
Theorem C04_timer_eager_deadline_relative : forall c ls st,
  c_kind c = KEager -> duty_start c = None ->
  run c init ls = Some st ->
  forall pre r now dur fire until post, ls = pre ++ LReq r now dur fire until :: post ->
  now + dur = match first_now r pre with
              | None => now + eager_timeout c r
              | Some n0 => n0 + 2 * eager_timeout c r
              end.
Proof. exact eager_deadline_relative. Qed.
Print Assumptions C04_timer_eager_deadline_relative.

Theorem C04_timer_eager_nogenesis_not_absolute :
  exists ls1 ls2 st1 st2 now1 now2 d1 d2 f1 f2 u1 u2,
    run ex_cfg_nogen init ls1 = Some st1 /\ run ex_cfg_nogen init ls2 = Some st2 /\
    ls1 = [LReq 1 now1 d1 f1 u1] /\ ls2 = [LReq 1 now2 d2 f2 u2] /\ now1 + d1 <> now2 + d2.
Proof. exact eager_nogenesis_not_absolute. Qed.
Print Assumptions C04_timer_eager_nogenesis_not_absolute.

(* Non-vacuity: a history with a doubled round, a third request, three expired rounds and the
   re-aligned round 7 is accepted by the model of the default configuration (attester duty, slot 7,
   12 s slots: start = 88 s); and the monitor rejects a doubled deadline computed from the clock. *)
Theorem C04_timer_nonvacuous :
  ((exists st, run ex_cfg_gen init ex_trace_gen = Some st) /\ monitor ex_cfg_gen ex_trace_gen = true
   /\ duty_start ex_cfg_gen = Some (88 * sec)) /\
  monitor ex_cfg_gen [ LReq 3 (90000 * ms) (1000 * ms) None (90200 * ms);
                       LReq 3 (90200 * ms) (3000 * ms) None (90300 * ms) ] = false.
Proof. exact (conj ex_gen_accepted ex_monitor_rejects). Qed.
Print Assumptions C04_timer_nonvacuous.
