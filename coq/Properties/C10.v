(* C10 — Only partial signatures valid for the claimed key share enter a node.
   Only statements here; proofs are in Flow/GateFacts.v, the model is Flow/Gate.v.
   [accepts l = true] says "l is one call of a validator-API handler, or one peer message handled by
   parsigex, as the model allows it to be observed".  The correspondence check establishes that the
   labels recorded from the real validatorapi.Component (secure mode) and the real parsigex handler
   are of that kind.  These are theorems about a decision rule; which endpoints and which field
   alterations are tied to it is reported in the evidence (endpoint x alteration table). *)
From Coq Require Import List ZArith NArith Bool.
From Charon Require Import Flow.Gate Flow.GateFacts.
Import ListNotations.

Theorem C10_monitor : forall ls s, run init ls = Some s -> monitor ls = true.
Proof. exact run_monitor. Qed.
Print Assumptions C10_monitor.

(* Both entrances, every duty type: whatever reaches a subscriber (storage, other peers,
   aggregation hang off the subscribers) was submitted for a validator of the lock, under a share
   index recorded for it (the node's own at the validator API), carries exactly that share's
   signature over the object's own signing root, passed the proposal/selection-proof checks, and
   -- from a peer -- belongs to a duty inside the gater window. *)
Theorem C10_accepted_valid : forall l, accepts l = true ->
  forall call d, In call (l_calls l) -> In d call ->
  d_valid d = true /\
  (match l_ent l with VApi self => d_idx d = self | Peer g _ => gate_ok g = true end) /\
  exists it sh, In it (l_items l) /\ i_who it = Some (d_v d) /\ i_root it = d_root d /\ i_raw it = false /\
    i_prop it = true /\ i_inner it = true /\
    lookup (d_v d) (l_lock l) = Some sh /\ In (d_idx d) sh /\ i_sig it = GSig (d_v d) (d_idx d) (d_root d).
Proof. exact accepted_valid. Qed.
Print Assumptions C10_accepted_valid.

(* The rule: starting from a submission the rule lets in, any change of the signed content, of the
   signing root (domain, fork, epoch), of the share index, of the validator, or of the signature
   (another share's, zero, garbage) is refused.  Injectivity of the signing root is a hypothesis. *)
Theorem C10_alteration_rejected : forall (content : Type) (sroot : content -> N),
  (forall c c', sroot c = sroot c' -> c = c') ->
  forall lock v i c s,
  lets_in lock v i (sroot c) s = true ->
  (forall c', c' <> c -> lets_in lock v i (sroot c') s = false)
  /\ (forall rho, rho <> sroot c -> lets_in lock v i rho s = false)
  /\ (forall j, j <> i -> lets_in lock v j (sroot c) s = false)
  /\ (forall v', v' <> v -> lets_in lock v' i (sroot c) s = false)
  /\ (forall s', s' <> s -> lets_in lock v i (sroot c) s' = false)
  /\ lets_in lock v i (sroot c) GZero = false.
Proof. exact alteration_rejected. Qed.
Print Assumptions C10_alteration_rejected.

Theorem C10_unknown_or_out_of_range_rejected : forall lock v i rho s,
  (lookup v lock = None -> lets_in lock v i rho s = false) /\
  (forall sh, lookup v lock = Some sh -> ~ In i sh -> lets_in lock v i rho s = false).
Proof. exact unknown_or_out_of_range_rejected. Qed.
Print Assumptions C10_unknown_or_out_of_range_rejected.

(* The verifier the code runs agrees with the rule. *)
Theorem C10_verifier_is_rule : forall lock v i raw rho s,
  verify_share lock v i raw rho s = None <-> raw = false /\ lets_in lock v i rho s = true.
Proof. exact verify_share_rule. Qed.
Print Assumptions C10_verifier_is_rule.

(* One bad entry in a peer message (or in a validator-API request): no subscriber receives
   anything of it, and an error is returned. *)
Theorem C10_peer_set_atomic : forall l, accepts l = true ->
  forall it x, In it (l_items l) -> item_outcome (l_lock l) (l_ent l) it = Some x ->
  (forall call, In call (l_calls l) -> call = []) /\ l_err l <> None.
Proof. exact set_atomic. Qed.
Print Assumptions C10_peer_set_atomic.

Theorem C10_peer_gate_closed : forall l g dec, accepts l = true -> l_fault l = false -> l_ent l = Peer g dec -> gate_ok g = false ->
  (forall call, In call (l_calls l) -> call = []) /\ l_err l = Some EGate.
Proof. exact peer_gate_closed. Qed.
Print Assumptions C10_peer_gate_closed.

(* A verification that could not complete (beacon-node lookup failed, timed out or was aborted by the
   caller) lets nothing in, whatever was submitted: the decision under an env fault is Reject. *)
Theorem C10_fault_rejects : forall l, accepts l = true -> l_fault l = true ->
  (forall call, In call (l_calls l) -> call = []) /\ l_err l <> None.
Proof. exact fault_rejects. Qed.
Print Assumptions C10_fault_rejects.

Theorem C10_gate_window : forall g, gate_ok g = true ->
  g_type_valid g = true /\ (g_duty_slot g / g_spe g <= g_now_slot g / g_spe g + g_allowed g)%N.
Proof. exact gate_window. Qed.
Print Assumptions C10_gate_window.
