(* C07 — the partial-signature store triggers aggregation exactly once, on matching shares.
   Only statements here; proofs are in Stores/ParSigDBFacts.v.  [run t init ls = Some s] says "ls
   is a sequence of atomic labels (ABegin / AEntry / AEnd / ATrim; several calls may be open at
   once, so concurrent interleavings are included) that the model of core/parsigdb/memory.go with
   threshold t can produce"; the correspondence check establishes that the label sequences
   recorded from the real MemDB are of that kind.

   Vocabulary.  [mfire s cl e] = the group that entry e of call cl hands to the threshold
   subscribers when processed in state s (None = no trigger).  [fired_in pre c x] = some entry of
   call c fired x at some position of the trace pre.  [outl out] = the map the threshold
   subscribers were called with at an AEnd ([] = not called).  [eroot ty p] = message root of p
   (constant for DutySignature, which has none).  [cnt ty r l] = number of partials of l over
   root r.

   The theorems C07_delivered_iff_fired ... C07_expired_dropped hold for EVERY accepted trace, with
   no assumption on the deadliner or on eviction (exempt duties capped at 10 per share included).
   C07_monitor is the conformance with the eviction-free trace monitor (an entry fires iff it is
   the t-th share ever accepted for its key over its root) and needs the two environment guards. *)
From Coq Require Import List Arith Bool.
From Charon Require Import Stores.ParSigDB Stores.ParSigDBFacts Flow.AppWiringCheck Flow.AppWiringFacts gen.AppWiring.
Import ListNotations.

(* Every trace of the model, in an environment where the deadliner answers Exempt exactly for exit /
   builder-registration duties and never reports those, and where no share exceeds the cap of 10
   exempt entries per validator and duty type, passes the trace monitor that transcribes the
   property. *)
Theorem C07_monitor : forall t ls s,
  run t init ls = Some s -> status_ok ls = true -> no_evict t ls = true -> monitor t ls = true.
Proof. exact run_monitor. Qed.
Print Assumptions C07_monitor.

(* exactly those: what the threshold subscribers get at the end of a call is exactly what the
   entries of this very call fired -- whatever else is in the set, whatever error is returned *)
Theorem C07_delivered_iff_fired : forall t pre c er out il post s,
  run t init (pre ++ AEnd c er out il :: post) = Some s ->
  forall x, In x (outl out) <-> fired_in t pre c x.
Proof. exact delivered_iff_fired. Qed.
Print Assumptions C07_delivered_iff_fired.

(* the bookkeeping of a returning call: all entries processed, subscribers called iff something
   is due, error iff an entry was rejected, internal subscribers iff internal and no error *)
Theorem C07_delivery : forall t pre c er out il post s,
  run t init (pre ++ AEnd c er out il :: post) = Some s ->
  exists s1 cl, run t init pre = Some s1 /\ calls s1 c = Some cl /\ c_open cl = true /\ c_todo cl = [] /\
    (forall x, In x (outl out) <-> In x (c_out cl)) /\ (out = None <-> c_out cl = []) /\
    length (outl out) = length (c_out cl) /\
    (er = ENone <-> c_mis cl = false /\ c_oth cl = false) /\
    (er = EMismatch -> c_mis cl = true) /\ (er = EOther -> c_oth cl = true) /\
    il = (c_int cl && is_enone er).
Proof. exact delivery. Qed.
Print Assumptions C07_delivery.

Theorem C07_one_delivery_per_validator_in_a_call : forall t pre c er o il post s,
  run t init (pre ++ AEnd c er (Some o) il :: post) = Some s -> NoDup (map opk o).
Proof. exact delivery_one_per_validator. Qed.
Print Assumptions C07_one_delivery_per_validator_in_a_call.

(* never fewer, never mixed roots, never a repeated share: an entry fires iff no partial of its
   share is stored for its key and the partials stored for the key over its root, itself
   included, are exactly t; it hands over exactly that group *)
Theorem C07_fires_iff : forall t s cl pk sub p x,
  mfire t s cl (EGood pk sub p) = Some x <->
  classify p (ent s (ekey_of cl pk sub)) = VNew /\
  length (group (dtype (c_duty cl)) p (ent s (ekey_of cl pk sub) ++ [p])) = t /\
  x = (pk, sub, group (dtype (c_duty cl)) p (ent s (ekey_of cl pk sub) ++ [p])).
Proof. exact mfire_iff. Qed.
Print Assumptions C07_fires_iff.

Theorem C07_fired_group : forall t pre s cl pk sub p g,
  run t init pre = Some s -> mfire t s cl (EGood pk sub p) = Some (pk, sub, g) ->
  length g = t /\ NoDup (map share g) /\ In p g /\
  (forall q, In q g <-> In q (ent s (ekey_of cl pk sub) ++ [p]) /\ eroot (dtype (c_duty cl)) q = eroot (dtype (c_duty cl)) p) /\
  (forall q, In q (ent s (ekey_of cl pk sub)) -> share q <> share p).
Proof. exact fired_group. Qed.
Print Assumptions C07_fired_group.

(* at most once: two firings for one (duty, validator, subcommittee) without a trim of the duty in
   between are over different roots, and then the key holds at least 2t distinct shares *)
Theorem C07_at_most_once : forall t l1 s1 c1 cl1 pk sub p1 x1 s1' l2 s2 c2 cl2 p2 x2,
  run t init l1 = Some s1 -> calls s1 c1 = Some cl1 -> mfire t s1 cl1 (EGood pk sub p1) = Some x1 ->
  step t s1 (AEntry c1 (EGood pk sub p1)) = Some s1' -> run t s1' l2 = Some s2 ->
  calls s2 c2 = Some cl2 -> c_duty cl2 = c_duty cl1 -> mfire t s2 cl2 (EGood pk sub p2) = Some x2 ->
  ~ In (ATrim (c_duty cl1)) l2 ->
  eroot (dtype (c_duty cl1)) p1 <> eroot (dtype (c_duty cl1)) p2 /\
  (forall S, (forall q, In q (ent s2 (ekey_of cl2 pk sub) ++ [p2]) -> In (share q) S) -> 2 * t <= length S).
Proof. exact at_most_once. Qed.
Print Assumptions C07_at_most_once.

(* the same on observable labels only: the threshold subscribers are never called twice for one
   (duty, validator, subcommittee) over the same root unless the duty was trimmed in between; if
   all share indices of the history lie in a set of n < 2t values (clusters have t = ceil(2n/3)),
   they are never called twice for it at all *)
Theorem C07_no_double_delivery : forall t ls s q1 c1 er1 o1 il1 q2 c2 er2 o2 il2 q3 pk sub g1 g2 d,
  run t init ls = Some s ->
  ls = q1 ++ AEnd c1 er1 (Some o1) il1 :: q2 ++ AEnd c2 er2 (Some o2) il2 :: q3 ->
  In (pk, sub, g1) o1 -> In (pk, sub, g2) o2 ->
  duty_of ls c1 = Some d -> duty_of ls c2 = Some d -> ~ In (ATrim d) ls ->
  (forall x y, In x g1 -> In y g2 -> eroot (dtype d) x <> eroot (dtype d) y) /\
  (forall S, shares_within ls S -> 2 * t <= length S).
Proof. exact no_double_delivery. Qed.
Print Assumptions C07_no_double_delivery.

(* at least once, as soon as: whenever t or more partials over one root are stored for a key, an
   entry over that root has fired for the key since the last trim of its duty *)
Theorem C07_stored_threshold_fired : forall t pre s k r, 1 <= t ->
  run t init pre = Some s -> status_ok pre = true ->
  t <= cnt (dtype (kduty k)) r (ent s k) ->
  exists p1 c pk sub p p2 s0 cl x,
    pre = p1 ++ AEntry c (EGood pk sub p) :: p2 /\ run t init p1 = Some s0 /\ calls s0 c = Some cl /\
    ekey_of cl pk sub = k /\ eroot (dtype (kduty k)) p = r /\ mfire t s0 cl (EGood pk sub p) = Some x /\
    ~ In (ATrim (kduty k)) p2.
Proof. exact stored_threshold_fired. Qed.
Print Assumptions C07_stored_threshold_fired.

(* duplicates are ignored *)
Theorem C07_duplicates_ignored : forall t s c pk sub p s' cl,
  step t s (AEntry c (EGood pk sub p)) = Some s' -> calls s c = Some cl ->
  classify p (ent s (ekey_of cl pk sub)) = VDup ->
  ent s' = ent s /\ kbd s' = kbd s /\ exm s' = exm s /\
  calls s' = updc (calls s) c (Some (took cl (EGood pk sub p))).
Proof. exact dup_ignored. Qed.
Print Assumptions C07_duplicates_ignored.

(* a share that signs different data for the same key is rejected without disturbing what is
   stored, and the call that contained it returns an error *)
Theorem C07_reject_preserves_state : forall t s c pk sub p s' cl,
  step t s (AEntry c (EGood pk sub p)) = Some s' -> calls s c = Some cl ->
  classify p (ent s (ekey_of cl pk sub)) = VMismatch ->
  ent s' = ent s /\ kbd s' = kbd s /\ exm s' = exm s /\
  calls s' = updc (calls s) c (Some (set_mis false (took cl (EGood pk sub p)))).
Proof. exact reject_preserves_state. Qed.
Print Assumptions C07_reject_preserves_state.

Theorem C07_reject_reported : forall t p1 c pk sub p p2 er out il p3 s s0 cl,
  run t init (p1 ++ AEntry c (EGood pk sub p) :: p2 ++ AEnd c er out il :: p3) = Some s ->
  run t init p1 = Some s0 -> calls s0 c = Some cl ->
  classify p (ent s0 (ekey_of cl pk sub)) = VMismatch -> er <> ENone.
Proof. exact reject_reported. Qed.
Print Assumptions C07_reject_reported.

(* what "same share, same / different data" means, given that stored shares are distinct *)
Theorem C07_classify_spec : forall p l, NoDup (map share l) ->
  (classify p l = VDup <-> exists q, In q l /\ share q = share p /\ pid q = pid p) /\
  (classify p l = VMismatch <-> exists q, In q l /\ share q = share p /\ pid q <> pid p) /\
  (classify p l = VNew <-> forall q, In q l -> share q <> share p).
Proof. exact classify_spec. Qed.
Print Assumptions C07_classify_spec.

(* batch independence: an entry for another validator leaves every key of this validator
   untouched, and whether an entry fires depends on the stored entry of its own key only; with
   C07_delivered_iff_fired: a rejected entry or other validators in the same set neither prevent
   nor duplicate the trigger of a validator that reached the threshold *)
Theorem C07_other_validator_untouched : forall t pre s c e s' k,
  run t init pre = Some s -> step t s (AEntry c e) = Some s' -> kpk k <> epk e -> ent s' k = ent s k.
Proof. exact other_validator_untouched. Qed.
Print Assumptions C07_other_validator_untouched.

Theorem C07_fire_reads_own_key : forall t s s' cl pk sub p,
  ent s (ekey_of cl pk sub) = ent s' (ekey_of cl pk sub) ->
  mfire t s cl (EGood pk sub p) = mfire t s' cl (EGood pk sub p).
Proof. exact mfire_reads_own_key. Qed.
Print Assumptions C07_fire_reads_own_key.

(* a set for an expired duty is dropped with a nil error: none of its entries is processed, nothing
   is stored, the threshold subscribers are not called *)
Theorem C07_expired_dropped : forall t p1 c i d b p2 s,
  run t init (p1 ++ ABegin c i d Expired b :: p2) = Some s ->
  (forall e, ~ In (AEntry c e) p2) /\
  (forall er out il, In (AEnd c er out il) p2 -> er = ENone /\ out = None /\ il = i) /\
  (exists s0 s1, run t init p1 = Some s0 /\ step t s0 (ABegin c i d Expired b) = Some s1 /\
                 ent s1 = ent s0 /\ kbd s1 = kbd s0 /\ exm s1 = exm s0).
Proof. exact expired_dropped. Qed.
Print Assumptions C07_expired_dropped.

(* The code before the repairs admits traces that violate the property (and the model of the
   repaired code refuses them). *)
Theorem C07_dup_trigger_refuted_before_fix :
  (exists s, run_gen 3 true false init f1a_trace = Some s) /\
  status_ok f1a_trace = true /\ no_evict 3 f1a_trace = true /\ monitor 3 f1a_trace = false /\
  run 3 init f1a_trace = None.
Proof. exact dup_trigger_refuted_before_fix. Qed.
Print Assumptions C07_dup_trigger_refuted_before_fix.

Theorem C07_batch_loss_refuted_before_fix :
  (exists s, run_gen 2 true false init f1b_trace = Some s) /\
  status_ok f1b_trace = true /\ no_evict 2 f1b_trace = true /\ monitor 2 f1b_trace = false /\
  run 2 init f1b_trace = None.
Proof. exact batch_loss_refuted_before_fix. Qed.
Print Assumptions C07_batch_loss_refuted_before_fix.

(* f1c_trace = f1c_q1 ++ AEnd 2 _ (Some f1c_out) _ :: f1c_q2 ++ [AEnd 13 _ (Some f1c_out) _]: the same
   group delivered twice for duty (0, exit), no trim -- the negation of C07_no_double_delivery *)
Theorem C07_exempt_evict_refire_refuted_before_fix :
  (exists s, run_gen 2 false true init f1c_trace = Some s) /\
  status_ok f1c_trace = true /\
  duty_of f1c_trace 2 = Some (0, 4) /\ duty_of f1c_trace 13 = Some (0, 4) /\
  forallb (fun l => match l with ATrim _ => false | _ => true end) f1c_trace = true /\
  run 2 init f1c_trace = None.
Proof. exact exempt_evict_refire_refuted_before_fix. Qed.
Print Assumptions C07_exempt_evict_refire_refuted_before_fix.

(* Non-vacuity. *)
Theorem C07_nonvacuous :
  (exists s, run 3 init ex_trace = Some s) /\ status_ok ex_trace = true /\ no_evict 3 ex_trace = true /\
  monitor 3 ex_trace = true.
Proof. exact ex_trace_accepted. Qed.
Print Assumptions C07_nonvacuous.

(* The threshold the node hands to this store is the aggregator's threshold, lock.Threshold (app/app.go
   wireCoreWorkflow, regenerated from the source on every run by translator/appwire). *)
Theorem C07_app_threshold : threshold_check app_defs = true.
Proof. exact app_threshold_ok. Qed.
Print Assumptions C07_app_threshold.
