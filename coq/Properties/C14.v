(* C14 — Duty data encoding is lossless, deterministic and total.
   Only statements here; models in Codec/Envelope.v, proofs in Codec/EnvelopeFacts.v.

   What is a theorem here: the byte-level SSZ envelopes that core/ssz.go writes by hand around the
   go-eth2-client codecs (shapes B, V, I, the VersionedAttestation fallback, AttestationData (A) and the
   attester-duty record (D)), core/proto.go's unmarshal rule and type-directed dispatch, and the
   order-independence of key-sorted set marshalling.  The inner codecs, JSON and protobuf are
   parameters (their round-trip is assumed where needed and tested by the harness).
   What is NOT a theorem: absence of panics when a decoded value is used afterwards (MessageRoot,
   Clone, store, re-encode).  That half of the property is explored by harness/codec and is
   reported as exploration. *)
From Coq Require Import List NArith Bool Permutation.
From Charon Require Import Codec.Envelope Codec.EnvelopeFacts.
Import ListNotations.
Local Open Scope N_scope.

(* ---- lossless: decode (encode v) = v, under exactly the guards Go has ------------------------- *)

(* VersionedSignedProposal / VersionedProposal: known version; any payload on which the inner codec
   round-trips; no bound on the payload length (the offset written is the constant 13). *)
Theorem C14_envelope_roundtrip_B :
  forall (payload : Type) (ienc : N -> bool -> payload -> bytes) (idec : N -> bool -> bytes -> ires payload)
         ver bl p,
  ver < nver -> idec ver bl (ienc ver bl p) = IOk p ->
  exists b, encB payload ienc (ver, bl, p) = Some b /\ decB payload idec b = Ok (ver, bl, p).
Proof. exact B_roundtrip. Qed.
Print Assumptions C14_envelope_roundtrip_B.

(* VersionedSignedAggregateAndProof / VersionedAggregatedAttestation *)
Theorem C14_envelope_roundtrip_V :
  forall (payload : Type) (ienc : N -> payload -> bytes) (idec : N -> bytes -> ires payload) ver p,
  ver < nver -> idec ver (ienc ver p) = IOk p ->
  exists b, encV payload ienc (ver, p) = Some b /\ decV payload idec b = Ok (ver, p).
Proof. exact V_roundtrip. Qed.
Print Assumptions C14_envelope_roundtrip_V.

(* VersionedAttestation carrying a validator index (< 2^64); [pre] = true is the fallback rule before
   commit dd3af90, false the current one *)
Theorem C14_envelope_roundtrip_Att :
  forall (payload : Type) (ienc : N -> payload -> bytes) (idec : N -> bytes -> ires payload) pre ver idx p,
  ver < nver -> idx < 2 ^ 64 -> idec ver (ienc ver p) = IOk p ->
  exists b, encAtt payload ienc (ver, Some idx, p) = Some b /\ decAtt payload idec pre b = Ok (ver, Some idx, p).
Proof. exact Att_roundtrip_idx. Qed.
Print Assumptions C14_envelope_roundtrip_Att.

(* VersionedAttestation without validator index (legacy wire form), current rule (legacy reading on any
   failure of the indexed reading): the round trip holds whenever the indexed reading of the legacy
   bytes does not succeed ... *)
Theorem C14_envelope_roundtrip_Att_legacy :
  forall (payload : Type) (ienc : N -> payload -> bytes) (idec : N -> bytes -> ires payload) ver p b,
  ver < nver -> idec ver (ienc ver p) = IOk p ->
  encAtt payload ienc (ver, None, p) = Some b ->
  (forall r, decI payload idec b <> Ok r) ->
  decAtt payload idec false b = Ok (ver, None, p).
Proof. exact Att_roundtrip_noidx. Qed.
Print Assumptions C14_envelope_roundtrip_Att_legacy.

(* ... in particular when bytes 4..8 of the inner encoding (the low half of data.slot) do not read 20
   (this guard is enough under both rules), *)
Theorem C14_envelope_roundtrip_Att_legacy_slot :
  forall (payload : Type) (ienc : N -> payload -> bytes) (idec : N -> bytes -> ires payload) pre ver p b,
  ver < nver -> idec ver (ienc ver p) = IOk p ->
  encAtt payload ienc (ver, None, p) = Some b ->
  (8 <= length (ienc ver p))%nat ->
  (forall s, slice (ienc ver p) 4 8 = Some s -> le_dec s <> 20) ->
  decAtt payload idec pre b = Ok (ver, None, p).
Proof. exact Att_roundtrip_noidx_slot. Qed.
Print Assumptions C14_envelope_roundtrip_Att_legacy_slot.

(* or when the inner decoder refuses what the indexed reading hands it (the bytes from 20 on). *)
Theorem C14_envelope_roundtrip_Att_legacy_shift :
  forall (payload : Type) (ienc : N -> payload -> bytes) (idec : N -> bytes -> ires payload) ver p b,
  ver < nver -> idec ver (ienc ver p) = IOk p ->
  encAtt payload ienc (ver, None, p) = Some b ->
  (forall sfx q, slice b 20 (length b) = Some sfx -> idec ver sfx <> IOk q) ->
  decAtt payload idec false b = Ok (ver, None, p).
Proof. exact Att_roundtrip_noidx_shift. Qed.
Print Assumptions C14_envelope_roundtrip_Att_legacy_shift.

(* The guard is exact: when the indexed reading succeeds, the value returned carries a validator index,
   so it is not the encoded one. *)
Theorem C14_envelope_Att_legacy_misdecoded :
  forall (payload : Type) (idec : N -> bytes -> ires payload) pre b ver idx q,
  decI payload idec b = Ok (ver, idx, q) -> decAtt payload idec pre b = Ok (ver, Some idx, q).
Proof. exact Att_noidx_misdecoded. Qed.
Print Assumptions C14_envelope_Att_legacy_misdecoded.

(* Before the repair (fallback only on an offset error) a value whose indexed reading fails in the
   inner decoder was refused; the current rule decodes it (witness). *)
Theorem C14_envelope_roundtrip_Att_legacy_refuted_before_fix :
  legacy_dec 4 (id_enc1 4 legacy_payload) = IOk legacy_payload /\
  exists b, encAtt bytes id_enc1 (4, None, legacy_payload) = Some b /\
            decAtt bytes legacy_dec true b = Err (EInner false) /\
            decAtt bytes legacy_dec false b = Ok (4, None, legacy_payload).
Proof. exact Att_legacy_roundtrip_refuted_before_fix. Qed.
Print Assumptions C14_envelope_roundtrip_Att_legacy_refuted_before_fix.

(* What remains, and cannot be repaired without changing the wire format: the unguarded statement is
   false, because a legacy encoding can be, byte for byte, the indexed encoding of another value
   (witness; on the real types data.slot = 228 * 2^32 + 20 with >= 9 bytes of aggregation bits). *)
Theorem C14_envelope_roundtrip_Att_legacy_refuted_ambiguous :
  legacy_dec 4 (id_enc1 4 ambiguous_payload) = IOk ambiguous_payload /\
  exists b, encAtt bytes id_enc1 (4, None, ambiguous_payload) = Some b /\
            decAtt bytes legacy_dec false b = Ok (4, Some (12 + 228 * 2 ^ 32), [228;0;0;0; 1;2;3]) /\
            encAtt bytes id_enc1 (4, Some (12 + 228 * 2 ^ 32), [228;0;0;0; 1;2;3]) = Some b.
Proof. exact Att_legacy_roundtrip_refuted_ambiguous. Qed.
Print Assumptions C14_envelope_roundtrip_Att_legacy_refuted_ambiguous.

(* AttestationData and its attester-duty record *)
Theorem C14_envelope_roundtrip_A :
  forall (data : Type) (denc : data -> bytes) (ddec : bytes -> ires data) d u,
  duty_ok u -> 8 + N.of_nat (length (denc d)) < 2 ^ 32 -> ddec (denc d) = IOk d ->
  decA data ddec (encA data denc (d, u)) = Ok (d, u).
Proof. exact A_roundtrip. Qed.
Print Assumptions C14_envelope_roundtrip_A.

Theorem C14_envelope_roundtrip_D : forall u, duty_ok u -> decD (encD u) = Ok u.
Proof. exact D_roundtrip. Qed.
Print Assumptions C14_envelope_roundtrip_D.

(* ---- total: every byte string is decoded or refused; no slice expression is out of range ------- *)
Theorem C14_envelope_decode_total :
  (forall P idec b, decB P idec b <> Panic) /\
  (forall P idec b, decV P idec b <> Panic) /\
  (forall P idec b, decI P idec b <> Panic) /\
  (forall P idec pre b, decAtt P idec pre b <> Panic) /\
  (forall D ddec b, decA D ddec b <> Panic) /\
  (forall b, decD b <> Panic).
Proof.
  exact (conj B_total (conj V_total (conj I_total (conj Att_total (conj A_total D_total))))).
Qed.
Print Assumptions C14_envelope_decode_total.

(* ---- canonical form ----------------------------------------------------------------------- *)
(* Shape I accepts only its own encodings (inner codec canonical). *)
Theorem C14_decode_encode_canonical_I :
  forall (payload : Type) (ienc : N -> payload -> bytes) (idec : N -> bytes -> ires payload) b ver idx p,
  wf b -> (forall pb, idec ver pb = IOk p -> ienc ver p = pb) ->
  decI payload idec b = Ok (ver, idx, p) -> encI payload ienc (ver, idx, p) = Some b.
Proof. exact I_canonical. Qed.
Print Assumptions C14_decode_encode_canonical_I.

(* Shapes B and V accept exactly one encoding per value among the inputs whose offset field is the
   fixed size (and, for B, whose flag byte is 0 or 1) ... *)
Theorem C14_decode_encode_canonical_B :
  forall (payload : Type) (ienc : N -> bool -> payload -> bytes) (idec : N -> bool -> bytes -> ires payload)
         b ver bl p,
  wf b -> (forall pb, idec ver bl pb = IOk p -> ienc ver bl p = pb) ->
  decB payload idec b = Ok (ver, bl, p) ->
  offset_of 1 b = Some 13 -> (exists x, slice b 8 9 = Some [x] /\ x <= 1) ->
  encB payload ienc (ver, bl, p) = Some b.
Proof. exact B_canonical. Qed.
Print Assumptions C14_decode_encode_canonical_B.

Theorem C14_decode_encode_canonical_V :
  forall (payload : Type) (ienc : N -> payload -> bytes) (idec : N -> bytes -> ires payload) b ver p,
  wf b -> (forall pb, idec ver pb = IOk p -> ienc ver p = pb) ->
  decV payload idec b = Ok (ver, p) -> offset_of 0 b = Some 12 ->
  encV payload ienc (ver, p) = Some b.
Proof. exact V_canonical. Qed.
Print Assumptions C14_decode_encode_canonical_V.

(* ... but they also accept other inputs (larger offset with ignored gap bytes, flag byte 2..255;
   trailing bytes after the duty record): decode b = Some v -> encode v = b is false for them. *)
Theorem C14_decode_encode_canonical_refuted :
  (wf nc_B /\ decB bytes id_dec2 nc_B = Ok (4, false, [7;7;7]) /\ encB bytes id_enc2 (4, false, [7;7;7]) <> Some nc_B) /\
  (wf nc_V /\ decV bytes id_dec1 nc_V = Ok (5, [7;7;7]) /\ encV bytes id_enc1 (5, [7;7;7]) <> Some nc_V) /\
  (decD (encD nc_duty ++ [9]) = Ok nc_duty /\ encD nc_duty <> encD nc_duty ++ [9]).
Proof. exact (conj B_noncanonical_accepted (conj V_noncanonical_accepted D_noncanonical_accepted)). Qed.
Print Assumptions C14_decode_encode_canonical_refuted.

(* ---- unmarshal: SSZ first; JSON only for types without SSZ, or after SSZ failed on an input that
        starts (after white space) with '{' ---------------------------------------------------- *)
Theorem C14_unmarshal_rule :
  forall T (f j : bytes -> option T) b,
  (forall v, f b = Some v -> unmarshal T (Some f) j b = Some v) /\
  (f b = None -> json_prefix b = false -> unmarshal T (Some f) j b = None) /\
  (f b = None -> json_prefix b = true -> unmarshal T (Some f) j b = j b) /\
  unmarshal T None j b = j b.
Proof.
  intros T f j b.
  exact (conj (fun v => unmarshal_ssz_first T f j b v)
        (conj (unmarshal_json_only_with_prefix T f j b)
        (conj (unmarshal_json_fallback T f j b) (unmarshal_no_ssz T j b)))).
Qed.
Print Assumptions C14_unmarshal_rule.

(* ---- dispatch_total: for every duty type and every byte string the type-directed decoding gives an
        error or a value of a Go type that belongs to the duty type, produced by that type's decoder;
        it gives an error only when every candidate type refuses the input ------------------------ *)
Theorem C14_dispatch_total_signed :
  forall V (sdec : stype -> bytes -> option V) d b,
  match sdispatch V sdec d b with
  | Some (t, v) => In t (sallowed d) /\ sdec t b = Some v
  | None => forall t, In t (sallowed d) -> sdec t b = None
  end.
Proof. exact sdispatch_total. Qed.
Print Assumptions C14_dispatch_total_signed.

Theorem C14_dispatch_total_unsigned :
  forall V (udec : utype -> bytes -> option V) d b,
  match udispatch V udec d b with
  | Some (t, v) => In t (uallowed d) /\ udec t b = Some v
  | None => forall t, In t (uallowed d) -> udec t b = None
  end.
Proof. exact udispatch_total. Qed.
Print Assumptions C14_dispatch_total_unsigned.

(* The decoders validate after the dispatch (commit 83a4e02): they return only usable values. *)
Theorem C14_dispatch_validated_usable :
  forall V (sdec : stype -> bytes -> option V) (usable : V -> bool) d b t v,
  validated V usable (sdispatch V sdec d b) = Some (t, v) ->
  In t (sallowed d) /\ sdec t b = Some v /\ usable v = true.
Proof.
  intros V sdec usable d b t v H.
  exact (match validated_usable V usable _ t v H with
         | conj H1 H2 => match sdispatch_sound V sdec d b t v H1 with conj A B => conj A (conj B H2) end
         end).
Qed.
Print Assumptions C14_dispatch_validated_usable.

Theorem C14_dispatch_validated_usable_unsigned :
  forall V (udec : utype -> bytes -> option V) (usable : V -> bool) d b t v,
  validated V usable (udispatch V udec d b) = Some (t, v) ->
  In t (uallowed d) /\ udec t b = Some v /\ usable v = true.
Proof.
  intros V udec usable d b t v H.
  exact (match validated_usable V usable _ t v H with
         | conj H1 H2 => match udispatch_sound V udec d b t v H1 with conj A B => conj A (conj B H2) end
         end).
Qed.
Print Assumptions C14_dispatch_validated_usable_unsigned.

(* Use of a decoded partial signature by the receive path (parsigex.NewEth2Verifier): value-or-error.
   The only value the decoder can produce that is not a core.Eth2SignedData is a core.Signature under
   DutySignature; the model refuses it with an error, all others go on to VerifyEth2SignedData. *)
Theorem C14_verifier_use_not_eth2 :
  forall V (sdec : stype -> bytes -> option V) d b t v,
  sdispatch V sdec d b = Some (t, v) -> verifier_use t = VNotEth2 -> d = DSignature /\ t = TSignature.
Proof. exact not_eth2_only_signature. Qed.
Print Assumptions C14_verifier_use_not_eth2.

(* ---- deterministic: encoding is a function of the value; for sets, of the map and not of the order
        in which Go's map iteration lists it, hence equal sets give equal consensus hashes -------- *)
Theorem C14_encode_deterministic :
  forall (payload : Type) (ienc : N -> bool -> payload -> bytes) v1 v2,
  v1 = v2 -> encB payload ienc v1 = encB payload ienc v2.
Proof. intros payload ienc v1 v2 H. exact (f_equal (encB payload ienc) H). Qed.
Print Assumptions C14_encode_deterministic.

Theorem C14_hash_set_order_independent :
  forall (key : Type) (kleb : key -> key -> bool) (entry : key -> bytes -> bytes),
  (forall a b, kleb a b = true \/ kleb b a = true) ->
  (forall a b c, kleb a b = true -> kleb b c = true -> kleb a c = true) ->
  (forall a b, kleb a b = true -> kleb b a = true -> a = b) ->
  forall (H : Type) (hash : bytes -> H) (l1 l2 : list (key * bytes)),
  NoDup (map fst l1) -> NoDup (map fst l2) -> (forall e, In e l1 <-> In e l2) ->
  hash (enc_set key kleb entry l1) = hash (enc_set key kleb entry l2).
Proof. exact hash_set_same_map. Qed.
Print Assumptions C14_hash_set_order_independent.
