(* C20 — Duties cache answers exactly what the beacon node would answer.
   Only statements here; proofs are in Flow/CacheFacts.v, the model (app/eth2wrap/cache.go, DutiesCache)
   in Flow/Cache.v.  [run asg metaf (init_with act) ls = Some s] says "ls is a label sequence the model
   can produce, starting from a cache created with active indices act"; the correspondence check
   establishes that the label sequences recorded from the Go code are of that kind.

   asg k ep g  : the duty assignment of kind k, epoch ep at epoch generation g (any function: validators
                 with none or several duties); the beacon node answers  bn asg k ep S g = the duties in
                 asg k ep g of the validators in S.  Epoch generation of ep = number of reorgs so far that
                 went back to an epoch < ep  (egen (reorgs_after [] prefix) ep).
   sets_only_from act ls : every request names an explicit index SET (no index twice; an empty list
                 stands for the active set, which then has no repeats).
   A call is  LLookup c k ep idxs obs ... LReturn c res m  with no other LLookup/LReturn/LFetchErr of c
   in between (no_close). *)
From Coq Require Import List NArith Bool Permutation.
From Charon Require Import Flow.Cache Flow.CacheFacts.
Import ListNotations.

(* Every trace of the model over index sets passes the answer monitor (transcription of "what is
   returned is the beacon node's answer of a generation not older than the last completed invalidation"). *)
Theorem C20_monitor_answers : forall asg metaf act ls s,
  run asg metaf (init_with act) ls = Some s -> sets_only_from act ls = true ->
  monitor_from asg metaf (ginit_with act) ls = true.
Proof. exact run_monitor_ans. Qed.
Print Assumptions C20_monitor_answers.

(* Every trace of the model passes the refetch monitor. *)
Theorem C20_monitor_fresh : forall asg metaf act ls s,
  run asg metaf (init_with act) ls = Some s -> fmonitor_from (finit_with act) ls = true.
Proof. exact run_monitor_fresh. Qed.
Print Assumptions C20_monitor_fresh.

(* Histories without overlapping calls (and with InvalidateCache run right after each reorg): every
   answer is, as a multiset, the beacon node's answer for the request under the chain generation
   current at the call; metadata equal. Covers misses, full hits, partial hits (amend), validators
   with zero or several duties, repeated / overlapping / disjoint index sets, the empty list (= active
   set), trims, invalidations, failed beacon calls, all three duty kinds. *)
Theorem C20_sequential_equals_bn : forall asg metaf act ls s,
  run asg metaf (init_with act) ls = Some s -> sets_only_from act ls = true -> sequential ls = true ->
  forall pre c k ep idxs obs mid res m post,
  ls = pre ++ LLookup c k ep idxs obs :: mid ++ LReturn c res m :: post -> no_close c mid = true ->
  let g := egen (reorgs_after [] pre) ep in
  Permutation res (bn asg k ep (resolve (active_after act pre) idxs) g) /\ m = metaf k ep g.
Proof. exact sequential_equals_bn. Qed.
Print Assumptions C20_sequential_equals_bn.

(* The same conclusion for ANY interleaving with other calls, stores, trims and invalidations, as long
   as no reorg of the call's epoch is pending at its lookup or happens during it. *)
Theorem C20_answers_equal_bn : forall asg metaf act ls s,
  run asg metaf (init_with act) ls = Some s -> sets_only_from act ls = true ->
  forall pre c k ep idxs obs mid res m post,
  ls = pre ++ LLookup c k ep idxs obs :: mid ++ LReturn c res m :: post -> no_close c mid = true ->
  floor_after act pre k ep = egen (reorgs_after [] (pre ++ LLookup c k ep idxs obs :: mid)) ep ->
  let g := egen (reorgs_after [] pre) ep in
  Permutation res (bn asg k ep (resolve (active_after act pre) idxs) g) /\ m = metaf k ep g.
Proof. exact answers_equal_bn. Qed.
Print Assumptions C20_answers_equal_bn.

(* Concurrent callers, reorgs and invalidations interleaved arbitrarily: whatever a call returns
   consists, per requested validator, of exactly the beacon node's duties of that validator at one
   epoch generation between the last invalidation completed before the call's lookup and the chain at
   the return. (A call overlapping a reorg may thus return the old or the new duties, per validator.) *)
Theorem C20_answer_window : forall asg metaf act ls s,
  run asg metaf (init_with act) ls = Some s -> sets_only_from act ls = true ->
  forall pre c k ep idxs obs mid res m post,
  ls = pre ++ LLookup c k ep idxs obs :: mid ++ LReturn c res m :: post -> no_close c mid = true ->
  let S := resolve (active_after act pre) idxs in
  let lo := floor_after act pre k ep in
  let hi := egen (reorgs_after [] (pre ++ LLookup c k ep idxs obs :: mid)) ep in
  (forall d, In d res -> In (vidx d) S) /\
  (forall i, In i S -> exists g, lo <= g <= hi /\ of_val i res = of_val i (asg k ep g)) /\
  (exists g, lo <= g <= hi /\ m = metaf k ep g).
Proof. exact answer_window. Qed.
Print Assumptions C20_answer_window.

(* A call that starts after InvalidateCache(e0) completed for its kind never returns duties or metadata of
   an epoch > e0 from a generation older than the one current when the invalidation ran. *)
Theorem C20_concurrent_no_stale : forall asg metaf act ls s,
  run asg metaf (init_with act) ls = Some s -> sets_only_from act ls = true ->
  forall pre0 k e0 pre1 c ep idxs obs mid res m post,
  ls = pre0 ++ LInvalidate k e0 :: pre1 ++ LLookup c k ep idxs obs :: mid ++ LReturn c res m :: post ->
  N.lt e0 ep -> no_close c mid = true ->
  let G := egen (reorgs_after [] pre0) ep in
  (forall i, In i (resolve (active_after act (pre0 ++ LInvalidate k e0 :: pre1)) idxs) ->
             exists g, G <= g /\ of_val i res = of_val i (asg k ep g)) /\
  (exists g, G <= g /\ m = metaf k ep g).
Proof. exact concurrent_no_stale. Qed.
Print Assumptions C20_concurrent_no_stale.

(* After a reorg invalidation the affected epochs are fetched afresh: the first lookup of an epoch > e0
   after LInvalidate k e0 asks the beacon node for all requested indices, under every interleaving. *)
Theorem C20_invalidate_refetches : forall asg metaf act ls s,
  run asg metaf (init_with act) ls = Some s ->
  forall pre k e0 mid c ep idxs obs post,
  ls = pre ++ LInvalidate k e0 :: mid ++ LLookup c k ep idxs obs :: post ->
  N.lt e0 ep -> no_lookup k ep mid = true ->
  obs = Some (resolve (active_after act (pre ++ LInvalidate k e0 :: mid)) idxs).
Proof. exact invalidate_refetches. Qed.
Print Assumptions C20_invalidate_refetches.

(* After Trim(e), e >= 3, the epochs < e - 3 are fetched afresh, unless a call on such an epoch was in
   flight (between lookup and store) when the trim ran. *)
Theorem C20_trim_refetches : forall asg metaf act ls s,
  run asg metaf (init_with act) ls = Some s ->
  forall pre k e mid c ep idxs obs post,
  ls = pre ++ LTrim k e :: mid ++ LLookup c k ep idxs obs :: post ->
  N.le trim_threshold e -> N.lt ep (e - trim_threshold) ->
  open_on k ep (in_flight_after act pre) = false -> no_lookup k ep mid = true ->
  obs = Some (resolve (active_after act (pre ++ LTrim k e :: mid)) idxs).
Proof. exact trim_refetches. Qed.
Print Assumptions C20_trim_refetches.

(* The cache content: duties of requested validators only, per requested validator the beacon node's
   duties at one generation in the window; the beacon node's answer for requestedIdxs when no reorg is pending. *)
Theorem C20_requested_subset_invariant : forall asg metaf act ls s,
  run asg metaf (init_with act) ls = Some s -> sets_only_from act ls = true ->
  forall k ep en, k_map (ks s k) ep = Some en ->
  let lo := floor_after act ls k ep in
  let hi := egen (reorgs_after [] ls) ep in
  (forall d, In d (e_duties en) -> In (vidx d) (e_req en)) /\
  (forall i, In i (e_req en) -> exists g, lo <= g <= hi /\ of_val i (e_duties en) = of_val i (asg k ep g)) /\
  (exists g, lo <= g <= hi /\ e_meta en = metaf k ep g) /\
  (lo = hi -> Permutation (e_duties en) (bn asg k ep (e_req en) hi) /\ e_meta en = metaf k ep hi).
Proof. exact requested_subset_invariant. Qed.
Print Assumptions C20_requested_subset_invariant.

(* Non-vacuity: a trace with miss, amend, hit on a validator without duty, reorg, invalidation, refetch,
   trim and a failed beacon call is produced by the model and passes both monitors. *)
Theorem C20_example_accepted :
  first_reject ex_asg ex_meta true (init_with [1; 2; 3]%N) ex_trace 0 = None /\
  sets_only_from [1; 2; 3]%N ex_trace = true /\ sequential ex_trace = true /\
  monitor_from ex_asg ex_meta (ginit_with [1; 2; 3]%N) ex_trace = true /\
  fmonitor_from (finit_with [1; 2; 3]%N) ex_trace = true.
Proof. exact ex_trace_accepted. Qed.
Print Assumptions C20_example_accepted.

(* F10: without the generation check (the code before 647cf91) the model produces a trace on which a
   call started after the invalidation is served pre-reorg duties without any beacon request; the
   repaired model refuses that store. *)
Theorem C20_stale_store_after_invalidate_refuted_before_fix :
  first_reject ex_asg ex_meta false (init_with [1; 2; 3]%N) f10_trace 0 = None /\
  sets_only_from [1; 2; 3]%N f10_trace = true /\
  first_violation_ans ex_asg ex_meta (ginit_with [1; 2; 3]%N) f10_trace 0 = Some 9 /\
  first_violation_fresh (finit_with [1; 2; 3]%N) f10_trace 0 = Some 8 /\
  first_reject ex_asg ex_meta true (init_with [1; 2; 3]%N) f10_trace 0 = Some 6.
Proof. exact stale_store_after_invalidate_refuted_before_fix. Qed.
Print Assumptions C20_stale_store_after_invalidate_refuted_before_fix.

(* Reading note N3: why the answer theorems need index SETS (a request naming an index twice on the
   amend path makes the cache hold that validator's duties twice). *)
Theorem C20_repeated_index_request_diverges :
  first_reject ex_asg ex_meta true (init_with [1; 2; 3]%N) dup_trace 0 = None /\
  sets_only_from [1; 2; 3]%N dup_trace = false /\
  first_violation_ans ex_asg ex_meta (ginit_with [1; 2; 3]%N) dup_trace 0 = Some 9.
Proof. exact repeated_index_request_diverges. Qed.
Print Assumptions C20_repeated_index_request_diverges.

(* Why C20_trim_refetches excludes calls in flight: such a call stores the trimmed epoch again. *)
Theorem C20_trim_straddle_restores :
  first_reject ex_asg ex_meta true (init_with [1; 2; 3]%N) trim_straddle_trace 0 = None /\
  monitor_from ex_asg ex_meta (ginit_with [1; 2; 3]%N) trim_straddle_trace = true /\
  fmonitor_from (finit_with [1; 2; 3]%N) trim_straddle_trace = true.
Proof. exact trim_straddle_restores. Qed.
Print Assumptions C20_trim_straddle_restores.
