(* C18 -- Values passed between workflow components are isolated copies.
   Only statements here; the model is Stores/Heap.v, the proofs are in Stores/HeapFacts.v.

   Values are arbitrary finite trees; the heap is a list of cells whose node cells point to their
   children (so sharing of a sub-tree is expressible); a handle is a root held by some party; a
   history is any sequence of
     LAlloc t | LCross p i | LMutate i path v | LRead i t
   over any number of handles; [pol : path -> Clone | Share] is the boundary policy table.
   [run pol init ls = Some s] says that ls is a history of the heap semantics (in-place writes,
   pointer following, deep copy = read + fresh layout); [monitor] is value semantics.  Which Go
   paths are Clone is decided by observation on the real code (harness/alias) and compared with
   the assumption of these theorems in gen/cases_C18.v. *)
From Coq Require Import List Arith Bool.
From Charon Require Import Stores.Heap Stores.HeapFacts.
Import ListNotations.

(* If every value that crosses a component boundary in the history (into a store, out of a
   store/query, to each subscriber) is a clone, then the history satisfies the value-semantics
   monitor -- no write through one handle changes what any other handle reads -- and no two
   handles reach a common location. *)
Theorem C18_clone_boundary_noninterference : forall pol ls s,
  crosses_clone pol ls -> run pol init ls = Some s -> monitor ls = true /\ separated s.
Proof. exact clone_boundary_noninterference. Qed.
Print Assumptions C18_clone_boundary_noninterference.

(* The same for a policy table as the harness observes it: all entries Clone, history over the
   observed paths. *)
Theorem C18_table_noninterference : forall tb ls s,
  all_clone tb = true -> covered tb ls = true -> run (pol_of tb) init ls = Some s ->
  monitor ls = true /\ separated s.
Proof. exact table_noninterference. Qed.
Print Assumptions C18_table_noninterference.

(* Reading of the monitor, 1: between two reads through handle j, whatever else happens -- values
   built, values passed across boundaries, writes through OTHER handles (any leaf, any value) --
   the value read through j is the same. *)
Theorem C18_mutation_invisible_to_other_handles : forall pol ls s pre j t1 mid t2 post,
  crosses_clone pol ls -> run pol init ls = Some s ->
  ls = pre ++ LRead j t1 :: mid ++ LRead j t2 :: post ->
  (forall l, In l mid -> ~ is_mutate_of j l) -> t1 = t2.
Proof.
  intros pol ls s pre j t1 mid t2 post Hc Hr -> Hn.
  exact (monitor_reads_stable pre j t1 mid t2 post (proj1 (clone_boundary_noninterference pol _ s Hc Hr)) Hn).
Qed.
Print Assumptions C18_mutation_invisible_to_other_handles.

(* Reading of the monitor, 2: a value handed across a boundary is received as it was at that
   moment; the receiver's handle (number [handles pre]) keeps reading it whatever is written later
   through the giver's handle or anybody else's. *)
Theorem C18_crossed_value_is_fixed : forall pol ls s pre i t p mid t' post,
  crosses_clone pol ls -> run pol init ls = Some s ->
  ls = pre ++ LRead i t :: LCross p i :: mid ++ LRead (handles pre) t' :: post ->
  (forall l, In l mid -> ~ is_mutate_of (handles pre) l) -> t' = t.
Proof.
  intros pol ls s pre i t p mid t' post Hc Hr -> Hn.
  exact (monitor_crossed_value_fixed pre i t p mid t' post (proj1 (clone_boundary_noninterference pol _ s Hc Hr)) Hn).
Qed.
Print Assumptions C18_crossed_value_is_fixed.

(* Converse: a single Share entry on a path that is exercised breaks isolation.  After any
   history, with any number of handles, for any value with a writable leaf: build it, pass it
   across p, write the leaf through the giver's handle, read through the receiver's handle.  The
   heap semantics accepts this history (the receiver sees the written value t'), both handles
   have the same root and reach the written cell, and the monitor rejects it. *)
Theorem C18_share_breaks_isolation : forall pol p,
  pol p = Share ->
  forall pre s, crosses_clone pol pre -> run pol init pre = Some s ->
  forall t pa v t', tset pa v t = Some t' -> t' <> t ->
  let n := length (roots s) in
  let ls := pre ++ share_witness n p t pa v t' in
  (exists s' r m, run pol init ls = Some s' /\
                  nth_error (roots s') n = Some r /\ nth_error (roots s') (S n) = Some r /\
                  reach (hp s') r m /\ nth_error (hp s') m = Some (CLeaf v)) /\
  monitor ls = false.
Proof. exact share_breaks_isolation. Qed.
Print Assumptions C18_share_breaks_isolation.

(* Non-vacuity: a store / await / await / mutate history over a two-level value (ex_history in
   HeapFacts.v) is a history of the model under the all-Clone policy and passes the monitor ... *)
Theorem C18_example_accepted :
  (exists s, run (fun _ => Clone) init ex_history = Some s) /\ monitor ex_history = true.
Proof. exact example_accepted. Qed.
Print Assumptions C18_example_accepted.

(* ... and the unrepaired dutydb (F7: Await returned the stored pointer, path 1 = Share) admits
   the history in which the second reader sees the first reader's write. *)
Theorem C18_await_alias_refuted_before_fix :
  (exists s, run (fun p => if Nat.eqb p 1 then Share else Clone) init f7_history = Some s) /\
  monitor f7_history = false.
Proof. exact await_alias_refuted_before_fix. Qed.
Print Assumptions C18_await_alias_refuted_before_fix.
