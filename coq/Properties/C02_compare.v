(* C02 (S1 tie) -- the hypothesis [trace_cmp_fun cf] of the agreement theorem with compare failures
   (Properties/C02_cmp.v) against the wrapper's real Definition.Compare.  Statements only; definitions and
   proofs in Flow/CompareFun.v.  The harness records, from the real callback driven as qbft.Run drives
   it, a table of (local-input id, proposed value hash, verdict); [functional] is evaluated on the
   observed table by vm_compute in gen/cases_C02_compare.v. *)
From Coq Require Import List NArith Arith Bool.
From Charon Require Import Qbft.Model Qbft.CmpInv Flow.CompareFun.
Import ListNotations.

(* A functional table yields a cf that every recorded completed comparison obeys ... *)
Theorem C02_compare_functional_sound : forall tbl, functional tbl = true ->
  forall i x c, In (i, x, c) tbl ->
  (c = CmpFail -> cf_table tbl i x = true) /\ (c = CmpOk -> cf_table tbl i x = false).
Proof. intros tbl F i x c Hin. exact (functional_sound tbl F (i, x, c) Hin). Qed.
Print Assumptions C02_compare_functional_sound.

(* ... i.e. the label qbft.Run produces for each recorded consultation satisfies the per-label condition of
   trace_cmp_fun (Qbft/CmpInv.v) under that cf. *)
Theorem C02_compare_label_ok : forall tbl, functional tbl = true ->
  forall i x c, In (i, x, c) tbl ->
  forall m rest, val (main m) = x -> label_cmp_ok (cf_table tbl) i (LRecv m c (Upon JustPrePrepare :: rest)).
Proof. exact functional_label_ok. Qed.
Print Assumptions C02_compare_label_ok.

(* A non-functional table admits no cf at all: the hypothesis of C02_cmp_agreement is violated by it. *)
Theorem C02_compare_not_functional_no_cf : forall tbl, functional tbl = false ->
  ~ exists cf, forall i x c, In (i, x, c) tbl -> (c = CmpFail -> cf i x = true) /\ (c = CmpOk -> cf i x = false).
Proof.
  intros tbl F [cf H]. apply (not_functional_no_cf tbl F). exists cf. intros [[i x] c] Hin. exact (H i x c Hin).
Qed.
Print Assumptions C02_compare_not_functional_no_cf.

Theorem C02_compare_no_conflicts_functional : forall tbl, conflicts tbl = [] -> functional tbl = true.
Proof. exact conflicts_nil_functional. Qed.
Print Assumptions C02_compare_no_conflicts_functional.
