(* C19, application wiring: the multi-client the node builds (app/app.go newETH2Client -> configureEth2Client ->
   eth2wrap.NewMultiHTTP) is given the configured primaries as primaries and the configured fallbacks as fallbacks, for
   the query client AND for the submission client.  The construction code is regenerated from the source on every run
   (translator/appwire -> gen/AppWiring.v) and compared, as printed expressions, by Flow/AppWiringCheck.v. *)
From Charon Require Flow.AppWiringCheck Flow.AppWiringClientsFacts gen.AppWiring.

Theorem C19_app_clients_get_configured_fallbacks :
  AppWiringCheck.eth2_clients_check AppWiring.app_neweth2_params AppWiring.app_neweth2_callers AppWiring.app_client_sites
    AppWiring.app_neweth2_field_assignments AppWiring.app_configure_params AppWiring.app_configure_sites
    AppWiring.app_multihttp_params AppWiring.app_multihttp_body = true.
Proof. exact AppWiringClientsFacts.app_eth2_clients_ok. Qed.
Print Assumptions C19_app_clients_get_configured_fallbacks.
