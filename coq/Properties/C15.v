(* C15 — The scheduler triggers every resolved duty exactly once, not before its time.
   Only statements here; proofs are in Flow/SchedulerFacts.v; the model, the trace monitor and the
   log/query vocabulary are in Flow/Scheduler.v.

   [run D spe fm ff (init D t0) ls = Some s] says "ls is a label sequence the scheduler model can
   produce" (D = slot duration in ns, spe = slots per epoch, fm = feature flags: FOff / FOn =
   fetch_att_on_block / FOnDelay = fetch_att_on_block_with_delay, ff = a fetch-only function is
   registered, t0 = clock at start, ns after genesis); the
   correspondence check establishes that the label sequences recorded from core/scheduler are of that
   kind.  [wf_trace spe ls] is the assumption on the beacon node: attester and proposer duties answered
   for epoch e lie in epoch e.  The monitor keeps a log of the successful duties answers ([item]s: kind,
   epoch, resolving slot, active validators, entries); [grants] is what one answer assigns, [query] the
   definition set of a duty = first definition per public key over the whole log. *)
From Coq Require Import List NArith Bool Sorted.
From Charon Require Import Flow.Scheduler Flow.SchedulerFacts.
Import ListNotations.
Local Open Scope N_scope.

(* Every well-formed trace of the model passes the trace monitor that transcribes the property. *)
Theorem C15_monitor : forall D spe fm ff, 0 < D -> 0 < spe -> forall t0 ls s,
  wf_trace spe ls = true -> run D spe fm ff (init D t0) ls = Some s -> monitor D spe fm t0 ls = true.
Proof. exact run_monitor. Qed.
Print Assumptions C15_monitor.

(* trigger_at_most_once: in no history are the subscribers of a duty (type, slot) called twice --
   counting the triggers of the ticks and, with a flag on, the attester duties released from waiting. *)
Theorem C15_trigger_at_most_once : forall D spe fm ff, 0 < D -> 0 < spe -> forall t0 ls s,
  wf_trace spe ls = true -> run D spe fm ff (init D t0) ls = Some s ->
  NoDup (trig_duties ls).
Proof. intros D spe fm ff HD Hs t0 ls s Hwf H. exact (trigger_at_most_once D spe fm t0 ls (run_monitor D spe fm ff HD Hs t0 ls s Hwf H)). Qed.
Print Assumptions C15_trigger_at_most_once.

(* offset_respected + defset_equals_bn: a tick of slot t is not before the slot starts; every trigger
   of the tick is for slot t, of one of the four scheduled types, carries as deadline for the delay
   function slot start + the type's offset (attester 1/3, aggregator and sync contribution 2/3 of the
   slot, proposer: no delay), and its definition set is exactly the query over the beacon node's
   answers logged so far (non-empty, one definition per public key); every duty with a non-empty
   query is triggered -- except, with a feature flag on ([fire_later]), the attester duty: it is not
   in the tick's output at all but starts waiting ([g_pend]) until [att_due] = slot start + 1/3 slot
   (+300ms with fetch_att_on_block_with_delay); see C15_waiting_* below. *)
Theorem C15_tick_triggers : forall D spe fm ff, 0 < D -> 0 < spe -> forall t0 ls s,
  wf_trace spe ls = true -> run D spe fm ff (init D t0) ls = Some s ->
  forall pre t sc outs post, ls = pre ++ LTick t sc outs :: post ->
  t * D <= now_after D spe fm t0 pre /\
  (forall tr, In tr outs ->
     In (t_ty tr) types /\ t_slot tr = t /\ t_deadline tr = deadline D (t_ty tr) t /\
     t_defs tr <> [] /\ NoDup (map fst (t_defs tr)) /\
     (forall x, In x (t_defs tr) <-> In x (query spe (log_at D spe fm t0 pre t sc) (t_ty tr, t))) /\
     fire_later fm (t_ty tr) = false) /\
  (forall ty, In ty types -> query spe (log_at D spe fm t0 pre t sc) (ty, t) <> [] -> fire_later fm ty = false ->
     exists tr, In tr outs /\ t_ty tr = ty /\ t_slot tr = t) /\
  (flags_on fm = true -> query spe (log_at D spe fm t0 pre t sc) (Attester, t) <> [] ->
     In (t, query spe (log_at D spe fm t0 pre t sc) (Attester, t), att_due D fm t)
        (g_pend (ghost_after D spe fm (ginit t0) (pre ++ [LTick t sc outs])))).
Proof. intros D spe fm ff HD Hs t0 ls s Hwf H pre t sc outs post E. exact (tick_triggers D spe fm t0 ls pre t sc outs post (run_monitor D spe fm ff HD Hs t0 ls s Hwf H) E). Qed.
Print Assumptions C15_tick_triggers.

(* The deadlines, spelled out. *)
Theorem C15_offsets : forall D slot,
  deadline D Proposer slot = None /\
  deadline D Attester slot = Some (slot * D + D * 1 / 3) /\
  deadline D Aggregator slot = Some (slot * D + D * 2 / 3) /\
  deadline D SyncContribution slot = Some (slot * D + D * 2 / 3).
Proof. intros; repeat split; reflexivity. Qed.
Print Assumptions C15_offsets.

(* defset_equals_bn, read back to the beacon node: a triggered definition (pk, e) was returned by a
   duties call that succeeded, in a resolution (of this or an earlier tick) for a slot not after t,
   whose validators answer contains a validator with e's index, active for the resolved epoch
   (active status, or activation epoch = that epoch), with public key pk = the entry's key; attester,
   aggregator and proposer definitions are for exactly this slot, sync contribution definitions for
   the epoch of the answer.  Hence never for an unknown or inactive validator, a validator outside the
   cluster, a wrong public key or an unassigned slot. *)
Theorem C15_only_assigned : forall D spe fm ff, 0 < D -> 0 < spe -> forall t0 ls s,
  wf_trace spe ls = true -> run D spe fm ff (init D t0) ls = Some s ->
  forall pre t sc outs post tr pk e, ls = pre ++ LTick t sc outs :: post ->
  In tr outs -> In (pk, e) (t_defs tr) ->
  exists t' sc' outs' rn slot vals v,
    In (LTick t' sc' outs') (pre ++ [LTick t sc outs]) /\ In rn sc' /\ (slot = t' \/ slot = t' + 1) /\
    r_vals rn = Some vals /\ In v vals /\ is_active (epoch_of spe slot) v = true /\
    v_idx v = e_vidx e /\ v_pk v = pk /\ e_pk e = pk /\ slot <= t /\
    match t_ty tr with
    | Attester | Aggregator => exists l, ok_res (r_att rn) = Some l /\ In e l /\ e_slot e = t
    | Proposer => exists l, ok_res (r_pro rn) = Some l /\ In e l /\ e_slot e = t
    | SyncContribution => exists l, ok_res (r_sync rn) = Some l /\ In e l /\ epoch_of spe t = epoch_of spe slot
    | OtherType => False
    end.
Proof.
  intros D spe fm ff HD Hs t0 ls s Hwf H pre t sc outs post tr pk e E.
  exact (triggered_only_assigned D spe fm Hs t0 ls pre t sc outs post tr pk e (run_monitor D spe fm ff HD Hs t0 ls s Hwf H) E).
Qed.
Print Assumptions C15_only_assigned.

(* Never for a validator outside the cluster: if every validators answer handed to the scheduler lists
   cluster validators only ([vals_in_cluster cl], evaluated on every recorded history -- part of them run
   the real eth2wrap.ValidatorCache, wired as in app/app.go, against a beacon node that also knows
   non-cluster validators with duties and whose validators endpoint fails as scripted), then every
   triggered definition is for a cluster public key. *)
Theorem C15_never_outside_cluster : forall D spe fm ff cl, 0 < D -> 0 < spe -> forall t0 ls s,
  wf_trace spe ls = true -> run D spe fm ff (init D t0) ls = Some s -> vals_in_cluster cl ls = true ->
  forall pre t sc outs post tr pk e, ls = pre ++ LTick t sc outs :: post ->
  In tr outs -> In (pk, e) (t_defs tr) -> memN pk cl = true.
Proof.
  intros D spe fm ff cl HD Hs t0 ls s Hwf H Hv pre t sc outs post tr pk e E.
  exact (never_outside_cluster D spe fm cl t0 ls pre t sc outs post tr pk e Hs Hv (run_monitor D spe fm ff HD Hs t0 ls s Hwf H) E).
Qed.
Print Assumptions C15_never_outside_cluster.

(* first definition wins under retries: the definition of (duty, pk) is the first one assigned over
   the whole log, and later answers never change or remove it. *)
Theorem C15_first_definition_wins : forall spe log d pk e,
  In (pk, e) (query spe log d) <->
  find (fun x => fst x =? pk) (for_duty d (flat_map (grants spe) log)) = Some (pk, e).
Proof. exact first_definition_wins. Qed.
Print Assumptions C15_first_definition_wins.

Theorem C15_later_answers_never_alter : forall spe log more d x,
  In x (query spe log d) -> In x (query spe (log ++ more) d).
Proof. exact query_extend. Qed.
Print Assumptions C15_later_answers_never_alter.

(* trigger_exactly_once_if_resolved_before: if an answer logged in the prefix pre1 assigns validator pk
   to duty (ty, t) (any answer, also one of a resolution that failed later on), no reorg event is
   handled between that point and the tick of slot t, and that tick is delivered, then at that tick the
   duty is triggered with a definition for pk -- or, for the attester duty with a flag on, starts waiting
   with such a definition (released by C15_waiting_released). By C15_trigger_at_most_once that is the only
   call of the duty's subscribers in the whole history. *)
Theorem C15_trigger_exactly_once_if_resolved_before : forall D spe fm ff, 0 < D -> 0 < spe -> forall t0 ls s,
  wf_trace spe ls = true -> run D spe fm ff (init D t0) ls = Some s ->
  forall pre1 mid t sc outs post it ty pk e,
  ls = pre1 ++ mid ++ LTick t sc outs :: post ->
  forallb (fun l => negb (is_reorg l)) mid = true ->
  In it (g_log (ghost_after D spe fm (ginit t0) pre1)) -> In ((ty, t), (pk, e)) (grants spe it) ->
  if fire_later fm ty
  then exists defs, has_pk pk defs = true /\
         In (t, defs, att_due D fm t) (g_pend (ghost_after D spe fm (ginit t0) ((pre1 ++ mid) ++ [LTick t sc outs])))
  else exists tr, In tr outs /\ t_ty tr = ty /\ t_slot tr = t /\ has_pk pk (t_defs tr) = true.
Proof.
  intros D spe fm ff HD Hs t0 ls s Hwf H pre1 mid t sc outs post it ty pk e E.
  exact (assigned_is_triggered D spe fm t0 ls pre1 mid t sc outs post it ty pk e (run_monitor D spe fm ff HD Hs t0 ls s Hwf H) E).
Qed.
Print Assumptions C15_trigger_exactly_once_if_resolved_before.

(* ... and a resolution made on the slot's own tick counts: its attester answer is in the log the
   tick's triggers are computed from (likewise for the other answers, see gres). *)
Theorem C15_resolved_on_own_tick : forall D spe fm t0 pre t rn sc' vals la,
  optN_is (g_resolved (ghost_after D spe fm (ginit t0) pre)) (epoch_of spe t) = false ->
  r_vals rn = Some vals -> filter (is_active (epoch_of spe t)) vals <> [] -> ok_res (r_att rn) = Some la ->
  In (I KAtt (epoch_of spe t) t (filter (is_active (epoch_of spe t)) vals) la) (log_at D spe fm t0 pre t (rn :: sc')).
Proof.
  intros D spe fm t0 pre t rn sc' vals la Hr Hv Ha Hl.
  apply (first_resolution_logged D spe fm t0 pre t rn sc'); [exact Hr | apply gres_att_item; assumption].
Qed.
Print Assumptions C15_resolved_on_own_tick.

(* errors_only_delay.  A resolution that does not complete never marks the epoch resolved; a failed
   validators call or a failed attester-duties call adds nothing; any other failure only appends the
   answers that did succeed to the log (gres_shape), which by C15_later_answers_never_alter cannot
   change an existing definition; and until the tick's epoch is the resolved one every tick asks the
   beacon node again (retry at the next slot), afterwards -- except on the last slot of the epoch --
   it is not asked at all. *)
Theorem C15_errors_only_delay_resolved : forall spe g slot rn,
  g_resolved (gres spe g slot rn) = if completes spe slot rn then Some (epoch_of spe slot) else g_resolved g.
Proof. exact gres_resolved. Qed.
Print Assumptions C15_errors_only_delay_resolved.

Theorem C15_errors_only_delay_noop : forall spe fm g slot rn,
  (r_vals rn = None -> gres spe g slot rn = g) /\
  (ok_res (r_att rn) = None -> completes spe slot rn = false -> gres spe g slot rn = g) /\
  (forall s s', r_vals rn = None -> resolve spe fm s slot rn = Some s' -> s' = s).
Proof.
  intros spe fm g slot rn. split; [apply gres_vals_error_noop|]. split; [apply gres_att_error_noop|].
  intros s s'. apply resolve_vals_error_noop.
Qed.
Print Assumptions C15_errors_only_delay_noop.

Theorem C15_errors_only_delay_log : forall D spe fm g t sc outs,
  exists more, g_log (gstep D spe fm g (LTick t sc outs)) = g_log g ++ more
    /\ (forall it, In it more -> exists rn slot, In rn sc /\ (slot = t \/ slot = t + 1) /\ item_from spe it slot rn)
    /\ g_trig (gstep D spe fm g (LTick t sc outs)) = g_trig g ++ map trig_duty outs
    /\ g_now (gstep D spe fm g (LTick t sc outs)) = g_now g
    /\ g_pend (gstep D spe fm g (LTick t sc outs)) = g_pend g ++ pend_for D spe fm (g_log (fst (g_first spe g t sc))) t types.
Proof. exact gstep_tick_shape. Qed.
Print Assumptions C15_errors_only_delay_log.

Theorem C15_retry_until_resolved : forall D spe fm ff, 0 < D -> 0 < spe -> forall t0 ls s pre t sc outs post,
  wf_trace spe ls = true -> run D spe fm ff (init D t0) ls = Some s -> ls = pre ++ LTick t sc outs :: post ->
  (optN_is (g_resolved (ghost_after D spe fm (ginit t0) pre)) (epoch_of spe t) = false -> sc <> []) /\
  (optN_is (g_resolved (ghost_after D spe fm (ginit t0) pre)) (epoch_of spe t) = true ->
   last_in_epoch spe t = false -> sc = []).
Proof. exact retry_until_resolved. Qed.
Print Assumptions C15_retry_until_resolved.

(* offset_respected under the feature flags fetch_att_on_block / fetch_att_on_block_with_delay.  What is
   released early by a head event is only the call of the registered fetch-only function (LHead, not
   constrained by the property).  The attester duty's subscribers are called by the waiting goroutine
   (LFire): only for a duty that a tick put in waiting, with the definition set captured at that tick,
   NOT before slot start + 1/3 slot (+300ms with the with_delay flag) -- whether or not a head event for
   the slot was handled before, at or after the tick --, and never for a duty triggered before. *)
Theorem C15_waiting_fires : forall D spe fm ff, 0 < D -> 0 < spe -> forall t0 ls s,
  wf_trace spe ls = true -> run D spe fm ff (init D t0) ls = Some s ->
  forall pre slot defs post, ls = pre ++ LFire slot defs :: post ->
  exists w, In w (g_pend (ghost_after D spe fm (ginit t0) pre)) /\ w_slot w = slot /\
    slot * D + att_offset D fm <= now_after D spe fm t0 pre /\
    (forall x, In x defs <-> In x (w_defs w)) /\ ~ In (Attester, slot) (trig_duties pre).
Proof.
  intros D spe fm ff HD Hs t0 ls s Hwf H pre slot defs post E.
  exact (waiting_fires D spe fm t0 ls pre slot defs post (run_monitor D spe fm ff HD Hs t0 ls s Hwf H) E).
Qed.
Print Assumptions C15_waiting_fires.

Theorem C15_att_offset : forall D,
  att_offset D FOff = D * 1 / 3 /\ att_offset D FOn = D * 1 / 3 /\ att_offset D FOnDelay = D * 1 / 3 + 300000000.
Proof. intro D. unfold att_offset. repeat split; apply N.add_0_r. Qed.
Print Assumptions C15_att_offset.

(* ... and the waiting duty IS released: at a quiescent point no waiting duty is due, so a duty waiting
   after [pre] whose release instant has passed at a later quiescent point was released in between. *)
Theorem C15_waiting_released : forall D spe fm ff, 0 < D -> 0 < spe -> forall t0 ls s,
  wf_trace spe ls = true -> run D spe fm ff (init D t0) ls = Some s ->
  forall pre mid post w, ls = pre ++ mid ++ LQuiet :: post ->
  In w (g_pend (ghost_after D spe fm (ginit t0) pre)) -> w_due w <= now_after D spe fm t0 (pre ++ mid) ->
  exists defs, In (LFire (w_slot w) defs) mid.
Proof.
  intros D spe fm ff HD Hs t0 ls s Hwf H pre mid post w E.
  exact (waiting_released D spe fm HD Hs t0 ls pre mid post w (run_monitor D spe fm ff HD Hs t0 ls s Hwf H) E).
Qed.
Print Assumptions C15_waiting_released.

(* Non-vacuity with fetch_att_on_block on: a head event between the delivery of tick 1 and its dispatch
   gets the early fetch; the attester duty is still released only at slot start + 1/3 slot; the same
   history with the subscribers called at the tick is rejected by the monitor (and by the model). *)
Theorem C15_flags_example_accepted :
  (exists s, run 12 4 FOn true (init 12 0) ex_flags_trace = Some s) /\ wf_trace 4 ex_flags_trace = true
  /\ monitor 12 4 FOn 0 ex_flags_trace = true.
Proof. exact ex_flags_trace_accepted. Qed.
Print Assumptions C15_flags_example_accepted.

Theorem C15_flags_early_release_rejected :
  monitor 12 4 FOn 0 ex_flags_early_trace = false /\ run 12 4 FOn true (init 12 0) ex_flags_early_trace = None.
Proof. exact ex_flags_early_release_rejected. Qed.
Print Assumptions C15_flags_early_release_rejected.

(* ticker_monotone: delivered slots strictly increase (missed slots are skipped, none is repeated),
   no slot is delivered before it starts or before the start slot; and at every quiescent point the
   most recent tick is the tick of the current slot (no due tick is missing). *)
Theorem C15_ticker_monotone : forall D spe fm ff, 0 < D -> 0 < spe -> forall t0 ls s,
  run D spe fm ff (init D t0) ls = Some s ->
  StronglySorted N.lt (tick_slots ls) /\
  (forall pre t sc outs post, ls = pre ++ LTick t sc outs :: post -> t * D <= clock_after t0 pre /\ t0 / D <= t).
Proof. exact ticker_monotone. Qed.
Print Assumptions C15_ticker_monotone.

Theorem C15_quiet_current_slot_ticked : forall D spe fm ff, 0 < D -> 0 < spe -> forall t0 ls s pre post,
  run D spe fm ff (init D t0) ls = Some s -> ls = pre ++ LQuiet :: post ->
  last_tick pre None = Some (clock_after t0 pre / D).
Proof. exact quiet_current_slot_ticked. Qed.
Print Assumptions C15_quiet_current_slot_ticked.

Theorem C15_clock : forall D spe fm t0 pre, now_after D spe fm t0 pre = clock_after t0 pre.
Proof. exact now_after_clock. Qed.
Print Assumptions C15_clock.

(* Non-vacuity: a history with a failed proposer call, a retry with changed answers, resolutions on the
   last slot of the epoch (one failing at the validators call, one at the attester call), a skipped
   tick and a reorg is accepted by the model, well formed, and passes the monitor. *)
Theorem C15_example_accepted :
  (exists s, run 12 4 FOff false (init 12 0) ex_trace = Some s) /\ wf_trace 4 ex_trace = true /\ monitor 12 4 FOff 0 ex_trace = true.
Proof. exact ex_trace_accepted. Qed.
Print Assumptions C15_example_accepted.

(* Why wf_trace is assumed: with an attester answer for epoch 0 that names a slot of epoch 3 the model
   (which the correspondence check validates on such answers too) accepts a history in which an
   assigned duty is never triggered. *)
Theorem C15_off_epoch_answer_drops_duty :
  (exists s, run 12 4 FOff false (init 12 0) off_epoch_trace = Some s) /\ wf_trace 4 off_epoch_trace = false
  /\ monitor 12 4 FOff 0 off_epoch_trace = false.
Proof. exact off_epoch_answer_drops_duty. Qed.
Print Assumptions C15_off_epoch_answer_drops_duty.
