(* C04, termination half: the closure hypotheses of C04_good_round_decides (Properties/C04_live.v)
   DERIVED from reachability in the network semantics Qbft/Net.v -- statements only.
   Proofs: Qbft/GoodRoundNet.v; executable replay and witnesses: Qbft/GoodRoundNetEx.v.

   Crash-only executions [creach c nt tr]: executions of Net.v ([C04_creach_is_nreach]) in which
   - no member is Byzantine ([allhon c]); members may stop taking steps at any point (crash, also
     between two deliveries of a broadcast), never start, or run late;
   - Compare never fails;
   - the network delays, drops, duplicates and reorders, but every delivered message is a message
     that was broadcast, with the justification it was broadcast with.
   The pool is [sentm tr]: ALL messages broadcast so far with their justifications.

   RESIDUAL ASSUMPTIONS of C04_good_round_decides_from_net (everything else is derived):
   (A1) crash-only delivery as above.  Net.v proper also lets the network re-assemble justifications
        out of honest parts; then [buf_fresh] can fail ([C04_cross_assembly_breaks_buf_fresh]).
   (A2) no member has decided and no member is in a round beyond r -- in particular the stopped
        members outside R.  Not implied by reachability ([C04_outsider_ahead_breaks_pool_ok]: a
        member that timed out alone before stopping puts a ROUND-CHANGE(r+1) in the pool; the
        invariant [pool_ok] of the proof excludes it although the members of R would ignore it).
   (A3) the members of R are running ([dead = false], started) in round r -- the statement's premise;
   (A4) the leader case: r = 1 and a PRE-PREPARE(1) has been broadcast, or the leader of r has its
        input value and every member of R has broadcast ROUND-CHANGE(r) (a member can also enter
        round r by a PRE-PREPARE(r) without broadcasting one, so this is not derivable);
   (A5) fairness [delivered_all] and the FIFO bound [fifo_ok] of the delivery window, as before. *)
From Coq Require Import List NArith Arith Bool.
From Charon Require Import Common.Quorum Qbft.Model Qbft.Monitor Qbft.ModelFacts
  Qbft.GoodRound Qbft.GoodRoundFacts Qbft.GoodRoundQrc Qbft.GoodRoundEx
  Qbft.Net Qbft.NetInv Qbft.GoodRoundNet Qbft.GoodRoundNetEx.
Import ListNotations.

Theorem C04_creach_is_nreach : forall c nt tr, creach c nt tr -> nreach c nt tr /\ trace_nofail tr.
Proof. exact creach_nreach. Qed.
Print Assumptions C04_creach_is_nreach.

(* every n >= 1, leader function, FIFO limit, crash pattern, schedule, Go map order *)
Theorem C04_good_round_decides_from_net : forall c nt tr R r g,
  wf_cfg c -> allhon c -> creach c nt tr ->
  NoDup R -> quorum (c_n c) <= length R -> (forall i, In i R -> i < c_n c) -> In (c_leader c r) R ->
  (forall i, In i R -> round (nst nt i) = r /\ started (nst nt i) = true /\ dead (nst nt i) = false) ->
  (forall j, j < c_n c -> decided (nst nt j) = false /\ round (nst nt j) <= r) ->
  ((r = 1 /\ exists m, In m (sentm tr) /\ ty (main m) = PrePrepare /\ rnd (main m) = 1)
   \/ (input (nst nt (c_leader c r)) <> 0%N
       /\ forall i, In i R -> exists m, In m (sentm tr) /\ f_rc r (main m) = true /\ src (main m) = i)) ->
  gsteps (c_n c) (c_fifo c) (c_leader c) R (g_of nt tr) g -> delivered_all R g ->
  fifo_ok (c_fifo c) R (g_of nt tr) g ->
  exists v, (forall i, In i R -> exists k, In (i, v, k) (gdecs g))
            /\ (forall i x k, In (i, x, k) (gdecs g) -> x = v /\ k = r).
Proof. exact good_round_decides_from_net. Qed.
Print Assumptions C04_good_round_decides_from_net.

(* The closure hypotheses one by one (what used to be stated premises of C04_good_round_decides). *)
Theorem C04_net_pool_ok : forall c nt tr r, wf_cfg c -> allhon c -> creach c nt tr ->
  (forall j, j < c_n c -> decided (nst nt j) = false /\ round (nst nt j) <= r) ->
  pool_ok (c_leader c) r (sentm tr).
Proof. exact d_pool_ok. Qed.
Print Assumptions C04_net_pool_ok.

Theorem C04_net_start_ok : forall c nt tr R r, wf_cfg c -> allhon c -> creach c nt tr ->
  (forall i, In i R -> i < c_n c) ->
  (forall i, In i R -> round (nst nt i) = r /\ started (nst nt i) = true /\ dead (nst nt i) = false) ->
  (forall j, j < c_n c -> decided (nst nt j) = false /\ round (nst nt j) <= r) ->
  forall i, In i R -> start_ok r (sentm tr) i (nst nt i).
Proof. exact d_start_ok. Qed.
Print Assumptions C04_net_start_ok.

(* includes pool_fresh and buf_fresh (while the leader has not proposed) and "its PRE-PREPARE is in
   the pool and accepted everywhere" (once it has) *)
Theorem C04_net_leader_ok : forall c nt tr R r, wf_cfg c -> allhon c -> creach c nt tr ->
  (forall i, In i R -> i < c_n c) ->
  (forall i, In i R -> round (nst nt i) = r /\ started (nst nt i) = true /\ dead (nst nt i) = false) ->
  (forall j, j < c_n c -> decided (nst nt j) = false /\ round (nst nt j) <= r) ->
  In (c_leader c r) R -> input (nst nt (c_leader c r)) <> 0%N ->
  (forall i, In i R -> exists m, In m (sentm tr) /\ f_rc r (main m) = true /\ src (main m) = i) ->
  leader_ok (c_n c) (c_fifo c) (c_leader c) r (sentm tr) (nst nt (c_leader c r)).
Proof. exact d_leader_ok. Qed.
Print Assumptions C04_net_leader_ok.

Theorem C04_net_rcs_in_pool : forall c nt tr R r, wf_cfg c -> allhon c -> creach c nt tr ->
  (forall i, In i R -> exists m, In m (sentm tr) /\ f_rc r (main m) = true /\ src (main m) = i) ->
  rcs_in_pool (c_n c) (c_fifo c) (c_leader c) r R (sentm tr).
Proof. exact d_rcs. Qed.
Print Assumptions C04_net_rcs_in_pool.

(* sub-goal (a): an undecided member has broadcast at most one PRE-PREPARE per round *)
Theorem C04_net_one_preprepare_per_round : forall c nt tr, wf_cfg c -> allhon c -> creach c nt tr ->
  forall m m', In m (sentm tr) -> In m' (sentm tr) ->
  ty (main m) = PrePrepare -> ty (main m') = PrePrepare ->
  src (main m) = src (main m') -> rnd (main m) = rnd (main m') ->
  decided (nst nt (src (main m))) = false -> m = m'.
Proof. exact one_preprepare_per_round. Qed.
Print Assumptions C04_net_one_preprepare_per_round.

(* the executable crash-only replay is sound *)
Theorem C04_crun_sound : forall c tr nt, crun c net_init [] tr = Some nt -> creach c nt tr.
Proof. exact crun_sound. Qed.
Print Assumptions C04_crun_sound.

(* Non-vacuity: reachable n = 4 states (member 3 never starts) to which the theorem applies, round 1
   and round 2 after a timeout; only state facts of the reached state are checked. *)
Theorem C04_from_net_example_round1 :
  crun c4 net_init [] tr_r1 = Some nt_r1
  /\ gdecs gn1_end = [(0, 7%N, 1); (1, 7%N, 1); (2, 7%N, 1)]
  /\ exists v, (forall i, In i R4 -> exists k, In (i, v, k) (gdecs gn1_end))
               /\ (forall i x k, In (i, x, k) (gdecs gn1_end) -> x = v /\ k = 1).
Proof. exact (conj (proj1 r1_reachable) (conj (proj2 gn1_run) from_net_applies_round1)). Qed.
Print Assumptions C04_from_net_example_round1.

Theorem C04_from_net_example_round2 :
  crun c4 net_init [] tr_r2 = Some nt_r2
  /\ gdecs gn2_end = [(0, 9%N, 2); (1, 9%N, 2); (2, 9%N, 2)]
  /\ exists v, (forall i, In i R4 -> exists k, In (i, v, k) (gdecs gn2_end))
               /\ (forall i x k, In (i, x, k) (gdecs gn2_end) -> x = v /\ k = 2).
Proof. exact (conj (proj1 r2_reachable) (conj (proj2 gn2_run) from_net_applies_round2)). Qed.
Print Assumptions C04_from_net_example_round2.

(* (A2) is a genuine extra assumption: crash-only reachable, every other premise holds, pool_ok fails *)
Theorem C04_outsider_ahead_breaks_pool_ok :
  creach c4 nt_ahead tr_ahead
  /\ (forall i, In i R4 -> round (nst nt_ahead i) = 1 /\ started (nst nt_ahead i) = true /\ dead (nst nt_ahead i) = false)
  /\ (forall j, j < 4 -> decided (nst nt_ahead j) = false)
  /\ In pp1 (sentm tr_ahead)
  /\ round (nst nt_ahead 3) = 2
  /\ ~ pool_ok ld4 1 (sentm tr_ahead).
Proof. exact outsider_ahead_breaks_pool_ok. Qed.
Print Assumptions C04_outsider_ahead_breaks_pool_ok.

(* (A1) is a genuine extra assumption relative to Net.v: all members honest, no Compare failure, a
   re-assembled justification makes buf_fresh fail; the crash-only replay refuses the trace *)
Theorem C04_cross_assembly_breaks_buf_fresh :
  nreach c4 nt_cross tr_cross /\ trace_nofail tr_cross
  /\ length tr_cross = 10
  /\ round (nst nt_cross 2) = 2 /\ is_dup (nst nt_cross 2) QRC 2 = false
  /\ ~ buf_fresh 4 64 ld4 2 (sentm tr_cross) (nst nt_cross 2)
  /\ crun c4 net_init [] tr_cross = None.
Proof. exact cross_assembly_breaks_buf_fresh. Qed.
Print Assumptions C04_cross_assembly_breaks_buf_fresh.
