(* C05 — Consensus acts only on authentic, well-formed peer messages.
   Only statements here; the model is Flow/WireMsg.v (Consensus.handle, verifyMsg, verifyMsgLimits,
   valuesByHash, newMsg, the Decide callback, transport.setValues), proofs are in
   Flow/WireMsgFacts.v, the concrete instance / witnesses in Flow/WireMsgCorr.v.

   Every theorem is universally quantified over the symbolic cryptography (types and functions
   [encode], [H], [verify], [decode], [Hv]); the assumptions each one needs appear as explicit
   premises (injective serialisation, collision-free hash, unforgeable / binding signatures).
   [handle e st id req = (res, dl, st')] reads: the receive handler, in environment e (member keys,
   duty gater, deadliner verdicts, ctx polls) and with receive buffers st, returns class res for
   the wire message req, has (dl) or has not called deadliner.Add, and leaves the buffers st'.
   The correspondence check establishes on every run that the calls recorded from the real
   handler are of that kind. *)
From Coq Require Import List ZArith NArith Bool.
From Charon Require Import Flow.WireMsg Flow.WireMsgFacts Flow.WireMsgCorr.
Import ListNotations.

(* Every trace of the model (handle calls, buffer reads, instance deletions, in any number and
   order) passes the trace monitor that transcribes the property: accepted => authentic and well
   formed and exactly that message appended to its duty's buffer; rejected => buffers untouched. *)
Theorem C05_monitor :
  forall (key sigT ebytes digest typeurl vbytes cbytes extra : Type)
    (encode : content extra -> ebytes) (H : ebytes -> digest) (verify : key -> digest -> sigT -> bool)
    (decode : typeurl -> vbytes -> option cbytes) (Hv : cbytes -> N)
    (ls : list (label key sigT typeurl vbytes extra)) (s : state sigT typeurl vbytes extra),
  run encode H verify decode Hv [] ls = Some s -> monitor encode H verify decode Hv ls = true.
Proof. exact run_monitor. Qed.
Print Assumptions C05_monitor.

(* What the monitor checks on one call, in Prop. *)
Theorem C05_monitor_reading :
  forall (key sigT ebytes digest typeurl vbytes cbytes extra : Type)
    (encode : content extra -> ebytes) (H : ebytes -> digest) (verify : key -> digest -> sigT -> bool)
    (decode : typeurl -> vbytes -> option cbytes) (Hv : cbytes -> N)
    (g : snapshot) (id : N) (e : env key) (req : option (wire sigT typeurl vbytes extra))
    (res : result) (after g' : snapshot),
  monitor_handle encode H verify decode Hv g id e req res after = Some g' ->
  match res with
  | Accept => spec_ok encode H verify decode Hv e req = true /\
              exists d, wire_duty req = Some d /\ g' = snap_set g d (snap_get0 g d ++ [id])
  | Reject REnqueue => spec_ok encode H verify decode Hv e req = true /\
              exists d, wire_duty req = Some d /\ g' = snap_set g d (snap_get0 g d)
  | Reject _ => g' = g
  end /\ snap_eqb g' after = true.
Proof. exact monitor_handle_reading. Qed.
Print Assumptions C05_monitor_reading.

(* ... and what [spec_ok] means: main part and every justification carry a signature of the member
   their peer index names over everything else in them, are well formed, share one duty that the
   gater allows and the deadliner scheduled; counts within limits; every referenced hash is the
   recomputed hash of an attached value. *)
Theorem C05_spec_ok_reading :
  forall (key sigT ebytes digest typeurl vbytes cbytes extra : Type)
    (encode : content extra -> ebytes) (H : ebytes -> digest) (verify : key -> digest -> sigT -> bool)
    (decode : typeurl -> vbytes -> option cbytes) (Hv : cbytes -> N)
    (e : env key) (req : option (wire sigT typeurl vbytes extra)),
  spec_ok encode H verify decode Hv e req = true ->
  exists w mp d,
    req = Some w /\ w_msg w = Some mp /\ c_duty (p_c mp) = Some d /\
    part_authentic encode H verify e mp /\ part_wellformed mp /\
    Forall (fun oj => exists j, oj = Some j /\ c_duty (p_c j) = Some d /\
                                part_authentic encode H verify e j /\ part_wellformed j) (w_just w) /\
    e_gater e d = true /\ e_deadline e d = Scheduled /\
    length (w_just w) <= 2 * nodes e /\ length (w_values w) <= 2 * (length (w_just w) + 1) /\
    forall p, In (Some p) (w_msg w :: w_just w) -> forall h, refs p h ->
              exists v, In (Some v) (w_values w) /\ vhash decode Hv v = Some h.
Proof. exact spec_ok_reading. Qed.
Print Assumptions C05_spec_ok_reading.

(* handle_accept_sound: acceptance implies every clause of the property, and the enqueue of
   exactly this message (with the values map rebuilt from recomputed hashes) is the only effect. *)
Theorem C05_handle_accept_sound :
  forall (key sigT ebytes digest typeurl vbytes cbytes extra : Type)
    (encode : content extra -> ebytes) (H : ebytes -> digest) (verify : key -> digest -> sigT -> bool)
    (decode : typeurl -> vbytes -> option cbytes) (Hv : cbytes -> N)
    (e : env key) (st : state sigT typeurl vbytes extra) (id : N)
    (req : option (wire sigT typeurl vbytes extra)) (dl : bool) (st' : state sigT typeurl vbytes extra),
  handle encode H verify decode Hv e st id req = (Accept, dl, st') ->
  exists w d m,
    req = Some w /\ authentic_wellformed encode H verify decode Hv e w d m /\
    e_deadline e d = Scheduled /\ dl = true /\ length (buf0 st d) < cap /\
    st' = set_buf st d (buf0 st d ++ [{| q_id := id; q_wire := w; q_vm := m |}]).
Proof. exact handle_accept_sound. Qed.
Print Assumptions C05_handle_accept_sound.

(* With unforgeable signatures: every accepted part that names an honest member as its source was
   signed by that member exactly as it stands. *)
Theorem C05_accept_signed_by_source :
  forall (key sigT ebytes digest typeurl vbytes cbytes extra : Type)
    (encode : content extra -> ebytes) (H : ebytes -> digest) (verify : key -> digest -> sigT -> bool)
    (decode : typeurl -> vbytes -> option cbytes) (Hv : cbytes -> N)
    (honest : key -> Prop) (signed : key -> content extra -> Prop),
  (forall c c', encode c = encode c' -> c = c') ->
  (forall b b', H b = H b' -> b = b') ->
  (forall k c s, honest k -> verify k (H (encode c)) s = true ->
                 exists c0, signed k c0 /\ H (encode c0) = H (encode c)) ->
  forall (e : env key) (st : state sigT typeurl vbytes extra) (id : N)
    (req : option (wire sigT typeurl vbytes extra)) (dl : bool) (st' : state sigT typeurl vbytes extra),
  handle encode H verify decode Hv e st id req = (Accept, dl, st') ->
  exists w, req = Some w /\
    forall p, In (Some p) (w_msg w :: w_just w) ->
    forall k, pubkey e (c_peer (p_c p)) = Some k -> honest k -> signed k (p_c p).
Proof. exact accept_signed_by_source. Qed.
Print Assumptions C05_accept_signed_by_source.

(* tamper_rejected: a message containing (as main part or as a justification) a content that its
   named honest source never signed is rejected, whatever signature accompanies it. *)
Theorem C05_tamper_rejected :
  forall (key sigT ebytes digest typeurl vbytes cbytes extra : Type)
    (encode : content extra -> ebytes) (H : ebytes -> digest) (verify : key -> digest -> sigT -> bool)
    (decode : typeurl -> vbytes -> option cbytes) (Hv : cbytes -> N)
    (honest : key -> Prop) (signed : key -> content extra -> Prop),
  (forall c c', encode c = encode c' -> c = c') ->
  (forall b b', H b = H b' -> b = b') ->
  (forall k c s, honest k -> verify k (H (encode c)) s = true ->
                 exists c0, signed k c0 /\ H (encode c0) = H (encode c)) ->
  forall (e : env key) (st : state sigT typeurl vbytes extra) (id : N)
    (w : wire sigT typeurl vbytes extra) (p : part sigT extra) (k : key),
  In (Some p) (w_msg w :: w_just w) ->
  pubkey e (c_peer (p_c p)) = Some k -> honest k -> ~ signed k (p_c p) ->
  exists r dl st', handle encode H verify decode Hv e st id (Some w) = (Reject r, dl, st').
Proof. exact tamper_rejected. Qed.
Print Assumptions C05_tamper_rejected.

(* The same, field by field and keeping the original signature: replace, in the main part or in
   any justification, the content of a part that verified by one that differs in at least one
   signed field; the message is rejected. *)
Theorem C05_field_tamper_rejected :
  forall (key sigT ebytes digest typeurl vbytes cbytes extra : Type)
    (encode : content extra -> ebytes) (H : ebytes -> digest) (verify : key -> digest -> sigT -> bool)
    (decode : typeurl -> vbytes -> option cbytes) (Hv : cbytes -> N),
  (forall c c', encode c = encode c' -> c = c') ->
  (forall b b', H b = H b' -> b = b') ->
  (forall k d s k' d', verify k d s = true -> verify k' d' s = true -> k = k' /\ d = d') ->
  forall (e : env key) (st : state sigT typeurl vbytes extra) (id : N)
    (w : wire sigT typeurl vbytes extra) (p : part sigT extra) (c' : content extra) (s : sigT),
  part_authentic encode H verify e p -> p_sig p = Some s ->
  (c_type (p_c p) <> c_type c' \/ c_duty (p_c p) <> c_duty c' \/ c_peer (p_c p) <> c_peer c' \/
   c_round (p_c p) <> c_round c' \/ c_vhash (p_c p) <> c_vhash c' \/ c_pr (p_c p) <> c_pr c' \/
   c_pvhash (p_c p) <> c_pvhash c' \/ c_extra (p_c p) <> c_extra c') ->
  In (Some {| p_c := c'; p_sig := Some s |}) (w_msg w :: w_just w) ->
  exists r dl st', handle encode H verify decode Hv e st id (Some w) = (Reject r, dl, st').
Proof. exact field_tamper_rejected. Qed.
Print Assumptions C05_field_tamper_rejected.

(* A referenced (non-nil) value hash or prepared value hash that no attached value hashes to. *)
Theorem C05_unresolved_rejected :
  forall (key sigT ebytes digest typeurl vbytes cbytes extra : Type)
    (encode : content extra -> ebytes) (H : ebytes -> digest) (verify : key -> digest -> sigT -> bool)
    (decode : typeurl -> vbytes -> option cbytes) (Hv : cbytes -> N)
    (e : env key) (st : state sigT typeurl vbytes extra) (id : N)
    (w : wire sigT typeurl vbytes extra) (p : part sigT extra) (h : N),
  In (Some p) (w_msg w :: w_just w) -> refs p h ->
  (forall v, In (Some v) (w_values w) -> vhash decode Hv v <> Some h) ->
  exists r dl st', handle encode H verify decode Hv e st id (Some w) = (Reject r, dl, st').
Proof. exact unresolved_rejected. Qed.
Print Assumptions C05_unresolved_rejected.

(* value_bytes_tamper_rejected: change the bytes of a referenced value so that they no longer
   denote the same inner message (any byte flip of a canonical encoding does); unless another
   attached value still has the referenced hash, the message is rejected. *)
Theorem C05_value_bytes_tamper_rejected :
  forall (key sigT ebytes digest typeurl vbytes cbytes extra : Type)
    (encode : content extra -> ebytes) (H : ebytes -> digest) (verify : key -> digest -> sigT -> bool)
    (decode : typeurl -> vbytes -> option cbytes) (Hv : cbytes -> N),
  (forall c c', Hv c = Hv c' -> c = c') ->
  forall (e : env key) (st : state sigT typeurl vbytes extra) (id : N)
    (w : wire sigT typeurl vbytes extra) (p : part sigT extra) (h : N) (i : nat)
    (tu : typeurl) (b b' : vbytes) (c : cbytes),
  In (Some p) (w_msg w :: w_just w) -> refs p h ->
  nth_error (w_values w) i = Some (Some (tu, b)) ->
  decode tu b = Some c -> Hv c = h ->
  decode tu b' <> Some c ->
  (forall v, In (Some v) (firstn i (w_values w) ++ skipn (S i) (w_values w)) -> vhash decode Hv v <> Some h) ->
  exists r dl st',
    handle encode H verify decode Hv e st id
      (Some {| w_msg := w_msg w; w_just := w_just w;
               w_values := replace_nth i (Some (tu, b')) (w_values w) |}) = (Reject r, dl, st').
Proof. exact value_bytes_tamper_rejected. Qed.
Print Assumptions C05_value_bytes_tamper_rejected.

(* reject_no_state_change: every rejection except the enqueue timeout leaves the component exactly
   as it was (the enqueue is the last step of handle); the enqueue timeout occurs only for a fully
   verified message of a scheduled duty whose buffer is full and changes no buffer content. *)
Theorem C05_reject_no_state_change :
  forall (key sigT ebytes digest typeurl vbytes cbytes extra : Type)
    (encode : content extra -> ebytes) (H : ebytes -> digest) (verify : key -> digest -> sigT -> bool)
    (decode : typeurl -> vbytes -> option cbytes) (Hv : cbytes -> N)
    (e : env key) (st : state sigT typeurl vbytes extra) (id : N)
    (req : option (wire sigT typeurl vbytes extra)) (r : reason) (dl : bool)
    (st' : state sigT typeurl vbytes extra),
  handle encode H verify decode Hv e st id req = (Reject r, dl, st') ->
  (r <> REnqueue -> st' = st) /\
  (r = REnqueue ->
     exists w d m, decide encode H verify decode Hv e req = VPass d w m /\ e_deadline e d = Scheduled /\
                   cap <= length (buf0 st d) /\ forall d', buf0 st' d' = buf0 st d').
Proof. exact reject_no_state_change. Qed.
Print Assumptions C05_reject_no_state_change.

(* decide_value_exact: what the Decide callback delivers out of an accepted message for a decided
   hash h is an attached value whose recomputed hash is h; its decoded content equals the content
   of any data hashing to h -- in particular of the proposed data whose hash was agreed. *)
Theorem C05_decide_value_exact :
  forall (key sigT ebytes digest typeurl vbytes cbytes extra : Type)
    (encode : content extra -> ebytes) (H : ebytes -> digest) (verify : key -> digest -> sigT -> bool)
    (decode : typeurl -> vbytes -> option cbytes) (Hv : cbytes -> N),
  (forall c c', Hv c = Hv c' -> c = c') ->
  forall (e : env key) (st : state sigT typeurl vbytes extra) (id : N)
    (req : option (wire sigT typeurl vbytes extra)) (dl : bool) (st' : state sigT typeurl vbytes extra),
  handle encode H verify decode Hv e st id req = (Accept, dl, st') ->
  exists q d, buf0 st' d = buf0 st d ++ [q] /\ q_id q = id /\ req = Some (q_wire q) /\
    forall h tu c, delivered decode q h = Some (tu, c) ->
      Hv c = h /\
      (exists b, In (Some (tu, b)) (w_values (q_wire q)) /\ decode tu b = Some c) /\
      forall tu0 b0 c0, decode tu0 b0 = Some c0 -> Hv c0 = h -> c = c0.
Proof. exact accepted_decide_value_exact. Qed.
Print Assumptions C05_decide_value_exact.

(* Non-vacuity: a trace with an accepted justified PRE-PREPARE (four justifications, two values), a
   rejected tampered copy, an expired duty, a buffer read, a deletion and a cancelled context. *)
Theorem C05_nonvacuous : exists s, c_run Ex.dt Ex.ht [] Ex.trace = Some s.
Proof. exact Ex.trace_accepted. Qed.
Print Assumptions C05_nonvacuous.

(* Finding F11: the type URL of a value is NOT covered.  In an instance where two type URLs decode
   the same bytes to the same canonical bytes (as google.protobuf.Empty / other message types do
   in the real code) the type-URL analogue of value_bytes_tamper_rejected fails: the re-typed
   message is accepted, Decide delivers a value of the wrong type (a typed subscriber is called
   zero times), and a transport cache that held the good value is overwritten. *)
Theorem C05_typeurl_tamper_refuted :
  ~ F11.typeurl_tamper_claim /\
  F11.deliveries F11.w_good = Some 1 /\
  F11.deliveries F11.w_bad = Some 0 /\
  vlookup (F11.cache_after [F11.w_good; F11.w_bad]) 7001 = Some F11.retyped.
Proof. exact F11.typeurl_tamper_refuted. Qed.
Print Assumptions C05_typeurl_tamper_refuted.
