(* C12 — cluster artefacts are mutually consistent and tamper-evident.

   Statements only; proofs are in Codec/SszTree.v, Codec/HashProgFacts.v, Codec/ClusterHash.v and
   Codec/LockConsistent.v.  The hash programs prog_<hash>_<version> are GENERATED from
   cluster/ssz.go of the checked working tree by translator/hashprog (gen/HashProgs.v) on every run,
   so the per-version theorems below are re-proved about what the code says now; translator and tree
   model are validated on every run by evaluating the programs with SHA-256 in Coq against the
   hashes the Go code computes (gen/cases_C12_*.v).

   H is the 64-byte -> 32-byte compression function (SHA-256 in Go), Z the table of zero hashes.
   [collision_free H] is the usual idealisation; it is a premise, never an axiom, and it is
   satisfiable in the model (C12_hypothesis_satisfiable).

   What is NOT a theorem here (claimed by correspondence only, see props/C12.json): the JSON
   codecs (decode/encode stability, which JSON leaf feeds which field), EIP-712 and BLS signature
   verification, the key stores. *)
From mathcomp Require Import all_ssreflect all_algebra.
From Charon Require Import Tbls.Shamir Codec.LockConsistent.
From Coq Require Import List NArith Bool String.
From Charon Require Import Codec.SszTree Codec.HashProg Codec.HashProgFacts Codec.ClusterHash gen.HashProgs.
Import ListNotations.

(* For every well-formed hash program: equal roots (of two definitions / locks on which the Go hash
   function succeeds, on the declared domain) imply equal canonical values of every hashed field, in
   hashing order: byte strings, integers mod 2^64, booleans, list lengths. *)
Theorem C12_root_injective :
  forall (H : chunk -> chunk -> chunk) (Z : nat -> chunk), collision_free H ->
  forall p e1 e2 r, wf p = true -> dom p e1 = true -> dom p e2 = true ->
    HashProg.root H Z p e1 = Some r -> HashProg.root H Z p e2 = Some r -> fields p e1 = fields p e2.
Proof. exact root_injective. Qed.
Print Assumptions C12_root_injective.

(* The premise on H can be met (an injective pairing on byte lists): the theorems are not vacuous. *)
Theorem C12_hypothesis_satisfiable : collision_free pairH.
Proof. exact pairH_inj. Qed.
Print Assumptions C12_hypothesis_satisfiable.

(* Which of the 36 generated programs pass the well-formedness check (computed on the generated
   terms): everything from v1.5 on, the config hash of v1.3/v1.4; nothing of v1.0 - v1.2. *)
Theorem C12_wf_table : wf_table = expected_wf_table.
Proof. exact wf_table_ok. Qed.
Print Assumptions C12_wf_table.

(* Tamper evidence per format version: config hash, definition hash and lock hash. *)
Theorem C12_tamper_evident_v1_5 : forall H, collision_free H ->
  tamper_evident3 H prog_config_v1_5 prog_def_v1_5 prog_lock_v1_5.
Proof. exact tamper_evident_v1_5. Qed.
Print Assumptions C12_tamper_evident_v1_5.

Theorem C12_tamper_evident_v1_6 : forall H, collision_free H ->
  tamper_evident3 H prog_config_v1_6 prog_def_v1_6 prog_lock_v1_6.
Proof. exact tamper_evident_v1_6. Qed.
Print Assumptions C12_tamper_evident_v1_6.

Theorem C12_tamper_evident_v1_7 : forall H, collision_free H ->
  tamper_evident3 H prog_config_v1_7 prog_def_v1_7 prog_lock_v1_7.
Proof. exact tamper_evident_v1_7. Qed.
Print Assumptions C12_tamper_evident_v1_7.

Theorem C12_tamper_evident_v1_8 : forall H, collision_free H ->
  tamper_evident3 H prog_config_v1_8 prog_def_v1_8 prog_lock_v1_8.
Proof. exact tamper_evident_v1_8. Qed.
Print Assumptions C12_tamper_evident_v1_8.

Theorem C12_tamper_evident_v1_9 : forall H, collision_free H ->
  tamper_evident3 H prog_config_v1_9 prog_def_v1_9 prog_lock_v1_9.
Proof. exact tamper_evident_v1_9. Qed.
Print Assumptions C12_tamper_evident_v1_9.

Theorem C12_tamper_evident_v1_10 : forall H, collision_free H ->
  tamper_evident3 H prog_config_v1_10 prog_def_v1_10 prog_lock_v1_10.
Proof. exact tamper_evident_v1_10. Qed.
Print Assumptions C12_tamper_evident_v1_10.

Theorem C12_tamper_evident_v1_11 : forall H, collision_free H ->
  tamper_evident3 H prog_config_v1_11 prog_def_v1_11 prog_lock_v1_11.
Proof. exact tamper_evident_v1_11. Qed.
Print Assumptions C12_tamper_evident_v1_11.

Theorem C12_tamper_evident_config_v1_3 : forall H, collision_free H -> tamper_evident H prog_config_v1_3.
Proof. exact tamper_evident_config_v1_3. Qed.
Print Assumptions C12_tamper_evident_config_v1_3.

Theorem C12_tamper_evident_config_v1_4 : forall H, collision_free H -> tamper_evident H prog_config_v1_4.
Proof. exact tamper_evident_config_v1_4. Qed.
Print Assumptions C12_tamper_evident_config_v1_4.

(* A fixed-size byte field is observed left-padded (putBytesN hashes leftPad(b, n)); on values of the
   declared size the observation is the value itself. *)
Theorem C12_fixed_size_canonical : forall b n, List.length b = n -> left_pad b n = b.
Proof. exact left_pad_exact. Qed.
Print Assumptions C12_fixed_size_canonical.

(* REFUTED for the legacy formats (finding F6): "changing a hashed field changes the hash" fails for
   v1.0 - v1.2 — strings are hashed zero-padded without their length, name "a" and "a\000" collide in
   the config, definition and lock hash, for every compression function. *)
Theorem C12_legacy_hash_collision_v1_0 :
  collides prog_config_v1_0 /\ collides prog_def_v1_0 /\ collides prog_lock_v1_0.
Proof. exact legacy_hash_collision_v1_0. Qed.
Print Assumptions C12_legacy_hash_collision_v1_0.

Theorem C12_legacy_hash_collision_v1_1 :
  collides prog_config_v1_1 /\ collides prog_def_v1_1 /\ collides prog_lock_v1_1.
Proof. exact legacy_hash_collision_v1_1. Qed.
Print Assumptions C12_legacy_hash_collision_v1_1.

Theorem C12_legacy_hash_collision_v1_2 :
  collides prog_config_v1_2 /\ collides prog_def_v1_2 /\ collides prog_lock_v1_2.
Proof. exact legacy_hash_collision_v1_2. Qed.
Print Assumptions C12_legacy_hash_collision_v1_2.

(* REFUTED for the definition hash of v1.3 / v1.4 taken alone: an absent operator signature
   contributes no chunk, so (config signature s, no ENR signature) and (no config signature, ENR
   signature s) collide.  Verification as a whole rejects both (empty-signature checks): the
   harness finds no verifying mutant of this shape. *)
Theorem C12_signature_shift_collision_v1_3 : collides prog_def_v1_3 /\ collides prog_lock_v1_3.
Proof. exact signature_shift_collision_v1_3. Qed.
Print Assumptions C12_signature_shift_collision_v1_3.

Theorem C12_signature_shift_collision_v1_4 : collides prog_def_v1_4 /\ collides prog_lock_v1_4.
Proof. exact signature_shift_collision_v1_4. Qed.
Print Assumptions C12_signature_shift_collision_v1_4.

(* REFUTED up to v1.4 (harness finding legacy-address-shift): the single fee-recipient / withdrawal
   address pair is hashed by calls that append nothing for an empty address, so "only a fee
   recipient A" and "only a withdrawal address A" collide in every hash; for the v1.3/v1.4 config
   hash this is exactly the part of the input space that the domain premise excludes. *)
Theorem C12_address_shift_collision :
  collides prog_config_v1_3 /\ collides prog_def_v1_3 /\ collides prog_config_v1_4 /\ collides prog_def_v1_4 /\
  collides prog_config_v1_0 /\ collides prog_config_v1_1 /\ collides prog_config_v1_2 /\
  dom prog_config_v1_3 (addr_def addrA []) = false.
Proof. exact address_shift_collision. Qed.
Print Assumptions C12_address_shift_collision.

(* What tamper evidence does NOT cover for addresses from v1.5 on (their canonical observation is
   the 20 decoded bytes, the empty string counting as 20 zero bytes): "" and the zero address hash
   alike (harness finding empty-address-equals-zero-address), and so do the hex spellings. *)
Theorem C12_address_canonical_gaps :
  fields (PutHex20 ["a"%string]) (addr_env []) = fields (PutHex20 ["a"%string]) (addr_env zero_address_ascii) /\
  (forall H Z, interp H Z (PutHex20 ["a"%string]) (addr_env []) = interp H Z (PutHex20 ["a"%string]) (addr_env zero_address_ascii)) /\
  fields (PutHex20 ["a"%string]) (addr_env (48 :: 120 :: repeat 97 40)%N) = fields (PutHex20 ["a"%string]) (addr_env (48 :: 120 :: repeat 65 40)%N) /\
  fields (PutHex20 ["a"%string]) (addr_env (48 :: 120 :: repeat 97 40)%N) = fields (PutHex20 ["a"%string]) (addr_env (repeat 97 40)%N).
Proof. exact address_canonical_gaps. Qed.
Print Assumptions C12_address_canonical_gaps.

(* The domain premise of the lock theorems of v1.7 - v1.11 cannot be dropped at the hash level: the
   builder registration's fee recipient is hashed by a bare PutBytes, a 21-byte value ending in 00 has
   the root of the 20-byte one (every hash function).  This was finding F14
   (registration-fee-recipient-padding): before the fix the altered lock passed verification; the
   fixed verifyBuilderRegistrations checks the lengths, i.e. enforces the premise [dom]. *)
Theorem C12_registration_padding_collision :
  collides prog_lock_v1_7 /\ collides prog_lock_v1_8 /\ collides prog_lock_v1_9 /\
  collides prog_lock_v1_10 /\ collides prog_lock_v1_11 /\
  dom prog_lock_v1_11 (reg_lock (repeat 9%N 20)) = true /\
  dom prog_lock_v1_11 (reg_lock (repeat 9%N 20 ++ [0%N])) = false.
Proof. exact registration_padding_collision. Qed.
Print Assumptions C12_registration_padding_collision.

(* Share consistency, over any scalar field F and any public-key group G1 (a vector space over F
   with generator g1), share identifiers x pairwise distinct and non-zero: if a validator of the lock
   passes verifySharesReconstruct (threshold t, n public shares y, validator key dv), any >= t public
   shares recombine to dv; and if node i's key share s i is the secret of public share i, any >= t
   key shares recombine to a secret whose public key is dv. *)
Theorem C12_public_shares_recombine :
  forall (F : fieldType) (G1 : lmodType F) (x : nat -> F) (n t : nat),
  ids_distinct x (iota 0 n) -> ids_nonzero x (iota 0 n) ->
  forall (dv : G1) (y : nat -> G1), vsr_check x dv y n t ->
  forall js, uniq js -> {subset js <= iota 0 n} -> leq t (size js) -> recover x js y = dv.
Proof. exact public_shares_recombine. Qed.
Print Assumptions C12_public_shares_recombine.

Theorem C12_lock_consistent :
  forall (F : fieldType) (G1 : lmodType F) (g1 : G1) (x : nat -> F) (n t : nat),
  ids_distinct x (iota 0 n) -> ids_nonzero x (iota 0 n) ->
  forall (dv : G1) (y : nat -> G1) (s : nat -> F),
  vsr_check x dv y n t -> (forall i, leq (S i) n -> pk g1 (s i) = y i) ->
  forall js, uniq js -> {subset js <= iota 0 n} -> leq t (size js) ->
  recover x js y = dv /\ pk g1 (recover_secret x js s) = dv.
Proof. exact lock_consistent. Qed.
Print Assumptions C12_lock_consistent.
