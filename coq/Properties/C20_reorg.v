(* C20 (and C15), reorg side: the epoch the duties cache / scheduler are told for a beacon-node chain_reorg event is
   the epoch of the common ancestor, so "the affected epochs are fetched afresh" starts from the right epoch.
   Model: Flow/SseReorg.v (app/sse/listener.go), replayed against the real listener on every run. *)
From Coq Require Import List NArith Bool.
From Charon Require Import Flow.SseReorg.
Import ListNotations.
Local Open Scope N_scope.

Theorem C20_reorg_monitor : forall spe ls s, run spe init ls = Some s -> monitor spe ls = true.
Proof. exact run_monitor. Qed.
Print Assumptions C20_reorg_monitor.

Theorem C20_reorg_told_covers_affected : forall spe ls s slot depth ef errored e,
  spe <> 0 -> run spe init ls = Some s -> In (LReorg slot depth ef errored (Some e)) ls ->
  depth <= slot /\ e * spe <= slot - depth /\ (forall s', slot - depth < s' -> e <= s' / spe).
Proof. exact told_covers_affected. Qed.
Print Assumptions C20_reorg_told_covers_affected.

Theorem C20_reorg_seeded_mistakes_rejected :
  (run 32 init [LReorg 64 2 2 false (Some 2)] = None /\ monitor 32 [LReorg 64 2 2 false (Some 2)] = false /\
   (exists s, run 32 init [LReorg 64 2 2 false (Some 1)] = Some s)) /\
  (run 8 init [LReorg 9 3 1 false (Some 1)] = None /\ (exists s, run 8 init [LReorg 9 3 1 false None] = Some s)).
Proof. exact (conj slotdiv_minus_depthdiv_rejected event_epoch_field_rejected). Qed.
Print Assumptions C20_reorg_seeded_mistakes_rejected.
