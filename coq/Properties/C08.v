(* C08 — Threshold BLS: any t valid shares reproduce the group key's signature; a combination that
   includes a signature from a wrong share, a wrong index or a different message does not verify.

   Only statements here; proofs are in Tbls/Shamir.v (abstract, any field) and Tbls/ShamirZ.v
   (executable instance over Z mod m and its refinement to 'F_p).

   Vocabulary.  F is any field (herumi: Fr of BLS12-381).  A set of shares is a list [js] of indices
   with ids [x j] in F; [ids_distinct x js] = the ids are pairwise distinct, [ids_nonzero x js] =
   none is 0.  [lam x js j] is the Lagrange coefficient at 0 of share j within js; [recover x js y]
   = sum_j lam x js j *: y j is what blsSecretKeyRecover / blsPublicKeyRecover / blsSignatureRecover
   compute from exactly the shares js (in the scalar field, G1, G2 respectively — any vector
   space V over F).  A t-of-n split is a polynomial p with [size p <= t] (degree < t); the share
   of j is p.[x j], the secret p.[0].  All statements are for every n, t and every field. *)
From mathcomp Require Import all_ssreflect all_algebra.
From Charon Require Import Tbls.Shamir Tbls.ShamirZ Tbls.PrimeR.
Import GRing.Theory.
Local Open Scope ring_scope.

(* Every set of at least t shares recovers the secret. *)
Theorem C08_split_recover :
  forall (F : fieldType) (J : eqType) (x : J -> F) (js : seq J) (p : {poly F}) (t : nat),
  ids_distinct x js -> (size p <= t)%N -> (t <= size js)%N ->
  \sum_(j <- js) lam x js j * p.[x j] = p.[0].
Proof. exact split_recover. Qed.
Print Assumptions C08_split_recover.

(* ... hence any two such sets recover the same secret. *)
Theorem C08_recover_same_secret :
  forall (F : fieldType) (J : eqType) (x : J -> F) (js js' : seq J) (p : {poly F}) (t : nat),
  ids_distinct x js -> ids_distinct x js' -> (size p <= t)%N -> (t <= size js)%N -> (t <= size js')%N ->
  \sum_(j <- js) lam x js j * p.[x j] = \sum_(j <- js') lam x js' j * p.[x j].
Proof. exact recover_same_secret. Qed.
Print Assumptions C08_recover_same_secret.

(* Recovery commutes with every linear map (secret |-> public key, secret |-> signature). *)
Theorem C08_recover_linear :
  forall (F : fieldType) (J : eqType) (x : J -> F) (V W : lmodType F) (g : {linear V -> W})
         (js : seq J) (y : J -> V),
  g (recover x js y) = recover x js (g \o y).
Proof. exact recover_linear. Qed.
Print Assumptions C08_recover_linear.

(* The same coefficients recover the constant term of a polynomial with coefficients in any
   vector space (public-key polynomial in G1, signature polynomial in G2). *)
Theorem C08_split_recover_group :
  forall (F : fieldType) (J : eqType) (x : J -> F) (V : lmodType F) (js : seq J) (c : nat -> V) (t : nat),
  ids_distinct x js -> (0 < t)%N -> (t <= size js)%N ->
  recover x js (fun j => evalV c t (x j)) = c 0%N.
Proof. exact split_recover_lmod. Qed.
Print Assumptions C08_split_recover_group.

(* BLS layer.  G1, G2, GT vector spaces over F, e bilinear, non-degenerate at the generator g1
   (hypotheses about the pairing group, provided by the trusted library).  pk_of s = s *: g1,
   sign s h = s *: h where h = H(m), verify pk h sig = (e g1 sig == e pk h). *)

(* Exactly one signature verifies: the one made with the secret key. *)
Theorem C08_verify_iff :
  forall (F : fieldType) (G1 G2 GT : lmodType F) (e : G1 -> G2 -> GT) (g1 : G1),
  (forall a u v, e (a *: u) v = a *: e u v) -> (forall a u v, e u (a *: v) = a *: e u v) ->
  (forall u v w, e u (v - w) = e u v - e u w) -> (forall v, e g1 v = 0 -> v = 0) ->
  forall s h sig, verify e g1 (pk_of g1 s) h sig <-> sig = sign s h.
Proof. exact verify_iff. Qed.
Print Assumptions C08_verify_iff.

(* Partial signatures from any >= t distinct shares over one message combine into the very
   signature of the undivided key, the public shares combine into the group public key, and the
   combination verifies under the group public key. *)
Theorem C08_threshold_signature_correct :
  forall (F : fieldType) (G1 G2 GT : lmodType F) (e : G1 -> G2 -> GT) (g1 : G1),
  (forall a u v, e (a *: u) v = a *: e u v) -> (forall a u v, e u (a *: v) = a *: e u v) ->
  (forall u v w, e u (v - w) = e u v - e u w) -> (forall v, e g1 v = 0 -> v = 0) ->
  forall (J : eqType) (x : J -> F) (p : {poly F}) (t : nat) (js : seq J),
  (size p <= t)%N -> (t <= size js)%N -> ids_distinct x js ->
  forall h : G2,
  recover x js (fun j => sign p.[x j] h) = sign p.[0] h /\
  recover x js (fun j => pk_of g1 p.[x j]) = pk_of g1 p.[0] /\
  verify e g1 (pk_of g1 p.[0]) h (recover x js (fun j => sign p.[x j] h)).
Proof. exact threshold_signature_correct. Qed.
Print Assumptions C08_threshold_signature_correct.

(* Negative direction, as equivalences with the degenerate cases spelled out.  In a combination
   over js (>= t shares, ids distinct and non-zero) the partial signature at position j is
   replaced by an arbitrary group element sig': it verifies iff sig' IS the honest partial. *)
Theorem C08_wrong_partial_iff :
  forall (F : fieldType) (G1 G2 GT : lmodType F) (e : G1 -> G2 -> GT) (g1 : G1),
  (forall a u v, e (a *: u) v = a *: e u v) -> (forall a u v, e u (a *: v) = a *: e u v) ->
  (forall u v w, e u (v - w) = e u v - e u w) -> (forall v, e g1 v = 0 -> v = 0) ->
  forall (J : eqType) (x : J -> F) (p : {poly F}) (t : nat) (js : seq J),
  (size p <= t)%N -> (t <= size js)%N -> ids_distinct x js -> ids_nonzero x js ->
  forall (h : G2) (j : J) (sig' : G2), j \in js ->
  verify e g1 (pk_of g1 p.[0]) h (recover x js (fun k => if k == j then sig' else sign p.[x k] h))
  <-> sig' = sign p.[x j] h.
Proof. exact wrong_partial_iff. Qed.
Print Assumptions C08_wrong_partial_iff.

(* wrong share: signed with another secret s' — verifies iff s' is the share (or H(m) = 0) *)
Theorem C08_wrong_share_iff :
  forall (F : fieldType) (G1 G2 GT : lmodType F) (e : G1 -> G2 -> GT) (g1 : G1),
  (forall a u v, e (a *: u) v = a *: e u v) -> (forall a u v, e u (a *: v) = a *: e u v) ->
  (forall u v w, e u (v - w) = e u v - e u w) -> (forall v, e g1 v = 0 -> v = 0) ->
  forall (J : eqType) (x : J -> F) (p : {poly F}) (t : nat) (js : seq J),
  (size p <= t)%N -> (t <= size js)%N -> ids_distinct x js -> ids_nonzero x js ->
  forall (h : G2) (j : J) (s' : F), j \in js ->
  verify e g1 (pk_of g1 p.[0]) h (recover x js (fun k => if k == j then sign s' h else sign p.[x k] h))
  <-> (s' = p.[x j] \/ h = 0).
Proof. exact wrong_share_sig_iff. Qed.
Print Assumptions C08_wrong_share_iff.

(* wrong index: share k's partial presented under index j — verifies iff both shares are equal *)
Theorem C08_wrong_index_iff :
  forall (F : fieldType) (G1 G2 GT : lmodType F) (e : G1 -> G2 -> GT) (g1 : G1),
  (forall a u v, e (a *: u) v = a *: e u v) -> (forall a u v, e u (a *: v) = a *: e u v) ->
  (forall u v w, e u (v - w) = e u v - e u w) -> (forall v, e g1 v = 0 -> v = 0) ->
  forall (J : eqType) (x : J -> F) (p : {poly F}) (t : nat) (js : seq J),
  (size p <= t)%N -> (t <= size js)%N -> ids_distinct x js -> ids_nonzero x js ->
  forall (h : G2) (j k : J), j \in js ->
  verify e g1 (pk_of g1 p.[0]) h (recover x js (fun i => if i == j then sign p.[x k] h else sign p.[x i] h))
  <-> (p.[x k] = p.[x j] \/ h = 0).
Proof. exact wrong_index_iff. Qed.
Print Assumptions C08_wrong_index_iff.

(* different message: share j signs h' = H(m') — verifies iff the share is 0 or H(m') = H(m) *)
Theorem C08_wrong_message_iff :
  forall (F : fieldType) (G1 G2 GT : lmodType F) (e : G1 -> G2 -> GT) (g1 : G1),
  (forall a u v, e (a *: u) v = a *: e u v) -> (forall a u v, e u (a *: v) = a *: e u v) ->
  (forall u v w, e u (v - w) = e u v - e u w) -> (forall v, e g1 v = 0 -> v = 0) ->
  forall (J : eqType) (x : J -> F) (p : {poly F}) (t : nat) (js : seq J),
  (size p <= t)%N -> (t <= size js)%N -> ids_distinct x js -> ids_nonzero x js ->
  forall (h h' : G2) (j : J), j \in js ->
  verify e g1 (pk_of g1 p.[0]) h (recover x js (fun k => if k == j then sign p.[x j] h' else sign p.[x k] h))
  <-> (p.[x j] = 0 \/ h' = h).
Proof. exact wrong_message_iff. Qed.
Print Assumptions C08_wrong_message_iff.

(* The same on the scalar / any-group level: replacing one share changes what is recovered
   unless the replacement is equal. *)
Theorem C08_wrong_share_changes_recovery :
  forall (F : fieldType) (J : eqType) (x : J -> F) (V : lmodType F) (js : seq J) (y y' : J -> V) (j : J),
  ids_distinct x js -> ids_nonzero x js -> j \in js ->
  (forall k, k \in js -> k != j -> y' k = y k) ->
  (recover x js y' = recover x js y <-> y' j = y j).
Proof. exact wrong_share_iff. Qed.
Print Assumptions C08_wrong_share_changes_recovery.

(* The bilinear-map hypotheses are satisfiable (F itself with multiplication), so the theorems
   above are not vacuous. *)
Theorem C08_bls_model_exists :
  forall F : fieldType, exists (G1 G2 GT : lmodType F) (e : G1 -> G2 -> GT) (g1 : G1),
  (forall a u v, e (a *: u) v = a *: e u v) /\ (forall a u v, e u (a *: v) = a *: e u v) /\
  (forall u v w, e u (v - w) = e u v - e u w) /\ (forall v, e g1 v = 0 -> v = 0) /\ g1 != 0.
Proof. exact bls_model_exists. Qed.
Print Assumptions C08_bls_model_exists.

(* Share ids 1..n (share index = node index + 1) are pairwise distinct and non-zero as soon as
   n is below the characteristic of the field (or the characteristic is 0) — and so is every
   duplicate-free sub-list of them. *)
Theorem C08_ids_1_to_n_ok :
  forall (F : fieldType) (n : nat), char_above F n ->
  forall js : seq nat, uniq js -> {subset js <= iota 0 n} ->
  ids_distinct (idn F) js /\ ids_nonzero (idn F) js.
Proof. exact nat_ids_ok. Qed.
Print Assumptions C08_ids_1_to_n_ok.

(* cluster.verifySharesReconstruct (first t shares, then each later share with the first t-1):
   if it accepts, all n shares lie on one polynomial of degree < t whose constant term is the
   group key; and conversely. *)
Theorem C08_verify_shares_reconstruct_sound :
  forall (F : fieldType) (V : lmodType F) (x : nat -> F) (n t : nat),
  ids_distinct x (iota 0 n) -> ids_nonzero x (iota 0 n) ->
  forall (dv : V) (y : nat -> V), vsr_check x dv y n t -> on_one_poly x dv y n t.
Proof. exact verify_shares_reconstruct_sound. Qed.
Print Assumptions C08_verify_shares_reconstruct_sound.

Theorem C08_verify_shares_reconstruct_complete :
  forall (F : fieldType) (V : lmodType F) (x : nat -> F) (n t : nat),
  ids_distinct x (iota 0 n) -> ids_nonzero x (iota 0 n) ->
  forall (dv : V) (y : nat -> V), (0 < t <= n)%N -> on_one_poly x dv y n t -> vsr_check x dv y n t.
Proof. exact verify_shares_reconstruct_complete. Qed.
Print Assumptions C08_verify_shares_reconstruct_complete.

(* Executable instance (the functions the correspondence check evaluates at the BLS12-381 scalar
   order r): for every modulus m = p prime > 2, recovery from the shares of a polynomial over any
   admissible id list returns the constant term ... *)
Theorem C08_recoverZ_split :
  forall (p : nat) (m : BinNums.Z), prime p -> BinInt.Z.of_nat p = m -> (2 < p)%N ->
  forall (cs ids : seq BinNums.Z), ids_okZ m ids -> (size cs <= size ids)%N ->
  recoverZ m (zip ids (map (evalZ m cs) ids)) = redm m (head BinNums.Z0 cs).
Proof. exact recoverZ_split. Qed.
Print Assumptions C08_recoverZ_split.

(* ... and the scalar version of verifySharesReconstruct (also used as the relational check on
   ThresholdSplit and DKG outputs) decides "on one polynomial of degree < t" in the field 'F_p. *)
Theorem C08_vsr_checkZ_sound :
  forall (p : nat) (m : BinNums.Z), prime p -> BinInt.Z.of_nat p = m -> (2 < p)%N ->
  forall (dv : BinNums.Z) (ys : seq BinNums.Z) (t : nat), (size ys < p)%N -> vsr_checkZ m dv ys t ->
  on_one_poly (idn (Fp_fieldType p)) (phi p dv : ('F_p)^o) (yfield p ys) (size ys) t.
Proof. exact vsr_checkZ_sound. Qed.
Print Assumptions C08_vsr_checkZ_sound.

(* The BLS12-381 scalar field order r is prime — proved in Coq (Tbls/PrimeR.v: Pocklington's test with
   the factored part 2^32 * 3 * 906349^2 * 254760293^2 > sqrt r of r - 1, base 7, factors certified by
   trial division; computations on binary integers by vm_compute).  Hence the two statements above hold at m = r unconditionally. *)
Theorem C08_r_prime : prime (BinInt.Z.to_nat r).
Proof. exact r_prime. Qed.
Print Assumptions C08_r_prime.

Theorem C08_recoverZ_split_r :
  forall (cs ids : seq BinNums.Z), ids_okZ r ids -> (size cs <= size ids)%N ->
  recoverZ r (zip ids (map (evalZ r cs) ids)) = redm r (head BinNums.Z0 cs).
Proof. exact recoverZ_split_r. Qed.
Print Assumptions C08_recoverZ_split_r.

Theorem C08_vsr_checkZ_sound_r :
  forall (dv : BinNums.Z) (ys : seq BinNums.Z) (t : nat),
  (size ys < BinInt.Z.to_nat r)%N -> vsr_checkZ r dv ys t ->
  on_one_poly (idn (Fp_fieldType (BinInt.Z.to_nat r))) (phi (BinInt.Z.to_nat r) dv : ('F_(BinInt.Z.to_nat r))^o)
              (yfield (BinInt.Z.to_nat r) ys) (size ys) t.
Proof. exact vsr_checkZ_sound_r. Qed.
Print Assumptions C08_vsr_checkZ_sound_r.
