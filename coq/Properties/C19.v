(* C19 — Beacon API calls succeed whenever one configured beacon node answers.
   Only statements here; proofs are in Flow/MultiFacts.v, the model (of app/eth2wrap provide /
   submit and the fork-join they use) in Flow/Multi.v.

   Reading guide.  [provide prim fb pord ford tc] is the result of one multi-client call:
   prim / fb = configured primary / fallback nodes (outcome and latency each), pord / ford = the
   order in which the nodes of each group complete (any order that is non-decreasing in latency:
   [order_ok]), tc = instant at which the caller cancels its context (None = never).
   [consulted] = the fallback nodes are called; [finish_time] = instant at which the call returns.
   A [case] is the label recorded from one call of the real client; [accepts c] says the model
   reproduces everything that was observed (this is what the correspondence check evaluates on
   every run), [monitor c] transcribes the English property over the label alone.

   Partial (as claimed in DESIGN.md): latency is virtual time.  Node calls may ignore cancellation of
   their context ([deaf]); a [Hang] node is one that returns only when cancelled. *)
From Coq Require Import List NArith Bool Arith.
From Charon Require Import Flow.Multi Flow.MultiFacts.
Import ListNotations.
Local Open Scope N_scope.

(* Every observation the model can produce satisfies the property monitor (all node counts, all
   outcome vectors, all admissible completion orders, any cancellation instant, all three call
   styles). *)
Theorem C19_monitor : forall c, accepts c = true -> monitor c = true.
Proof. exact accepts_monitor. Qed.
Print Assumptions C19_monitor.

(* ... also when latencies coincide and the completion order is therefore not determined. *)
Theorem C19_monitor_any_order : forall c, accepts_any c = true -> monitor c = true.
Proof. exact accepts_any_monitor. Qed.
Print Assumptions C19_monitor_any_order.

(* The call returns a primary's successful answer iff some primary answers successfully. *)
Theorem C19_succeeds_iff_some_primary_succeeds : forall prim fb pord ford,
  order_ok prim pord = true ->
  ((exists i a, provide prim fb pord ford None = ROk (P i) a) <-> (exists i a, out (get prim i) = Success a)).
Proof. exact succeeds_iff_some_primary_succeeds. Qed.
Print Assumptions C19_succeeds_iff_some_primary_succeeds.

(* It is the answer of the first successful primary in completion order ... *)
Theorem C19_returns_first_success : forall prim fb pord ford tc i a,
  provide prim fb pord ford tc = ROk (P i) a ->
  exists pre post, pord = pre ++ i :: post /\ Forall (nonsucc prim) pre /\ out (get prim i) = Success a.
Proof. exact returns_first_success. Qed.
Print Assumptions C19_returns_first_success.

(* ... and exactly one configured node's own answer (or error), never a mixture. *)
Theorem C19_returns_one_nodes_answer : forall prim fb pord ford tc,
  match provide prim fb pord ford tc with
  | ROk (P i) a => out (get prim i) = Success a
  | ROk (F j) a => out (get fb j) = Success a
  | RSoft (P i) a => out (get prim i) = Soft a
  | RSoft (F j) a => out (get fb j) = Soft a
  | RErr (P i) e => out (get prim i) = Err e
  | RErr (F j) e => out (get fb j) = Err e
  | _ => True
  end.
Proof. exact returns_one_nodes_answer. Qed.
Print Assumptions C19_returns_one_nodes_answer.

(* Does not wait (order form): after the completions up to the first success the result is final,
   independently of what completes later, of all other nodes (slow, failing, hung) and of the
   fallbacks. *)
Theorem C19_first_success_final : forall prim prim' fb fb' pre i a post post' ford ford',
  (forall j, In j (pre ++ [i]) -> get prim j = get prim' j) ->
  Forall (nonsucc prim) pre -> out (get prim i) = Success a ->
  provide prim fb (pre ++ i :: post) ford None = ROk (P i) a /\
  provide prim' fb' (pre ++ i :: post') ford' None = ROk (P i) a.
Proof. exact first_success_final. Qed.
Print Assumptions C19_first_success_final.

(* Does not wait (time form): the call returns at the smallest latency of any successful primary,
   with the answer of a primary of that latency, if the caller has not cancelled by then. *)
Theorem C19_latency_is_fastest_success : forall prim fb pord ford tc m,
  order_ok prim pord = true -> min_succ prim = Some m -> cancelled tc m = false ->
  finish_time prim fb pord ford tc = Some m /\
  exists i a, provide prim fb pord ford tc = ROk (P i) a /\ out (get prim i) = Success a /\ delay (get prim i) = m.
Proof. exact latency_is_fastest_success. Qed.
Print Assumptions C19_latency_is_fastest_success.

(* It fails only when all primaries fail: an error result implies that every primary completed
   without a successful answer (none succeeded, none is still pending). *)
Theorem C19_fails_only_if_all_fail : forall prim fb pord ford tc,
  order_ok prim pord = true ->
  (provide prim fb pord ford tc = RBug \/ exists n e, provide prim fb pord ford tc = RErr n e) ->
  forall k, (k < length prim)%nat -> failed (out (get prim k)) = true.
Proof. exact fails_only_if_all_fail. Qed.
Print Assumptions C19_fails_only_if_all_fail.

Theorem C19_bug_only_without_primaries : forall prim fb pord ford tc,
  order_ok prim pord = true -> order_ok fb ford = true ->
  provide prim fb pord ford tc = RBug -> prim = [].
Proof. exact bug_only_without_primaries. Qed.
Print Assumptions C19_bug_only_without_primaries.

(* Which error: that of the LAST completing primary. *)
Theorem C19_error_is_last_completing : forall prim fb pord ford tc i e,
  order_ok prim pord = true -> provide prim fb pord ford tc = RErr (P i) e ->
  final pord None = Some i /\ out (get prim i) = Err e.
Proof. exact error_is_last_completing. Qed.
Print Assumptions C19_error_is_last_completing.

(* Fallback rule, the cases the property text determines: every primary fails with an
   unavailability error (timeout, syncing, unreachable) => the fallbacks are consulted ... *)
Theorem C19_fallback_all_unavailable : forall prim fb pord,
  order_ok prim pord = true -> prim <> [] -> fb <> [] ->
  (forall n, In n prim -> err_unavail (out n) = true) ->
  consulted prim fb pord None = true.
Proof. exact fallback_all_unavailable. Qed.
Print Assumptions C19_fallback_all_unavailable.

(* ... no primary failure is an unavailability error => they are not. *)
Theorem C19_fallback_none_unavailable : forall prim fb pord tc,
  order_ok prim pord = true ->
  (forall n, In n prim -> not_unavail (out n) = true) ->
  consulted prim fb pord tc = false.
Proof. exact fallback_none_unavailable. Qed.
Print Assumptions C19_fallback_none_unavailable.

(* Mixed failures (not determined by the text): the code decides on the last completing failure
   alone, so the decision depends on the completion order. *)
Theorem C19_fallback_mixed_depends_on_order : forall prim fb pord,
  order_ok prim pord = true -> prim <> [] -> fb <> [] ->
  (forall n, In n prim -> failed (out n) = true) ->
  exists i, final pord None = Some i /\ consulted prim fb pord None = err_unavail (out (get prim i)).
Proof. exact fallback_mixed_depends_on_order. Qed.
Print Assumptions C19_fallback_mixed_depends_on_order.

Theorem C19_fallback_mixed_witness :
  order_ok mixed_a [0; 1]%nat = true /\ order_ok mixed_b [1; 0]%nat = true /\
  provide mixed_a one_fb [0; 1]%nat [0%nat] None = ROk (F 0) 7 /\
  provide mixed_b one_fb [1; 0]%nat [0%nat] None = RErr (P 0) Other.
Proof. exact fallback_mixed_witness. Qed.
Print Assumptions C19_fallback_mixed_witness.

(* Fallbacks are consulted only after every primary failed (and there is at least one primary). *)
Theorem C19_consulted_only_after_all_failed : forall prim fb pord tc,
  order_ok prim pord = true -> consulted prim fb pord tc = true ->
  prim <> [] /\ fb <> [] /\ forall k, (k < length prim)%nat -> failed (out (get prim k)) = true.
Proof. exact consulted_only_after_all_failed. Qed.
Print Assumptions C19_consulted_only_after_all_failed.

Theorem C19_no_fallback_when_a_primary_succeeds : forall prim fb pord i a,
  order_ok prim pord = true -> out (get prim i) = Success a -> consulted prim fb pord None = false.
Proof. exact no_fallback_when_a_primary_succeeds. Qed.
Print Assumptions C19_no_fallback_when_a_primary_succeeds.

(* Once consulted, the fallbacks are treated like the primaries were: the call succeeds iff some
   fallback answers successfully. *)
Theorem C19_fallback_result : forall prim fb pord ford,
  order_ok prim pord = true -> order_ok fb ford = true -> consulted prim fb pord None = true ->
  ((exists j a, provide prim fb pord ford None = ROk (F j) a) <-> (exists j a, out (get fb j) = Success a)).
Proof. exact fallback_result. Qed.
Print Assumptions C19_fallback_result.

(* No primaries at all (NewMultiForT only; Instrument refuses): "bug: no forkjoin results", the
   fallbacks are not consulted. *)
Theorem C19_zero_primaries : forall prim_ord fb ford tc,
  provide [] fb [] ford tc = (if cancelled tc 0 then RCtx else RBug) /\ consulted [] fb prim_ord tc = false.
Proof. exact zero_primaries. Qed.
Print Assumptions C19_zero_primaries.

(* Cancelling the caller's context: the call is never left blocked; it returns ctx.Err() or what it
   would have returned anyway; and it returns not later than the instant of cancellation as soon as
   one node that is awaited at that instant honours its context (all nodes do / a primary that has
   not completed by then does / the fallbacks run and one of them that cannot have completed does).
   No assumption on the other nodes: they may ignore cancellation and return arbitrarily late. *)
Theorem C19_cancel_returns : forall prim fb pord ford c,
  order_ok prim pord = true -> order_ok fb ford = true ->
  provide prim fb pord ford (Some c) <> RBlocked /\
  (exists t, finish_time prim fb pord ford (Some c) = Some t /\
     ((forallb hears (prim ++ fb) = true \/ pending_hearerP c prim \/
       (consulted prim fb pord (Some c) = true /\ pending_hearerP c fb)) -> t <= c)) /\
  (provide prim fb pord ford (Some c) = RCtx \/
   provide prim fb pord ford (Some c) = provide prim fb pord ford None).
Proof. exact cancel_returns. Qed.
Print Assumptions C19_cancel_returns.

(* What the code does when only context-ignoring calls are awaited: the cancellation is noticed when
   the next of them returns (no implementation-independent reading of "promptly" applies: stated). *)
Theorem C19_cancel_waits_when_only_deaf_awaited :
  provide [mkn (Err Timeout) 3600000 true] [] [0%nat] [] (Some 1000) = RCtx /\
  finish_time [mkn (Err Timeout) 3600000 true] [] [0%nat] [] (Some 1000) = Some 3600000.
Proof. exact cancel_waits_when_only_deaf_awaited. Qed.
Print Assumptions C19_cancel_waits_when_only_deaf_awaited.

(* submit-style calls are provide over work that returns no value. *)
Theorem C19_submit_succeeds_iff : forall prim fb pord ford,
  order_ok (map inj prim) pord = true ->
  ((exists i, submit prim fb pord ford None = SROk (P i)) <-> (exists i, sget prim i = SOk)).
Proof. exact submit_succeeds_iff. Qed.
Print Assumptions C19_submit_succeeds_iff.

Theorem C19_submit_fails_only_if_all_fail : forall prim fb pord ford tc,
  order_ok (map inj prim) pord = true ->
  (submit prim fb pord ford tc = SRBug \/ exists n e, submit prim fb pord ford tc = SRErr n e) ->
  forall k, (k < length prim)%nat -> exists c, sget prim k = SErr c.
Proof. exact submit_fails_only_if_all_fail. Qed.
Print Assumptions C19_submit_fails_only_if_all_fail.

Theorem C19_submit_cancel_returns : forall prim fb pord ford c,
  order_ok (map inj prim) pord = true -> order_ok (map inj fb) ford = true ->
  submit prim fb pord ford (Some c) <> SRBlocked.
Proof. exact submit_cancel_returns. Qed.
Print Assumptions C19_submit_cancel_returns.

(* Non-vacuity: labels of non-trivial calls (hung + failing + two successful primaries; fallback
   group with a hung node) are accepted by the model; the monitor rejects a call that waited for
   the slower node, one that skipped the fallbacks after a timeout, one that consulted them after a
   non-availability error, and one that returned after the cancellation. *)
Theorem C19_nonvacuous :
  (accepts ex_case = true /\ monitor ex_case = true) /\
  (accepts ex_fallback = true /\ monitor ex_fallback = true).
Proof. exact (conj ex_case_accepted ex_fallback_accepted). Qed.
Print Assumptions C19_nonvacuous.

(* Nodes that ignore their context (hung dial / DNS / TLS): abandoned, they delay neither a healthy
   node's answer (C19_latency_is_fastest_success has no hypothesis on the other nodes) nor the
   caller's cancellation; labels of such runs are accepted, the ones a worker-joining client shows
   are rejected. *)
Theorem C19_context_ignoring_nodes :
  ((accepts ex_deaf_success = true /\ monitor ex_deaf_success = true) /\
   (accepts ex_deaf_cancel = true /\ monitor ex_deaf_cancel = true) /\
   (accepts ex_deaf_fallback = true /\ monitor ex_deaf_fallback = true)) /\
  (monitor (mkc Plain [mkn (Err Timeout) 3600000 true; mkn (Success 101) 10 false] [] [1; 0]%nat [] None
               (ROk (P 1) 101) (Some 3600000) [Done 3600000; Done 10] []) = false /\
   monitor (mkc Submit [mkn (Err Timeout) 3600000 true; mkn Hang 0 false] [] [0%nat] [] (Some 1000)
               RCtx (Some 3600000) [Done 3600000; Cancelled 1000] []) = false).
Proof. exact (conj ex_deaf_accepted monitor_rejects_waiting_for_deaf). Qed.
Print Assumptions C19_context_ignoring_nodes.

(* multi.ClientForAddress.  [scope] is the rule read from the code (the configured clients are lazy
   wrappers whose address is "" until their client exists); [scoped_nodes] the node lists of the
   returned client.  "" and an unknown address give the multi client itself ... *)
Theorem C19_scope_none_identity : forall prim fb initP initF a,
  a = ANone \/ a = AUnknown ->
  scoped_nodes prim fb (scope (length prim) (length fb) initP initF a) = (prim, fb).
Proof. exact scope_none_identity. Qed.
Print Assumptions C19_scope_none_identity.

(* ... a configured address gives that node alone (a primary keeps all fallbacks, a fallback none),
   once that node's client exists; before that, the multi client itself. *)
Theorem C19_scope_address : forall prim fb initP initF,
  (forall i, (i < length prim)%nat -> nth i initP false = true ->
     scoped_nodes prim fb (scope (length prim) (length fb) initP initF (AP i)) = ([get prim i], fb)) /\
  (forall j, (j < length fb)%nat -> nth j initF false = true ->
     scoped_nodes prim fb (scope (length prim) (length fb) initP initF (AF j)) = ([get fb j], [])) /\
  (forall i, nth i initP false = false ->
     scoped_nodes prim fb (scope (length prim) (length fb) initP initF (AP i)) = (prim, fb)) /\
  (forall j, nth j initF false = false ->
     scoped_nodes prim fb (scope (length prim) (length fb) initP initF (AF j)) = (prim, fb)).
Proof. exact scope_address. Qed.
Print Assumptions C19_scope_address.

(* A call through ClientForAddress("") succeeds iff some configured primary succeeds. *)
Theorem C19_unscoped_succeeds_iff : forall prim fb initP initF pord ford,
  order_ok prim pord = true ->
  let ns := scoped_nodes prim fb (scope (length prim) (length fb) initP initF ANone) in
  ((exists i a, provide (fst ns) (snd ns) pord ford None = ROk (P i) a) <-> (exists i a, out (get prim i) = Success a)).
Proof. exact unscoped_succeeds_iff. Qed.
Print Assumptions C19_unscoped_succeeds_iff.

Theorem C19_scoped_example : check_scoped ex_scoped = 0%nat /\ check_scoped ex_scoped_bad = 1%nat.
Proof. exact ex_scoped_checked. Qed.
Print Assumptions C19_scoped_example.

(* Lazily created node clients (lazy.go): a node behind a provider is a node with latency
   provider + call that honours cancellation also while the provider runs ([lazy_node]); the
   wrapper is transparent once the client exists, and keeps the node "hearing", so
   C19_cancel_returns covers the first use of a hung node. *)
Theorem C19_lazy_transparent : forall n,
  lazy_node PCreated n = n /\ lazy_node PNone n = n /\
  out (lazy_node (PDelay 0) n) = out n /\ delay (lazy_node (PDelay 0) n) = delay n /\ deaf (lazy_node (PDelay 0) n) = deaf n.
Proof. exact lazy_transparent. Qed.
Print Assumptions C19_lazy_transparent.

Theorem C19_lazy_hears : forall p n, hears n = true -> hears (lazy_node p n) = true.
Proof. exact lazy_hears. Qed.
Print Assumptions C19_lazy_hears.

Theorem C19_lazy_example : check_lazy ex_lazy = 0%nat /\ check_lazy ex_lazy_bad = 1%nat.
Proof. exact ex_lazy_checked. Qed.
Print Assumptions C19_lazy_example.

Theorem C19_monitor_rejects :
  monitor (mkc Plain [mkn (Success 101) 5 false; mkn (Success 102) 900 false] [] [0; 1]%nat [] None
               (ROk (P 0) 101) (Some 900) [Done 5; Done 900] []) = false /\
  monitor (mkc Plain [mkn (Err Timeout) 5 false] [mkn (Success 200) 1 false] [0%nat] [0%nat] None
               (RErr (P 0) Timeout) (Some 5) [Done 5] [NotCalled]) = false /\
  monitor (mkc Plain [mkn (Err Other) 5 false] [mkn (Success 200) 1 false] [0%nat] [0%nat] None
               (ROk (F 0) 200) (Some 6) [Done 5] [Done 6]) = false /\
  monitor (mkc Plain [mkn Hang 0 false] [] [] [] (Some 10) RCtx (Some 11) [Cancelled 10] []) = false.
Proof. exact monitor_rejects. Qed.
Print Assumptions C19_monitor_rejects.
