(* C06 — The duty store serves one unique datum per key and never blocks a satisfiable query.
   Only statements here; proofs are in Stores/DutyDBFacts.v, the model in Stores/DutyDB.v.
   [run xinit ls = Some s] says "ls is a label sequence the duty store model can produce" (any
   interleaving of Store / Await* registration / reader return / cancellation / expiry /
   PubKeyByAttestation, any map iteration order, any deadliner verdicts, unbounded length); the
   correspondence check establishes that the label sequences recorded from core/dutydb/memory.go are
   of that kind. *)
From Coq Require Import List NArith Bool.
From Charon Require Import Stores.DutyDB Stores.DutyDBFacts.
Import ListNotations.
Local Open Scope N_scope.

(* Every trace of the model passes the trace monitor that transcribes the property. *)
Theorem C06_monitor : forall ls s, run xinit ls = Some s -> monitor ls = true.
Proof. exact run_monitor. Qed.
Print Assumptions C06_monitor.

(* What "disciplined" means: a duty that the deadliner has emitted never gets the verdict Scheduled
   again (property C16; [LAdd] is the instant of the verdict, NOT the later write), and every entry
   of a set stored for duty (t, slot) is about that slot. *)
Theorem C06_disciplined_spec : forall ls, disciplined ls = true <->
  (forall pre d post, ls = pre ++ LAdd d Scheduled :: post -> ~ In (LExpire d) pre) /\
  (forall pre d vis unv res post, ls = pre ++ LStore d Scheduled vis unv res :: post ->
     forall e, In e vis -> entry_slots_ok (snd d) e = true).
Proof. exact disciplined_spec. Qed.
Print Assumptions C06_disciplined_spec.

(* answers_unique: any two answers ever given for one key carry the same content.  For the
   committee-index-0 attestation key (slot, 0) this says: the value served is the one stored first
   and never changes, although later attestation data with another head (same source and target)
   is accepted for its own committee key. *)
Theorem C06_answers_unique : forall ls s, run xinit ls = Some s -> disciplined ls = true ->
  forall pre q1 k c1 mid q2 c2 post,
    ls = pre ++ LAnswer q1 k c1 :: mid ++ LAnswer q2 k c2 :: post -> c1 = c2.
Proof. intros ls s H. exact (answers_unique ls (run_monitor ls s H)). Qed.
Print Assumptions C06_answers_unique.

(* The code before the repair of F2 (aggregate with equal data root replaces the stored one) admits
   a disciplined trace in which two readers of one key get different data; the repaired model
   rejects that trace. *)
Theorem C06_answers_unique_agg_refuted_before_fix :
  (exists s, run_gen true xinit f2_trace = Some s) /\ disciplined f2_trace = true /\ monitor f2_trace = false
  /\ run xinit f2_trace = None.
Proof. exact answers_unique_agg_refuted_before_fix. Qed.
Print Assumptions C06_answers_unique_agg_refuted_before_fix.

(* Without the discipline uniqueness across an expiry fails (this is why C06 leans on C16). *)
Theorem C06_answers_unique_needs_discipline :
  (exists s, run xinit undisciplined_trace = Some s) /\ disciplined undisciplined_trace = false.
Proof. exact answers_unique_needs_discipline. Qed.
Print Assumptions C06_answers_unique_needs_discipline.

(* answer_is_stored: a blocking query returns only to a reader that asked for that key, and only
   data that was handed for that very key, in a visited entry, to a Store that was not refused. *)
Theorem C06_answer_is_stored : forall ls s, run xinit ls = Some s ->
  forall pre q k c post, ls = pre ++ LAnswer q k c :: post ->
  In (LAwaitReg q k) pre /\
  exists d vis unv res e, In (LStore d Scheduled vis unv res) pre /\ In e vis /\ In (k, c) (offers (fst d) e).
Proof. intros ls s H. exact (answer_facts ls (run_monitor ls s H)). Qed.
Print Assumptions C06_answer_is_stored.

Theorem C06_pubkey_is_stored : forall ls s, run xinit ls = Some s ->
  forall pre slot comm vidx p post, ls = pre ++ LPubKey slot comm vidx (Some p) :: post ->
  exists d vis unv res e, In (LStore d Scheduled vis unv res) pre /\ In e vis /\ In ((slot, comm, vidx), p) (offers_pk (fst d) e).
Proof. intros ls s H. exact (pubkey_facts ls (run_monitor ls s H)). Qed.
Print Assumptions C06_pubkey_is_stored.

(* expired_refused: data for a duty the deadliner reports Expired (or Exempt) is refused with an
   error, no entry is even looked at, nothing changes; and that error is returned only then.
   (By C06_answer_is_stored such data is therefore never served.) *)
Theorem C06_expired_refused : forall ls s, run xinit ls = Some s ->
  forall pre d st vis unv res post, ls = pre ++ LStore d st vis unv res :: post ->
  (st <> Scheduled -> res = Some ERefused /\ vis = []) /\ (st = Scheduled -> res <> Some ERefused).
Proof. intros ls s H. exact (refused_facts ls (run_monitor ls s H)). Qed.
Print Assumptions C06_expired_refused.

Theorem C06_expired_refused_no_change : forall s a d st vis unv res s' a',
  step (s, a) (LStore d st vis unv res) = Some (s', a') -> st <> Scheduled -> s' = s.
Proof. exact refused_no_change. Qed.
Print Assumptions C06_expired_refused_no_change.

(* The expiry verdict and the write of a Store are ONE atomic step: between [LAdd d st] (the
   deadliner's verdict) and the [LStore d st ...] that ends that Store only events that do not need
   the lock occur (the deadliner emitting duties, readers returning) - no other Store (hence no
   processing of an expiry), no registration, no PubKeyByAttestation. *)
Theorem C06_verdict_write_atomic : forall ls s, run xinit ls = Some s ->
  forall pre d st mid l post, ls = pre ++ LAdd d st :: mid ++ l :: post ->
  (forall x, In x mid -> passive x) ->
  passive l \/ exists vis unv res, l = LStore d st vis unv res.
Proof. intros ls s H. exact (verdict_write_atomic ls (run_monitor ls s H)). Qed.
Print Assumptions C06_verdict_write_atomic.

(* A history in which another Store processes the duty's expiry between the verdict (Scheduled,
   before the expiry) and the write: disciplined, yet refused by the model and by the monitor
   (first violation = the foreign LAdd at index 8). *)
Theorem C06_verdict_write_race_rejected :
  run xinit race_trace = None /\ monitor race_trace = false /\ disciplined race_trace = true /\
  first_violation xginit race_trace 0 = Some 8%nat.
Proof. exact verdict_write_race_rejected. Qed.
Print Assumptions C06_verdict_write_race_rejected.

(* clash_rejected_no_change: a set with a visited entry that conflicts with what is stored
   ([conflicts]: other block root for the slot; other attestation data for (slot, committee);
   other source or target for (slot, 0); other public key for (slot, committee, validator) or
   (slot, 0, validator); other contribution for (slot, subcommittee, block root)) is rejected with an error ... *)
Theorem C06_clash_rejected : forall s a t sl vis unv res s' a',
  step (s, a) (LStore (t, sl) Scheduled vis unv res) = Some (s', a') ->
  forall e, In e vis -> conflicts t e (st_db s) -> exists er, res = Some er /\ resolved_res res = false.
Proof. exact clash_is_error. Qed.
Print Assumptions C06_clash_rejected.

(* ... and a Store returning such an error wakes nobody and only ADDS keys that were absent, with
   data of its visited entries ([ext]: every stored value / public key / bucket entry is kept as it
   was; what is new was absent before and comes from the visited entries) ... *)
Theorem C06_clash_no_change : forall s a t sl vis unv res s' a',
  step (s, a) (LStore (t, sl) Scheduled vis unv res) = Some (s', a') -> resolved_res res = false ->
  pend s' = pend s /\ outbox s' = outbox s /\ expq s' = expq s /\
  ext (flat_map (offers_v t) vis) (flat_map (offers_pk t) vis) (flat_map (offers_b t) vis) (st_db s) (st_db s').
Proof. exact error_only_adds. Qed.
Print Assumptions C06_clash_no_change.

(* ... and no Store at all, successful or not, replaces the value stored under a key. *)
Theorem C06_never_replaces : forall s a d st vis unv res s' a',
  step (s, a) (LStore d st vis unv res) = Some (s', a') ->
  forall k v v', lookup k (vals (st_db s)) = Some v -> lookup k (vals (st_db s')) = Some v' -> v' = v.
Proof. exact store_never_replaces. Qed.
Print Assumptions C06_never_replaces.

(* no_lost_wakeup, on the trace: once a Store that got as far as resolving has provided key k,
   every reader waiting for k returns before the next quiescent point; and a reader that asks for a
   provided key returns before the next quiescent point. *)
Theorem C06_no_lost_wakeup_store : forall ls s, run xinit ls = Some s ->
  forall pre d vis unv res mid post q k,
    ls = pre ++ LStore d Scheduled vis unv res :: mid ++ LQuiet :: post ->
    kind_of_dt (fst d) <> None -> resolved_res res = true ->
    outstanding pre q k -> In k (store_keys (fst d) vis) ->
    exists l, In l mid /\ returns q l.
Proof. intros ls s H. exact (wakeup_on_store ls (run_monitor ls s H)). Qed.
Print Assumptions C06_no_lost_wakeup_store.

Theorem C06_no_lost_wakeup_await : forall ls s, run xinit ls = Some s ->
  forall pre q k mid post, ls = pre ++ LAwaitReg q k :: mid ++ LQuiet :: post ->
    provided pre k -> exists l, In l mid /\ returns q l.
Proof. intros ls s H. exact (wakeup_on_await ls (run_monitor ls s H)). Qed.
Print Assumptions C06_no_lost_wakeup_await.

(* no_lost_wakeup, on the state: right after a Store of a type that got as far as resolving (or
   after a registration for that type) no pending query of that type has its key present ... *)
Theorem C06_no_lost_wakeup_state_store : forall pre t sl vis unv res s a kd,
  run xinit (pre ++ [LStore (t, sl) Scheduled vis unv res]) = Some (s, a) ->
  kind_of_dt t = Some kd -> resolved_res res = true ->
  forall q k, In (q, k) (pend s) -> k_kind k = kd -> lookup k (vals (st_db s)) = None.
Proof. exact no_lost_wakeup_store. Qed.
Print Assumptions C06_no_lost_wakeup_state_store.

Theorem C06_no_lost_wakeup_state_await : forall pre q0 k0 s a,
  run xinit (pre ++ [LAwaitReg q0 k0]) = Some (s, a) ->
  forall q k, In (q, k) (pend s) -> k_kind k = k_kind k0 -> lookup k (vals (st_db s)) = None.
Proof. exact no_lost_wakeup_await. Qed.
Print Assumptions C06_no_lost_wakeup_state_await.

(* ... and at any time a pending query whose key is present exists only for a type that has had a
   FAILED Store (partial effects) since its queries were last resolved. *)
Theorem C06_stale_only_after_failed_store : forall ls s a, run xinit ls = Some (s, a) ->
  forall q k, In (q, k) (pend s) -> lookup k (vals (st_db s)) <> None -> In (k_kind k) (g_dirty (ghost_after ginit ls)).
Proof. exact stale_only_after_failed_store. Qed.
Print Assumptions C06_stale_only_after_failed_store.

(* Non-vacuity: a disciplined history with blocked-then-woken readers, a clash with a partial
   effect, a cancellation, an expiry and a refused late store is a trace of the model. *)
Theorem C06_demo_accepted :
  (exists s, run xinit demo_trace = Some s) /\ monitor demo_trace = true /\ disciplined demo_trace = true.
Proof. exact demo_accepted. Qed.
Print Assumptions C06_demo_accepted.
