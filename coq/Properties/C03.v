(* C03 -- Consensus validity and integrity: decide once, only a leader-proposed value.

   Proved here:
   * single process, over ALL label sequences the model of qbft.Run (Qbft/Model.v) accepts -- every interleaving of start,
     input, message receipts (any content, any sender, any compare verdict), timeouts, and every choice Go's map iteration can
     make: decide at most once; the qcommit handed to Decide contains COMMIT(round, value) from >= quorum distinct sources;
     after the decision nothing but rate-limited DECIDED re-broadcasts (and one corner: a cached PRE-PREPARE released by a
     late input); every PREPARE broadcast is for a non-zero value.
   * network level (Qbft/Net.v: all n >= 1, at most f Byzantine members, adversary delivering any message whose parts were
     broadcast by honest members or carry Byzantine sources), executions in which Compare never fails (default configuration):
     an honest member never decides the zero value [C03_decide_nonzero]; the decided value was proposed in a PRE-PREPARE for
     the decision round whose source is the leader of that round [C03_decide_leader_proposed]; with no Byzantine members the
     decided value is the input value some member was given [C03_validity_no_byz].
   [run p init ls = Some s] reads "ls is a label sequence the model can produce"; the correspondence check establishes that
   label sequences recorded from core/qbft.Run are of that kind, and that recorded cluster executions are executions of Net.v.
   Proofs: Qbft/ModelFacts.v, Qbft/Justified.v, Qbft/Validity.v; monitor: Qbft/Monitor.v.

   | TODO-stage-2: the same network-level statements with CmpFail allowed (non-default chain_split_halt), see Properties/C02.v. *)
From Coq Require Import List NArith Arith Bool Sorted.
From Charon Require Import Common.Quorum Qbft.Model Qbft.Monitor Qbft.ModelFacts Qbft.Justified Qbft.Examples
  Qbft.Net Qbft.NetInv Qbft.Agreement Qbft.Validity.
Import ListNotations.

(* Every label sequence of the model passes the single-process C03 monitor. *)
Theorem C03_monitor : forall p ls s, 1 <= nodes p -> run p init ls = Some s -> mon3 p ls = true.
Proof. exact run_mon3. Qed.
Print Assumptions C03_monitor.

(* decide_once: at most one Decide callback in the whole execution. *)
Theorem C03_decide_once : forall p ls s, 1 <= nodes p -> run p init ls = Some s -> length (decs ls) <= 1.
Proof. intros p ls s Hn H. exact (mon3_decide_once_from p ls g3_init (run_mon3 p ls s Hn H)). Qed.
Print Assumptions C03_decide_once.

(* decide_backed: the qcommit of Decide(v, r, qcommit) contains COMMIT(r, v) from >= quorum distinct sources
   ("contains": on the DECIDED path the list is the message's justification and may hold other parts too). *)
Theorem C03_decide_backed : forall p ls s, 1 <= nodes p -> run p init ls = Some s ->
  forall v r qc, In (v, r, qc) (decs ls) -> quorum (nodes p) <= nsrc (f_trv Commit r v) qc.
Proof. intros p ls s Hn H. exact (mon3_backed_from p ls g3_init (run_mon3 p ls s Hn H)). Qed.
Print Assumptions C03_decide_backed.

(* After the Decide: a received message yields nothing or one DECIDED broadcast by this process, and only in
   answer to a ROUND-CHANGE of another process; an input yields nothing, the zero-input error, or the cached
   PRE-PREPARE; no timer fires any more. *)
Theorem C03_after_decision : forall p pre l post s, 1 <= nodes p -> run p init (pre ++ l :: post) = Some s ->
  decs pre <> [] -> post_decision_label p l.
Proof. intros p pre l post s Hn H. exact (mon3_post_decision p pre l post (run_mon3 p _ s Hn H)). Qed.
Print Assumptions C03_after_decision.

(* Bounded DECIDED re-broadcast: the rounds of the ROUND-CHANGEs of any one source x that were answered are
   strictly increasing and there are at most 16 of them. *)
Theorem C03_resend_bounded : forall p x ls s, 1 <= nodes p -> run p init ls = Some s ->
  StronglySorted lt (triggers x false ls) /\ length (triggers x false ls) <= 16.
Proof. intros p x ls s Hn H. exact (mon3_resend_bounded p x ls (run_mon3 p ls s Hn H)). Qed.
Print Assumptions C03_resend_bounded.

(* decide_nonzero, the part that is local: every PREPARE the process broadcasts carries a non-zero value. *)
Theorem C03_prepare_nonzero_partial : forall p ls s, run p init ls = Some s ->
  forall l b J, In l ls -> In (Bcast b J) (label_outs l) -> ty b = Prepare -> val b <> 0%N.
Proof. exact run_prepare_nonzero. Qed.
Print Assumptions C03_prepare_nonzero_partial.

(* Non-vacuity: recorded executions (n = 4) the model accepts, deciding in round 1 and, after a round change,
   a re-proposed prepared value in round 2. *)
Theorem C03_nonvacuous :
  accepted ex_happy_params ex_happy = true /\ length (decs ex_happy) = 1 /\
  accepted ex_reproposal_params ex_reproposal = true /\ map (fun d => snd (fst d)) (decs ex_reproposal) = [2].
Proof. exact (conj ex_happy_accepted (conj ex_happy_decides (conj ex_reproposal_accepted ex_reproposal_decides))). Qed.
Print Assumptions C03_nonvacuous.

(* ---- network level (Qbft/Net.v), executions without compare failures ---- *)

(* decide_nonzero *)
Theorem C03_decide_nonzero : forall c nt tr, wf_cfg c -> nreach c nt tr -> trace_nofail tr ->
  forall i v r, In (i, v, r) (trace_decides tr) -> v <> 0%N.
Proof. exact decide_nonzero_default. Qed.
Print Assumptions C03_decide_nonzero.

(* decide_leader_proposed: some deliverable PRE-PREPARE(r, v) part (broadcast by an honest member, or with a Byzantine source)
   has the leader of the decision round r as its source *)
Theorem C03_decide_leader_proposed : forall c nt tr, wf_cfg c -> nreach c nt tr -> trace_nofail tr ->
  forall i v r, In (i, v, r) (trace_decides tr) ->
  exists ppm, deliv c (sent nt) ppm /\ ty ppm = PrePrepare /\ rnd ppm = r /\ val ppm = v /\ src ppm = c_leader c r.
Proof. exact decide_leader_proposed. Qed.
Print Assumptions C03_decide_leader_proposed.

(* validity_no_byz: with no Byzantine members the decided value is non-zero and was given as input to some member *)
Theorem C03_validity_no_byz : forall c nt tr, wf_cfg c -> (forall i, i < c_n c -> c_honest c i = true) ->
  nreach c nt tr -> trace_nofail tr ->
  forall i v r, In (i, v, r) (trace_decides tr) -> v <> 0%N /\ exists j outs, In (j, LInput v outs) tr.
Proof. exact validity_no_byz. Qed.
Print Assumptions C03_validity_no_byz.
