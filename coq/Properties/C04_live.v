(* C04, termination half at model level -- statements only.
   System and hypotheses: Qbft/GoodRound.v.  Proofs: Qbft/GoodRoundFacts.v (round 1, counting),
   Qbft/GoodRoundQrc.v (leader proposing on a quorum of ROUND-CHANGEs).  Instances evaluated by
   vm_compute: Qbft/GoodRoundEx.v.

   The closed synchronous-round system [gsteps n fifo ld R g0 g]: the processes of R (Model states,
   parameters n / FIFO limit / leader function ld) receive messages of the pool -- ANY message, in
   ANY order, ANY number of times, their own broadcasts included -- with Compare = ok and ANY
   admissible choice of Go's map orders ([fstep] oracle); what they broadcast joins the pool with
   the justification it was sent with.  No timer fires and no process outside R moves; whatever the
   processes outside R sent before stopping, and stale messages of lower rounds, are arbitrary
   members of the initial pool subject to the closure conditions [pool_ok] (and [pool_fresh] while
   the leader has not proposed).  Fairness is a property of the configuration reached:
   [delivered_all R g] = every pool message has been delivered to every process of R at least once.
   [fifo_ok fifo R g0 g] = for every process i of R and source s, what i had buffered from s at the
   beginning plus what is delivered to i from s in the window is at most the FIFO limit.

   NOT covered: Input events inside the window (the leader must already have its input), Compare
   failures, the real-time bridge (see C04_timer.v).  The hypotheses [pool_ok] / [start_ok] /
   [leader_ok] are closure conditions that hold when every message was produced by the protocol
   (no Byzantine sender); they are stated, not derived from a global reachability predicate. *)
From Coq Require Import List NArith Arith Bool.
From Charon Require Import Common.Quorum Qbft.Model Qbft.ModelFacts Qbft.GoodRound Qbft.GoodRoundFacts
  Qbft.GoodRoundQrc Qbft.GoodRoundEx.
Import ListNotations.

(* Round-robin leaders: among any f+1 consecutive rounds r0 .. r0+f one has its leader outside any
   given set F of at most f processes (all n >= 1, any offset = slot + duty type). *)
Theorem C04_rotation_bound : forall off n (F : list nat) r0, 1 <= n -> length F <= faulty n ->
  exists k, k <= faulty n /\ ~ In (lead_rr off n (r0 + k)) F.
Proof. exact rotation_bound. Qed.
Print Assumptions C04_rotation_bound.

(* A good round decides (all n >= 1, all delivery orders, duplication, all map orders): R has at
   least a quorum of running processes, all in round r, undecided, with what they already did in
   round r in the pool; the leader of r is in R and either (r = 1) its PRE-PREPARE is in the pool, or
   it has its input and every member of R has broadcast ROUND-CHANGE(r).  Then in every fair
   configuration reached without FIFO eviction every process of R has emitted Decide, all with the
   same value, in round r. *)
Theorem C04_good_round_decides : forall n fifo_ ld R r g0 g,
  1 <= n -> NoDup R -> quorum n <= length R -> In (ld r) R ->
  pool_ok ld r (pool g0) ->
  (forall i, In i R -> start_ok r (pool g0) i (gst g0 i)) ->
  leader_case n fifo_ ld R r g0 ->
  (forall i, In i R -> seen g0 i = []) -> gdecs g0 = [] ->
  gsteps n fifo_ ld R g0 g -> delivered_all R g -> fifo_ok fifo_ R g0 g ->
  exists v, (forall i, In i R -> exists k, In (i, v, k) (gdecs g))
            /\ (forall i x k, In (i, x, k) (gdecs g) -> x = v /\ k = r).
Proof. exact good_round_decides. Qed.
Print Assumptions C04_good_round_decides.

(* Round 1 separately: the value decided is the leader's proposal. *)
Theorem C04_good_round_decides_r1 : forall n fifo_ ld R g0 g v J,
  1 <= n -> NoDup R -> quorum n <= length R ->
  pool_ok ld 1 (pool g0) -> norc 1 g0 ->
  (forall i, In i R -> start_ok 1 (pool g0) i (gst g0 i)) ->
  (forall i, In i R -> seen g0 i = []) -> gdecs g0 = [] ->
  In (mkm (mk PrePrepare (ld 1) 1 v 0 0) J) (pool g0) -> v <> 0%N ->
  gsteps n fifo_ ld R g0 g -> delivered_all R g -> fifo_ok fifo_ R g0 g ->
  (forall i, In i R -> exists k, In (i, v, k) (gdecs g))
  /\ (forall i x k, In (i, x, k) (gdecs g) -> x = v /\ k = 1).
Proof. exact good_round_decides_r1. Qed.
Print Assumptions C04_good_round_decides_r1.

(* The leader's side in isolation: a leader whose buffer holds a quorum of ROUND-CHANGE(r), each
   null or accompanied by its quorum of PREPAREs, one (pr, pv) per source, finds a justified quorum
   whatever Go's map order: getJustifiedQrc may succeed and cannot fail. *)
Theorem C04_qrc_forced : forall p all r, 1 <= qn p ->
  (forall b, In b all -> f_rc r b = true ->
     is_null b = true \/ qn p <= nsrc (f_trv Prepare (pr b) (pv b)) all) ->
  (forall b b', In b all -> In b' all -> f_rc r b = true -> f_rc r b' = true -> src b = src b' ->
     pr b = pr b' /\ pv b = pv b') ->
  qn p <= nsrc (f_rc r) all ->
  may_ok p all r = true /\ may_fail p all r = false.
Proof. exact qrc_forced. Qed.
Print Assumptions C04_qrc_forced.

(* The two reachable-state facts assumed in [start_ok] (so_qc, so_jd) are invariants of [run]. *)
Theorem C04_dedup_fact_reachable : forall p ls s, 1 <= nodes p -> run p init ls = Some s ->
  decided s = false -> forall k, is_dup s QCommits k = false /\ is_dup s JustDecided k = false.
Proof. exact run_dedup_fact. Qed.
Print Assumptions C04_dedup_fact_reachable.

(* Non-vacuity: n = 4, process 3 crashed, concrete interleaved delivery orders with duplicates.
   Round 1 (leader 1, value 7) and round 2 after a timeout (leader 2, value 9): the configurations
   satisfy the hypotheses of the theorems above and all three running processes decide. *)
Theorem C04_live_example_round1 :
  gexec 4 64 ld4 R4 g1_0 sched1 = Some g1_end
  /\ gdecs g1_end = [(0, 7%N, 1); (1, 7%N, 1); (2, 7%N, 1)] /\ delivered_all_b R4 g1_end = true.
Proof. exact (conj ex1_run ex1_decides). Qed.
Print Assumptions C04_live_example_round1.

Theorem C04_live_example_round2 :
  gexec 4 64 ld4 R4 g2_0 sched2 = Some g2_end
  /\ gdecs g2_end = [(0, 9%N, 2); (1, 9%N, 2); (2, 9%N, 2)] /\ delivered_all_b R4 g2_end = true.
Proof. exact (conj ex2_run ex2_decides). Qed.
Print Assumptions C04_live_example_round2.

Theorem C04_live_hypotheses_satisfiable :
  (exists v, (forall i, In i R4 -> exists k, In (i, v, k) (gdecs g1_end))
             /\ (forall i x k, In (i, x, k) (gdecs g1_end) -> x = v /\ k = 1))
  /\ (exists v, (forall i, In i R4 -> exists k, In (i, v, k) (gdecs g2_end))
                /\ (forall i x k, In (i, x, k) (gdecs g2_end) -> x = v /\ k = 2)).
Proof. exact (conj (ex_intro _ 7%N ex1_theorem_applies) ex2_theorem_applies). Qed.
Print Assumptions C04_live_hypotheses_satisfiable.

(* Round 2 re-proposing a prepared value with stale round-1 messages in the pool: process 0 prepared
   7 in round 1, the round-2 leader (own input 9) proposes 7 with a 3 ROUND-CHANGE + 3 PREPARE
   justification, everybody decides 7; the configuration satisfies the hypotheses of the theorem. *)
Theorem C04_live_example_reproposal :
  gexec 4 64 ld4 R4 g3_0 sched3 = Some g3_end
  /\ input (gst g3_0 2) = 9%N
  /\ gdecs g3_end = [(0, 7%N, 2); (1, 7%N, 2); (2, 7%N, 2)] /\ delivered_all_b R4 g3_end = true
  /\ exists v, (forall i, In i R4 -> exists k, In (i, v, k) (gdecs g3_end))
               /\ (forall i x k, In (i, x, k) (gdecs g3_end) -> x = v /\ k = 2).
Proof. exact (conj ex3_run (conj (proj1 ex3_decides) (conj (proj1 (proj2 ex3_decides)) (conj (proj2 (proj2 ex3_decides)) ex3_theorem_applies)))). Qed.
Print Assumptions C04_live_example_reproposal.

(* Reachable-state facts behind the hypotheses, proved as invariants of [run] from [init]:
   - round 1: a running undecided round-1 leader with its input HAS broadcast PRE-PREPARE(1, input)
     (so "the leader has its input value" = "its PRE-PREPARE is in the pool");
   - leader_ok: in a round > 1 the justification cache is empty until the QRC rule of the round runs;
   - buf_fresh: every buffered ROUND-CHANGE passed isJustifiedRoundChange. *)
Theorem C04_leader_input_sent : forall p ls s, 1 <= nodes p -> run p init ls = Some s ->
  decided s = false -> dead s = false -> started s = true -> round s = 1 -> is_leader p 1 (self p) = true ->
  input s <> 0%N -> In (mkm (mk PrePrepare (self p) 1 (input s) 0 0) []) (sent_msgs ls).
Proof. exact leader_input_sent. Qed.
Print Assumptions C04_leader_input_sent.

Theorem C04_cache_empty_reachable : forall p ls s, run p init ls = Some s ->
  1 < round s -> is_dup s QRC (round s) = false -> ppj s = PNone.
Proof. exact run_cache_empty. Qed.
Print Assumptions C04_cache_empty_reachable.

Theorem C04_buffer_rc_justified_reachable : forall p ls s, run p init ls = Some s ->
  forall m, In m (bufmsgs (buffer s)) -> ty (main m) = RoundChange -> justified_roundchange p m = true.
Proof. exact run_buffer_rc_justified. Qed.
Print Assumptions C04_buffer_rc_justified_reachable.

(* The FIFO hypothesis cannot be dropped: with FIFOLimit = 1, from the initial configuration of the
   round-1 example (which satisfies every other hypothesis), a fair configuration is reachable in
   which nobody has decided (a duplicate of the PRE-PREPARE evicts the leader's PREPARE). *)
Theorem C04_good_round_without_fifo_refuted :
  exists g, gsteps 4 1 ld4 R4 g1_0 g /\ delivered_all R4 g /\ gdecs g = [].
Proof. exact good_round_without_fifo_refuted. Qed.
Print Assumptions C04_good_round_without_fifo_refuted.
