(* Proofs about Flow/WireMsg.v (property C05).  The cryptographic assumptions are Section
   hypotheses, stated where they are used:
     encode_inj    the deterministic serialisation of the signed content is injective
     H_inj         hashProto is collision free on those serialisations
     unforgeable   a signature that verifies under an honest member's key over a digest was made by
                   that member over a content with that digest
     sig_binds     a signature verifies for at most one (key, digest)
     Hv_inj        hashProto is collision free on (the canonical bytes of) values *)
From Coq Require Import List ZArith NArith Bool Lia PeanoNat.
From Charon Require Import Flow.WireMsg.
Import ListNotations.

Section Facts.
  Variables key sigT ebytes digest typeurl vbytes cbytes extra : Type.
  Variable encode : content extra -> ebytes.
  Variable H : ebytes -> digest.
  Variable verify : key -> digest -> sigT -> bool.
  Variable decode : typeurl -> vbytes -> option cbytes.
  Variable Hv : cbytes -> N.

  Notation part := (part sigT extra).
  Notation wire := (wire sigT typeurl vbytes extra).
  Notation value := (value typeurl vbytes).
  Notation vmap := (vmap typeurl vbytes).
  Notation qmsg := (qmsg sigT typeurl vbytes extra).
  Notation state := (state sigT typeurl vbytes extra).
  Notation env := (env key).
  Notation label := (label key sigT typeurl vbytes extra).
  Notation vhash := (vhash decode Hv).
  Notation verify_part := (verify_part encode H verify).
  Notation verify_justs := (verify_justs encode H verify).
  Notation values_by_hash := (values_by_hash decode Hv).
  Notation decide := (decide encode H verify decode Hv).
  Notation handle := (handle encode H verify decode Hv).
  Notation step := (step encode H verify decode Hv).
  Notation run := (run encode H verify decode Hv).
  Notation spec_ok := (spec_ok encode H verify decode Hv).
  Notation part_ok := (part_ok encode H verify).
  Notation resolves := (resolves decode Hv).
  Notation gstep := (gstep encode H verify decode Hv).
  Notation first_violation := (first_violation encode H verify decode Hv).
  Notation monitor := (monitor encode H verify decode Hv).
  Notation monitor_handle := (monitor_handle encode H verify decode Hv).
  Notation delivered := (delivered decode).

  (* ------------------------------------------------------------------------------------------ *)
  (* Prop-level reading of "authentic and well formed" *)

  (* The part carries a signature that verifies, over the serialisation of everything else in it,
     under the key of the cluster member its peer index names. *)
  Definition part_authentic (e : env) (p : part) : Prop :=
    exists k s, pubkey e (c_peer (p_c p)) = Some k /\ p_sig p = Some s /\
                verify k (H (encode (p_c p))) s = true.

  Definition part_wellformed (p : part) : Prop :=
    msgtype_valid (c_type (p_c p)) = true /\
    (exists d, c_duty (p_c p) = Some d /\ dutytype_valid (snd d) = true) /\
    (0 < c_round (p_c p))%Z /\ (0 <= c_pr (p_c p))%Z.

  Definition vm_sound (vs : list (option value)) (m : vmap) : Prop :=
    forall h v, vlookup m h = Some v -> vhash v = Some h /\ In (Some v) vs.

  Definition refs (p : part) (h : N) : Prop :=
    to_hash32 (c_vhash (p_c p)) = Some h \/ to_hash32 (c_pvhash (p_c p)) = Some h.

  Record authentic_wellformed (e : env) (w : wire) (d : dutyv) (m : vmap) : Prop := {
    aw_main : exists mp, w_msg w = Some mp /\ c_duty (p_c mp) = Some d /\
                         part_authentic e mp /\ part_wellformed mp;
    aw_just : Forall (fun oj => exists j, oj = Some j /\ c_duty (p_c j) = Some d /\
                                          part_authentic e j /\ part_wellformed j) (w_just w);
    aw_gater : e_gater e d = true;
    aw_njust : length (w_just w) <= 2 * nodes e;
    aw_nvalues : length (w_values w) <= 2 * (length (w_just w) + 1);
    aw_vm : vm_sound (w_values w) m;
    aw_refs : forall p, In (Some p) (w_msg w :: w_just w) -> forall h, refs p h ->
              exists v, vlookup m h = Some v /\ vhash v = Some h /\ In (Some v) (w_values w);
  }.

  (* ------------------------------------------------------------------------------------------ *)
  (* verifyMsg *)

  Lemma verify_part_inl : forall e op p d k,
    verify_part e op = inl (p, d, k) ->
    op = Some p /\ c_duty (p_c p) = Some d /\ part_wellformed p /\
    pubkey e (c_peer (p_c p)) = Some k /\
    exists s, p_sig p = Some s /\ verify k (H (encode (p_c p))) s = true.
  Proof.
    intros e op p d k. unfold WireMsg.verify_part.
    destruct op as [q|]; [|discriminate].
    destruct (c_duty (p_c q)) as [dq|] eqn:Ed; [|discriminate].
    destruct (msgtype_valid (c_type (p_c q))) eqn:Et; simpl; [|discriminate].
    destruct (dutytype_valid (snd dq)) eqn:Edt; simpl; [|discriminate].
    destruct (c_round (p_c q) <=? 0)%Z eqn:Er; [discriminate|].
    destruct (c_pr (p_c q) <? 0)%Z eqn:Ep; [discriminate|].
    destruct (pubkey e (c_peer (p_c q))) as [kq|] eqn:Ek; [|discriminate].
    destruct (p_sig q) as [s|] eqn:Es; [|discriminate].
    destruct (verify kq (H (encode (p_c q))) s) eqn:Ev; [|discriminate].
    intros X; inversion X; subst.
    split; [reflexivity|]. split; [assumption|]. split.
    - split; [assumption|]. split; [exists d; auto|].
      apply Z.leb_gt in Er. apply Z.ltb_ge in Ep. lia.
    - split; [assumption|]. exists s; auto.
  Qed.

  Lemma verify_part_inl_good : forall e op p d k,
    verify_part e op = inl (p, d, k) ->
    op = Some p /\ c_duty (p_c p) = Some d /\ part_authentic e p /\ part_wellformed p.
  Proof.
    intros e op p d k X. apply verify_part_inl in X.
    destruct X as (A & B & C & D & s & E & F).
    split; [assumption|]. split; [assumption|]. split; [|assumption]. exists k, s; auto.
  Qed.

  Lemma verify_justs_none : forall e d js i,
    verify_justs e d i js = None ->
    Forall (fun oj => exists j, oj = Some j /\ c_duty (p_c j) = Some d /\
                                part_authentic e j /\ part_wellformed j) js.
  Proof.
    intros e d js; induction js as [|oj r IH]; intros i X; [constructor|].
    simpl in X. destruct (e_ctx e i); [discriminate|].
    destruct (verify_part e oj) as [[[j dj] k]|pr] eqn:Ev; [|discriminate].
    destruct (duty_eqb dj d) eqn:Ed; [|discriminate].
    apply duty_eqb_eq in Ed; subst dj.
    apply verify_part_inl_good in Ev. destruct Ev as (A & B & C & D).
    constructor; [exists j; auto|]. eapply IH; eauto.
  Qed.

  (* ------------------------------------------------------------------------------------------ *)
  (* valuesByHash / newMsg *)

  Lemma vlookup_cons : forall (m : vmap) h0 v0 h,
    vlookup ((h0, v0) :: m) h = if N.eqb h0 h then Some v0 else vlookup m h.
  Proof. reflexivity. Qed.

  Lemma values_by_hash_sound : forall all vs acc m,
    values_by_hash vs acc = Some m ->
    (forall v, In (Some v) vs -> In (Some v) all) ->
    vm_sound all acc -> vm_sound all m.
  Proof.
    intros all vs; induction vs as [|ov r IH]; intros acc m X Hin Hacc.
    - simpl in X; inversion X; subst; assumption.
    - simpl in X. destruct ov as [v|]; [|discriminate].
      destruct (vhash v) as [h|] eqn:Eh; [|discriminate].
      eapply IH; eauto.
      + intros v' Hv'; apply Hin; right; assumption.
      + intros h' v' L. rewrite vlookup_cons in L.
        destruct (N.eqb h h') eqn:E.
        * apply N.eqb_eq in E; subst h'. inversion L; subst v'. split; [assumption|].
          apply Hin; left; reflexivity.
        * apply Hacc; assumption.
  Qed.

  Lemma values_by_hash_vm_sound : forall vs m,
    values_by_hash vs [] = Some m -> vm_sound vs m.
  Proof.
    intros vs m X. eapply values_by_hash_sound; eauto.
    intros h v L; simpl in L; discriminate.
  Qed.

  (* Every attached value decodes and hashes, or valuesByHash fails. *)
  Lemma values_by_hash_all_hash : forall vs acc m,
    values_by_hash vs acc = Some m ->
    Forall (fun ov => exists v h, ov = Some v /\ vhash v = Some h) vs.
  Proof.
    induction vs as [|ov r IH]; intros acc m X; [constructor|].
    simpl in X. destruct ov as [v|]; [|discriminate].
    destruct (vhash v) as [h|] eqn:Eh; [|discriminate].
    constructor; [exists v, h; auto|]. eapply IH; eauto.
  Qed.

  Lemma has_true : forall (m : vmap) h, has m h = true -> exists v, vlookup m h = Some v.
  Proof. intros m h; unfold has; destruct (vlookup m h) as [v|]; [exists v; auto|discriminate]. Qed.

  Lemma check_refs_none : forall (m : vmap) (c : content extra),
    check_refs m c = None ->
    (forall h, to_hash32 (c_vhash c) = Some h -> has m h = true) /\
    (forall h, to_hash32 (c_pvhash c) = Some h -> has m h = true).
  Proof.
    intros m c. unfold check_refs.
    destruct (to_hash32 (c_vhash c)) as [h|]; destruct (to_hash32 (c_pvhash c)) as [h'|];
      try destruct (has m h) eqn:A; try destruct (has m h') eqn:B; intros X; try discriminate;
      split; intros x Y; inversion Y; subst; auto.
  Qed.

  Lemma check_refs_all_none : forall (m : vmap) (ps : list (option part)),
    check_refs_all m ps = None ->
    forall p, In (Some p) ps -> forall h, refs p h -> has m h = true.
  Proof.
    intros m ps; induction ps as [|op r IH]; intros X p Hin h Hr; [destruct Hin|].
    simpl in X. destruct op as [q|]; [|discriminate].
    destruct (check_refs m (p_c q)) eqn:Ec; [discriminate|].
    destruct Hin as [E|Hin].
    - inversion E; subst q. apply check_refs_none in Ec. destruct Ec as [A B].
      destruct Hr as [Hr|Hr]; [apply A|apply B]; assumption.
    - eapply IH; eauto.
  Qed.

  (* ------------------------------------------------------------------------------------------ *)
  (* handle: acceptance implies every clause of the property *)

  Theorem decide_pass_sound : forall e req d w m,
    decide e req = VPass d w m ->
    req = Some w /\ authentic_wellformed e w d m /\ e_ctx e (length (w_just w)) = false.
  Proof.
    intros e req d w m. unfold WireMsg.decide.
    destruct req as [w0|]; [|discriminate].
    destruct (verify_part e (w_msg w0)) as [[[mp d0] k]|pr] eqn:Ev; [|discriminate].
    destruct (e_gater e d0) eqn:Eg; cbn [negb]; [|discriminate].
    destruct (2 * nodes e <? length (w_just w0)) eqn:Ej; [discriminate|].
    destruct (2 * (length (w_just w0) + 1) <? length (w_values w0)) eqn:Evs; [discriminate|].
    destruct (verify_justs e d0 0 (w_just w0)) eqn:Evj; [discriminate|].
    destruct (values_by_hash (w_values w0) []) as [m0|] eqn:Evm; [|discriminate].
    destruct (check_refs_all m0 (Some mp :: w_just w0)) eqn:Ecr; [discriminate|].
    destruct (e_ctx e (length (w_just w0))) eqn:Ectx; [discriminate|].
    intros X; inversion X; subst d0 w0 m0.
    apply verify_part_inl_good in Ev. destruct Ev as (A & B & C & D).
    apply Nat.ltb_ge in Ej. apply Nat.ltb_ge in Evs.
    pose proof (values_by_hash_vm_sound _ _ Evm) as Hs.
    split; [reflexivity|]. split; [|assumption].
    constructor; auto.
    - exists mp; auto.
    - eapply verify_justs_none; eauto.
    - intros p Hin h Hr. rewrite A in Hin.
      pose proof (check_refs_all_none _ _ Ecr p Hin h Hr) as Hh.
      apply has_true in Hh. destruct Hh as [v L]. exists v.
      destruct (Hs _ _ L); auto.
  Qed.

  Theorem handle_accept_sound : forall e st id req dl st',
    handle e st id req = (Accept, dl, st') ->
    exists w d m,
      req = Some w /\ authentic_wellformed e w d m /\
      e_deadline e d = Scheduled /\ dl = true /\
      length (buf0 st d) < cap /\
      st' = set_buf st d (buf0 st d ++ [{| q_id := id; q_wire := w; q_vm := m |}]).
  Proof.
    intros e st id req dl st'. unfold WireMsg.handle.
    destruct (decide e req) as [r|d w m] eqn:Ed; [intros X; inversion X|].
    destruct (e_deadline e d) eqn:Edl; try (intros X; inversion X; fail).
    destruct (cap <=? length (buf0 st d)) eqn:Ec; intros X; inversion X; subst.
    apply decide_pass_sound in Ed. destruct Ed as (A & B & C).
    apply Nat.leb_gt in Ec.
    exists w, d, m. split; [assumption|]. split; [assumption|]. repeat split; auto.
  Qed.

  (* Every rejection other than the enqueue timeout leaves the component exactly as it was; the
     enqueue timeout happens only for a fully verified message of a scheduled duty whose buffer is
     full, and changes no buffer content (the instance of that duty exists afterwards). *)
  Lemma buf_set_buf_same : forall (st : state) d b, buf (set_buf st d b) d = Some b.
  Proof.
    induction st as [|[d' b'] r IH]; intros d b; simpl.
    - rewrite duty_eqb_refl; reflexivity.
    - destruct (duty_eqb d' d) eqn:E; simpl; rewrite E; auto.
  Qed.

  Lemma buf_set_buf_other : forall (st : state) d b d', d' <> d -> buf (set_buf st d b) d' = buf st d'.
  Proof.
    induction st as [|[d0 b0] r IH]; intros d b d' Hne; simpl.
    - destruct (duty_eqb d d') eqn:E; [apply duty_eqb_eq in E; congruence|reflexivity].
    - destruct (duty_eqb d0 d) eqn:E; simpl.
      + apply duty_eqb_eq in E; subst d0.
        destruct (duty_eqb d d') eqn:E'; [apply duty_eqb_eq in E'; congruence|reflexivity].
      + destruct (duty_eqb d0 d'); auto.
  Qed.

  Lemma decide_reject_not_enqueue : forall e req r, decide e req = @VReject sigT typeurl vbytes extra r -> r <> REnqueue.
  Proof.
    intros e req r Ed ->. unfold WireMsg.decide in Ed.
    destruct req as [w0|]; [|discriminate].
    destruct (verify_part e (w_msg w0)) as [[[mp d0] k]|pr]; [|discriminate].
    destruct (negb (e_gater e d0)); [discriminate|].
    destruct (2 * nodes e <? length (w_just w0)); [discriminate|].
    destruct (2 * (length (w_just w0) + 1) <? length (w_values w0)); [discriminate|].
    destruct (verify_justs e d0 0 (w_just w0)) as [rj|] eqn:Evj.
    + assert (rj <> REnqueue).
      { clear Ed. revert Evj. generalize 0. generalize (w_just w0).
        induction l as [|oj l IH]; intros i Y; simpl in Y; [discriminate|].
        destruct (e_ctx e i); [inversion Y; discriminate|].
        destruct (verify_part e oj) as [[[j dj] kj]|prj]; [|inversion Y; discriminate].
        destruct (duty_eqb dj d0); [eapply IH; eauto|inversion Y; discriminate]. }
      inversion Ed; congruence.
    + destruct (values_by_hash (w_values w0) []) as [m0|]; [|discriminate].
      destruct (check_refs_all m0 (Some mp :: w_just w0)) as [rc|] eqn:Ecr.
      * assert (rc <> REnqueue).
        { clear Ed. revert Ecr. generalize (Some mp :: w_just w0).
          induction l as [|op l IH]; intros Y; simpl in Y; [discriminate|].
          destruct op as [q|]; [|inversion Y; discriminate].
          destruct (check_refs m0 (p_c q)) as [x|] eqn:Ex; [|auto].
          inversion Y; subst x. unfold check_refs in Ex.
          destruct (to_hash32 (c_vhash (p_c q))); destruct (to_hash32 (c_pvhash (p_c q)));
            repeat match goal with H : context [if ?b then _ else _] |- _ => destruct b end;
            inversion Ex; discriminate. }
        inversion Ed; congruence.
      * destruct (e_ctx e (length (w_just w0))); discriminate.
  Qed.

  Theorem reject_no_state_change : forall e st id req r dl st',
    handle e st id req = (Reject r, dl, st') ->
    (r <> REnqueue -> st' = st) /\
    (r = REnqueue ->
       exists w d m, decide e req = VPass d w m /\ e_deadline e d = Scheduled /\
                     cap <= length (buf0 st d) /\ forall d', buf0 st' d' = buf0 st d').
  Proof.
    intros e st id req r dl st'. unfold WireMsg.handle.
    destruct (decide e req) as [r0|d w m] eqn:Ed.
    - intros X; inversion X; subst. split; [auto|]. intros ->.
      exfalso. eapply decide_reject_not_enqueue; eauto.
    - destruct (e_deadline e d) eqn:Edl.
      + destruct (cap <=? length (buf0 st d)) eqn:Ec; intros X; inversion X; subst.
        split; [congruence|]. intros _. exists w, d, m. apply Nat.leb_le in Ec.
        repeat split; auto. intros d'. unfold buf0.
        destruct (duty_eqb d' d) eqn:E.
        * apply duty_eqb_eq in E; subst d'. rewrite buf_set_buf_same. reflexivity.
        * rewrite buf_set_buf_other; [reflexivity|]. intros ->. rewrite duty_eqb_refl in E; discriminate.
      + intros X; inversion X; subst. split; [auto|discriminate].
      + intros X; inversion X; subst. split; [auto|discriminate].
  Qed.

  (* ------------------------------------------------------------------------------------------ *)
  (* Authenticity under unforgeability; tampering *)

  Section Crypto.
    Variable honest : key -> Prop.                 (* the member holding this key follows the protocol *)
    Variable signed : key -> content extra -> Prop. (* that member has signed this content *)

    Hypothesis encode_inj : forall c c', encode c = encode c' -> c = c'.
    Hypothesis H_inj : forall b b', H b = H b' -> b = b'.
    Hypothesis unforgeable : forall k c s,
      honest k -> verify k (H (encode c)) s = true ->
      exists c0, signed k c0 /\ H (encode c0) = H (encode c).

    Lemma authentic_signed : forall e p k,
      part_authentic e p -> pubkey e (c_peer (p_c p)) = Some k -> honest k -> signed k (p_c p).
    Proof.
      intros e p k (k' & s & A & B & C) Hk Hh. rewrite Hk in A; inversion A; subst k'.
      destruct (unforgeable _ _ _ Hh C) as (c0 & S & E).
      apply H_inj in E. apply encode_inj in E. subst c0. assumption.
    Qed.

    (* Whatever is accepted: every part whose named source is an honest member was signed, exactly
       as it is (every field, at both nesting levels), by that member. *)
    Theorem accept_signed_by_source : forall e st id req dl st',
      handle e st id req = (Accept, dl, st') ->
      exists w, req = Some w /\
        forall p, In (Some p) (w_msg w :: w_just w) ->
        forall k, pubkey e (c_peer (p_c p)) = Some k -> honest k -> signed k (p_c p).
    Proof.
      intros e st id req dl st' X. apply handle_accept_sound in X.
      destruct X as (w & d & m & A & B & _). exists w; split; [assumption|].
      intros p Hin k Hk Hh. destruct Hin as [E|Hin].
      - destruct (aw_main _ _ _ _ B) as (mp & M1 & _ & M3 & _). rewrite M1 in E; inversion E; subst.
        eapply authentic_signed; eauto.
      - pose proof (aw_just _ _ _ _ B) as F. rewrite Forall_forall in F.
        destruct (F _ Hin) as (j & J1 & _ & J3 & _). inversion J1; subst.
        eapply authentic_signed; eauto.
    Qed.

    (* A message that contains, as main part or as a justification, a content naming an honest
       member as source which that member never signed is rejected -- whatever signature is
       attached to it. *)
    Theorem tamper_rejected : forall e st id w p k,
      In (Some p) (w_msg w :: w_just w) ->
      pubkey e (c_peer (p_c p)) = Some k -> honest k -> ~ signed k (p_c p) ->
      exists r dl st', handle e st id (Some w) = (Reject r, dl, st').
    Proof.
      intros e st id w p k Hin Hk Hh Hns.
      destruct (handle e st id (Some w)) as [[res dl] st'] eqn:X.
      destruct res as [|r]; [|exists r, dl, st'; reflexivity].
      exfalso. apply accept_signed_by_source in X. destruct X as (w' & E & F).
      inversion E; subst w'. apply Hns. eapply F; eauto.
    Qed.

    (* The same with the change spelled out field by field: take any part [p] of a message and
       replace its content by one that differs in at least one signed field (type, duty presence,
       slot, duty type, peer index, round, value hash, prepared round, prepared value hash, or
       anything else the serialisation contains), keeping or replacing the signature; if the honest
       member named as source did not sign the new content, the message is rejected. *)
    Definition differs_in_a_field (c c' : content extra) : Prop :=
      c_type c <> c_type c' \/ c_duty c <> c_duty c' \/ c_peer c <> c_peer c' \/
      c_round c <> c_round c' \/ c_vhash c <> c_vhash c' \/ c_pr c <> c_pr c' \/
      c_pvhash c <> c_pvhash c' \/ c_extra c <> c_extra c'.

    Lemma differs_neq : forall c c', differs_in_a_field c c' -> c <> c'.
    Proof. intros c c' D E; subst c'. unfold differs_in_a_field in D; intuition congruence. Qed.

    Hypothesis sig_binds : forall k d s k' d',
      verify k d s = true -> verify k' d' s = true -> k = k' /\ d = d'.

    (* Keeping the original signature: altering any signed field of a part that verified makes
       the part fail verification, hence the message is rejected (no assumption on what else the
       member may have signed). *)
    Theorem field_tamper_rejected : forall e st id w p c' s,
      part_authentic e p -> p_sig p = Some s ->
      differs_in_a_field (p_c p) c' ->
      In (Some {| p_c := c'; p_sig := Some s |}) (w_msg w :: w_just w) ->
      exists r dl st', handle e st id (Some w) = (Reject r, dl, st').
    Proof.
      intros e st id w p c' s (k & s0 & A & B & C) Hs D Hin.
      rewrite Hs in B; inversion B; subst s0.
      destruct (handle e st id (Some w)) as [[res dl] st'] eqn:X.
      destruct res as [|r]; [|exists r, dl, st'; reflexivity].
      exfalso. apply handle_accept_sound in X.
      destruct X as (w' & d & m & E & F & _). inversion E; subst w'.
      assert (G : part_authentic e {| p_c := c'; p_sig := Some s |}).
      { destruct Hin as [E1|Hin].
        - destruct (aw_main _ _ _ _ F) as (mp & M1 & _ & M3 & _). rewrite M1 in E1; inversion E1; subst; auto.
        - pose proof (aw_just _ _ _ _ F) as FF. rewrite Forall_forall in FF.
          destruct (FF _ Hin) as (j & J1 & _ & J3 & _). inversion J1; subst; auto. }
      destruct G as (k' & s' & A' & B' & C'). simpl in *. inversion B'; subst s'.
      destruct (sig_binds _ _ _ _ _ C C') as [_ Ed].
      apply H_inj in Ed. apply encode_inj in Ed. eapply differs_neq; eauto.
    Qed.
  End Crypto.

  (* ------------------------------------------------------------------------------------------ *)
  (* Values *)

  (* A referenced hash that no attached value hashes to gets the message rejected. *)
  Theorem unresolved_rejected : forall e st id w p h,
    In (Some p) (w_msg w :: w_just w) -> refs p h ->
    (forall v, In (Some v) (w_values w) -> vhash v <> Some h) ->
    exists r dl st', handle e st id (Some w) = (Reject r, dl, st').
  Proof.
    intros e st id w p h Hin Hr Hno.
    destruct (handle e st id (Some w)) as [[res dl] st'] eqn:X.
    destruct res as [|r]; [|exists r, dl, st'; reflexivity].
    exfalso. apply handle_accept_sound in X.
    destruct X as (w' & d & m & E & F & _). inversion E; subst w'.
    destruct (aw_refs _ _ _ _ F p Hin h Hr) as (v & _ & Hh & Hv'). eapply Hno; eauto.
  Qed.

  Section Values.
    Hypothesis Hv_inj : forall c c', Hv c = Hv c' -> c = c'.

    (* [vs'] is [vs] with the i-th entry replaced by (tu, b'). *)
    Definition replace_nth {A} (i : nat) (x : A) (l : list A) : list A := firstn i l ++ x :: skipn (S i) l.

    Lemma in_replace_nth : forall A i (x y : A) l, In y (replace_nth i x l) -> y = x \/ In y (firstn i l ++ skipn (S i) l).
    Proof.
      intros A i x y l Hin. unfold replace_nth in Hin. apply in_app_or in Hin.
      destruct Hin as [Hin|[->|Hin]]; [right; apply in_or_app; auto|left; reflexivity|right; apply in_or_app; auto].
    Qed.

    (* Changing the bytes of a referenced value so that they no longer denote the same inner
       message (in particular: flipping any byte of a canonical encoding) gets the message
       rejected, unless another attached value still hashes to the reference. *)
    Theorem value_bytes_tamper_rejected : forall e st id w p h i tu b b' c,
      In (Some p) (w_msg w :: w_just w) -> refs p h ->
      nth_error (w_values w) i = Some (Some (tu, b)) ->
      decode tu b = Some c -> Hv c = h ->
      decode tu b' <> Some c ->
      (forall v, In (Some v) (firstn i (w_values w) ++ skipn (S i) (w_values w)) -> vhash v <> Some h) ->
      exists r dl st',
        handle e st id (Some {| w_msg := w_msg w; w_just := w_just w;
                                w_values := replace_nth i (Some (tu, b')) (w_values w) |}) = (Reject r, dl, st').
    Proof.
      intros e st id w p h i tu b b' c Hin Hr Hn Hd Hh Hd' Hoth.
      eapply unresolved_rejected with (p := p) (h := h); simpl; eauto.
      intros v Hv'. apply in_replace_nth in Hv'. destruct Hv' as [E|Hv'].
      - inversion E; subst v. unfold WireMsg.vhash; simpl.
        destruct (decode tu b') as [c'|] eqn:E'; [|discriminate].
        intros X; inversion X. subst h. apply Hv_inj in H1. subst c'. apply Hd'; reflexivity.
      - apply Hoth; assumption.
    Qed.

    (* Decide: the value handed to the subscribers is an attached value whose recomputed hash is
       the decided hash; so its decoded content is exactly the content of the proposed data whose
       hash was agreed. *)
    Theorem decide_value_exact : forall e st id req dl st' w d m h tu c,
      handle e st id req = (Accept, dl, st') ->
      req = Some w -> decide e req = VPass d w m ->
      delivered {| q_id := id; q_wire := w; q_vm := m |} h = Some (tu, c) ->
      Hv c = h /\
      (exists b, In (Some (tu, b)) (w_values w) /\ decode tu b = Some c) /\
      forall tu0 b0 c0, decode tu0 b0 = Some c0 -> Hv c0 = h -> c = c0.
    Proof.
      intros e st id req dl st' w d m h tu c _ _ Hd Hdel.
      apply decide_pass_sound in Hd. destruct Hd as (_ & B & _).
      unfold WireMsg.delivered, decide_lookup in Hdel; simpl in Hdel.
      destruct (vlookup m h) as [[tu' b]|] eqn:L; [|discriminate].
      destruct (decode tu' b) as [c'|] eqn:Ed; [|discriminate].
      inversion Hdel; subst tu' c'.
      destruct (aw_vm _ _ _ _ B _ _ L) as [Hh Hin]. unfold WireMsg.vhash in Hh; simpl in Hh. rewrite Ed in Hh.
      inversion Hh. split; [reflexivity|]. split; [exists b; auto|].
      intros tu0 b0 c0 _ E0. apply Hv_inj. congruence.
    Qed.
  End Values.

  (* The buffered message of an accepted call is the one [decide] passed (used with
     decide_value_exact: whatever Decide later looks up in a buffered message has these properties). *)
  Theorem accepted_is_passed : forall e st id req dl st',
    handle e st id req = (Accept, dl, st') ->
    exists w d m, req = Some w /\ decide e req = VPass d w m /\
                  buf0 st' d = buf0 st d ++ [{| q_id := id; q_wire := w; q_vm := m |}].
  Proof.
    intros e st id req dl st'. unfold WireMsg.handle.
    destruct (decide e req) as [r|d w m] eqn:Ed; [intros X; inversion X|].
    destruct (e_deadline e d); try (intros X; inversion X; fail).
    destruct (cap <=? length (buf0 st d)); intros X; inversion X; subst.
    pose proof (decide_pass_sound _ _ _ _ _ Ed) as (A & _).
    exists w, d, m. repeat split; auto. unfold buf0 at 1. rewrite buf_set_buf_same. reflexivity.
  Qed.

  (* Both together: whatever the Decide callback later delivers out of a message that handle
     accepted (for any decided hash h) is an attached value whose recomputed hash is h, and its
     decoded content is the content of any data (in particular the proposed data) hashing to h. *)
  Theorem accepted_decide_value_exact :
    (forall c c', Hv c = Hv c' -> c = c') ->
    forall e st id req dl st',
    handle e st id req = (Accept, dl, st') ->
    exists q d, buf0 st' d = buf0 st d ++ [q] /\ q_id q = id /\ req = Some (q_wire q) /\
      forall h tu c, delivered q h = Some (tu, c) ->
        Hv c = h /\
        (exists b, In (Some (tu, b)) (w_values (q_wire q)) /\ decode tu b = Some c) /\
        forall tu0 b0 c0, decode tu0 b0 = Some c0 -> Hv c0 = h -> c = c0.
  Proof.
    intros Hinj e st id req dl st' X.
    destruct (accepted_is_passed _ _ _ _ _ _ X) as (w & d & m & A & B & C).
    exists {| q_id := id; q_wire := w; q_vm := m |}, d. repeat split; auto.
    - eapply decide_value_exact; eauto.
    - eapply (decide_value_exact Hinj); eauto.
    - eapply (decide_value_exact Hinj); eauto.
  Qed.

  (* ------------------------------------------------------------------------------------------ *)
  (* spec_ok (the boolean transcription used by the monitor) follows from a pass *)

  Lemma part_ok_of : forall e p, part_authentic e p -> part_wellformed p -> part_ok e p = true.
  Proof.
    intros e p (k & s & A & B & C) (T & (d & D1 & D2) & R & P).
    unfold WireMsg.part_ok. rewrite T, D1, D2, A, B, C. simpl.
    assert ((0 <? c_round (p_c p))%Z = true) as -> by (apply Z.ltb_lt; lia).
    assert ((0 <=? c_pr (p_c p))%Z = true) as -> by (apply Z.leb_le; lia).
    reflexivity.
  Qed.

  Lemma resolves_of : forall (vs : list (option value)) f,
    (forall h, to_hash32 f = Some h -> exists v, vhash v = Some h /\ In (Some v) vs) ->
    resolves vs f = true.
  Proof.
    intros vs f X. unfold WireMsg.resolves. destruct (to_hash32 f) as [h|]; [|reflexivity].
    destruct (X h eq_refl) as (v & Hh & Hin). apply existsb_exists. exists (Some v). split; [assumption|].
    rewrite Hh. apply N.eqb_refl.
  Qed.

  Lemma pass_spec_ok : forall e req d w m,
    decide e req = VPass d w m -> e_deadline e d = Scheduled -> spec_ok e req = true.
  Proof.
    intros e req d w m X Hdl. apply decide_pass_sound in X. destruct X as (-> & B & _).
    destruct (aw_main _ _ _ _ B) as (mp & M1 & M2 & M3 & M4).
    assert (R : forall p, In (Some p) (w_msg w :: w_just w) ->
                resolves (w_values w) (c_vhash (p_c p)) && resolves (w_values w) (c_pvhash (p_c p)) = true).
    { intros p Hin. apply andb_true_iff; split; apply resolves_of; intros h Hh.
      - destruct (aw_refs _ _ _ _ B p Hin h (or_introl Hh)) as (v & _ & A1 & A2); exists v; auto.
      - destruct (aw_refs _ _ _ _ B p Hin h (or_intror Hh)) as (v & _ & A1 & A2); exists v; auto. }
    unfold WireMsg.spec_ok. rewrite M1, M2.
    apply andb_true_intro; split; [apply andb_true_intro; split; [apply andb_true_intro; split;
      [apply andb_true_intro; split; [apply andb_true_intro; split; [apply andb_true_intro; split|]|]|]|]|].
    - apply part_ok_of; assumption.
    - apply forallb_forall. intros oj Hin. pose proof (aw_just _ _ _ _ B) as F. rewrite Forall_forall in F.
      destruct (F _ Hin) as (j & -> & J2 & J3 & J4). rewrite (part_ok_of _ _ J3 J4), J2, duty_eqb_refl. reflexivity.
    - apply (aw_gater _ _ _ _ B).
    - rewrite Hdl; reflexivity.
    - apply Nat.leb_le; apply (aw_njust _ _ _ _ B).
    - apply Nat.leb_le; apply (aw_nvalues _ _ _ _ B).
    - apply forallb_forall. intros op Hin. destruct Hin as [<-|Hin].
      + apply R. rewrite M1. left; reflexivity.
      + pose proof (aw_just _ _ _ _ B) as F. rewrite Forall_forall in F.
        destruct (F _ Hin) as (j & -> & _). apply R. right; assumption.
  Qed.

  (* Conversely, spec_ok gives the Prop-level clauses (so the monitor is not weaker than them). *)
  Lemma part_ok_inv : forall e p, part_ok e p = true -> part_authentic e p /\ part_wellformed p.
  Proof.
    intros e p. unfold WireMsg.part_ok.
    destruct (msgtype_valid (c_type (p_c p))) eqn:T; simpl; [|discriminate].
    destruct (c_duty (p_c p)) as [d|] eqn:D; [|discriminate].
    destruct (dutytype_valid (snd d)) eqn:DT; simpl; [|discriminate].
    destruct (0 <? c_round (p_c p))%Z eqn:R; simpl; [|discriminate].
    destruct (0 <=? c_pr (p_c p))%Z eqn:P; simpl; [|discriminate].
    destruct (pubkey e (c_peer (p_c p))) as [k|] eqn:K; [|discriminate].
    destruct (p_sig p) as [s|] eqn:S; [|discriminate].
    intros V. split; [exists k, s; auto|].
    split; [assumption|]. split; [exists d; auto|].
    apply Z.ltb_lt in R. apply Z.leb_le in P. lia.
  Qed.

  Theorem spec_ok_reading : forall e req,
    spec_ok e req = true ->
    exists w mp d,
      req = Some w /\ w_msg w = Some mp /\ c_duty (p_c mp) = Some d /\
      part_authentic e mp /\ part_wellformed mp /\
      Forall (fun oj => exists j, oj = Some j /\ c_duty (p_c j) = Some d /\
                                  part_authentic e j /\ part_wellformed j) (w_just w) /\
      e_gater e d = true /\ e_deadline e d = Scheduled /\
      length (w_just w) <= 2 * nodes e /\ length (w_values w) <= 2 * (length (w_just w) + 1) /\
      forall p, In (Some p) (w_msg w :: w_just w) -> forall h, refs p h ->
                exists v, In (Some v) (w_values w) /\ vhash v = Some h.
  Proof.
    intros e req. unfold WireMsg.spec_ok.
    destruct req as [w|]; [|discriminate].
    destruct (w_msg w) as [mp|] eqn:M; [|discriminate].
    destruct (c_duty (p_c mp)) as [d|] eqn:D; [|discriminate].
    rewrite !andb_true_iff. intros ((((((A & B) & C) & E) & F) & G) & I).
    destruct (e_deadline e d) eqn:Edl; try discriminate.
    apply part_ok_inv in A. destruct A as [A1 A2].
    apply Nat.leb_le in F. apply Nat.leb_le in G.
    assert (J : Forall (fun oj => exists j, oj = Some j /\ c_duty (p_c j) = Some d /\
                                  part_authentic e j /\ part_wellformed j) (w_just w)).
    { apply Forall_forall. intros oj Hin. rewrite forallb_forall in B. specialize (B _ Hin).
      destruct oj as [j|]; [|discriminate]. apply andb_true_iff in B. destruct B as [B1 B2].
      apply part_ok_inv in B1. destruct (c_duty (p_c j)) as [dj|] eqn:Dj; [|discriminate].
      apply duty_eqb_eq in B2; subst dj. exists j; intuition. }
    exists w, mp, d. repeat (split; [assumption || reflexivity|]).
    intros p Hin h Hr. rewrite forallb_forall in I.
    assert (Hin' : In (Some p) (Some mp :: w_just w)) by (rewrite <- M; assumption).
    specialize (I _ Hin'). simpl in I. apply andb_true_iff in I. destruct I as [I1 I2].
    assert (X : forall f, resolves (w_values w) f = true -> to_hash32 f = Some h ->
                exists v, In (Some v) (w_values w) /\ vhash v = Some h).
    { intros f Rf Hf. unfold WireMsg.resolves in Rf. rewrite Hf in Rf.
      apply existsb_exists in Rf. destruct Rf as (ov & Hov & T). destruct ov as [v|]; [|discriminate].
      destruct (vhash v) as [h'|] eqn:Eh; [|discriminate]. apply N.eqb_eq in T; subst h'.
      exists v; auto. }
    destruct Hr as [Hr|Hr]; eauto.
  Qed.

  (* ------------------------------------------------------------------------------------------ *)
  (* Every trace of the model passes the monitor *)

  Lemma snap_set_buf : forall (st : state) d b,
    snap (set_buf st d b) = snap_set (snap st) d (map (@q_id _ _ _ _) b).
  Proof.
    induction st as [|[d' b'] r IH]; intros d b; simpl; [reflexivity|].
    destruct (duty_eqb d' d); simpl; [reflexivity|]. rewrite IH. reflexivity.
  Qed.

  Lemma snap_del_buf : forall (st : state) d, snap (del_buf st d) = snap_del (snap st) d.
  Proof.
    induction st as [|[d' b'] r IH]; intros d; simpl; [reflexivity|].
    destruct (duty_eqb d' d); simpl; [apply IH|]. rewrite IH. reflexivity.
  Qed.

  Lemma snap_get_buf : forall (st : state) d,
    snap_get (snap st) d = match buf st d with Some b => Some (map (@q_id _ _ _ _) b) | None => None end.
  Proof.
    induction st as [|[d' b'] r IH]; intros d; simpl; [reflexivity|].
    destruct (duty_eqb d' d); [reflexivity|apply IH].
  Qed.

  Lemma snap_get0_buf0 : forall (st : state) d, snap_get0 (snap st) d = map (@q_id _ _ _ _) (buf0 st d).
  Proof.
    intros st d. unfold snap_get0, buf0. rewrite snap_get_buf. destruct (buf st d); reflexivity.
  Qed.

  Lemma take_drop_prefix : forall ids (b b' : list qmsg),
    take_prefix ids b = Some b' -> drop_prefix ids (map (@q_id _ _ _ _) b) = Some (map (@q_id _ _ _ _) b').
  Proof.
    induction ids as [|i r IH]; intros b b' X; simpl in *.
    - inversion X; reflexivity.
    - destruct b as [|q s]; [discriminate|]. simpl.
      destruct (N.eqb i (q_id q)); [apply IH; assumption|discriminate].
  Qed.

  Lemma pass_wire_duty : forall e req d w m, decide e req = VPass d w m -> wire_duty req = Some d.
  Proof.
    intros e req d w m X. apply decide_pass_sound in X. destruct X as (-> & B & _).
    destruct (aw_main _ _ _ _ B) as (mp & M1 & M2 & _). unfold wire_duty. rewrite M1. assumption.
  Qed.

  Lemma step_gstep : forall st l st',
    step st l = Some st' -> gstep (snap st) l = Some (snap st').
  Proof.
    intros st l st'. destruct l as [id e req res dl after|d ids|d]; simpl.
    - destruct (handle e st id req) as [[r dl'] st1] eqn:Hh.
      destruct (result_eqb r res && Bool.eqb dl dl' && snap_eqb (snap st1) after) eqn:C; [|discriminate].
      intros X; inversion X; subst st1. clear X.
      apply andb_true_iff in C. destruct C as [C Csnap]. apply andb_true_iff in C. destruct C as [Cr _].
      apply result_eqb_eq in Cr. subst res.
      unfold WireMsg.monitor_handle, WireMsg.handle in *.
      destruct (decide e req) as [r0|d w m] eqn:Ed.
      + pose proof (decide_reject_not_enqueue _ _ _ Ed) as Hne.
        inversion Hh; subst. simpl.
        destruct r0; try congruence; simpl; rewrite Csnap; reflexivity.
      + pose proof (pass_wire_duty _ _ _ _ _ Ed) as Wd.
        destruct (e_deadline e d) eqn:Edl.
        * pose proof (pass_spec_ok _ _ _ _ _ Ed Edl) as Sp.
          destruct (cap <=? length (buf0 st d)); inversion Hh; subst; clear Hh;
            rewrite snap_set_buf in *; unfold ghost_next, needs_spec; rewrite Wd, Sp;
            rewrite snap_get0_buf0; rewrite ?map_app in *; simpl in *; rewrite Csnap; reflexivity.
        * inversion Hh; subst. simpl. rewrite Csnap. reflexivity.
        * inversion Hh; subst. simpl. rewrite Csnap. reflexivity.
    - rewrite snap_get_buf. destruct (buf st d) as [b|].
      + destruct (take_prefix ids b) as [b'|] eqn:T; [|discriminate].
        intros X; inversion X; subst. rewrite (take_drop_prefix _ _ _ T). rewrite snap_set_buf. reflexivity.
      + destruct ids; [|discriminate]. intros X; inversion X; reflexivity.
    - intros X; inversion X; subst. rewrite snap_del_buf. reflexivity.
  Qed.

  Lemma run_first_violation : forall ls st s i,
    run st ls = Some s -> first_violation (snap st) ls i = None.
  Proof.
    induction ls as [|l r IH]; intros st s i X; simpl in *; [reflexivity|].
    destruct (step st l) as [st'|] eqn:Hs; [|discriminate].
    rewrite (step_gstep _ _ _ Hs). eapply IH; eauto.
  Qed.

  Theorem run_monitor : forall ls s, run [] ls = Some s -> monitor ls = true.
  Proof.
    intros ls s X. unfold WireMsg.monitor.
    pose proof (run_first_violation ls [] s 0 X) as Y. simpl in Y. rewrite Y. reflexivity.
  Qed.

  (* What a passing monitor says about one handle call inside a trace, in Prop. *)
  Theorem monitor_handle_reading : forall g id e req res after g',
    monitor_handle g id e req res after = Some g' ->
    match res with
    | Accept => spec_ok e req = true /\
                exists d, wire_duty req = Some d /\ g' = snap_set g d (snap_get0 g d ++ [id])
    | Reject REnqueue => spec_ok e req = true /\
                exists d, wire_duty req = Some d /\ g' = snap_set g d (snap_get0 g d)
    | Reject _ => g' = g
    end /\ snap_eqb g' after = true.
  Proof.
    intros g id e req res after g'. unfold WireMsg.monitor_handle.
    destruct (ghost_next g id req res) as [g1|] eqn:G; [|discriminate].
    destruct ((if needs_spec res then spec_ok e req else true) && snap_eqb g1 after) eqn:C; [|discriminate].
    intros X; inversion X; subst g1. apply andb_true_iff in C. destruct C as [C1 C2].
    split; [|assumption].
    destruct res as [|r]; simpl in *.
    - destruct (wire_duty req) as [d|]; [|discriminate]. inversion G; subst. split; [assumption|]. exists d; auto.
    - destruct r; simpl in *; try (inversion G; reflexivity).
      destruct (wire_duty req) as [d|]; [|discriminate]. inversion G; subst. split; [assumption|]. exists d; auto.
  Qed.

End Facts.

Arguments part_authentic {key sigT ebytes digest extra} encode H verify e p.
Arguments part_wellformed {sigT extra} p.
Arguments vm_sound {typeurl vbytes cbytes} decode Hv vs m.
Arguments refs {sigT extra} p h.
Arguments authentic_wellformed {key sigT ebytes digest typeurl vbytes cbytes extra} encode H verify decode Hv e w d m.
Arguments differs_in_a_field {extra} c c'.
Arguments replace_nth {A} i x l.
