(* Proofs about the scheduler model: every well-formed trace accepted by the model satisfies the
   trace monitor (which transcribes property C15), and the Prop-level readings of the monitor. *)
From Coq Require Import List NArith PeanoNat Bool Lia FinFun Sorted.
From Charon Require Import Flow.Scheduler.
Import ListNotations.
Local Open Scope N_scope.

(* ---- decidable equalities ---- *)

Lemma dtype_eqb_eq a b : dtype_eqb a b = true <-> a = b.
Proof. destruct a, b; simpl; split; intro H; try reflexivity; try discriminate. Qed.

Lemma dtype_eqb_refl a : dtype_eqb a a = true.
Proof. destruct a; reflexivity. Qed.

Lemma duty_eqb_eq a b : duty_eqb a b = true <-> a = b.
Proof.
  destruct a as [t1 s1], b as [t2 s2]. unfold duty_eqb. simpl.
  rewrite andb_true_iff, dtype_eqb_eq, N.eqb_eq. split.
  - intros [-> ->]. reflexivity.
  - intro H. injection H as -> ->. split; reflexivity.
Qed.

Lemma duty_eqb_refl a : duty_eqb a a = true.
Proof. apply duty_eqb_eq. reflexivity. Qed.

Lemma duty_eqb_neq a b : duty_eqb a b = false <-> a <> b.
Proof.
  split.
  - intros H E. apply duty_eqb_eq in E. congruence.
  - intro H. destruct (duty_eqb a b) eqn:E; [apply duty_eqb_eq in E; contradiction | reflexivity].
Qed.

Lemma duty_eqb_sym a b : duty_eqb a b = duty_eqb b a.
Proof.
  destruct (duty_eqb a b) eqn:E.
  - apply duty_eqb_eq in E. subst. symmetry. apply duty_eqb_refl.
  - symmetry. apply duty_eqb_neq. apply duty_eqb_neq in E. congruence.
Qed.

Lemma mem_duty_In d l : mem_duty d l = true <-> In d l.
Proof.
  induction l as [|x r IH]; simpl; [split; [discriminate|tauto]|].
  rewrite orb_true_iff, IH, duty_eqb_eq. tauto.
Qed.

Lemma mem_duty_false d l : mem_duty d l = false <-> ~ In d l.
Proof.
  split.
  - intros H HI. apply mem_duty_In in HI. congruence.
  - intro H. destruct (mem_duty d l) eqn:E; [apply mem_duty_In in E; contradiction | reflexivity].
Qed.

Lemma nodup_duty_NoDup l : nodup_duty l = true -> NoDup l.
Proof.
  induction l as [|x r IH]; simpl; intro H; [constructor|].
  apply andb_true_iff in H. destruct H as [H1 H2]. constructor; [|auto].
  apply negb_true_iff in H1. apply mem_duty_false in H1. exact H1.
Qed.

Lemma NoDup_nodup_duty l : NoDup l -> nodup_duty l = true.
Proof.
  induction 1 as [|x r Hx Hr IH]; simpl; [reflexivity|].
  rewrite IH, andb_true_r. apply negb_true_iff. apply mem_duty_false. exact Hx.
Qed.

Lemma entry_eqb_eq a b : entry_eqb a b = true <-> a = b.
Proof.
  destruct a as [a1 a2 a3 a4], b as [b1 b2 b3 b4]. unfold entry_eqb. simpl.
  rewrite !andb_true_iff, !N.eqb_eq. split.
  - intros [[[-> ->] ->] ->]. reflexivity.
  - intro H. injection H as -> -> -> ->. tauto.
Qed.

Lemma def_eqb_eq a b : def_eqb a b = true <-> a = b.
Proof.
  destruct a as [p e], b as [p' e']. unfold def_eqb. simpl.
  rewrite andb_true_iff, N.eqb_eq, entry_eqb_eq. split.
  - intros [-> ->]. reflexivity.
  - intro H. injection H as -> ->. tauto.
Qed.

Lemma optN_eqb_eq a b : optN_eqb a b = true <-> a = b.
Proof.
  destruct a, b; simpl; try (split; [discriminate | discriminate]); try tauto.
  rewrite N.eqb_eq. split; [intros ->; reflexivity | intro H; injection H; auto].
Qed.

Lemma incl_b_spec {A} (eqb : A -> A -> bool) (l1 l2 : list A) :
  (forall a b, eqb a b = true <-> a = b) -> (incl_b eqb l1 l2 = true <-> incl l1 l2).
Proof.
  intro Heq. unfold incl_b. rewrite forallb_forall. split.
  - intros H x Hx. specialize (H x Hx). apply existsb_exists in H. destruct H as [y [Hy E]].
    apply Heq in E. subst. exact Hy.
  - intros H x Hx. apply existsb_exists. exists x. split; [apply H; exact Hx | apply Heq; reflexivity].
Qed.

(* same_set with a real equality: equal length and mutual inclusion *)
Lemma same_set_spec {A} (eqb : A -> A -> bool) (l1 l2 : list A) :
  (forall a b, eqb a b = true <-> a = b) ->
  (same_set eqb l1 l2 = true <-> length l1 = length l2 /\ incl l1 l2 /\ incl l2 l1).
Proof.
  intro Heq. unfold same_set. rewrite !andb_true_iff, Nat.eqb_eq.
  rewrite (incl_b_spec eqb l1 l2 Heq), (incl_b_spec eqb l2 l1 Heq). tauto.
Qed.

(* same_set with a coarser test (trig_eqb): what we can still say through a key function *)
Lemma same_set_keys {A K} (eqb : A -> A -> bool) (key : A -> K) (l1 l2 : list A) :
  (forall a b, eqb a b = true -> key a = key b) ->
  same_set eqb l1 l2 = true ->
  length l1 = length l2 /\ incl (map key l1) (map key l2) /\ incl (map key l2) (map key l1).
Proof.
  intros Hk H. unfold same_set in H. apply andb_true_iff in H. destruct H as [H H3].
  apply andb_true_iff in H. destruct H as [H1 H2]. apply Nat.eqb_eq in H1.
  split; [exact H1|]. split.
  - intros k Hin. apply in_map_iff in Hin. destruct Hin as [a [<- Ha]].
    unfold incl_b in H2. rewrite forallb_forall in H2. specialize (H2 a Ha).
    apply existsb_exists in H2. destruct H2 as [b [Hb E]]. rewrite (Hk a b E). apply in_map. exact Hb.
  - intros k Hin. apply in_map_iff in Hin. destruct Hin as [a [<- Ha]].
    unfold incl_b in H3. rewrite forallb_forall in H3. specialize (H3 a Ha).
    apply existsb_exists in H3. destruct H3 as [b [Hb E]]. rewrite (Hk a b E). apply in_map. exact Hb.
Qed.

Lemma trig_eqb_duty a b : trig_eqb a b = true -> trig_duty a = trig_duty b.
Proof.
  unfold trig_eqb, trig_duty. rewrite !andb_true_iff. intros [[[H1 H2] _] _].
  apply dtype_eqb_eq in H1. apply N.eqb_eq in H2. congruence.
Qed.

Lemma same_set_in_l {A} (eqb : A -> A -> bool) l1 l2 x :
  same_set eqb l1 l2 = true -> In x l1 -> exists y, In y l2 /\ eqb x y = true.
Proof.
  unfold same_set. rewrite !andb_true_iff. intros [[_ H] _] Hx.
  unfold incl_b in H. rewrite forallb_forall in H. specialize (H x Hx).
  apply existsb_exists in H. exact H.
Qed.

Lemma same_set_in_r {A} (eqb : A -> A -> bool) l1 l2 y :
  same_set eqb l1 l2 = true -> In y l2 -> exists x, In x l1 /\ eqb y x = true.
Proof.
  unfold same_set. rewrite !andb_true_iff. intros [_ H] Hy.
  unfold incl_b in H. rewrite forallb_forall in H. specialize (H y Hy).
  apply existsb_exists in H. exact H.
Qed.

(* ---- first_wins / for_duty / query ---- *)

Lemma first_wins_app acc a b : first_wins acc (a ++ b) = first_wins (first_wins acc a) b.
Proof.
  revert acc. induction a as [|x r IH]; intro acc; simpl; [reflexivity|].
  destruct (has_pk (fst x) acc); apply IH.
Qed.

Lemma for_duty_app d a b : for_duty d (a ++ b) = for_duty d a ++ for_duty d b.
Proof. unfold for_duty. rewrite filter_app, map_app. reflexivity. Qed.

Lemma for_duty_cons d g gs :
  for_duty d (g :: gs) = if duty_eqb (fst g) d then snd g :: for_duty d gs else for_duty d gs.
Proof. unfold for_duty. simpl. destruct (duty_eqb (fst g) d); reflexivity. Qed.

Lemma has_pk_app pk a b : has_pk pk (a ++ b) = has_pk pk a || has_pk pk b.
Proof. unfold has_pk. apply existsb_app. Qed.

Lemma first_wins_nil_iff acc l : first_wins acc l = [] <-> acc = [] /\ l = [].
Proof.
  revert acc. induction l as [|x r IH]; intro acc; simpl.
  - split; [intro H; split; [exact H | reflexivity] | intros [H _]; exact H].
  - destruct (has_pk (fst x) acc) eqn:E.
    + rewrite IH. split.
      * intros [-> _]. discriminate.
      * intros [_ H]. discriminate.
    + rewrite IH. split.
      * intros [H _]. destruct acc; discriminate.
      * intros [_ H]. discriminate.
Qed.

(* members of first_wins come from the accumulator or the list *)
Lemma first_wins_in acc l x : In x (first_wins acc l) -> In x acc \/ In x l.
Proof.
  revert acc. induction l as [|y r IH]; intro acc; simpl; [tauto|].
  destruct (has_pk (fst y) acc).
  - intro H. destruct (IH _ H); tauto.
  - intro H. destruct (IH _ H) as [H1|H1]; [|tauto].
    apply in_app_or in H1. simpl in H1. tauto.
Qed.

Lemma first_wins_acc acc l x : In x acc -> In x (first_wins acc l).
Proof.
  revert acc. induction l as [|y r IH]; intro acc; simpl; [tauto|].
  destruct (has_pk (fst y) acc); intro H; apply IH; [exact H | apply in_or_app; left; exact H].
Qed.

Lemma has_pk_In pk l : has_pk pk l = true <-> exists e, In (pk, e) l.
Proof.
  unfold has_pk. rewrite existsb_exists. split.
  - intros [[p e] [Hin E]]. simpl in E. apply N.eqb_eq in E. subst. exists e. exact Hin.
  - intros [e Hin]. exists (pk, e). split; [exact Hin | simpl; apply N.eqb_refl].
Qed.

Lemma NoDup_snoc {A} (l : list A) x : NoDup l -> ~ In x l -> NoDup (l ++ [x]).
Proof.
  induction l as [|y r IH]; simpl; intros H Hx; [constructor; [tauto | constructor]|].
  inversion H as [|? ? Hy Hr]; subst. constructor.
  - intro Hin. apply in_app_or in Hin. simpl in Hin. destruct Hin as [Hin|[Hin|[]]]; [tauto | subst; tauto].
  - apply IH; [exact Hr | tauto].
Qed.

(* keys stay distinct *)
Lemma first_wins_nodup acc l : NoDup (map fst acc) -> NoDup (map fst (first_wins acc l)).
Proof.
  revert acc. induction l as [|y r IH]; intro acc; simpl; [tauto|].
  destruct (has_pk (fst y) acc) eqn:E; intro H; apply IH; [exact H|].
  rewrite map_app. simpl. apply NoDup_snoc; [exact H|].
  intro Hin. apply in_map_iff in Hin. destruct Hin as [[p e] [Hp Hin]]. simpl in Hp. subst p.
  assert (has_pk (fst y) acc = true) by (apply has_pk_In; exists e; exact Hin). congruence.
Qed.

(* ---- the duty store ---- *)

Lemma set_def_fw st d ep pk e d' :
  fst (fst (set_def st d ep pk e)) d' = first_wins (fst st d') (for_duty d' [(d, (pk, e))]).
Proof.
  unfold set_def. rewrite for_duty_cons. simpl fst. simpl snd.
  destruct (duty_eqb d d') eqn:E.
  - apply duty_eqb_eq in E. subst d'. simpl. destruct (has_pk pk (fst st d)) eqn:Eh; simpl.
    + reflexivity.
    + unfold upd_d. rewrite duty_eqb_refl. reflexivity.
  - simpl. destruct (has_pk pk (fst st d)); simpl; [reflexivity|].
    unfold upd_d. rewrite E. reflexivity.
Qed.

Lemma set_def_fresh st d ep pk e : snd (set_def st d ep pk e) = negb (has_pk pk (fst st d)).
Proof. unfold set_def. destruct (has_pk pk (fst st d)); reflexivity. Qed.

(* dutiesByEpoch after setDutyDefinition: only the list of [ep] grows, by [d] at most *)
Lemma set_def_snd st d ep pk e ep' x :
  In x (snd (fst (set_def st d ep pk e)) ep') <-> In x (snd st ep') \/ (ep' = ep /\ x = d /\ has_pk pk (fst st d) = false).
Proof.
  unfold set_def. destruct (has_pk pk (fst st d)) eqn:Eh; simpl.
  - split; [tauto | intros [H|[_ [_ H]]]; [exact H | discriminate]].
  - unfold upd_e. destruct (N.eqb_spec ep ep') as [->|Hne].
    + rewrite in_app_iff. simpl. split.
      * intros [H|[H|[]]]; [left; exact H | right; auto].
      * intros [H|[_ [-> _]]]; [left; exact H | right; left; reflexivity].
    + split; [tauto | intros [H|[H _]]; [exact H | congruence]].
Qed.

(* every duty with a definition is listed under its epoch; every listed duty lies in that epoch *)
Definition Listed (spe : N) (st : dstore) : Prop :=
  forall d, fst st d <> [] -> In d (snd st (epoch_of spe (snd d))).
Definition ByEp (spe : N) (st : dstore) : Prop :=
  forall ep d, In d (snd st ep) -> epoch_of spe (snd d) = ep.

Lemma set_def_inv spe st d ep pk e :
  epoch_of spe (snd d) = ep -> Listed spe st -> ByEp spe st ->
  Listed spe (fst (set_def st d ep pk e)) /\ ByEp spe (fst (set_def st d ep pk e)).
Proof.
  intros Hep HL HB. split.
  - intros d' Hne. apply set_def_snd. rewrite set_def_fw, for_duty_cons in Hne. simpl in Hne.
    destruct (duty_eqb d d') eqn:E.
    + apply duty_eqb_eq in E. subst d'. simpl in Hne.
      destruct (has_pk pk (fst st d)) eqn:Eh.
      * left. apply HL. exact Hne.
      * right. auto.
    + left. apply HL. exact Hne.
  - intros ep' d' Hin. apply set_def_snd in Hin. destruct Hin as [Hin|[-> [-> _]]]; [apply (HB _ _ Hin) | exact Hep].
Qed.

(* trimDuties, read pointwise under the two invariants *)
Lemma trim_fst spe ep st d :
  Listed spe st -> ByEp spe st ->
  fst (trim ep st) d = if epoch_of spe (snd d) =? ep then [] else fst st d.
Proof.
  intros HL HB. unfold trim. simpl.
  destruct (mem_duty d (snd st ep)) eqn:E.
  - apply mem_duty_In in E. rewrite (HB _ _ E), N.eqb_refl. reflexivity.
  - destruct (N.eqb_spec (epoch_of spe (snd d)) ep) as [He|He]; [|reflexivity].
    destruct (fst st d) eqn:Ed; [reflexivity|].
    exfalso. apply mem_duty_false in E. apply E. rewrite <- He. apply HL. rewrite Ed. discriminate.
Qed.

Lemma trim_inv spe ep st : Listed spe st -> ByEp spe st -> Listed spe (trim ep st) /\ ByEp spe (trim ep st).
Proof.
  intros HL HB. split.
  - intros d Hne. rewrite (trim_fst spe) in Hne by assumption.
    destruct (N.eqb_spec (epoch_of spe (snd d)) ep) as [He|He]; [congruence|].
    unfold trim. simpl. unfold upd_e. destruct (N.eqb_spec ep (epoch_of spe (snd d))); [congruence|].
    apply HL. exact Hne.
  - intros ep' d Hin. unfold trim in Hin. simpl in Hin. unfold upd_e in Hin.
    destruct (N.eqb_spec ep ep'); [destruct Hin | apply (HB _ _ Hin)].
Qed.

(* ---- resolution = adding grants with first-wins ---- *)

Definition Applies (st st' : dstore) (gs : list (duty * (N * entry))) : Prop :=
  forall d, fst st' d = first_wins (fst st d) (for_duty d gs).

Lemma applies_refl st : Applies st st [].
Proof. intro d. reflexivity. Qed.

Lemma applies_trans st st1 st2 g1 g2 :
  Applies st st1 g1 -> Applies st1 st2 g2 -> Applies st st2 (g1 ++ g2).
Proof. intros H1 H2 d. rewrite H2, H1, for_duty_app, first_wins_app. reflexivity. Qed.

Lemma applies_set_def st d ep pk e : Applies st (fst (set_def st d ep pk e)) [(d, (pk, e))].
Proof. intro d'. apply set_def_fw. Qed.

Lemma has_pk_first_wins p acc l : has_pk p (first_wins acc l) = has_pk p acc || has_pk p l.
Proof.
  revert acc. induction l as [|x r IH]; intro acc; simpl; [rewrite orb_false_r; reflexivity|].
  destruct (has_pk (fst x) acc) eqn:E; rewrite IH.
  - destruct (N.eqb_spec (fst x) p) as [<-|Hne]; simpl.
    + rewrite E. reflexivity.
    + reflexivity.
  - rewrite has_pk_app. simpl. rewrite orb_false_r, orb_assoc. reflexivity.
Qed.

Definition Coupled (b : N) (st : dstore) : Prop :=
  forall sl pk, b <= sl -> has_pk pk (fst st (Attester, sl)) = has_pk pk (fst st (Aggregator, sl)).

Lemma applies_coupled b st st' gs :
  Applies st st' gs -> (forall sl, for_duty (Attester, sl) gs = for_duty (Aggregator, sl) gs) ->
  Coupled b st -> Coupled b st'.
Proof.
  intros HA Hg HC sl pk Hsl. rewrite !HA, !has_pk_first_wins, Hg, (HC sl pk Hsl). reflexivity.
Qed.

Lemma for_duty_sync_map d x l :
  fst d <> SyncContribution -> for_duty d (map (fun sl => ((SyncContribution, sl), x)) l) = [].
Proof.
  intro Hd. induction l as [|s r IH]; [reflexivity|]. simpl. rewrite for_duty_cons. simpl.
  destruct (duty_eqb (SyncContribution, s) d) eqn:E; [|exact IH].
  apply duty_eqb_eq in E. subst d. simpl in Hd. congruence.
Qed.

Lemma grants_entry_att_agg spe it e sl :
  for_duty (Attester, sl) (grants_of_entry spe it e) = for_duty (Aggregator, sl) (grants_of_entry spe it e).
Proof.
  unfold grants_of_entry. destruct (i_kind it).
  - rewrite !for_duty_cons. simpl. unfold duty_eqb. simpl. destruct (e_slot e =? sl); reflexivity.
  - rewrite !for_duty_cons. simpl. reflexivity.
  - rewrite !for_duty_sync_map by (simpl; discriminate). reflexivity.
Qed.

Lemma flat_grants_att_agg spe it l sl :
  for_duty (Attester, sl) (flat_map (grants_of_entry spe it) l) = for_duty (Aggregator, sl) (flat_map (grants_of_entry spe it) l).
Proof.
  induction l as [|e r IH]; [reflexivity|]. simpl. rewrite !for_duty_app, IH, grants_entry_att_agg. reflexivity.
Qed.

Lemma proc_att_spec spe slot ep act it :
  i_kind it = KAtt -> i_slot it = slot -> i_act it = act ->
  forall l st st' ok, Coupled slot st -> proc_att slot ep act l st = (st', ok) ->
  Applies st st' (flat_map (grants_of_entry spe it) (filter (good it) (good_prefix it l)))
  /\ ok = negb (existsb (bad it) l).
Proof.
  intros Hk Hsl Hact. induction l as [|e r IH]; intros st st' ok HC H.
  - simpl in H. injection H as <- <-. split; [apply applies_refl | reflexivity].
  - simpl in H.
    assert (Hrel : relevant it e = negb (e_slot e <? slot)).
    { unfold relevant. rewrite Hk, Hsl. apply N.leb_antisym. }
    destruct (e_slot e <? slot) eqn:Elt.
    + assert (Hg : good it e = false) by (unfold good; rewrite Hrel; reflexivity).
      assert (Hb : bad it e = false) by (unfold bad; rewrite Hrel; reflexivity).
      cbn [good_prefix]. rewrite Hb. cbn [filter existsb]. rewrite Hg, Hb. cbn [flat_map orb]. apply (IH st st' ok HC H).
    + destruct (pk_of_idx act (e_vidx e)) as [pk|] eqn:Epk.
      * destruct (N.eqb_spec (e_pk e) pk) as [Heq|Hne]; simpl in H.
        -- assert (Hg : good it e = true).
           { unfold good. rewrite Hrel, Hact, Epk. simpl. apply N.eqb_eq. exact Heq. }
           assert (Hb : bad it e = false).
           { unfold bad. rewrite Hrel, Hact, Epk. simpl. apply negb_false_iff. apply N.eqb_eq. exact Heq. }
           cbn [good_prefix]. rewrite Hb. cbn [filter existsb]. rewrite Hg, Hb. cbn [flat_map orb].
           destruct (set_def st (Attester, e_slot e) ep pk e) as [st1 fresh] eqn:E1.
           set (st2 := if fresh then fst (set_def st1 (Aggregator, e_slot e) ep pk e) else st1) in *.
           assert (HA : Applies st st2 (grants_of_entry spe it e)).
           { unfold grants_of_entry. rewrite Hk, Heq.
             assert (Hst1 : st1 = fst (set_def st (Attester, e_slot e) ep pk e)) by (rewrite E1; reflexivity).
             assert (Hfr : fresh = negb (has_pk pk (fst st (Attester, e_slot e)))).
             { rewrite <- set_def_fresh with (ep := ep) (e := e). rewrite E1. reflexivity. }
             change [((Attester, e_slot e), (pk, e)); ((Aggregator, e_slot e), (pk, e))]
               with ([((Attester, e_slot e), (pk, e))] ++ [((Aggregator, e_slot e), (pk, e))]).
             apply applies_trans with (st1 := st1).
             - rewrite Hst1. apply applies_set_def.
             - unfold st2. destruct fresh.
               + apply applies_set_def.
               + (* already present: the aggregator definition is present too *)
                 symmetry in Hfr. apply negb_false_iff in Hfr.
                 assert (Hun : st1 = st).
                 { rewrite Hst1. unfold set_def. rewrite Hfr. reflexivity. }
                 rewrite Hun. intro d.
                 pose proof (set_def_fw st (Aggregator, e_slot e) ep pk e d) as Hfw.
                 unfold set_def in Hfw. rewrite <- (HC (e_slot e) pk), Hfr in Hfw.
                 * simpl in Hfw. exact Hfw.
                 * apply N.ltb_ge in Elt. exact Elt. }
           assert (HC2 : Coupled slot st2).
           { apply (applies_coupled slot st st2 _ HA); [|exact HC].
             intro sl. apply grants_entry_att_agg. }
           specialize (IH st2 st' ok HC2 H). destruct IH as [IHa IHo]. split.
           ++ apply applies_trans with (st1 := st2); [exact HA | exact IHa].
           ++ exact IHo.
        -- assert (Hb : bad it e = true).
           { unfold bad. rewrite Hrel, Hact, Epk. simpl. apply negb_true_iff. apply N.eqb_neq. exact Hne. }
           cbn [good_prefix existsb]. rewrite Hb. cbn [filter flat_map orb negb]. injection H as <- <-.
           split; [apply applies_refl | reflexivity].
      * assert (Hg : good it e = false) by (unfold good; rewrite Hact, Epk; apply andb_false_r).
        assert (Hb : bad it e = false) by (unfold bad; rewrite Hact, Epk; apply andb_false_r).
        cbn [good_prefix]. rewrite Hb. cbn [filter existsb]. rewrite Hg, Hb. cbn [flat_map orb]. apply (IH st st' ok HC H).
Qed.

Lemma proc_pro_spec spe slot ep act it :
  i_kind it = KPro -> i_slot it = slot -> i_act it = act ->
  forall l st st' ok, proc_pro slot ep act l st = (st', ok) ->
  Applies st st' (flat_map (grants_of_entry spe it) (filter (good it) (good_prefix it l)))
  /\ ok = negb (existsb (bad it) l).
Proof.
  intros Hk Hsl Hact. induction l as [|e r IH]; intros st st' ok H.
  - simpl in H. injection H as <- <-. split; [apply applies_refl | reflexivity].
  - simpl in H.
    assert (Hrel : relevant it e = negb (e_slot e <? slot)).
    { unfold relevant. rewrite Hk, Hsl. apply N.leb_antisym. }
    destruct (e_slot e <? slot) eqn:Elt.
    + assert (Hg : good it e = false) by (unfold good; rewrite Hrel; reflexivity).
      assert (Hb : bad it e = false) by (unfold bad; rewrite Hrel; reflexivity).
      cbn [good_prefix]. rewrite Hb. cbn [filter existsb]. rewrite Hg, Hb. cbn [flat_map orb]. apply (IH st st' ok H).
    + destruct (pk_of_idx act (e_vidx e)) as [pk|] eqn:Epk.
      * destruct (N.eqb_spec (e_pk e) pk) as [Heq|Hne]; simpl in H.
        -- assert (Hg : good it e = true).
           { unfold good. rewrite Hrel, Hact, Epk. simpl. apply N.eqb_eq. exact Heq. }
           assert (Hb : bad it e = false).
           { unfold bad. rewrite Hrel, Hact, Epk. simpl. apply negb_false_iff. apply N.eqb_eq. exact Heq. }
           cbn [good_prefix]. rewrite Hb. cbn [filter existsb]. rewrite Hg, Hb. cbn [flat_map orb].
           specialize (IH _ st' ok H). destruct IH as [IHa IHo]. split; [|exact IHo].
           apply applies_trans with (st1 := fst (set_def st (Proposer, e_slot e) ep pk e)); [|exact IHa].
           unfold grants_of_entry. rewrite Hk, Heq. apply applies_set_def.
        -- assert (Hb : bad it e = true).
           { unfold bad. rewrite Hrel, Hact, Epk. simpl. apply negb_true_iff. apply N.eqb_neq. exact Hne. }
           cbn [good_prefix existsb]. rewrite Hb. cbn [filter flat_map orb negb]. injection H as <- <-.
           split; [apply applies_refl | reflexivity].
      * assert (Hg : good it e = false) by (unfold good; rewrite Hact, Epk; apply andb_false_r).
        assert (Hb : bad it e = false) by (unfold bad; rewrite Hact, Epk; apply andb_false_r).
        cbn [good_prefix]. rewrite Hb. cbn [filter existsb]. rewrite Hg, Hb. cbn [flat_map orb]. apply (IH st st' ok H).
Qed.

Lemma set_sync_fold_spec ep pk e sls st :
  Applies st (fold_left (fun st sl => fst (set_def st (SyncContribution, sl) ep pk e)) sls st)
          (map (fun sl => ((SyncContribution, sl), (pk, e))) sls).
Proof.
  revert st. induction sls as [|sl r IH]; intro st; simpl; [apply applies_refl|].
  change (((SyncContribution, sl), (pk, e)) :: map (fun sl0 => ((SyncContribution, sl0), (pk, e))) r)
    with ([((SyncContribution, sl), (pk, e))] ++ map (fun sl0 => ((SyncContribution, sl0), (pk, e))) r).
  apply applies_trans with (st1 := fst (set_def st (SyncContribution, sl) ep pk e)); [apply applies_set_def | apply IH].
Qed.

Lemma proc_sync_spec spe slot ep act it :
  i_kind it = KSync -> i_slot it = slot -> i_ep it = ep -> i_act it = act ->
  forall l st st' ok, proc_sync spe slot ep act l st = (st', ok) ->
  Applies st st' (flat_map (grants_of_entry spe it) (filter (good it) (good_prefix it l)))
  /\ ok = negb (existsb (bad it) l).
Proof.
  intros Hk Hsl Hep Hact. induction l as [|e r IH]; intros st st' ok H.
  - simpl in H. injection H as <- <-. split; [apply applies_refl | reflexivity].
  - simpl in H.
    assert (Hrel : relevant it e = true) by (unfold relevant; rewrite Hk; reflexivity).
    destruct (pk_of_idx act (e_vidx e)) as [pk|] eqn:Epk.
    + destruct (N.eqb_spec (e_pk e) pk) as [Heq|Hne]; simpl in H.
      * assert (Hg : good it e = true).
        { unfold good. rewrite Hrel, Hact, Epk. simpl. apply N.eqb_eq. exact Heq. }
        assert (Hb : bad it e = false).
        { unfold bad. rewrite Hrel, Hact, Epk. simpl. apply negb_false_iff. apply N.eqb_eq. exact Heq. }
        cbn [good_prefix]. rewrite Hb. cbn [filter existsb]. rewrite Hg, Hb. cbn [flat_map orb].
        specialize (IH _ st' ok H). destruct IH as [IHa IHo]. split; [|exact IHo].
        apply applies_trans with (st1 := set_sync spe slot ep pk e st); [|exact IHa].
        unfold grants_of_entry. rewrite Hk, Heq, Hsl, Hep. apply set_sync_fold_spec.
      * assert (Hb : bad it e = true).
        { unfold bad. rewrite Hrel, Hact, Epk. simpl. apply negb_true_iff. apply N.eqb_neq. exact Hne. }
        cbn [good_prefix existsb]. rewrite Hb. cbn [filter flat_map orb negb]. injection H as <- <-.
        split; [apply applies_refl | reflexivity].
    + assert (Hg : good it e = false) by (unfold good; rewrite Hact, Epk; apply andb_false_r).
      assert (Hb : bad it e = false) by (unfold bad; rewrite Hact, Epk; apply andb_false_r).
      cbn [good_prefix]. rewrite Hb. cbn [filter existsb]. rewrite Hg, Hb. cbn [flat_map orb]. apply (IH st st' ok H).
Qed.

(* ---- epochs ---- *)

Lemma div_bounds a b : 0 < b -> (a / b) * b <= a /\ a < (a / b + 1) * b.
Proof.
  intro Hb. pose proof (N.div_mod a b) as H1. pose proof (N.mod_lt a b) as H2.
  assert (b <> 0) by lia. specialize (H1 H). specialize (H2 H).
  set (q := a / b) in *. set (r := a mod b) in *. clearbody q r.
  rewrite H1. split; [rewrite (N.mul_comm q b); lia | rewrite (N.mul_comm (q + 1) b), N.mul_add_distr_l; lia].
Qed.

Lemma div_eq a b q : 0 < b -> q * b <= a -> a < (q + 1) * b -> a / b = q.
Proof.
  intros Hb H1 H2. symmetry. apply (N.div_unique a b q (a - q * b)); lia.
Qed.

Lemma epoch_mono spe a b : 0 < spe -> a <= b -> epoch_of spe a <= epoch_of spe b.
Proof. intros Hs H. unfold epoch_of. apply N.div_le_mono; lia. Qed.

Lemma epoch_succ spe a : 0 < spe -> epoch_of spe (a + 1) <= epoch_of spe a + 1.
Proof.
  intro Hs. unfold epoch_of. destruct (div_bounds a spe Hs) as [H1 H2].
  destruct (div_bounds (a + 1) spe Hs) as [H3 H4]. nia.
Qed.

Lemma epoch_slots_in spe slot ep sl :
  0 < spe -> epoch_of spe slot = ep ->
  (In sl (epoch_slots spe slot ep) <-> slot <= sl /\ epoch_of spe sl = ep).
Proof.
  intros Hs Hep. unfold epoch_slots. rewrite in_map_iff.
  unfold epoch_of in *. destruct (div_bounds slot spe Hs) as [H1 H2]. rewrite Hep in H1, H2. split.
  - intros [i [<- Hi]]. apply in_seq in Hi. split; [lia|].
    apply div_eq; [exact Hs | lia | lia].
  - intros [Hle He]. destruct (div_bounds sl spe Hs) as [H3 H4]. rewrite He in H3, H4.
    exists (N.to_nat (sl - slot)). split; [lia|]. apply in_seq. lia.
Qed.

(* ---- dutiesByEpoch stays consistent ---- *)

Definition StoreOk (spe : N) (st : dstore) : Prop := Listed spe st /\ ByEp spe st.

Lemma set_def_ok spe st d ep pk e :
  epoch_of spe (snd d) = ep -> StoreOk spe st -> StoreOk spe (fst (set_def st d ep pk e)).
Proof. intros H [H1 H2]. apply set_def_inv; assumption. Qed.

Lemma proc_att_ok spe slot ep act l :
  (forall e, In e l -> epoch_of spe (e_slot e) = ep) ->
  forall st, StoreOk spe st -> StoreOk spe (fst (proc_att slot ep act l st)).
Proof.
  induction l as [|e r IH]; intros Hl st Hst; [exact Hst|].
  assert (Hr : forall e', In e' r -> epoch_of spe (e_slot e') = ep) by (intros; apply Hl; right; assumption).
  assert (He : epoch_of spe (e_slot e) = ep) by (apply Hl; left; reflexivity).
  simpl. destruct (e_slot e <? slot); [apply IH; assumption|].
  destruct (pk_of_idx act (e_vidx e)) as [pk|]; [|apply IH; assumption].
  destruct (negb (e_pk e =? pk)); [exact Hst|].
  destruct (set_def st (Attester, e_slot e) ep pk e) as [st1 fresh] eqn:E1.
  assert (H1 : StoreOk spe st1).
  { replace st1 with (fst (set_def st (Attester, e_slot e) ep pk e)) by (rewrite E1; reflexivity).
    apply set_def_ok; assumption. }
  apply IH; [assumption|]. destruct fresh; [apply set_def_ok; assumption | exact H1].
Qed.

Lemma proc_pro_ok spe slot ep act l :
  (forall e, In e l -> epoch_of spe (e_slot e) = ep) ->
  forall st, StoreOk spe st -> StoreOk spe (fst (proc_pro slot ep act l st)).
Proof.
  induction l as [|e r IH]; intros Hl st Hst; [exact Hst|].
  assert (Hr : forall e', In e' r -> epoch_of spe (e_slot e') = ep) by (intros; apply Hl; right; assumption).
  assert (He : epoch_of spe (e_slot e) = ep) by (apply Hl; left; reflexivity).
  simpl. destruct (e_slot e <? slot); [apply IH; assumption|].
  destruct (pk_of_idx act (e_vidx e)) as [pk|]; [|apply IH; assumption].
  destruct (negb (e_pk e =? pk)); [exact Hst|].
  apply IH; [assumption|]. apply set_def_ok; assumption.
Qed.

Lemma set_sync_ok spe slot ep pk e st :
  0 < spe -> epoch_of spe slot = ep -> StoreOk spe st -> StoreOk spe (set_sync spe slot ep pk e st).
Proof.
  intros Hs Hep. unfold set_sync.
  assert (Hall : forall sl, In sl (epoch_slots spe slot ep) -> epoch_of spe sl = ep).
  { intros sl Hin. apply (epoch_slots_in spe slot ep sl Hs Hep) in Hin. tauto. }
  revert st. induction (epoch_slots spe slot ep) as [|sl r IH]; intros st Hst; [exact Hst|].
  simpl. apply IH.
  - intros sl' Hin. apply Hall. right. exact Hin.
  - apply set_def_ok; [|exact Hst]. simpl. apply Hall. left. reflexivity.
Qed.

Lemma proc_sync_ok spe slot ep act l :
  0 < spe -> epoch_of spe slot = ep ->
  forall st, StoreOk spe st -> StoreOk spe (fst (proc_sync spe slot ep act l st)).
Proof.
  intros Hs Hep. induction l as [|e r IH]; intros st Hst; [exact Hst|].
  simpl. destruct (pk_of_idx act (e_vidx e)) as [pk|]; [|apply IH; assumption].
  destruct (negb (e_pk e =? pk)); [exact Hst|].
  apply IH. apply set_sync_ok; assumption.
Qed.

(* ---- the log and its query ---- *)

Lemma query_snoc spe log it d :
  query spe (log ++ [it]) d = first_wins (query spe log d) (for_duty d (grants spe it)).
Proof.
  unfold query. rewrite flat_map_app, for_duty_app, first_wins_app. simpl. rewrite app_nil_r. reflexivity.
Qed.

Lemma for_duty_nil d gs : (forall g, In g gs -> fst g <> d) -> for_duty d gs = [].
Proof.
  induction gs as [|g r IH]; intro H; [reflexivity|]. rewrite for_duty_cons.
  destruct (duty_eqb (fst g) d) eqn:E.
  - apply duty_eqb_eq in E. exfalso. apply (H g); [left; reflexivity | exact E].
  - apply IH. intros g' Hg'. apply H. right. exact Hg'.
Qed.

Lemma for_duty_in d gs x : In x (for_duty d gs) <-> In (d, x) gs.
Proof.
  unfold for_duty. rewrite in_map_iff. split.
  - intros [[d' x'] [Hx Hin]]. simpl in Hx. subst x'. apply filter_In in Hin. destruct Hin as [Hin E].
    simpl in E. apply duty_eqb_eq in E. subst d'. exact Hin.
  - intro Hin. exists (d, x). split; [reflexivity|]. apply filter_In. split; [exact Hin|]. simpl. apply duty_eqb_refl.
Qed.

Lemma good_prefix_incl it l e : In e (good_prefix it l) -> In e l.
Proof.
  induction l as [|x r IH]; simpl; [tauto|]. destruct (bad it x); simpl; [tauto|]. intros [H|H]; [left; exact H | right; apply IH; exact H].
Qed.

Lemma grant_in spe it g :
  In g (grants spe it) -> exists e, In e (i_ents it) /\ good it e = true /\ In g (grants_of_entry spe it e).
Proof.
  unfold grants. intro H. apply in_flat_map in H. destruct H as [e [He Hg]].
  apply filter_In in He. destruct He as [He Hgood]. exists e. split; [apply (good_prefix_incl _ _ _ He) | tauto].
Qed.

Lemma good_pk it e : good it e = true -> relevant it e = true /\ pk_of_idx (i_act it) (e_vidx e) = Some (e_pk e).
Proof.
  unfold good. intro H. apply andb_true_iff in H. destruct H as [H1 H2]. split; [exact H1|].
  destruct (pk_of_idx (i_act it) (e_vidx e)) as [pk|]; [|discriminate]. apply N.eqb_eq in H2. congruence.
Qed.

(* A grant is for a slot not before the resolving slot. *)
Lemma grant_slot spe it d x : In (d, x) (grants spe it) -> i_slot it <= snd d.
Proof.
  intro H. apply grant_in in H. destruct H as [e [_ [Hg Hin]]].
  apply good_pk in Hg. destruct Hg as [Hrel _]. unfold relevant in Hrel. unfold grants_of_entry in Hin.
  destruct (i_kind it).
  - apply N.leb_le in Hrel. simpl in Hin. destruct Hin as [H|[H|[]]]; injection H as <- _; simpl; exact Hrel.
  - apply N.leb_le in Hrel. simpl in Hin. destruct Hin as [H|[]]; injection H as <- _; simpl; exact Hrel.
  - apply in_map_iff in Hin. destruct Hin as [sl [H Hsl]]. injection H as <- _. simpl.
    unfold epoch_slots in Hsl. apply in_map_iff in Hsl. destruct Hsl as [i [<- _]]. lia.
Qed.

Definition LogWf (spe : N) (it : item) : Prop :=
  i_ep it = epoch_of spe (i_slot it) /\
  (i_kind it <> KSync -> forall e, In e (i_ents it) -> epoch_of spe (e_slot e) = i_ep it).

(* A grant is for a slot of the resolved epoch. *)
Lemma grant_epoch spe it d x : 0 < spe -> LogWf spe it -> In (d, x) (grants spe it) -> epoch_of spe (snd d) = i_ep it.
Proof.
  intros Hs [Hep Hents] H. apply grant_in in H. destruct H as [e [He [_ Hin]]].
  unfold grants_of_entry in Hin. destruct (i_kind it) eqn:Ek.
  - simpl in Hin. destruct Hin as [H|[H|[]]]; injection H as <- _; simpl; apply Hents; (discriminate || exact He).
  - simpl in Hin. destruct Hin as [H|[]]; injection H as <- _; simpl; apply Hents; (discriminate || exact He).
  - apply in_map_iff in Hin. destruct Hin as [sl [H Hsl]]. injection H as <- _. simpl.
    apply (epoch_slots_in spe (i_slot it) (i_ep it) sl Hs (eq_sym Hep)) in Hsl. tauto.
Qed.

Lemma for_duty_grants_before spe it d : snd d < i_slot it -> for_duty d (grants spe it) = [].
Proof.
  intro H. apply for_duty_nil. intros [d' x] Hin E. simpl in E. subst d'. apply grant_slot in Hin. lia.
Qed.

Lemma for_duty_grants_other_epoch spe it d :
  0 < spe -> LogWf spe it -> epoch_of spe (snd d) <> i_ep it -> for_duty d (grants spe it) = [].
Proof.
  intros Hs Hwf H. apply for_duty_nil. intros [d' x] Hin E. simpl in E. subst d'.
  apply (grant_epoch spe it d x Hs Hwf) in Hin. congruence.
Qed.

Lemma query_snoc_before spe log it d : snd d < i_slot it -> query spe (log ++ [it]) d = query spe log d.
Proof. intro H. rewrite query_snoc, for_duty_grants_before by exact H. reflexivity. Qed.

Lemma query_att_agg spe log sl : query spe log (Attester, sl) = query spe log (Aggregator, sl).
Proof.
  unfold query. f_equal. induction log as [|it r IH]; [reflexivity|]. simpl. rewrite !for_duty_app, IH. f_equal.
  unfold grants. apply flat_grants_att_agg.
Qed.

(* Removing the items of one epoch (reorg) empties that epoch and leaves the others. *)
Lemma query_filter_epoch spe log r d :
  0 < spe -> (forall it, In it log -> LogWf spe it) ->
  query spe (filter (fun it => negb (i_ep it =? r)) log) d =
  if epoch_of spe (snd d) =? r then [] else query spe log d.
Proof.
  intros Hs Hwf. unfold query.
  assert (H : for_duty d (flat_map (grants spe) (filter (fun it => negb (i_ep it =? r)) log)) =
              if epoch_of spe (snd d) =? r then [] else for_duty d (flat_map (grants spe) log)).
  { induction log as [|it l IH]; [simpl; destruct (_ =? r); reflexivity|].
    assert (Hl : forall it', In it' l -> LogWf spe it') by (intros; apply Hwf; right; assumption).
    assert (Hit : LogWf spe it) by (apply Hwf; left; reflexivity).
    specialize (IH Hl). simpl. destruct (N.eqb_spec (i_ep it) r) as [He|He]; simpl.
    - rewrite IH. destruct (N.eqb_spec (epoch_of spe (snd d)) r) as [Hd|Hd]; [reflexivity|].
      rewrite for_duty_app, (for_duty_grants_other_epoch spe it d Hs Hit) by congruence. reflexivity.
    - rewrite !for_duty_app, IH. destruct (N.eqb_spec (epoch_of spe (snd d)) r) as [Hd|Hd]; [|reflexivity].
      rewrite (for_duty_grants_other_epoch spe it d Hs Hit) by congruence. reflexivity. }
  rewrite H. destruct (_ =? r); reflexivity.
Qed.

Definition Rel (spe b : N) (st : dstore) (log : list item) : Prop :=
  forall d, b <= snd d -> fst st d = query spe log d.

Lemma rel_weaken spe b b' st log : b <= b' -> Rel spe b st log -> Rel spe b' st log.
Proof. intros H HR d Hd. apply HR. lia. Qed.

Lemma rel_applies spe b st st' log it :
  Rel spe b st log -> Applies st st' (grants spe it) -> Rel spe b st' (log ++ [it]).
Proof. intros HR HA d Hd. rewrite HA, query_snoc, (HR d Hd). reflexivity. Qed.

Lemma rel_coupled spe b st log : Rel spe b st log -> Coupled b st.
Proof. intros HR sl pk Hsl. rewrite !HR by (simpl; exact Hsl). rewrite query_att_agg. reflexivity. Qed.

(* ---- simulation between the model state and the ghost state ---- *)

Section Sim.
Variable D spe : N.
Variable fm : fmode.
Variable ff : bool.
Hypothesis HD : 0 < D.
Hypothesis Hs : 0 < spe.

Record Sim (b : N) (s : state) (g : ghost) : Prop := {
  sim_now : now s = g_now g;
  sim_res : resolved s = g_resolved g;
  sim_rel : Rel spe b (store s) (g_log g);
  sim_ok : StoreOk spe (store s);
  sim_wf : forall it, In it (g_log g) -> LogWf spe it
}.

Lemma sim_stage b s g st' it :
  Sim b s g -> Applies (store s) st' (grants spe it) -> StoreOk spe st' -> LogWf spe it ->
  Sim b (with_store s st') (g_add g it).
Proof.
  intros [H1 H2 H3 H4 H5] HA Hok Hwf. constructor; simpl; try assumption.
  - apply (rel_applies spe b (store s) st' (g_log g) it H3 HA).
  - intros it' Hin. apply in_app_or in Hin. destruct Hin as [Hin|[<-|[]]]; [apply H5; exact Hin | exact Hwf].
Qed.

Lemma wf_call_entries c ep idxs l :
  wf_call spe (Some c) = true -> c = C ep idxs (Some l) -> forall e, In e l -> epoch_of spe (e_slot e) = ep.
Proof.
  intros H -> e He. simpl in H. rewrite forallb_forall in H. apply N.eqb_eq. apply H. exact He.
Qed.

Lemma call_ok_ep c ep act : call_ok c ep act = true -> c_ep c = ep.
Proof. unfold call_ok. intro H. apply andb_true_iff in H. destruct H as [H _]. apply N.eqb_eq. exact H. Qed.

(* Unchanged answers for earlier slots *)
Definition QB (slot : N) (g g' : ghost) : Prop :=
  forall d, snd d < slot -> query spe (g_log g') d = query spe (g_log g) d.

Lemma qb_refl slot g : QB slot g g.
Proof. intros d _. reflexivity. Qed.

Lemma qb_add slot g g' it : QB slot g g' -> i_slot it = slot -> QB slot g (g_add g' it).
Proof.
  intros H Hsl d Hd. simpl. rewrite query_snoc_before by (rewrite Hsl; exact Hd). apply H. exact Hd.
Qed.

Lemma qb_res slot g g' r : QB slot g g' -> QB slot g (g_res g' r).
Proof. intros H d Hd. simpl. apply H. exact Hd. Qed.

Ltac six := split; [|split; [|split; [|split; [|split]]]].

Lemma resolve_sim b s g slot r s' :
  Sim b s g -> b <= slot -> epoch_of spe slot <= epoch_of spe b + 1 ->
  wf_resn spe r = true -> resolve spe fm s slot r = Some s' ->
  Sim b s' (gres spe g slot r) /\ expect s' = expect s /\ now s' = now s
  /\ g_trig (gres spe g slot r) = g_trig g /\ g_now (gres spe g slot r) = g_now g
  /\ QB slot g (gres spe g slot r).
Proof.
  intros HS Hb Hep Hwf H. unfold resolve in H. unfold gres.
  apply andb_true_iff in Hwf. destruct Hwf as [Hwa Hwp].
  set (ep := epoch_of spe slot) in *.
  destruct (r_vals r) as [vals|].
  2:{ destruct (none_call (r_att r) && none_call (r_pro r) && none_call (r_sync r)); [|discriminate].
      injection H as <-. six; try reflexivity; [exact HS | apply qb_refl]. }
  destruct (negb (nodupN (map v_idx vals))); [discriminate|].
  destruct (filter (is_active ep) vals) as [|v0 act0] eqn:Eact.
  { destruct (none_call (r_att r) && none_call (r_pro r) && none_call (r_sync r)); [|discriminate].
    injection H as <-. six; try reflexivity; [|apply qb_res, qb_refl].
    destruct HS as [H1 H2 H3 H4 H5]. constructor; simpl; try assumption; reflexivity. }
  set (act := v0 :: act0) in *.
  destruct (r_att r) as [ca|] eqn:Era; [|discriminate].
  destruct (call_ok ca ep act) eqn:Eca; [|discriminate]. simpl in H.
  simpl. destruct (c_res ca) as [la|] eqn:Ela.
  2:{ destruct (none_call (r_pro r) && none_call (r_sync r)); [|discriminate].
      injection H as <-. six; try reflexivity; [exact HS | apply qb_refl]. }
  destruct (negb (sorted_slots la)); [discriminate|].
  destruct (proc_att slot ep act la (store s)) as [st1 ok1] eqn:Ea.
  set (ia := I KAtt ep slot act la) in *.
  assert (Hcoup : Coupled slot (store s)).
  { intros sl pk Hsl. apply (rel_coupled spe b _ _ (sim_rel _ _ _ HS)). lia. }
  destruct (proc_att_spec spe slot ep act ia eq_refl eq_refl eq_refl la (store s) st1 ok1 Hcoup Ea) as [HAa Hoka].
  assert (Hla : forall e, In e la -> epoch_of spe (e_slot e) = ep).
  { apply call_ok_ep in Eca. destruct ca as [cep cidx cres]. simpl in Ela, Eca. subst cres cep.
    apply (wf_call_entries _ _ _ _ Hwa eq_refl). }
  assert (Hok1 : StoreOk spe st1).
  { replace st1 with (fst (proc_att slot ep act la (store s))) by (rewrite Ea; reflexivity).
    apply proc_att_ok; [exact Hla | apply HS]. }
  assert (Hwfa : LogWf spe ia).
  { split; [reflexivity|]. intros _ e He. apply Hla. exact He. }
  pose proof (sim_stage b s g st1 ia HS HAa Hok1 Hwfa) as HS1.
  assert (HQ1 : QB slot g (g_add g ia)) by (apply qb_add; [apply qb_refl | reflexivity]).
  change (existsb (bad ia) la) with (aborted ia) in Hoka.
  destruct (aborted ia) eqn:Eab1; simpl in Hoka; subst ok1; simpl in H.
  { destruct (none_call (r_pro r) && none_call (r_sync r)); [|discriminate].
    injection H as <-. six; try reflexivity; [exact HS1 | exact HQ1]. }
  destruct (r_pro r) as [cp|] eqn:Erp; [|discriminate].
  destruct (call_ok cp ep act) eqn:Ecp; [|discriminate]. simpl in H.
  simpl. destruct (c_res cp) as [lp|] eqn:Elp.
  2:{ destruct (none_call (r_sync r)); [|discriminate].
      injection H as <-. six; try reflexivity; [exact HS1 | exact HQ1]. }
  destruct (proc_pro slot ep act lp st1) as [st2 ok2] eqn:Ep.
  set (ip := I KPro ep slot act lp) in *.
  destruct (proc_pro_spec spe slot ep act ip eq_refl eq_refl eq_refl lp st1 st2 ok2 Ep) as [HAp Hokp].
  assert (Hlp : forall e, In e lp -> epoch_of spe (e_slot e) = ep).
  { apply call_ok_ep in Ecp. destruct cp as [cep cidx cres]. simpl in Elp, Ecp. subst cres cep.
    apply (wf_call_entries _ _ _ _ Hwp eq_refl). }
  assert (Hok2 : StoreOk spe st2).
  { replace st2 with (fst (proc_pro slot ep act lp st1)) by (rewrite Ep; reflexivity).
    apply proc_pro_ok; [exact Hlp | exact Hok1]. }
  assert (Hwfp : LogWf spe ip).
  { split; [reflexivity|]. intros _ e He. apply Hlp. exact He. }
  pose proof (sim_stage b (with_store s st1) (g_add g ia) st2 ip HS1 HAp Hok2 Hwfp) as HS2.
  assert (HQ2 : QB slot g (g_add (g_add g ia) ip)) by (apply qb_add; [exact HQ1 | reflexivity]).
  change (with_store (with_store s st1) st2) with (with_store s st2) in HS2.
  change (existsb (bad ip) lp) with (aborted ip) in Hokp.
  destruct (aborted ip) eqn:Eab2; simpl in Hokp; subst ok2; simpl in H.
  { destruct (none_call (r_sync r)); [|discriminate].
    injection H as <-. six; try reflexivity; [exact HS2 | exact HQ2]. }
  destruct (r_sync r) as [cs|] eqn:Ers; [|discriminate].
  destruct (call_ok cs ep act) eqn:Ecs; [|discriminate]. simpl in H.
  simpl. destruct (c_res cs) as [ls|] eqn:Els.
  2:{ injection H as <-. six; try reflexivity; [exact HS2 | exact HQ2]. }
  destruct (proc_sync spe slot ep act ls st2) as [st3 ok3] eqn:Esy.
  set (isy := I KSync ep slot act ls) in *.
  destruct (proc_sync_spec spe slot ep act isy eq_refl eq_refl eq_refl eq_refl ls st2 st3 ok3 Esy) as [HAs Hoks].
  assert (Hok3 : StoreOk spe st3).
  { replace st3 with (fst (proc_sync spe slot ep act ls st2)) by (rewrite Esy; reflexivity).
    apply proc_sync_ok; [exact Hs | reflexivity | exact Hok2]. }
  assert (Hwfs : LogWf spe isy).
  { split; [reflexivity|]. intros Hk. exfalso. apply Hk. reflexivity. }
  pose proof (sim_stage b (with_store s st2) _ st3 isy HS2 HAs Hok3 Hwfs) as HS3.
  assert (HQ3 : QB slot g (g_add (g_add (g_add g ia) ip) isy)) by (apply qb_add; [exact HQ2 | reflexivity]).
  change (with_store (with_store s st2) st3) with (with_store s st3) in HS3.
  change (existsb (bad isy) ls) with (aborted isy) in Hoks.
  destruct (aborted isy) eqn:Eab3; simpl in Hoks; subst ok3; simpl in H.
  { injection H as <-. six; try reflexivity; [exact HS3 | exact HQ3]. }
  injection H as <-. six; try reflexivity; [|apply qb_res; exact HQ3].
  destruct HS3 as [H1 H2 H3 H4 H5]. simpl in *. constructor; simpl; try assumption; try reflexivity.
  - (* Rel after the trim *)
    destruct (3 <=? ep) eqn:E3; [|exact H3].
    intros d Hd. destruct H4 as [HL HB]. rewrite (trim_fst spe) by assumption.
    destruct (N.eqb_spec (epoch_of spe (snd d)) (ep - 3)) as [He|He]; [|apply H3; exact Hd].
    exfalso. apply N.leb_le in E3. pose proof (epoch_mono spe b (snd d) Hs Hd). unfold ep in *. lia.
  - destruct (3 <=? ep); [|exact H4]. destruct H4. split; apply trim_inv; assumption.
Qed.

Notation exp_for := (Scheduler.exp_for D spe fm).
Notation pend_for := (Scheduler.pend_for D spe fm).

Lemma expected_exp_for log slot : expected D spe fm log slot = exp_for log slot types.
Proof. reflexivity. Qed.

Lemma exp_for_in log slot tys tr :
  In tr (exp_for log slot tys) ->
  In (t_ty tr) tys /\ t_slot tr = slot /\ t_defs tr = query spe log (t_ty tr, slot) /\ t_defs tr <> []
  /\ t_deadline tr = deadline D (t_ty tr) slot /\ fire_later fm (t_ty tr) = false.
Proof.
  unfold Scheduler.exp_for. intro H. apply in_flat_map in H. destruct H as [ty [Hty H]].
  destruct (query spe log (ty, slot)) as [|x xs] eqn:E; [destruct H|].
  destruct (fire_later fm ty) eqn:Ef; [destruct H|].
  destruct H as [<-|[]]. simpl. rewrite E. repeat split; [exact Hty | discriminate | exact Ef].
Qed.

Lemma exp_for_complete log slot tys ty :
  In ty tys -> query spe log (ty, slot) <> [] -> fire_later fm ty = false ->
  In (T ty slot (query spe log (ty, slot)) (deadline D ty slot)) (exp_for log slot tys).
Proof.
  intros Hty Hne Hf. unfold Scheduler.exp_for. apply in_flat_map. exists ty. split; [exact Hty|].
  destruct (query spe log (ty, slot)) as [|x xs]; [congruence|]. rewrite Hf. left. reflexivity.
Qed.

Lemma exp_for_types log slot tys :
  map t_ty (exp_for log slot tys) =
  filter (fun ty => match query spe log (ty, slot) with [] => false | _ => negb (fire_later fm ty) end) tys.
Proof.
  induction tys as [|ty r IH]; [reflexivity|]. unfold Scheduler.exp_for in *. simpl. rewrite map_app, IH.
  destruct (query spe log (ty, slot)); [reflexivity|]. destruct (fire_later fm ty); reflexivity.
Qed.

Lemma exp_for_nodup log slot tys : NoDup tys -> NoDup (map trig_duty (exp_for log slot tys)).
Proof.
  intro Hnd.
  assert (Hm : map trig_duty (exp_for log slot tys) = map (fun ty => (ty, slot)) (map t_ty (exp_for log slot tys))).
  { rewrite map_map. apply map_ext_in. intros tr Htr. apply exp_for_in in Htr. unfold trig_duty.
    destruct Htr as [_ [-> _]]. reflexivity. }
  rewrite Hm, exp_for_types. apply Injective_map_NoDup.
  - intros a b E. injection E. auto.
  - apply NoDup_filter. exact Hnd.
Qed.

Lemma exp_for_qb log log' slot tys :
  (forall d, snd d < slot + 1 -> query spe log' d = query spe log d) ->
  exp_for log' slot tys = exp_for log slot tys /\ pend_for log' slot tys = pend_for log slot tys
  /\ with_defs spe log' slot tys = with_defs spe log slot tys.
Proof.
  intro H. unfold Scheduler.exp_for, Scheduler.pend_for, with_defs. split; [|split].
  - apply flat_map_ext. intro ty. rewrite H by (simpl; lia). reflexivity.
  - apply flat_map_ext. intro ty. rewrite H by (simpl; lia). reflexivity.
  - apply filter_ext. intro ty. rewrite H by (simpl; lia). reflexivity.
Qed.

Lemma pend_for_in log slot tys w :
  In w (pend_for log slot tys) ->
  flags_on fm = true /\ In Attester tys /\ w = (slot, query spe log (Attester, slot), att_due D fm slot)
  /\ query spe log (Attester, slot) <> [].
Proof.
  unfold Scheduler.pend_for. intro H. apply in_flat_map in H. destruct H as [ty [Hty H]].
  destruct (query spe log (ty, slot)) as [|x xs] eqn:E; [destruct H|].
  destruct (fire_later fm ty) eqn:Ef; [|destruct H]. destruct H as [<-|[]].
  unfold fire_later in Ef. apply andb_true_iff in Ef. destruct Ef as [Ef1 Ef2]. apply dtype_eqb_eq in Ef2. subst ty.
  rewrite E. repeat split; try assumption. discriminate.
Qed.

Lemma gres_pend g slot r : g_pend (gres spe g slot r) = g_pend g.
Proof.
  unfold gres.
  repeat match goal with
  | |- context [match ?x with _ => _ end] => destruct x
  end; reflexivity.
Qed.

Lemma g_rest_pend k g slot sc : g_pend (g_rest spe k g slot sc) = g_pend g.
Proof.
  revert g sc. induction k as [|k IH]; intros g sc; [reflexivity|]. destruct sc as [|rn sc0]; [reflexivity|].
  simpl. rewrite IH. apply gres_pend.
Qed.

Lemma resolve_frame s slot r s' :
  resolve spe fm s slot r = Some s' -> expect s' = expect s /\ now s' = now s /\ pend s' = pend s.
Proof.
  unfold resolve. intro H.
  repeat match type of H with
  | context [match ?x with _ => _ end] => destruct x
  | context [if ?x then _ else _] => destruct x
  end; try discriminate; injection H as <-; repeat split; reflexivity.
Qed.

Lemma sim_with_pend b s g p : Sim b s g -> Sim b (with_pend s p) g.
Proof. intros [H1 H2 H3 H4 H5]. constructor; assumption. Qed.

Lemma tick_loop_sim t tys :
  forall s g sc s' sc' outs,
  Sim t s g -> expect s = t + 1 -> forallb (wf_resn spe) sc = true ->
  tick_loop D spe fm tys t s sc = Some (s', sc', outs) ->
  outs = exp_for (g_log g) t tys /\
  let g' := g_rest spe (if last_in_epoch spe t then length (with_defs spe (g_log g) t tys) else 0%nat) g (t + 1) sc in
  Sim t s' g' /\ expect s' = t + 1 /\ now s' = now s /\ g_trig g' = g_trig g /\ g_now g' = g_now g
  /\ pend s' = pend s ++ pend_for (g_log g) t tys.
Proof.
  induction tys as [|ty r IH]; intros s g sc s' sc' outs HS Hex Hwf H.
  - simpl in H. injection H as <- <- <-. split; [reflexivity|].
    assert (Hg : g_rest spe (if last_in_epoch spe t then length (@nil dtype) else 0%nat) g (t + 1) sc = g)
      by (destruct (last_in_epoch spe t); destruct sc; reflexivity).
    simpl. simpl in Hg. rewrite Hg. split; [exact HS|]. split; [exact Hex|]. split; [reflexivity|].
    split; [reflexivity|]. split; [reflexivity|]. rewrite app_nil_r. reflexivity.
  - simpl in H.
    assert (Hq : fst (store s) (ty, t) = query spe (g_log g) (ty, t)).
    { apply (sim_rel _ _ _ HS). simpl. lia. }
    rewrite Hq in H. unfold Scheduler.exp_for, Scheduler.pend_for, with_defs. simpl.
    fold (exp_for (g_log g) t r). fold (pend_for (g_log g) t r). fold (with_defs spe (g_log g) t r).
    destruct (query spe (g_log g) (ty, t)) as [|x xs] eqn:Eq.
    + simpl. apply (IH s g sc s' sc' outs HS Hex Hwf H).
    + set (ds := x :: xs) in *.
      set (s0 := if fire_later fm ty then with_pend s (pend s ++ [(t, ds, att_due D fm t)]) else s) in *.
      assert (HS0 : Sim t s0 g) by (unfold s0; destruct (fire_later fm ty); [apply sim_with_pend|]; exact HS).
      assert (Hex0 : expect s0 = t + 1) by (unfold s0; destruct (fire_later fm ty); exact Hex).
      assert (Hnow0 : now s0 = now s) by (unfold s0; destruct (fire_later fm ty); reflexivity).
      assert (Hp0 : pend s0 = pend s ++ (if fire_later fm ty then [(t, ds, att_due D fm t)] else []))
        by (unfold s0; destruct (fire_later fm ty); [reflexivity | simpl; rewrite app_nil_r; reflexivity]).
      cbn [nonempty length].
      destruct (last_in_epoch spe t) eqn:El.
      * destruct sc as [|rn sc0]; [discriminate|].
        simpl in Hwf. apply andb_true_iff in Hwf. destruct Hwf as [Hwrn Hwf0].
        destruct (resolve spe fm s0 (t + 1) rn) as [s1|] eqn:Er; [|discriminate].
        destruct (tick_loop D spe fm r t s1 sc0) as [[[s2 sc2] outs2]|] eqn:Et; [|discriminate].
        injection H as <- <- <-.
        assert (Hb : t <= t + 1) by lia.
        destruct (resolve_sim t s0 g (t + 1) rn s1 HS0 Hb (epoch_succ spe t Hs) Hwrn Er)
          as [HS1 [Hex1 [Hnow1 [Htr1 [Hgn1 HQ1]]]]].
        destruct (resolve_frame _ _ _ _ Er) as [_ [_ Hp1]].
        rewrite Hex0 in Hex1.
        destruct (IH s1 (gres spe g (t + 1) rn) sc0 s2 sc2 outs2 HS1 Hex1 Hwf0 Et) as [Houts IHr].
        destruct (exp_for_qb (g_log g) (g_log (gres spe g (t + 1) rn)) t r HQ1) as [Q1 [Q2 Q3]].
        simpl in IHr. rewrite Q2, Q3 in IHr.
        split.
        -- rewrite Houts, Q1. destruct (fire_later fm ty); reflexivity.
        -- simpl. destruct IHr as [A [B [C [E [F G]]]]].
           split; [exact A|]. split; [exact B|]. split; [congruence|]. split; [congruence|]. split; [congruence|].
           now rewrite G, Hp1, Hp0, <- app_assoc.
      * destruct (tick_loop D spe fm r t s0 sc) as [[[s2 sc2] outs2]|] eqn:Et; [|discriminate].
        injection H as <- <- <-.
        destruct (IH s0 g sc s2 sc2 outs2 HS0 Hex0 Hwf Et) as [Houts IHr].
        split; [rewrite Houts; destruct (fire_later fm ty); reflexivity|].
        simpl. simpl in IHr. destruct IHr as [A [B [C [E [F G]]]]].
        split; [exact A|]. split; [exact B|]. split; [congruence|]. split; [exact E|]. split; [exact F|].
        now rewrite G, Hp0, <- app_assoc.
Qed.

End Sim.

(* ---- every accepted well-formed trace passes the monitor ---- *)

Lemma find_w_some slot l w : find_w slot l = Some w -> In w l /\ w_slot w = slot.
Proof. unfold find_w. intro H. apply find_some in H. destruct H as [H1 H2]. apply N.eqb_eq in H2. auto. Qed.

Lemma remove_w_in slot l w : In w (remove_w slot l) <-> In w l /\ w_slot w <> slot.
Proof.
  unfold remove_w. rewrite filter_In. split; intros [H1 H2]; split; try assumption.
  - apply negb_true_iff in H2. apply N.eqb_neq in H2. exact H2.
  - apply negb_true_iff. apply N.eqb_neq. exact H2.
Qed.

Lemma nodup_map_filter {A B} (f : A -> B) (p : A -> bool) l : NoDup (map f l) -> NoDup (map f (filter p l)).
Proof.
  induction l as [|x r IH]; simpl; intro H; [constructor|]. inversion H as [|? ? Hx Hr]; subst.
  destruct (p x); simpl; [|apply IH; exact Hr]. constructor; [|apply IH; exact Hr].
  intro Hin. apply Hx. apply in_map_iff in Hin. destruct Hin as [y [Hy Hin]]. apply filter_In in Hin.
  rewrite <- Hy. apply in_map. tauto.
Qed.

Section Main.
Variable D spe : N.
Variable fm : fmode.
Variable ff : bool.
Hypothesis HD : 0 < D.
Hypothesis Hs : 0 < spe.

Record Inv (s : state) (g : ghost) : Prop := {
  inv_sim : Sim spe (expect s) s g;
  inv_trig : forall d, In d (g_trig g) -> snd d < expect s;
  inv_pend : pend s = g_pend g;
  inv_pslot : forall w, In w (g_pend g) -> w_slot w < expect s /\ ~ In (Attester, w_slot w) (g_trig g);
  inv_pnd : NoDup (map w_slot (g_pend g))
}.

Lemma ticker_facts s t :
  ticker_enabled D s = true -> t = ticker_slot D s -> expect s <= t /\ t * D <= now s.
Proof.
  unfold ticker_enabled, ticker_slot. intros He ->. apply N.leb_le in He.
  destruct ((expect s + 1) * D <? now s) eqn:E.
  - apply N.ltb_lt in E. split.
    + assert (expect s + 1 <= now s / D); [|lia]. apply N.div_le_lower_bound; lia.
    + apply (div_bounds (now s) D HD).
  - split; [lia | exact He].
Qed.

Lemma sim_weaken b b' s g : b <= b' -> Sim spe b s g -> Sim spe b' s g.
Proof.
  intros Hb [H1 H2 H3 H4 H5]. constructor; try assumption. apply (rel_weaken spe b b'); assumption.
Qed.

Lemma inv_init t0 : Inv (init D t0) (ginit t0).
Proof.
  constructor.
  - constructor; simpl; try reflexivity.
    + intros d _. reflexivity.
    + split; [intros d H; simpl in H; congruence | intros ep d H; destruct H].
    + intros it H. destruct H.
  - intros d H. destruct H.
  - reflexivity.
  - intros w H. destruct H.
  - constructor.
Qed.

Lemma pend_for_types log t :
  pend_for D spe fm log t types =
  match query spe log (Attester, t) with
  | [] => []
  | ds => if flags_on fm then [(t, ds, att_due D fm t)] else []
  end.
Proof.
  unfold pend_for, types, fire_later. simpl.
  destruct (query spe log (Proposer, t)), (query spe log (Attester, t)), (query spe log (Aggregator, t)),
    (query spe log (SyncContribution, t)), (flags_on fm); reflexivity.
Qed.

Lemma g_first_pend g t sc : g_pend (fst (g_first spe g t sc)) = g_pend g.
Proof.
  unfold g_first. destruct (optN_is (g_resolved g) (epoch_of spe t)); [reflexivity|].
  destruct sc; [reflexivity|]. simpl. apply gres_pend.
Qed.

Lemma sched_slot_sim t s0 g sc s' sc' exp :
  Sim spe t s0 g -> expect s0 = t + 1 -> forallb (wf_resn spe) sc = true ->
  sched_slot D spe fm s0 t sc = Some (s', sc', exp) ->
  exp = expected D spe fm (g_log (fst (g_first spe g t sc))) t /\
  let g2 := g_rest spe (if last_in_epoch spe t then length (with_defs spe (g_log (fst (g_first spe g t sc))) t types) else 0%nat)
                   (fst (g_first spe g t sc)) (t + 1) (snd (g_first spe g t sc)) in
  Sim spe t s' g2 /\ expect s' = t + 1 /\ now s' = now s0 /\ g_trig g2 = g_trig g /\ g_now g2 = g_now g
  /\ pend s' = pend s0 ++ pend_for D spe fm (g_log (fst (g_first spe g t sc))) t types.
Proof.
  intros HS Hex Hwf H. unfold sched_slot in H. unfold g_first.
  rewrite <- (sim_res _ _ _ _ HS).
  destruct (optN_is (resolved s0) (epoch_of spe t)).
  - cbn [fst snd]. rewrite expected_exp_for.
    apply (tick_loop_sim D spe fm HD Hs t types s0 g sc s' sc' exp HS Hex Hwf H).
  - destruct sc as [|rn sc0]; [discriminate|].
    simpl in Hwf. apply andb_true_iff in Hwf. destruct Hwf as [Hwrn Hwf0].
    destruct (resolve spe fm s0 t rn) as [s1|] eqn:Er; [|discriminate].
    assert (Hb : t <= t) by lia.
    assert (Hep : epoch_of spe t <= epoch_of spe t + 1) by lia.
    destruct (resolve_sim D spe fm HD Hs t s0 g t rn s1 HS Hb Hep Hwrn Er) as [HS1 [Hex1 [Hnow1 [Htr1 [Hgn1 _]]]]].
    destruct (resolve_frame _ _ _ _ _ _ Er) as [_ [_ Hp1]].
    rewrite Hex in Hex1. cbn [fst snd]. rewrite expected_exp_for.
    destruct (tick_loop_sim D spe fm HD Hs t types s1 (gres spe g t rn) sc0 s' sc' exp HS1 Hex1 Hwf0 H) as [He [A [B [C [E [F G]]]]]].
    split; [exact He|]. cbv zeta. split; [exact A|]. split; [exact B|]. split; [congruence|]. split; [congruence|].
    split; congruence.
Qed.

Lemma types_nodup : NoDup types.
Proof. unfold types. repeat constructor; simpl; intuition discriminate. Qed.

Lemma step_sound s g l s' :
  Inv s g -> wf_label spe l = true -> step D spe fm ff s l = Some s' ->
  check D spe fm g l = true /\ Inv s' (gstep D spe fm g l).
Proof.
  intros [HS HT HP HPS HPN] Hwf H. destruct l as [dt|t sc outs|ep|hslot fetch|fslot fdefs|].
  - (* LAdv *)
    simpl in H. injection H as <-. split; [reflexivity|]. destruct HS as [H1 H2 H3 H4 H5].
    constructor; simpl; try assumption. constructor; simpl; try assumption; congruence.
  - (* LTick *)
    simpl in H. simpl in Hwf.
    destruct (ticker_enabled D s && (t =? ticker_slot D s)) eqn:Een; [|discriminate].
    apply andb_true_iff in Een. destruct Een as [Een Et]. apply N.eqb_eq in Et.
    destruct (ticker_facts s t Een Et) as [Hge Hstart].
    set (s0 := mk (now s) (t + 1) (resolved s) (store s) (eta s) (pend s)) in *.
    assert (HS0 : Sim spe t s0 g).
    { apply (sim_weaken (expect s) t s g Hge) in HS. destruct HS as [H1 H2 H3 H4 H5]. constructor; assumption. }
    destruct (sched_slot D spe fm s0 t sc) as [[[s1 sc1] exp]|] eqn:Esch; [|discriminate].
    destruct sc1; [|discriminate].
    destruct (same_set trig_eqb outs exp) eqn:Ess; [|discriminate]. injection H as <-.
    destruct (sched_slot_sim t s0 g sc s1 [] exp HS0 eq_refl Hwf Esch) as [Hexp [HS1 [Hex1 [Hnow1 [Htr1 [Hgn1 Hpe1]]]]]].
    assert (Hduty : forall tr, In tr outs -> trig_duty tr = (t_ty tr, t) /\ fire_later fm (t_ty tr) = false).
    { intros tr Htr. destruct (same_set_in_l trig_eqb outs exp tr Ess Htr) as [y [Hy Hey]].
      pose proof (trig_eqb_duty _ _ Hey) as Hd. rewrite Hexp, expected_exp_for in Hy. apply exp_for_in in Hy.
      unfold trig_duty in *. destruct Hy as [_ [Hsl [_ [_ [_ Hfl]]]]]. rewrite Hsl in Hd. injection Hd as Hty ->.
      rewrite Hty. auto. }
    split.
    + unfold check. destruct (g_first spe g t sc) as [g1 sc1'] eqn:Egf. simpl in Hexp.
      rewrite <- Hexp, Ess, andb_true_r.
      apply andb_true_iff. split; [apply andb_true_iff; split|].
      * apply N.leb_le. rewrite <- (sim_now _ _ _ _ HS). exact Hstart.
      * apply forallb_forall. intros tr Htr. apply negb_true_iff. apply mem_duty_false. intro Hin.
        apply HT in Hin. rewrite (proj1 (Hduty tr Htr)) in Hin. simpl in Hin. lia.
      * apply NoDup_nodup_duty.
        destruct (same_set_keys trig_eqb trig_duty outs exp trig_eqb_duty Ess) as [Hlen [_ Hincl]].
        apply (@NoDup_incl_NoDup _ (map trig_duty exp)).
        -- rewrite Hexp, expected_exp_for. apply exp_for_nodup. apply types_nodup.
        -- rewrite !map_length. rewrite Hlen. apply le_n.
        -- exact Hincl.
    + unfold gstep. pose proof (g_first_pend g t sc) as Hgfp.
      destruct (g_first spe g t sc) as [g1 sc1'] eqn:Egf. cbn [fst snd] in Hexp, HS1, Htr1, Hgn1, Hpe1, Hgfp.
      set (k := if last_in_epoch spe t then length (with_defs spe (g_log g1) t types) else 0%nat) in *.
      set (g2 := g_rest spe k g1 (t + 1) sc1') in *.
      assert (Hg2p : g_pend g2 = g_pend g) by (unfold g2; rewrite g_rest_pend; exact Hgfp).
      assert (Hnew : forall w, In w (pend_for D spe fm (g_log g1) t types) -> w_slot w = t /\ flags_on fm = true).
      { intros w Hw. apply pend_for_in in Hw. destruct Hw as [Hf [_ [-> _]]]. auto. }
      constructor; cbn [g_trig g_pend g_log g_now g_resolved].
      * rewrite Hex1. apply (sim_weaken t (t + 1)); [lia|].
        destruct HS1 as [H1 H2 H3 H4 H5]. constructor; cbn [g_trig g_pend g_log g_now g_resolved]; assumption.
      * rewrite Hex1. intros d Hd. apply in_app_or in Hd. destruct Hd as [Hd|Hd].
        -- rewrite Htr1 in Hd. apply HT in Hd. lia.
        -- apply in_map_iff in Hd. destruct Hd as [tr [<- Htr]]. rewrite (proj1 (Hduty tr Htr)). simpl. lia.
      * rewrite Hpe1, Hg2p. change (pend s0) with (pend s). rewrite HP. reflexivity.
      * rewrite Hex1, Hg2p, Htr1. intros w Hw. apply in_app_or in Hw. destruct Hw as [Hw|Hw].
        -- destruct (HPS w Hw) as [A B]. split; [lia|]. intro Hin. apply in_app_or in Hin. destruct Hin as [Hin|Hin]; [tauto|].
           apply in_map_iff in Hin. destruct Hin as [tr [Hd Htr]]. rewrite (proj1 (Hduty tr Htr)) in Hd.
           injection Hd as _ Hd. lia.
        -- destruct (Hnew w Hw) as [A B]. rewrite A. split; [lia|]. intro Hin. apply in_app_or in Hin.
           destruct Hin as [Hin|Hin]; [apply HT in Hin; simpl in Hin; lia|].
           apply in_map_iff in Hin. destruct Hin as [tr [Hd Htr]]. destruct (Hduty tr Htr) as [Hd1 Hd2].
           rewrite Hd1 in Hd. injection Hd as Hty. rewrite Hty in Hd2. unfold fire_later in Hd2. rewrite B in Hd2. discriminate.
      * rewrite Hg2p, map_app, pend_for_types.
        destruct (query spe (g_log g1) (Attester, t)) as [|x xs]; [rewrite app_nil_r; exact HPN|].
        destruct (flags_on fm); [|rewrite app_nil_r; exact HPN]. simpl.
        apply NoDup_snoc; [exact HPN|]. intro Hin. apply in_map_iff in Hin. destruct Hin as [w [Hw Hin]].
        destruct (HPS w Hin) as [A _]. unfold w_slot in Hw, A. simpl in Hw. rewrite Hw in A. lia.
  - (* LReorg *)
    simpl in H. unfold gstep. rewrite <- (sim_res _ _ _ _ HS).
    destruct (resolved s) as [r|] eqn:Er.
    2:{ injection H as <-. split; [reflexivity|]. constructor; assumption. }
    destruct (ep <? r).
    2:{ injection H as <-. split; [reflexivity|]. constructor; assumption. }
    injection H as <-. split; [reflexivity|]. destruct HS as [H1 H2 H3 [HL HB] H5].
    constructor; simpl; try assumption. constructor; simpl; try assumption; try reflexivity.
    + intros d Hd. rewrite (trim_fst spe) by assumption.
      rewrite (query_filter_epoch spe (g_log g) r d Hs H5). rewrite (H3 d Hd). reflexivity.
    + apply trim_inv; assumption.
    + intros it Hin. apply filter_In in Hin. apply H5. tauto.
  - (* LHead *)
    split; [reflexivity|]. simpl in H. simpl.
    destruct (ff && flags_on fm && nonempty (fst (store s) (Attester, hslot)) && negb (memN hslot (eta s))).
    + destruct fetch as [defs|]; [|discriminate].
      destruct (same_set def_eqb defs (fst (store s) (Attester, hslot))); [|discriminate]. injection H as <-.
      destruct HS as [H1 H2 H3 H4 H5]. constructor; simpl; try assumption. constructor; assumption.
    + destruct fetch; [discriminate|]. injection H as <-. constructor; assumption.
  - (* LFire *)
    simpl in H. simpl. rewrite <- HP.
    destruct (find_w fslot (pend s)) as [w|] eqn:Ef; [|discriminate].
    destruct ((w_due w <=? now s) && same_set def_eqb fdefs (w_defs w)) eqn:Ec; [|discriminate]. injection H as <-.
    destruct (find_w_some _ _ _ Ef) as [Hw Hws]. rewrite HP in Hw. destruct (HPS w Hw) as [Hlt Hnt]. rewrite Hws in Hlt, Hnt.
    split.
    + rewrite <- (sim_now _ _ _ _ HS), Ec. simpl. apply negb_true_iff. apply mem_duty_false. exact Hnt.
    + destruct HS as [H1 H2 H3 H4 H5]. constructor; simpl.
      * constructor; assumption.
      * intros d Hd. apply in_app_or in Hd. destruct Hd as [Hd|[<-|[]]]; [apply HT; exact Hd | exact Hlt].
      * rewrite HP. reflexivity.
      * rewrite HP. intros w' Hw'. apply remove_w_in in Hw'. destruct Hw' as [Hin Hne]. destruct (HPS w' Hin) as [A B].
        split; [exact A|]. intro Hin'. apply in_app_or in Hin'. destruct Hin' as [Hin'|[Hin'|[]]]; [tauto|].
        injection Hin' as Hin'. congruence.
      * rewrite HP. apply nodup_map_filter. exact HPN.
  - (* LQuiet *)
    simpl in H. destruct (ticker_enabled D s || negb (due_none (now s) (pend s))) eqn:E; [discriminate|]. injection H as <-.
    apply orb_false_iff in E. destruct E as [_ E]. apply negb_false_iff in E.
    split; [simpl; rewrite <- (sim_now _ _ _ _ HS), <- HP; exact E|]. constructor; assumption.
Qed.

Theorem run_monitor_from s g ls s' :
  Inv s g -> wf_trace spe ls = true -> run D spe fm ff s ls = Some s' -> monitor_from D spe fm g ls = true.
Proof.
  revert s g. induction ls as [|l r IH]; intros s g HI Hwf H; [reflexivity|].
  simpl in H, Hwf. apply andb_true_iff in Hwf. destruct Hwf as [Hwl Hwr].
  destruct (step D spe fm ff s l) as [s1|] eqn:Es; [|discriminate].
  destruct (step_sound s g l s1 HI Hwl Es) as [Hc HI1]. simpl. rewrite Hc. simpl.
  apply (IH s1 _ HI1 Hwr H).
Qed.

Theorem run_monitor t0 ls s :
  wf_trace spe ls = true -> run D spe fm ff (init D t0) ls = Some s -> monitor D spe fm t0 ls = true.
Proof. intros Hwf H. apply (run_monitor_from (init D t0) (ginit t0) ls s (inv_init t0) Hwf H). Qed.

End Main.

(* ---- Prop-level readings of the monitor ---- *)

Definition all_triggers (ls : list label) : list trigger :=
  flat_map (fun l => match l with LTick _ _ outs => outs | _ => [] end) ls.

(* Every call of the duty subscribers in a history, as (type, slot): the triggers of the ticks and, with a
   flag on, the attester duties released from waiting. *)
Definition trig_duties (ls : list label) : list duty :=
  flat_map (fun l => match l with
                     | LTick _ _ outs => map trig_duty outs
                     | LFire slot _ => [(Attester, slot)]
                     | _ => []
                     end) ls.

Definition is_fire (slot : N) (l : label) : bool := match l with LFire s _ => s =? slot | _ => false end.

Definition tick_slots (ls : list label) : list N :=
  flat_map (fun l => match l with LTick t _ _ => [t] | _ => [] end) ls.

Definition is_reorg (l : label) : bool := match l with LReorg _ => true | _ => false end.

(* Where an item of the log comes from: a resolveDuties call [rn] for [slot]. *)
Definition item_from (spe : N) (it : item) (slot : N) (rn : resn) : Prop :=
  exists vals, r_vals rn = Some vals /\
    i_act it = filter (is_active (epoch_of spe slot)) vals /\
    i_slot it = slot /\ i_ep it = epoch_of spe slot /\
    match i_kind it with
    | KAtt => ok_res (r_att rn) = Some (i_ents it)
    | KPro => ok_res (r_pro rn) = Some (i_ents it)
    | KSync => ok_res (r_sync rn) = Some (i_ents it)
    end.

Section Readings.
Variable D spe : N.
Variable fm : fmode.
Variable ff : bool.
Hypothesis HD : 0 < D.
Hypothesis Hs : 0 < spe.

Lemma gres_shape g slot rn :
  exists more, g_log (gres spe g slot rn) = g_log g ++ more
    /\ (forall it, In it more -> item_from spe it slot rn)
    /\ g_trig (gres spe g slot rn) = g_trig g /\ g_now (gres spe g slot rn) = g_now g.
Proof.
  unfold gres.
  destruct (r_vals rn) as [vals|] eqn:Ev.
  2:{ exists []. rewrite app_nil_r. repeat split; try reflexivity. intros it []. }
  destruct (filter (is_active (epoch_of spe slot)) vals) as [|v0 act0] eqn:Eact.
  { exists []. simpl. rewrite app_nil_r. repeat split; try reflexivity. intros it []. }
  rewrite <- Eact.
  destruct (ok_res (r_att rn)) as [la|] eqn:Ea.
  2:{ exists []. rewrite app_nil_r. repeat split; try reflexivity. intros it []. }
  set (ia := I KAtt (epoch_of spe slot) slot (filter (is_active (epoch_of spe slot)) vals) la).
  assert (Hia : item_from spe ia slot rn) by (exists vals; simpl; auto).
  destruct (aborted ia).
  { exists [ia]. repeat split; try reflexivity. intros it [<-|[]]. exact Hia. }
  destruct (ok_res (r_pro rn)) as [lp|] eqn:Ep.
  2:{ exists [ia]. repeat split; try reflexivity. intros it [<-|[]]. exact Hia. }
  set (ip := I KPro (epoch_of spe slot) slot (filter (is_active (epoch_of spe slot)) vals) lp).
  assert (Hip : item_from spe ip slot rn) by (exists vals; simpl; auto).
  destruct (aborted ip).
  { exists [ia; ip]. simpl. rewrite <- app_assoc. repeat split; try reflexivity. intros it [<-|[<-|[]]]; assumption. }
  destruct (ok_res (r_sync rn)) as [ls|] eqn:Esy.
  2:{ exists [ia; ip]. simpl. rewrite <- app_assoc. repeat split; try reflexivity. intros it [<-|[<-|[]]]; assumption. }
  set (isy := I KSync (epoch_of spe slot) slot (filter (is_active (epoch_of spe slot)) vals) ls).
  assert (Hisy : item_from spe isy slot rn) by (exists vals; simpl; auto).
  exists [ia; ip; isy].
  destruct (aborted isy); simpl; rewrite <- !app_assoc; repeat split; try reflexivity;
    intros it [<-|[<-|[<-|[]]]]; assumption.
Qed.

Lemma g_first_shape g t sc :
  exists more, g_log (fst (g_first spe g t sc)) = g_log g ++ more
    /\ (forall it, In it more -> exists rn, In rn sc /\ item_from spe it t rn)
    /\ g_trig (fst (g_first spe g t sc)) = g_trig g /\ g_now (fst (g_first spe g t sc)) = g_now g
    /\ incl (snd (g_first spe g t sc)) sc.
Proof.
  unfold g_first. destruct (optN_is (g_resolved g) (epoch_of spe t)).
  - exists []. simpl. rewrite app_nil_r. repeat split; try reflexivity; [intros it [] | apply incl_refl].
  - destruct sc as [|rn sc0].
    + exists []. simpl. rewrite app_nil_r. repeat split; try reflexivity; [intros it [] | apply incl_refl].
    + simpl. destruct (gres_shape g t rn) as [more [H1 [H2 [H3 H4]]]]. exists more.
      repeat split; try assumption.
      * intros it Hit. exists rn. split; [left; reflexivity | apply H2; exact Hit].
      * apply incl_tl. apply incl_refl.
Qed.

Lemma g_rest_shape k g slot sc :
  exists more, g_log (g_rest spe k g slot sc) = g_log g ++ more
    /\ (forall it, In it more -> exists rn, In rn sc /\ item_from spe it slot rn)
    /\ g_trig (g_rest spe k g slot sc) = g_trig g /\ g_now (g_rest spe k g slot sc) = g_now g.
Proof.
  revert g sc. induction k as [|k IH]; intros g sc.
  - exists []. simpl. rewrite app_nil_r. repeat split; try reflexivity. intros it [].
  - destruct sc as [|rn sc0].
    + exists []. simpl. rewrite app_nil_r. repeat split; try reflexivity. intros it [].
    + simpl. destruct (gres_shape g slot rn) as [m1 [A1 [A2 [A3 A4]]]].
      destruct (IH (gres spe g slot rn) sc0) as [m2 [B1 [B2 [B3 B4]]]].
      exists (m1 ++ m2). rewrite B1, A1, app_assoc. repeat split; try congruence.
      intros it Hit. apply in_app_or in Hit. destruct Hit as [Hit|Hit].
      * exists rn. split; [left; reflexivity | apply A2; exact Hit].
      * destruct (B2 it Hit) as [rn' [Hin Hf]]. exists rn'. split; [right; exact Hin | exact Hf].
Qed.

(* The ghost after a tick: the log grows by items of this tick's resolutions, triggers are appended,
   and with a flag on the attester duty of the slot (if assigned) starts waiting. *)
Lemma gstep_tick_shape g t sc outs :
  exists more, g_log (gstep D spe fm g (LTick t sc outs)) = g_log g ++ more
    /\ (forall it, In it more -> exists rn slot, In rn sc /\ (slot = t \/ slot = t + 1) /\ item_from spe it slot rn)
    /\ g_trig (gstep D spe fm g (LTick t sc outs)) = g_trig g ++ map trig_duty outs
    /\ g_now (gstep D spe fm g (LTick t sc outs)) = g_now g
    /\ g_pend (gstep D spe fm g (LTick t sc outs)) = g_pend g ++ pend_for D spe fm (g_log (fst (g_first spe g t sc))) t types.
Proof.
  unfold gstep. destruct (g_first_shape g t sc) as [m1 [A1 [A2 [A3 [A4 A5]]]]].
  pose proof (g_first_pend spe g t sc) as A6.
  destruct (g_first spe g t sc) as [g1 sc1]. cbn [fst snd] in A1, A3, A4, A5, A6.
  set (k := if last_in_epoch spe t then length (with_defs spe (g_log g1) t types) else 0%nat).
  destruct (g_rest_shape k g1 (t + 1) sc1) as [m2 [B1 [B2 [B3 B4]]]].
  exists (m1 ++ m2). cbn [g_log g_trig g_now g_pend fst]. rewrite B1, A1, app_assoc, B3, A3, B4, A4, g_rest_pend, A6.
  repeat split; try reflexivity.
  intros it Hit. apply in_app_or in Hit. destruct Hit as [Hit|Hit].
  - destruct (A2 it Hit) as [rn [Hin Hf]]. exists rn, t. auto.
  - destruct (B2 it Hit) as [rn [Hin Hf]]. exists rn, (t + 1). split; [apply A5; exact Hin | auto].
Qed.

Lemma ghost_after_app g a b : ghost_after D spe fm g (a ++ b) = ghost_after D spe fm (ghost_after D spe fm g a) b.
Proof. revert g. induction a as [|l r IH]; intro g; simpl; [reflexivity | apply IH]. Qed.

Lemma monitor_from_app g a b :
  monitor_from D spe fm g (a ++ b) = monitor_from D spe fm g a && monitor_from D spe fm (ghost_after D spe fm g a) b.
Proof.
  revert g. induction a as [|l r IH]; intro g; simpl; [reflexivity|].
  rewrite IH, andb_assoc. reflexivity.
Qed.

Lemma monitor_at g pre l post :
  monitor_from D spe fm g (pre ++ l :: post) = true -> check D spe fm (ghost_after D spe fm g pre) l = true.
Proof.
  rewrite monitor_from_app. intro H. apply andb_true_iff in H. destruct H as [_ H]. simpl in H.
  apply andb_true_iff in H. tauto.
Qed.

(* -- at most once -- *)

Lemma at_most_once_from g ls :
  NoDup (g_trig g) -> monitor_from D spe fm g ls = true ->
  NoDup (g_trig g ++ trig_duties ls)
  /\ g_trig (ghost_after D spe fm g ls) = g_trig g ++ trig_duties ls.
Proof.
  revert g. induction ls as [|l r IH]; intros g Hnd H.
  - simpl. rewrite app_nil_r. auto.
  - simpl in H. apply andb_true_iff in H. destruct H as [Hc Hm].
    destruct l as [dt|t sc outs|ep|hs hf|fs fd|].
    + apply (IH (gstep D spe fm g (LAdv dt)) Hnd Hm).
    + destruct (gstep_tick_shape g t sc outs) as [more [_ [_ [Htr _]]]].
      assert (Hnd' : NoDup (g_trig g ++ map trig_duty outs)).
      { unfold check in Hc. destruct (g_first spe g t sc) as [g1 sc1].
        apply andb_true_iff in Hc. destruct Hc as [Hc _]. apply andb_true_iff in Hc. destruct Hc as [Hc H3].
        apply andb_true_iff in Hc. destruct Hc as [_ H2].
        apply nodup_duty_NoDup in H3. rewrite forallb_forall in H2.
        clear - Hnd H2 H3. induction (g_trig g) as [|d l IHl]; [exact H3|].
        simpl. inversion Hnd as [|? ? Hd Hl]; subst. constructor.
        2:{ apply IHl; [exact Hl|]. intros x Hx. specialize (H2 x Hx). simpl in H2.
            apply negb_true_iff in H2. apply orb_false_iff in H2. apply negb_true_iff. tauto. }
        intro Hin. apply in_app_or in Hin. destruct Hin as [Hin|Hin]; [contradiction|].
        apply in_map_iff in Hin. destruct Hin as [tr [Htr Hin]]. specialize (H2 tr Hin).
        apply negb_true_iff in H2. apply mem_duty_false in H2. apply H2. rewrite Htr. left. reflexivity. }
      rewrite <- Htr in Hnd'. destruct (IH _ Hnd' Hm) as [A B].
      cbn [trig_duties flat_map ghost_after]. fold (trig_duties r). rewrite app_assoc, <- Htr. split; assumption.
    + assert (Ht : g_trig (gstep D spe fm g (LReorg ep)) = g_trig g).
      { simpl. destruct (g_resolved g); [destruct (ep <? n)|]; reflexivity. }
      rewrite <- Ht in Hnd. destruct (IH _ Hnd Hm) as [A B]. rewrite Ht in A, B. simpl. split; assumption.
    + apply (IH (gstep D spe fm g (LHead hs hf)) Hnd Hm).
    + assert (Hnd' : NoDup (g_trig g ++ [(Attester, fs)])).
      { simpl in Hc. destruct (find_w fs (g_pend g)); [|discriminate].
        apply andb_true_iff in Hc. destruct Hc as [_ Hc]. apply negb_true_iff in Hc. apply mem_duty_false in Hc.
        apply NoDup_snoc; assumption. }
      destruct (IH (gstep D spe fm g (LFire fs fd)) Hnd' Hm) as [A B]. simpl in A, B.
      cbn [trig_duties flat_map ghost_after]. fold (trig_duties r). rewrite <- app_assoc in A, B. simpl in A, B. split; assumption.
    + apply (IH (gstep D spe fm g LQuiet) Hnd Hm).
Qed.

Theorem trigger_at_most_once t0 ls :
  monitor D spe fm t0 ls = true -> NoDup (trig_duties ls).
Proof.
  intro H. destruct (at_most_once_from (ginit t0) ls (NoDup_nil _) H) as [A _]. exact A.
Qed.

(* -- what a tick triggers -- *)

Definition log_at (t0 : N) (pre : list label) (t : N) (sc : list resn) : list item :=
  g_log (fst (g_first spe (ghost_after D spe fm (ginit t0) pre) t sc)).

Definition now_after (t0 : N) (pre : list label) : N := g_now (ghost_after D spe fm (ginit t0) pre).

Lemma trig_eqb_fields a b :
  trig_eqb a b = true ->
  t_ty a = t_ty b /\ t_slot a = t_slot b /\ t_deadline a = t_deadline b
  /\ length (t_defs a) = length (t_defs b) /\ incl (t_defs a) (t_defs b) /\ incl (t_defs b) (t_defs a).
Proof.
  unfold trig_eqb. rewrite !andb_true_iff. intros [[[H1 H2] H3] H4].
  apply dtype_eqb_eq in H1. apply N.eqb_eq in H2. apply optN_eqb_eq in H4.
  apply (same_set_spec def_eqb _ _ def_eqb_eq) in H3. tauto.
Qed.

Theorem tick_triggers t0 ls pre t sc outs post :
  monitor D spe fm t0 ls = true -> ls = pre ++ LTick t sc outs :: post ->
  t * D <= now_after t0 pre /\
  (forall tr, In tr outs ->
     In (t_ty tr) types /\ t_slot tr = t /\ t_deadline tr = deadline D (t_ty tr) t /\
     t_defs tr <> [] /\ NoDup (map fst (t_defs tr)) /\
     (forall x, In x (t_defs tr) <-> In x (query spe (log_at t0 pre t sc) (t_ty tr, t))) /\
     fire_later fm (t_ty tr) = false) /\
  (forall ty, In ty types -> query spe (log_at t0 pre t sc) (ty, t) <> [] -> fire_later fm ty = false ->
     exists tr, In tr outs /\ t_ty tr = ty /\ t_slot tr = t) /\
  (flags_on fm = true -> query spe (log_at t0 pre t sc) (Attester, t) <> [] ->
     In (t, query spe (log_at t0 pre t sc) (Attester, t), att_due D fm t)
        (g_pend (ghost_after D spe fm (ginit t0) (pre ++ [LTick t sc outs])))).
Proof.
  intros Hm ->. apply monitor_at in Hm. unfold check in Hm. unfold log_at, now_after.
  set (g := ghost_after D spe fm (ginit t0) pre) in *.
  assert (Hpend : g_pend (ghost_after D spe fm (ginit t0) (pre ++ [LTick t sc outs])) =
                  g_pend g ++ pend_for D spe fm (g_log (fst (g_first spe g t sc))) t types).
  { rewrite ghost_after_app. cbn [ghost_after]. fold g.
    destruct (gstep_tick_shape g t sc outs) as [m [_ [_ [_ [_ A]]]]]. exact A. }
  destruct (g_first spe g t sc) as [g1 sc1]. cbn [fst] in *.
  apply andb_true_iff in Hm. destruct Hm as [Hm Hss]. apply andb_true_iff in Hm. destruct Hm as [Hm _].
  apply andb_true_iff in Hm. destruct Hm as [Hst _]. apply N.leb_le in Hst.
  split; [exact Hst|]. rewrite expected_exp_for in Hss. split; [|split].
  - intros tr Htr. destruct (same_set_in_l trig_eqb _ _ tr Hss Htr) as [y [Hy Hey]].
    apply trig_eqb_fields in Hey. destruct Hey as [E1 [E2 [E3 [E4 [E5 E6]]]]].
    apply exp_for_in in Hy. destruct Hy as [Y1 [Y2 [Y3 [Y4 [Y5 Y6]]]]].
    rewrite E1, E2, E3. split; [exact Y1|]. split; [exact Y2|]. split; [exact Y5|]. split; [|split; [|split]].
    + intro Hnil. rewrite Hnil in E4. destruct (t_defs y); [congruence | discriminate].
    + (* distinct public keys: same length as a duplicate-free list that includes it *)
      apply (@NoDup_incl_NoDup _ (map fst (t_defs y))).
      * rewrite Y3. unfold query. apply first_wins_nodup. constructor.
      * rewrite !map_length. rewrite E4. apply le_n.
      * intros p Hp. apply in_map_iff in Hp. destruct Hp as [x [<- Hx]]. apply in_map. apply E6. exact Hx.
    + intro x. rewrite <- Y3. split; [apply E5 | apply E6].
    + exact Y6.
  - intros ty Hty Hne Hfl. pose proof (exp_for_complete D spe fm (g_log g1) t types ty Hty Hne Hfl) as Hin.
    destruct (same_set_in_r trig_eqb _ _ _ Hss Hin) as [x [Hx Hex]].
    apply trig_eqb_fields in Hex. cbn [t_ty t_slot] in Hex. exists x. destruct Hex as [E1 [E2 _]]. auto.
  - intros Hfl Hne. rewrite Hpend. apply in_or_app. right. rewrite (pend_for_types D spe fm).
    destruct (query spe (g_log g1) (Attester, t)); [congruence|]. rewrite Hfl. left. reflexivity.
Qed.

(* -- what the query means -- *)

Lemma query_sound log d x : In x (query spe log d) -> exists it, In it log /\ In (d, x) (grants spe it).
Proof.
  unfold query. intro H. apply first_wins_in in H. destruct H as [[]|H].
  apply for_duty_in in H. apply in_flat_map in H. exact H.
Qed.

Lemma find_app {A} (f : A -> bool) a b : find f (a ++ b) = match find f a with Some x => Some x | None => find f b end.
Proof. induction a as [|x r IH]; simpl; [reflexivity|]. destruct (f x); [reflexivity | exact IH]. Qed.

Lemma find_has_pk pk l : has_pk pk l = false -> find (fun x : N * entry => fst x =? pk) l = None.
Proof.
  induction l as [|x r IH]; simpl; [reflexivity|]. intro H. apply orb_false_iff in H. destruct H as [H1 H2].
  rewrite H1. apply IH. exact H2.
Qed.

Lemma has_pk_find pk l : has_pk pk l = true -> exists x, find (fun x : N * entry => fst x =? pk) l = Some x.
Proof.
  induction l as [|x r IH]; simpl; [discriminate|]. destruct (fst x =? pk); [eexists; reflexivity | exact IH].
Qed.

Lemma find_first_wins pk acc l :
  find (fun x => fst x =? pk) (first_wins acc l) =
  match find (fun x => fst x =? pk) acc with Some x => Some x | None => find (fun x => fst x =? pk) l end.
Proof.
  revert acc. induction l as [|y r IH]; intro acc; simpl.
  - destruct (find _ acc); reflexivity.
  - destruct (has_pk (fst y) acc) eqn:E; rewrite IH.
    + destruct (N.eqb_spec (fst y) pk) as [Hy|Hy]; [|reflexivity].
      rewrite Hy in E. destruct (has_pk_find pk acc E) as [x Hx]. rewrite Hx. reflexivity.
    + rewrite find_app. simpl. destruct (find (fun x => fst x =? pk) acc); [reflexivity|].
      destruct (fst y =? pk); reflexivity.
Qed.

Lemma in_find_nodup (l : list (N * entry)) x :
  NoDup (map fst l) -> In x l -> find (fun y => fst y =? fst x) l = Some x.
Proof.
  induction l as [|y r IH]; simpl; [tauto|]. intros Hnd Hin. inversion Hnd as [|? ? Hy Hr]; subst.
  destruct Hin as [->|Hin]; [rewrite N.eqb_refl; reflexivity|].
  destruct (N.eqb_spec (fst y) (fst x)) as [E|E]; [|apply IH; assumption].
  exfalso. apply Hy. rewrite E. apply in_map. exact Hin.
Qed.

(* The first definition per (duty, public key) wins, whatever is answered later. *)
Theorem first_definition_wins log d pk e :
  In (pk, e) (query spe log d) <->
  find (fun x => fst x =? pk) (for_duty d (flat_map (grants spe) log)) = Some (pk, e).
Proof.
  unfold query. pose proof (find_first_wins pk [] (for_duty d (flat_map (grants spe) log))) as Hf. simpl in Hf.
  rewrite <- Hf. split.
  - intro H. apply (in_find_nodup _ (pk, e)); [apply first_wins_nodup; constructor | exact H].
  - intro H. apply find_some in H. tauto.
Qed.

Theorem query_keys_distinct log d : NoDup (map fst (query spe log d)).
Proof. unfold query. apply first_wins_nodup. constructor. Qed.

(* Later answers (retries, later resolutions) never change or remove a definition. *)
Theorem query_extend log more d x : In x (query spe log d) -> In x (query spe (log ++ more) d).
Proof.
  unfold query. rewrite flat_map_app, for_duty_app, first_wins_app. apply first_wins_acc.
Qed.

(* Every validator that some answer assigns to the duty has a definition. *)
Lemma query_complete log it d pk e :
  In it log -> In (d, (pk, e)) (grants spe it) -> has_pk pk (query spe log d) = true.
Proof.
  intros Hit Hg. unfold query. rewrite has_pk_first_wins. simpl. apply has_pk_In. exists e.
  apply for_duty_in. apply in_flat_map. exists it. tauto.
Qed.

Lemma pk_of_idx_in vs idx pk : pk_of_idx vs idx = Some pk -> exists v, In v vs /\ v_idx v = idx /\ v_pk v = pk.
Proof.
  induction vs as [|v r IH]; simpl; [discriminate|]. destruct (N.eqb_spec (v_idx v) idx) as [E|E].
  - intro H. injection H as <-. exists v. auto.
  - intro H. destruct (IH H) as [v' [A B]]. exists v'. auto.
Qed.

(* What a grant says. *)
Lemma grant_meaning it d pk e :
  i_ep it = epoch_of spe (i_slot it) ->
  In (d, (pk, e)) (grants spe it) ->
  exists e0, e = e0 /\ In e0 (i_ents it) /\ e_pk e0 = pk /\
  (exists v, In v (i_act it) /\ v_idx v = e_vidx e0 /\ v_pk v = pk) /\
  i_slot it <= snd d /\
  match i_kind it with
  | KAtt => (d = (Attester, e_slot e0) \/ d = (Aggregator, e_slot e0))
  | KPro => d = (Proposer, e_slot e0)
  | KSync => fst d = SyncContribution /\ epoch_of spe (snd d) = epoch_of spe (i_slot it)
  end.
Proof.
  intros Hep H. pose proof (grant_slot spe it d (pk, e) H) as Hslot.
  apply grant_in in H. destruct H as [e0 [He0 [Hg Hin]]].
  apply good_pk in Hg. destruct Hg as [_ Hpk]. apply pk_of_idx_in in Hpk.
  unfold grants_of_entry in Hin. destruct (i_kind it).
  - simpl in Hin. destruct Hin as [Hin|[Hin|[]]]; injection Hin as <- <- <-; exists e0; repeat split; auto.
  - simpl in Hin. destruct Hin as [Hin|[]]; injection Hin as <- <- <-; exists e0; repeat split; auto.
  - apply in_map_iff in Hin. destruct Hin as [sl [Hin Hsl]]. injection Hin as <- <- <-.
    exists e0. repeat split; auto. simpl.
    apply (epoch_slots_in spe (i_slot it) (i_ep it) sl Hs (eq_sym Hep)) in Hsl. rewrite <- Hep. tauto.
Qed.

(* -- where log items come from -- *)

Lemma log_origin g ls it :
  In it (g_log (ghost_after D spe fm g ls)) ->
  In it (g_log g) \/
  exists t sc outs rn slot, In (LTick t sc outs) ls /\ In rn sc /\ (slot = t \/ slot = t + 1) /\ item_from spe it slot rn.
Proof.
  revert g. induction ls as [|l r IH]; intros g H; [left; exact H|].
  simpl in H. apply IH in H. destruct H as [H|H].
  - destruct l as [dt|t sc outs|ep|hs hf|fs fd|].
    + left. exact H.
    + destruct (gstep_tick_shape g t sc outs) as [more [A1 [A2 _]]]. rewrite A1 in H.
      apply in_app_or in H. destruct H as [H|H]; [left; exact H|].
      right. destruct (A2 it H) as [rn [slot [B1 [B2 B3]]]]. exists t, sc, outs, rn, slot.
      split; [left; reflexivity | auto].
    + left. simpl in H. destruct (g_resolved g); [destruct (ep <? n)|]; try exact H.
      simpl in H. apply filter_In in H. tauto.
    + left. exact H.
    + left. exact H.
    + left. exact H.
  - right. destruct H as [t [sc [outs [rn [slot [A [B [C E]]]]]]]]. exists t, sc, outs, rn, slot.
    split; [right; exact A | auto].
Qed.

Lemma log_at_origin t0 pre t sc outs it :
  In it (log_at t0 pre t sc) ->
  exists t' sc' outs' rn slot, In (LTick t' sc' outs') (pre ++ [LTick t sc outs]) /\ In rn sc'
    /\ (slot = t' \/ slot = t' + 1) /\ item_from spe it slot rn.
Proof.
  unfold log_at. intro H. destruct (g_first_shape (ghost_after D spe fm (ginit t0) pre) t sc) as [more [A1 [A2 _]]].
  rewrite A1 in H. apply in_app_or in H. destruct H as [H|H].
  - apply log_origin in H. destruct H as [[]|H].
    destruct H as [t' [sc' [outs' [rn [slot [A [B [C E]]]]]]]]. exists t', sc', outs', rn, slot.
    split; [apply in_or_app; left; exact A | auto].
  - destruct (A2 it H) as [rn [B1 B2]]. exists t, sc, outs, rn, t.
    split; [apply in_or_app; right; left; reflexivity | auto].
Qed.

(* A triggered definition was assigned by the beacon node, in an answer that succeeded, to a validator
   of the validators answer of the same resolution, active for the resolved epoch, with that
   validator's public key, for this slot. *)
Theorem triggered_only_assigned t0 ls pre t sc outs post tr pk e :
  monitor D spe fm t0 ls = true -> ls = pre ++ LTick t sc outs :: post ->
  In tr outs -> In (pk, e) (t_defs tr) ->
  exists t' sc' outs' rn slot vals v,
    In (LTick t' sc' outs') (pre ++ [LTick t sc outs]) /\ In rn sc' /\ (slot = t' \/ slot = t' + 1) /\
    r_vals rn = Some vals /\ In v vals /\ is_active (epoch_of spe slot) v = true /\
    v_idx v = e_vidx e /\ v_pk v = pk /\ e_pk e = pk /\ slot <= t /\
    match t_ty tr with
    | Attester | Aggregator => exists l, ok_res (r_att rn) = Some l /\ In e l /\ e_slot e = t
    | Proposer => exists l, ok_res (r_pro rn) = Some l /\ In e l /\ e_slot e = t
    | SyncContribution => exists l, ok_res (r_sync rn) = Some l /\ In e l /\ epoch_of spe t = epoch_of spe slot
    | OtherType => False
    end.
Proof.
  intros Hm Hls Htr Hdef.
  destruct (tick_triggers t0 ls pre t sc outs post Hm Hls) as [_ [Hall _]].
  destruct (Hall tr Htr) as [Hty [Hsl [_ [_ [_ Hq]]]]].
  apply Hq in Hdef. apply query_sound in Hdef. destruct Hdef as [it [Hit Hg]].
  destruct (log_at_origin t0 pre t sc outs it Hit) as [t' [sc' [outs' [rn [slot [A [B [C Hfrom]]]]]]]].
  destruct Hfrom as [vals [F1 [F2 [F3 [F4 F5]]]]].
  assert (Hep : i_ep it = epoch_of spe (i_slot it)) by (rewrite F3; exact F4).
  destruct (grant_meaning it _ pk e Hep Hg) as [e0 [<- [G1 [G2 [[v [V1 [V2 V3]]] [G3 G4]]]]]].
  rewrite F2 in V1. apply filter_In in V1. destruct V1 as [V1 V1a].
  exists t', sc', outs', rn, slot, vals, v. simpl in G3. rewrite F3 in G3.
  repeat (split; [assumption|]).
  destruct (i_kind it).
  - destruct G4 as [G4|G4]; injection G4 as G4a G4b; rewrite G4a; exists (i_ents it); auto.
  - injection G4 as G4a G4b. rewrite G4a. exists (i_ents it). auto.
  - destruct G4 as [G4a G4b]. simpl in G4a, G4b. rewrite G4a. exists (i_ents it). rewrite F3 in G4b. auto.
Qed.

(* -- assigned before the slot => triggered at the slot, exactly once -- *)

Lemma log_mono g mid :
  forallb (fun l => negb (is_reorg l)) mid = true ->
  incl (g_log g) (g_log (ghost_after D spe fm g mid)).
Proof.
  revert g. induction mid as [|l r IH]; intros g H; [apply incl_refl|].
  simpl in H. apply andb_true_iff in H. destruct H as [Hl Hr]. simpl.
  apply incl_tran with (m := g_log (gstep D spe fm g l)); [|apply IH; exact Hr].
  destruct l as [dt|t sc outs|ep|hs hf|fs fd|]; try apply incl_refl; [|discriminate].
  destruct (gstep_tick_shape g t sc outs) as [more [A _]]. rewrite A. apply incl_appl. apply incl_refl.
Qed.

Lemma grants_types it d x : In (d, x) (grants spe it) -> In (fst d) types.
Proof.
  intro H. apply grant_in in H. destruct H as [e [_ [_ H]]]. unfold grants_of_entry in H. unfold types.
  destruct (i_kind it).
  - simpl in H. destruct H as [H|[H|[]]]; injection H as <- _; simpl; tauto.
  - simpl in H. destruct H as [H|[]]; injection H as <- _; simpl; tauto.
  - apply in_map_iff in H. destruct H as [sl [H _]]. injection H as <- _. simpl. tauto.
Qed.

Lemma nodup_map_same {A B} (f : A -> B) l x y : NoDup (map f l) -> In x l -> In y l -> f x = f y -> x = y.
Proof.
  induction l as [|a r IH]; simpl; [tauto|]. intros Hnd Hx Hy E. inversion Hnd as [|? ? Ha Hr]; subst.
  destruct Hx as [->|Hx], Hy as [->|Hy]; try reflexivity.
  - exfalso. apply Ha. rewrite E. apply in_map. exact Hy.
  - exfalso. apply Ha. rewrite <- E. apply in_map. exact Hx.
  - apply IH; assumption.
Qed.

Lemma all_triggers_in ls t sc outs tr : In (LTick t sc outs) ls -> In tr outs -> In tr (all_triggers ls).
Proof. intros H1 H2. unfold all_triggers. apply in_flat_map. exists (LTick t sc outs). auto. Qed.

(* If some answer recorded before (pre1) assigns validator pk to duty (ty, t), no reorg event is
   handled in between, and the tick of slot t is delivered, then at that tick the duty is triggered with
   a definition for pk -- or, for the attester duty with a flag on, starts waiting with such a
   definition, to be released at att_due (see waiting_released). With trigger_at_most_once: exactly once. *)
Theorem assigned_is_triggered t0 ls pre1 mid t sc outs post it ty pk e :
  monitor D spe fm t0 ls = true -> ls = pre1 ++ mid ++ LTick t sc outs :: post ->
  forallb (fun l => negb (is_reorg l)) mid = true ->
  In it (g_log (ghost_after D spe fm (ginit t0) pre1)) -> In ((ty, t), (pk, e)) (grants spe it) ->
  if fire_later fm ty
  then exists defs, has_pk pk defs = true /\
         In (t, defs, att_due D fm t) (g_pend (ghost_after D spe fm (ginit t0) ((pre1 ++ mid) ++ [LTick t sc outs])))
  else exists tr, In tr outs /\ t_ty tr = ty /\ t_slot tr = t /\ has_pk pk (t_defs tr) = true.
Proof.
  intros Hm Hls Hmid Hit Hg.
  assert (Hls' : ls = (pre1 ++ mid) ++ LTick t sc outs :: post) by (rewrite Hls, app_assoc; reflexivity).
  destruct (tick_triggers t0 ls (pre1 ++ mid) t sc outs post Hm Hls') as [_ [Hall [Hex Hwait]]].
  assert (Hit' : In it (log_at t0 (pre1 ++ mid) t sc)).
  { unfold log_at. destruct (g_first_shape (ghost_after D spe fm (ginit t0) (pre1 ++ mid)) t sc) as [more [A _]].
    rewrite A. apply in_or_app. left. rewrite ghost_after_app. apply (log_mono _ mid Hmid). exact Hit. }
  pose proof (query_complete _ it (ty, t) pk e Hit' Hg) as Hhas.
  assert (Hne : query spe (log_at t0 (pre1 ++ mid) t sc) (ty, t) <> []).
  { intro E. rewrite E in Hhas. discriminate. }
  destruct (fire_later fm ty) eqn:Efl.
  - unfold fire_later in Efl. apply andb_true_iff in Efl. destruct Efl as [Ef1 Ef2]. apply dtype_eqb_eq in Ef2. subst ty.
    exists (query spe (log_at t0 (pre1 ++ mid) t sc) (Attester, t)). split; [exact Hhas|]. apply Hwait; assumption.
  - destruct (Hex ty (grants_types it _ _ Hg) Hne Efl) as [tr [Htr [Hty Hsl]]].
    exists tr. repeat split; try assumption.
    destruct (Hall tr Htr) as [_ [_ [_ [_ [_ [Hq _]]]]]]. apply has_pk_In in Hhas. destruct Hhas as [e' He'].
    apply has_pk_In. exists e'. apply Hq. rewrite Hty. exact He'.
Qed.

(* -- attester duties waiting on the clock (a flag on) -- *)

Lemma gstep_pend_other g l :
  (forall t sc outs, l <> LTick t sc outs) -> (forall s d, l <> LFire s d) -> g_pend (gstep D spe fm g l) = g_pend g.
Proof.
  intros H1 H2. destruct l as [dt|t sc outs|ep|hs hf|fs fd|]; try reflexivity.
  - exfalso. apply (H1 t sc outs). reflexivity.
  - simpl. destruct (g_resolved g); [destruct (ep <? n)|]; reflexivity.
  - exfalso. apply (H2 fs fd). reflexivity.
Qed.

(* Every waiting duty is released at slot start + the attester offset of the flag mode. *)
Lemma waiting_due_from g ls :
  (forall w, In w (g_pend g) -> w_due w = att_due D fm (w_slot w)) ->
  forall w, In w (g_pend (ghost_after D spe fm g ls)) -> w_due w = att_due D fm (w_slot w).
Proof.
  revert g. induction ls as [|l r IH]; intros g Hg; [exact Hg|]. simpl. apply IH.
  intros w Hw. destruct l as [dt|t sc outs|ep|hs hf|fs fd|]; try (apply Hg; exact Hw).
  - destruct (gstep_tick_shape g t sc outs) as [m [_ [_ [_ [_ A]]]]]. rewrite A in Hw.
    apply in_app_or in Hw. destruct Hw as [Hw|Hw]; [apply Hg; exact Hw|].
    apply pend_for_in in Hw. destruct Hw as [_ [_ [-> _]]]. reflexivity.
  - apply Hg. simpl in Hw. destruct (g_resolved g); [destruct (ep <? n)|]; exact Hw.
  - simpl in Hw. apply remove_w_in in Hw. apply Hg. tauto.
Qed.

(* A release (the subscribers of an attester duty called by its waiting goroutine) is of a duty that a
   tick put in waiting, with the definitions captured at that tick, not before slot start + offset,
   and the duty was never triggered before. *)
Theorem waiting_fires t0 ls pre slot defs post :
  monitor D spe fm t0 ls = true -> ls = pre ++ LFire slot defs :: post ->
  exists w, In w (g_pend (ghost_after D spe fm (ginit t0) pre)) /\ w_slot w = slot /\
    slot * D + att_offset D fm <= now_after t0 pre /\
    (forall x, In x defs <-> In x (w_defs w)) /\ ~ In (Attester, slot) (trig_duties pre).
Proof.
  intros Hm Hls. pose proof Hm as Hm0. rewrite Hls in Hm. apply monitor_at in Hm. simpl in Hm. unfold now_after.
  set (g := ghost_after D spe fm (ginit t0) pre) in *.
  destruct (find_w slot (g_pend g)) as [w|] eqn:Ef; [|discriminate].
  apply andb_true_iff in Hm. destruct Hm as [Hm H3]. apply andb_true_iff in Hm. destruct Hm as [H1 H2].
  destruct (find_w_some _ _ _ Ef) as [Hw Hws]. exists w. split; [exact Hw|]. split; [exact Hws|].
  apply N.leb_le in H1. apply negb_true_iff in H3. apply mem_duty_false in H3.
  apply (same_set_spec def_eqb _ _ def_eqb_eq) in H2. destruct H2 as [_ [I1 I2]].
  split; [|split].
  - assert (Hd : w_due w = att_due D fm (w_slot w)) by (apply (waiting_due_from (ginit t0) pre); [intros w0 [] | exact Hw]).
    rewrite Hd, Hws in H1. exact H1.
  - intro x. split; [apply I1 | apply I2].
  - assert (Hpre : monitor_from D spe fm (ginit t0) pre = true).
    { unfold monitor in Hm0. rewrite Hls, monitor_from_app in Hm0. apply andb_true_iff in Hm0. tauto. }
    destruct (at_most_once_from (ginit t0) pre (NoDup_nil _) Hpre) as [_ B]. simpl in B. fold g in B.
    rewrite B in H3. exact H3.
Qed.

(* At a quiescent point no waiting duty is due. *)
Theorem quiet_no_due_waiting t0 ls pre post :
  monitor D spe fm t0 ls = true -> ls = pre ++ LQuiet :: post ->
  forall w, In w (g_pend (ghost_after D spe fm (ginit t0) pre)) -> now_after t0 pre < w_due w.
Proof.
  intros Hm -> w Hw. apply monitor_at in Hm. simpl in Hm. unfold due_none in Hm. rewrite forallb_forall in Hm.
  apply N.ltb_lt. apply Hm. exact Hw.
Qed.

(* A waiting duty stays waiting until it is released. *)
Lemma waiting_stays g mid w :
  In w (g_pend g) -> existsb (is_fire (w_slot w)) mid = false -> In w (g_pend (ghost_after D spe fm g mid)).
Proof.
  revert g. induction mid as [|l r IH]; intros g Hw Hn; [exact Hw|].
  simpl in Hn. apply orb_false_iff in Hn. destruct Hn as [Hl Hr]. simpl. apply IH; [|exact Hr].
  destruct l as [dt|t sc outs|ep|hs hf|fs fd|]; try exact Hw.
  - destruct (gstep_tick_shape g t sc outs) as [m [_ [_ [_ [_ A]]]]]. rewrite A. apply in_or_app. left. exact Hw.
  - simpl. destruct (g_resolved g); [destruct (ep <? n)|]; exact Hw.
  - simpl. apply remove_w_in. split; [exact Hw|]. simpl in Hl. apply N.eqb_neq in Hl. congruence.
Qed.

(* Hence: a duty waiting after [pre] whose release instant has passed at a later quiescent point has
   been released in between. *)
Theorem waiting_released t0 ls pre mid post w :
  monitor D spe fm t0 ls = true -> ls = pre ++ mid ++ LQuiet :: post ->
  In w (g_pend (ghost_after D spe fm (ginit t0) pre)) -> w_due w <= now_after t0 (pre ++ mid) ->
  exists defs, In (LFire (w_slot w) defs) mid.
Proof.
  intros Hm Hls Hw Hdue.
  destruct (existsb (is_fire (w_slot w)) mid) eqn:E.
  - apply existsb_exists in E. destruct E as [l [Hl Hf]]. destruct l as [dt|t sc outs|ep|hs hf|fs fd|]; try discriminate.
    simpl in Hf. apply N.eqb_eq in Hf. subst fs. exists fd. exact Hl.
  - exfalso. pose proof (waiting_stays _ mid w Hw E) as Hst. rewrite <- ghost_after_app in Hst.
    assert (Hls' : ls = (pre ++ mid) ++ LQuiet :: post) by (rewrite Hls, app_assoc; reflexivity).
    pose proof (quiet_no_due_waiting t0 ls (pre ++ mid) post Hm Hls' w Hst). lia.
Qed.
(* The first resolution of a tick (made because the epoch is not the resolved one) is in the log the
   tick's triggers are computed from: a duty resolved at its own slot is triggered at that slot. *)
Lemma first_resolution_logged t0 pre t rn sc' it :
  optN_is (g_resolved (ghost_after D spe fm (ginit t0) pre)) (epoch_of spe t) = false ->
  In it (g_log (gres spe (ghost_after D spe fm (ginit t0) pre) t rn)) ->
  In it (log_at t0 pre t (rn :: sc')).
Proof. intros H Hin. unfold log_at, g_first. rewrite H. simpl. exact Hin. Qed.

Lemma gres_att_item g slot rn vals la :
  r_vals rn = Some vals -> filter (is_active (epoch_of spe slot)) vals <> [] -> ok_res (r_att rn) = Some la ->
  In (I KAtt (epoch_of spe slot) slot (filter (is_active (epoch_of spe slot)) vals) la) (g_log (gres spe g slot rn)).
Proof.
  intros Hv Hact Ha. unfold gres. rewrite Hv.
  destruct (filter (is_active (epoch_of spe slot)) vals) as [|v0 a0] eqn:E; [congruence|].
  rewrite Ha.
  set (ia := I KAtt (epoch_of spe slot) slot (v0 :: a0) la).
  assert (H1 : In ia (g_log (g_add g ia))) by (simpl; apply in_or_app; right; left; reflexivity).
  destruct (aborted ia); [exact H1|].
  destruct (ok_res (r_pro rn)) as [lp|]; [|exact H1].
  set (ip := I KPro (epoch_of spe slot) slot (v0 :: a0) lp).
  assert (H2 : In ia (g_log (g_add (g_add g ia) ip))) by (simpl; apply in_or_app; left; exact H1).
  destruct (aborted ip); [exact H2|].
  destruct (ok_res (r_sync rn)) as [ls|]; [|exact H2].
  set (isy := I KSync (epoch_of spe slot) slot (v0 :: a0) ls).
  assert (H3 : In ia (g_log (g_add (g_add (g_add g ia) ip) isy))) by (simpl; apply in_or_app; left; exact H2).
  destruct (aborted isy); exact H3.
Qed.

(* -- a failed resolution only adds to the log; it never marks the epoch resolved -- *)

Definition completes (slot : N) (rn : resn) : bool :=
  match r_vals rn with
  | None => false
  | Some vals =>
      let act := filter (is_active (epoch_of spe slot)) vals in
      match act with
      | [] => true
      | _ =>
        match ok_res (r_att rn), ok_res (r_pro rn), ok_res (r_sync rn) with
        | Some la, Some lp, Some ls =>
            negb (aborted (I KAtt (epoch_of spe slot) slot act la)) &&
            negb (aborted (I KPro (epoch_of spe slot) slot act lp)) &&
            negb (aborted (I KSync (epoch_of spe slot) slot act ls))
        | _, _, _ => false
        end
      end
  end.

Theorem gres_resolved g slot rn :
  g_resolved (gres spe g slot rn) = if completes slot rn then Some (epoch_of spe slot) else g_resolved g.
Proof.
  unfold gres, completes. destruct (r_vals rn) as [vals|]; [|reflexivity].
  destruct (filter (is_active (epoch_of spe slot)) vals) as [|v0 a0]; [reflexivity|].
  destruct (ok_res (r_att rn)) as [la|]; [|reflexivity].
  destruct (ok_res (r_pro rn)) as [lp|]; [|destruct (aborted _); reflexivity].
  destruct (ok_res (r_sync rn)) as [ls|]; [|destruct (aborted _); [|destruct (aborted _)]; reflexivity].
  destruct (aborted (I KAtt _ _ _ la)); [reflexivity|].
  destruct (aborted (I KPro _ _ _ lp)); [reflexivity|].
  destruct (aborted (I KSync _ _ _ ls)); reflexivity.
Qed.

Theorem gres_vals_error_noop g slot rn : r_vals rn = None -> gres spe g slot rn = g.
Proof. intro H. unfold gres. rewrite H. reflexivity. Qed.

Theorem gres_att_error_noop g slot rn : ok_res (r_att rn) = None -> completes slot rn = false -> gres spe g slot rn = g.
Proof.
  intros H Hc. unfold gres, completes in *. destruct (r_vals rn) as [vals|]; [|reflexivity].
  destruct (filter (is_active (epoch_of spe slot)) vals); [discriminate|]. rewrite H. reflexivity.
Qed.

(* -- run-level facts: clock, ticker, retries -- *)

Definition clock_after (t0 : N) (ls : list label) : N :=
  fold_left (fun n l => match l with LAdv dt => n + dt | _ => n end) ls t0.

Fixpoint last_tick (ls : list label) (acc : option N) : option N :=
  match ls with
  | [] => acc
  | LTick t _ _ :: r => last_tick r (Some t)
  | _ :: r => last_tick r acc
  end.

Lemma tick_loop_frame tys t s sc s' sc' outs :
  tick_loop D spe fm tys t s sc = Some (s', sc', outs) -> expect s' = expect s /\ now s' = now s.
Proof.
  revert s sc s' sc' outs. induction tys as [|ty r IH]; intros s sc s' sc' outs H; simpl in H.
  - injection H as <- _ _. split; reflexivity.
  - destruct (fst (store s) (ty, t)) as [|x xs]; [apply (IH _ _ _ _ _ H)|].
    set (s0 := if fire_later fm ty then with_pend s (pend s ++ [(t, x :: xs, att_due D fm t)]) else s) in *.
    assert (H0 : expect s0 = expect s /\ now s0 = now s) by (unfold s0; destruct (fire_later fm ty); split; reflexivity).
    destruct H0 as [H0a H0b].
    destruct (last_in_epoch spe t).
    + destruct sc as [|rn sc0]; [discriminate|].
      destruct (resolve spe fm s0 (t + 1) rn) as [s1|] eqn:Er; [|discriminate].
      destruct (tick_loop D spe fm r t s1 sc0) as [[[s2 sc2] o2]|] eqn:Et; [|discriminate].
      injection H as <- _ _. apply resolve_frame in Er. apply IH in Et. destruct Er as [E1 [E2 _]], Et. split; congruence.
    + destruct (tick_loop D spe fm r t s0 sc) as [[[s2 sc2] o2]|] eqn:Et; [|discriminate].
      injection H as <- _ _. apply IH in Et. destruct Et. split; congruence.
Qed.

Lemma sched_slot_frame s t sc s' sc' outs :
  sched_slot D spe fm s t sc = Some (s', sc', outs) -> expect s' = expect s /\ now s' = now s.
Proof.
  unfold sched_slot. intro H. destruct (optN_is (resolved s) (epoch_of spe t)).
  - apply (tick_loop_frame _ _ _ _ _ _ _ H).
  - destruct sc as [|rn sc0]; [discriminate|].
    destruct (resolve spe fm s t rn) as [s1|] eqn:Er; [|discriminate].
    apply resolve_frame in Er. apply tick_loop_frame in H. destruct Er as [E1 [E2 _]], H. split; congruence.
Qed.

Lemma tick_loop_not_last tys t s sc s' sc' outs :
  last_in_epoch spe t = false -> tick_loop D spe fm tys t s sc = Some (s', sc', outs) -> sc' = sc.
Proof.
  intro Hl. revert s sc s' sc' outs. induction tys as [|ty r IH]; intros s sc s' sc' outs H; simpl in H.
  - injection H as _ <- _. reflexivity.
  - rewrite Hl in H. destruct (fst (store s) (ty, t)) as [|x xs]; [apply (IH _ _ _ _ _ H)|].
    destruct (tick_loop D spe fm r t _ sc) as [[[s2 sc2] o2]|] eqn:Et; [|discriminate].
    injection H as _ <- _. apply (IH _ _ _ _ _ Et).
Qed.

Lemma run_app s a b : run D spe fm ff s (a ++ b) = match run D spe fm ff s a with Some s1 => run D spe fm ff s1 b | None => None end.
Proof.
  revert s. induction a as [|l r IH]; intro s; simpl; [reflexivity|].
  destruct (step D spe fm ff s l); [apply IH | reflexivity].
Qed.

Lemma wf_trace_app a b : wf_trace spe (a ++ b) = wf_trace spe a && wf_trace spe b.
Proof. unfold wf_trace. apply forallb_app. Qed.

Lemma run_inv_from s g ls s' :
  Inv spe s g -> wf_trace spe ls = true -> run D spe fm ff s ls = Some s' -> Inv spe s' (ghost_after D spe fm g ls).
Proof.
  revert s g. induction ls as [|l r IH]; intros s g HI Hwf H; simpl in *.
  - injection H as <-. exact HI.
  - apply andb_true_iff in Hwf. destruct Hwf as [Hwl Hwr].
    destruct (step D spe fm ff s l) as [s1|] eqn:Es; [|discriminate].
    destruct (step_sound D spe fm ff HD Hs s g l s1 HI Hwl Es) as [_ HI1]. apply (IH _ _ HI1 Hwr H).
Qed.

(* While the epoch of the tick is not the resolved one, every tick asks the beacon node again; once it
   is, and the slot is not the last of its epoch, the beacon node is not asked at all. *)
Theorem retry_until_resolved t0 ls s pre t sc outs post :
  wf_trace spe ls = true -> run D spe fm ff (init D t0) ls = Some s -> ls = pre ++ LTick t sc outs :: post ->
  (optN_is (g_resolved (ghost_after D spe fm (ginit t0) pre)) (epoch_of spe t) = false -> sc <> []) /\
  (optN_is (g_resolved (ghost_after D spe fm (ginit t0) pre)) (epoch_of spe t) = true ->
   last_in_epoch spe t = false -> sc = []).
Proof.
  intros Hwf H ->. rewrite wf_trace_app in Hwf. apply andb_true_iff in Hwf. destruct Hwf as [Hw1 _].
  rewrite run_app in H. destruct (run D spe fm ff (init D t0) pre) as [s1|] eqn:E1; [|discriminate].
  pose proof (run_inv_from _ _ _ _ (inv_init D spe t0) Hw1 E1) as [HS _].
  cbn [run] in H. destruct (step D spe fm ff s1 (LTick t sc outs)) as [s2|] eqn:Est; [|discriminate]. clear H.
  unfold step in Est. destruct (ticker_enabled D s1 && (t =? ticker_slot D s1)); [|discriminate].
  destruct (sched_slot D spe fm _ t sc) as [[[s3 sc3] exp]|] eqn:Esch; [|discriminate].
  destruct sc3; [|discriminate]. clear Est.
  unfold sched_slot in Esch. cbn [resolved] in Esch. rewrite (sim_res _ _ _ _ HS) in Esch.
  split.
  - intros Hr ->. rewrite Hr in Esch. discriminate.
  - intros Hr Hl. rewrite Hr in Esch.
    apply (tick_loop_not_last _ _ _ _ _ _ _ Hl) in Esch. symmetry. exact Esch.
Qed.

Lemma ghost_now g ls : g_now (ghost_after D spe fm g ls) = clock_after (g_now g) ls.
Proof.
  revert g. induction ls as [|l r IH]; intro g; [reflexivity|]. simpl. rewrite IH. unfold clock_after. simpl.
  f_equal. destruct l as [dt|t sc outs|ep|hs hf|fs fd|]; try reflexivity.
  - destruct (gstep_tick_shape g t sc outs) as [m [_ [_ [_ [A _]]]]]. exact A.
  - simpl. destruct (g_resolved g); [destruct (ep <? n)|]; reflexivity.
Qed.

Lemma now_after_clock t0 pre : now_after t0 pre = clock_after t0 pre.
Proof. unfold now_after. rewrite ghost_now. reflexivity. Qed.

(* The slot ticker: slots strictly increase (it skips, never repeats), a slot is never delivered before
   it starts, and at every quiescent point the most recent tick is the tick of the current slot. *)
Record TInv (t0 : N) (pre : list label) (s : state) : Prop := {
  ti_now : now s = clock_after t0 pre;
  ti_ge : t0 <= now s;
  ti_none : last_tick pre None = None -> expect s = t0 / D;
  ti_some : forall t, last_tick pre None = Some t -> expect s = t + 1 /\ t * D <= now s;
  ti_sorted : forall t, In t (tick_slots pre) -> t < expect s;
  ti_ss : StronglySorted N.lt (tick_slots pre);
  ti_lo : t0 / D <= expect s
}.

Lemma clock_after_snoc t0 pre l :
  clock_after t0 (pre ++ [l]) = match l with LAdv dt => clock_after t0 pre + dt | _ => clock_after t0 pre end.
Proof. unfold clock_after. rewrite fold_left_app. reflexivity. Qed.

Lemma last_tick_snoc pre l acc :
  last_tick (pre ++ [l]) acc = match l with LTick t _ _ => Some t | _ => last_tick pre acc end.
Proof.
  revert acc. induction pre as [|x r IH]; intro acc; simpl.
  - destruct l; reflexivity.
  - destruct x; apply IH.
Qed.

Lemma tick_slots_snoc pre l :
  tick_slots (pre ++ [l]) = tick_slots pre ++ match l with LTick t _ _ => [t] | _ => [] end.
Proof. unfold tick_slots. rewrite flat_map_app. simpl. rewrite app_nil_r. reflexivity. Qed.

Lemma ss_snoc l x : StronglySorted N.lt l -> (forall y, In y l -> y < x) -> StronglySorted N.lt (l ++ [x]).
Proof.
  induction l as [|a r IH]; simpl; intros Hss Hlt; [repeat constructor|].
  inversion Hss as [|? ? Hr Ha]; subst. constructor.
  - apply IH; [exact Hr | intros y Hy; apply Hlt; right; exact Hy].
  - apply Forall_app. split; [exact Ha | constructor; [apply Hlt; left; reflexivity | constructor]].
Qed.

Lemma tinv_step t0 pre s l s' : TInv t0 pre s -> step D spe fm ff s l = Some s' -> TInv t0 (pre ++ [l]) s'.
Proof.
  intros [I1 I2 I3 I4 I5 I6 I7] H. destruct l as [dt|t sc outs|ep|hs hf|fs fd|].
  - simpl in H. injection H as <-. constructor; simpl; rewrite ?clock_after_snoc, ?last_tick_snoc, ?tick_slots_snoc, ?app_nil_r; try assumption; try lia.
    intros t Ht. destruct (I4 t Ht). split; [assumption | lia].
  - simpl in H. destruct (ticker_enabled D s && (t =? ticker_slot D s)) eqn:Een; [|discriminate].
    apply andb_true_iff in Een. destruct Een as [Een Et]. apply N.eqb_eq in Et.
    destruct (ticker_facts D spe HD Hs s t Een Et) as [Hge Hst].
    destruct (sched_slot D spe fm _ t sc) as [[[s1 sc1] exp]|] eqn:Esch; [|discriminate].
    destruct sc1; [|discriminate]. destruct (same_set trig_eqb outs exp); [|discriminate]. injection H as <-.
    apply sched_slot_frame in Esch. simpl in Esch. destruct Esch as [E1 E2].
    constructor; rewrite ?clock_after_snoc, ?last_tick_snoc, ?tick_slots_snoc; try congruence.
    + intros t' Ht'. injection Ht' as <-. split; [exact E1 | congruence].
    + intros t' Ht'. apply in_app_or in Ht'. rewrite E1. destruct Ht' as [Ht'|[<-|[]]]; [apply I5 in Ht'; lia | lia].
    + apply ss_snoc; [exact I6|]. intros y Hy. apply I5 in Hy. lia.
    + lia.
  - assert (Hf : expect s' = expect s /\ now s' = now s).
    { simpl in H. destruct (resolved s); [destruct (ep <? n)|]; injection H as <-; split; reflexivity. }
    destruct Hf as [E1 E2].
    constructor; rewrite ?clock_after_snoc, ?last_tick_snoc, ?tick_slots_snoc, ?app_nil_r, ?E1, ?E2; assumption.
  - assert (Hf : expect s' = expect s /\ now s' = now s).
    { simpl in H. destruct (ff && flags_on fm && nonempty (fst (store s) (Attester, hs)) && negb (memN hs (eta s))).
      - destruct hf as [defs|]; [|discriminate]. destruct (same_set def_eqb defs _); [|discriminate].
        injection H as <-. split; reflexivity.
      - destruct hf; [discriminate|]. injection H as <-. split; reflexivity. }
    destruct Hf as [E1 E2].
    constructor; rewrite ?clock_after_snoc, ?last_tick_snoc, ?tick_slots_snoc, ?app_nil_r, ?E1, ?E2; assumption.
  - assert (Hf : expect s' = expect s /\ now s' = now s).
    { simpl in H. destruct (find_w fs (pend s)) as [w|]; [|discriminate].
      destruct ((w_due w <=? now s) && same_set def_eqb fd (w_defs w)); [|discriminate].
      injection H as <-. split; reflexivity. }
    destruct Hf as [E1 E2].
    constructor; rewrite ?clock_after_snoc, ?last_tick_snoc, ?tick_slots_snoc, ?app_nil_r, ?E1, ?E2; assumption.
  - simpl in H. destruct (ticker_enabled D s || negb (due_none (now s) (pend s))); [discriminate|]. injection H as <-.
    constructor; rewrite ?clock_after_snoc, ?last_tick_snoc, ?tick_slots_snoc, ?app_nil_r; assumption.
Qed.

Lemma tinv_init t0 : TInv t0 [] (init D t0).
Proof.
  constructor; simpl; try reflexivity; try lia; try (intros t H; discriminate); try (intros t []).
  constructor.
Qed.


Lemma tinv_run t0 pre s ls s' : TInv t0 pre s -> run D spe fm ff s ls = Some s' -> TInv t0 (pre ++ ls) s'.
Proof.
  revert pre s. induction ls as [|l r IH]; intros pre s HI H; simpl in H.
  - injection H as <-. rewrite app_nil_r. exact HI.
  - destruct (step D spe fm ff s l) as [s1|] eqn:Es; [|discriminate].
    replace (pre ++ l :: r) with ((pre ++ [l]) ++ r) by (rewrite <- app_assoc; reflexivity).
    apply (IH _ s1); [apply (tinv_step _ _ s); assumption | exact H].
Qed.

Theorem ticker_monotone t0 ls s :
  run D spe fm ff (init D t0) ls = Some s ->
  StronglySorted N.lt (tick_slots ls) /\
  (forall pre t sc outs post, ls = pre ++ LTick t sc outs :: post -> t * D <= clock_after t0 pre /\ t0 / D <= t).
Proof.
  intro H. split.
  - apply (ti_ss t0 _ s). apply (tinv_run t0 [] (init D t0) ls s (tinv_init t0) H).
  - intros pre t sc outs post ->. rewrite run_app in H.
    destruct (run D spe fm ff (init D t0) pre) as [s1|] eqn:E1; [|discriminate].
    pose proof (tinv_run t0 [] _ pre s1 (tinv_init t0) E1) as [I1 I2 I3 I4 I5 I6 I7]. simpl in *.
    destruct (ticker_enabled D s1 && (t =? ticker_slot D s1)) eqn:Een; [|discriminate].
    apply andb_true_iff in Een. destruct Een as [Een Et]. apply N.eqb_eq in Et.
    destruct (ticker_facts D spe HD Hs s1 t Een Et) as [Hge Hst]. rewrite <- I1. split; [exact Hst | lia].
Qed.

(* At a quiescent point the most recent tick is the tick of the current slot: no due tick is missing. *)
Theorem quiet_current_slot_ticked t0 ls s pre post :
  run D spe fm ff (init D t0) ls = Some s -> ls = pre ++ LQuiet :: post ->
  last_tick pre None = Some (clock_after t0 pre / D).
Proof.
  intros H ->. rewrite run_app in H.
  destruct (run D spe fm ff (init D t0) pre) as [s1|] eqn:E1; [|discriminate].
  pose proof (tinv_run t0 [] _ pre s1 (tinv_init t0) E1) as [I1 I2 I3 I4 I5 I6 I7]. simpl in *.
  destruct (ticker_enabled D s1) eqn:Een; [discriminate|].
  unfold ticker_enabled in Een. apply N.leb_gt in Een. rewrite <- I1.
  destruct (last_tick pre None) as [t|] eqn:El.
  - destruct (I4 t eq_refl) as [A B]. f_equal. symmetry. apply div_eq; [exact HD | exact B | rewrite <- A; exact Een].
  - exfalso. rewrite (I3 eq_refl) in Een. pose proof (div_bounds t0 D HD). lia.
Qed.

End Readings.

(* A failed validators call changes nothing at all in the scheduler's state. *)
Theorem resolve_vals_error_noop spe fm s slot r s' : r_vals r = None -> resolve spe fm s slot r = Some s' -> s' = s.
Proof.
  intros Hv H. unfold resolve in H. rewrite Hv in H.
  destruct (none_call (r_att r) && none_call (r_pro r) && none_call (r_sync r)); [|discriminate].
  injection H as <-. reflexivity.
Qed.

(* ---- non-vacuity ---- *)

(* Slots of 12 ns, 4 per epoch, two validators. Tick 0: the attester answer is accepted, the proposer
   call fails; tick 1: retry, the beacon node now answers differently (validator 10 moved from slot 1 to
   slot 3) -- the first definitions stay; ticks 2, 3; on slot 3 (last of the epoch) the next epoch is
   resolved once per triggered duty type; a clock jump skips slots 4 and 5; a reorg event; tick 6
   resolves again. *)
Definition ex_vals := [V 10 100 true 0; V 11 101 true 0; V 12 102 false 9].
Definition ex_trace : list label := [
  LTick 0 [R (Some ex_vals) (Some (C 0 [11; 10] (Some [E 10 100 1 906; E 11 101 1 381]))) (Some (C 0 [10; 11] None)) None] [];
  LQuiet; LAdv 12;
  LTick 1 [R (Some ex_vals) (Some (C 0 [10; 11] (Some [E 11 101 2 684; E 10 100 3 9; E 70 9070 3 1])))
             (Some (C 0 [10; 11] (Some [E 10 100 3 0]))) (Some (C 0 [10; 11] (Some [E 11 101 0 456])))]
          [T Attester 1 [(101, E 11 101 1 381); (100, E 10 100 1 906)] (Some 16);
           T Aggregator 1 [(100, E 10 100 1 906); (101, E 11 101 1 381)] (Some 20);
           T SyncContribution 1 [(101, E 11 101 0 456)] (Some 20)];
  LQuiet; LAdv 12;
  LTick 2 [] [T Attester 2 [(101, E 11 101 2 684)] (Some 28); T Aggregator 2 [(101, E 11 101 2 684)] (Some 32);
              T SyncContribution 2 [(101, E 11 101 0 456)] (Some 32)];
  LQuiet; LAdv 12;
  LTick 3 [R (Some ex_vals) (Some (C 1 [10; 11] (Some [E 10 100 6 5]))) (Some (C 1 [10; 11] (Some []))) (Some (C 1 [10; 11] (Some [])));
           R None None None None;
           R (Some ex_vals) (Some (C 1 [10; 11] None)) None None;
           R (Some ex_vals) (Some (C 1 [10; 11] (Some [E 10 100 6 5]))) (Some (C 1 [10; 11] (Some []))) (Some (C 1 [10; 11] (Some [])))]
          [T Proposer 3 [(100, E 10 100 3 0)] None; T Attester 3 [(100, E 10 100 3 9)] (Some 40);
           T Aggregator 3 [(100, E 10 100 3 9)] (Some 44); T SyncContribution 3 [(101, E 11 101 0 456)] (Some 44)];
  LQuiet; LAdv 30; LReorg 0;
  LTick 5 [R (Some ex_vals) (Some (C 1 [10; 11] (Some [E 10 100 6 77]))) (Some (C 1 [10; 11] (Some []))) (Some (C 1 [10; 11] (Some [])))] [];
  LQuiet; LAdv 6;
  LTick 6 [] [T Attester 6 [(100, E 10 100 6 77)] (Some 76); T Aggregator 6 [(100, E 10 100 6 77)] (Some 80)];
  LQuiet ].

Example ex_trace_accepted :
  (exists s, run 12 4 FOff false (init 12 0) ex_trace = Some s) /\ wf_trace 4 ex_trace = true /\ monitor 12 4 FOff 0 ex_trace = true.
Proof. split; [eexists; vm_compute; reflexivity | split; vm_compute; reflexivity]. Qed.

(* Dropping the retry's first-wins rule, duplicating a trigger, or triggering with another deadline
   is rejected by the monitor. *)
Example ex_duplicate_rejected :
  monitor 12 4 FOff 0 (ex_trace ++ [LAdv 1; LTick 6 [] [T Attester 6 [(100, E 10 100 6 77)] (Some 76)]]) = false.
Proof. vm_compute. reflexivity. Qed.

Example ex_overwrite_rejected :
  monitor 12 4 FOff 0 [LTick 0 [R (Some ex_vals) (Some (C 0 [11; 10] (Some [E 10 100 1 906; E 11 101 1 381]))) (Some (C 0 [10; 11] None)) None] [];
                  LAdv 12;
                  LTick 1 [R (Some ex_vals) (Some (C 0 [10; 11] (Some [E 10 100 1 5]))) (Some (C 0 [10; 11] (Some []))) (Some (C 0 [10; 11] (Some [])))]
                          [T Attester 1 [(100, E 10 100 1 5); (101, E 11 101 1 381)] (Some 16);
                           T Aggregator 1 [(100, E 10 100 1 5); (101, E 11 101 1 381)] (Some 20)]] = false.
Proof. vm_compute. reflexivity. Qed.

(* Outside the input domain (an attester answer for epoch 0 naming a slot of epoch 3) the code, as
   modelled, drops a duty: the definition is filed under dutiesByEpoch[0]; resolving epoch 3 keeps it
   (first wins) and then trims epoch 0, which deletes the whole duty; slot 13 is never triggered. *)
Definition off_epoch_trace : list label := [
  LTick 0 [R (Some [V 10 100 true 0]) (Some (C 0 [10] (Some [E 10 100 13 5]))) (Some (C 0 [10] (Some []))) (Some (C 0 [10] (Some [])))] [];
  LAdv 144;
  LTick 12 [R (Some [V 10 100 true 0]) (Some (C 3 [10] (Some [E 10 100 13 7]))) (Some (C 3 [10] (Some []))) (Some (C 3 [10] (Some [])))] [];
  LAdv 12;
  LTick 13 [] [] ].

Example off_epoch_answer_drops_duty :
  (exists s, run 12 4 FOff false (init 12 0) off_epoch_trace = Some s) /\ wf_trace 4 off_epoch_trace = false
  /\ monitor 12 4 FOff 0 off_epoch_trace = false.
Proof. split; [eexists; vm_compute; reflexivity | split; vm_compute; reflexivity]. Qed.

(* fetch_att_on_block enabled, fetch-only function registered. Slot 1's attester duty is resolved on
   tick 0. A head event for slot 1 is handled after the ticker delivered slot 1 and before its duties are
   dispatched (early fetch with the definition set); the attester duty then waits until 12 + 4 and is
   released there -- not at the tick; a second head event for slot 1 after the release does nothing. *)
Definition ex_flags_trace : list label := [
  LTick 0 [R (Some ex_vals) (Some (C 0 [10; 11] (Some [E 10 100 1 906; E 11 101 1 381]))) (Some (C 0 [10; 11] (Some [])))
             (Some (C 0 [10; 11] (Some [])))] [];
  LQuiet; LHead 2 None; LAdv 12;
  LHead 1 (Some [(101, E 11 101 1 381); (100, E 10 100 1 906)]);
  LTick 1 [] [T Aggregator 1 [(100, E 10 100 1 906); (101, E 11 101 1 381)] (Some 20)];
  LQuiet; LHead 1 None; LAdv 3; LQuiet; LAdv 1;
  LFire 1 [(100, E 10 100 1 906); (101, E 11 101 1 381)];
  LQuiet; LHead 1 None; LAdv 8; LTick 2 [] []; LQuiet ].

Example ex_flags_trace_accepted :
  (exists s, run 12 4 FOn true (init 12 0) ex_flags_trace = Some s) /\ wf_trace 4 ex_flags_trace = true
  /\ monitor 12 4 FOn 0 ex_flags_trace = true.
Proof. split; [eexists; vm_compute; reflexivity | split; vm_compute; reflexivity]. Qed.

(* The same history with the attester subscribers called right at the tick of slot 1 (what a fast path
   "the head event already came, nothing to wait for" produces) violates the property: the duty is
   triggered 4 ns before its offset. *)
Definition ex_flags_early_trace : list label := [
  LTick 0 [R (Some ex_vals) (Some (C 0 [10; 11] (Some [E 10 100 1 906; E 11 101 1 381]))) (Some (C 0 [10; 11] (Some [])))
             (Some (C 0 [10; 11] (Some [])))] [];
  LQuiet; LAdv 12;
  LHead 1 (Some [(101, E 11 101 1 381); (100, E 10 100 1 906)]);
  LTick 1 [] [T Aggregator 1 [(100, E 10 100 1 906); (101, E 11 101 1 381)] (Some 20)];
  LFire 1 [(100, E 10 100 1 906); (101, E 11 101 1 381)] ].

Example ex_flags_early_release_rejected :
  monitor 12 4 FOn 0 ex_flags_early_trace = false /\ run 12 4 FOn true (init 12 0) ex_flags_early_trace = None.
Proof. split; vm_compute; reflexivity. Qed.

(* With the with_delay flag the release is 300ms later. *)
Example ex_delay_offset : att_offset 12000000000 FOnDelay = 4300000000 /\ att_offset 12000000000 FOn = 4000000000.
Proof. split; vm_compute; reflexivity. Qed.

(* ---- never for a validator outside the cluster ---- *)

(* [cl] = the public keys of the cluster's validators. The scheduler takes its validators from
   CompleteValidators, i.e. (app/app.go) from eth2wrap.ValidatorCache, which queries the beacon node with
   the cluster's public keys as filter. [vals_in_cluster]: every validators answer handed to the scheduler
   contains cluster validators only -- checked on every recorded history, in particular on those that run
   the real ValidatorCache against a beacon node that knows other validators too.
   [trigs_in_cluster]: every triggered definition is for a cluster public key. *)
Definition vals_in_cluster (cl : list N) (ls : list label) : bool :=
  forallb (fun l => match l with
                    | LTick _ sc _ =>
                        forallb (fun rn => match r_vals rn with
                                           | Some vs => forallb (fun v => memN (v_pk v) cl) vs
                                           | None => true
                                           end) sc
                    | _ => true
                    end) ls.

Definition trigs_in_cluster (cl : list N) (ls : list label) : bool :=
  forallb (fun l => match l with
                    | LTick _ _ outs => forallb (fun tr => forallb (fun d => memN (fst d) cl) (t_defs tr)) outs
                    | LFire _ defs => forallb (fun d => memN (fst d) cl) defs
                    | _ => true
                    end) ls.

Theorem never_outside_cluster D spe fm cl t0 ls pre t sc outs post tr pk e :
  0 < spe -> vals_in_cluster cl ls = true -> monitor D spe fm t0 ls = true ->
  ls = pre ++ LTick t sc outs :: post -> In tr outs -> In (pk, e) (t_defs tr) -> memN pk cl = true.
Proof.
  intros Hs Hv Hm Hls Htr Hdef.
  destruct (triggered_only_assigned D spe fm Hs t0 ls pre t sc outs post tr pk e Hm Hls Htr Hdef)
    as [t' [sc' [outs' [rn [slot [vals [v [A [B [_ [C [E [_ [_ [F _]]]]]]]]]]]]]]].
  assert (Hin : In (LTick t' sc' outs') ls).
  { rewrite Hls. apply in_app_or in A. apply in_or_app. destruct A as [A|[A|[]]]; [left; exact A | right; left; exact A]. }
  unfold vals_in_cluster in Hv. rewrite forallb_forall in Hv. specialize (Hv _ Hin). simpl in Hv.
  rewrite forallb_forall in Hv. specialize (Hv rn B). rewrite C in Hv. rewrite forallb_forall in Hv.
  specialize (Hv v E). rewrite F in Hv. exact Hv.
Qed.
