(* Proofs about the admission model Flow/Gate.v. *)
From Coq Require Import List ZArith NArith Bool Lia.
From Charon Require Import Flow.Gate.
Import ListNotations.

Lemma gsig_eqb_eq : forall a b, gsig_eqb a b = true <-> a = b.
Proof.
  destruct a, b; simpl; split; intro H; try discriminate; try reflexivity.
  - apply andb_true_iff in H as [H H3]. apply andb_true_iff in H as [H1 H2].
    apply N.eqb_eq in H1, H3. apply Z.eqb_eq in H2. subst. reflexivity.
  - inversion H; subst. rewrite !N.eqb_refl, Z.eqb_refl. reflexivity.
  - apply N.eqb_eq in H. subst. reflexivity.
  - inversion H. apply N.eqb_refl.
Qed.

Lemma gerr_eqb_eq : forall a b, gerr_eqb a b = true <-> a = b.
Proof. destruct a, b; simpl; split; intro H; try discriminate; try reflexivity. Qed.

Lemma memz_In : forall i l, memz i l = true <-> In i l.
Proof.
  intros. unfold memz. rewrite existsb_exists. split.
  - intros [x [Hx E]]. apply Z.eqb_eq in E. subst. assumption.
  - intro H. exists i. split; [assumption|apply Z.eqb_refl].
Qed.

(* ---------- the rule ---------- *)

Lemma lets_in_spec : forall lock v i rho s,
  lets_in lock v i rho s = true <-> exists sh, lookup v lock = Some sh /\ In i sh /\ s = GSig v i rho.
Proof.
  intros. unfold lets_in. destruct (lookup v lock) as [sh|]; split.
  - intro H. apply andb_true_iff in H as [H1 H2]. exists sh. repeat split; [apply memz_In; assumption|apply gsig_eqb_eq; assumption].
  - intros [sh' [E [Hin Hs]]]. inversion E; subst sh'. apply andb_true_iff. split; [apply memz_In; assumption|apply gsig_eqb_eq; assumption].
  - discriminate.
  - intros [sh [E _]]. discriminate.
Qed.

(* the verifier run by the code lets a signature through exactly when the rule says so
   (and the object is eth2 signed data) *)
Lemma verify_share_rule : forall lock v i raw rho s,
  verify_share lock v i raw rho s = None <-> raw = false /\ lets_in lock v i rho s = true.
Proof.
  intros. unfold verify_share, lets_in. destruct (lookup v lock) as [sh|]; [|split; [discriminate|intros [_ H]; discriminate]].
  destruct (memz i sh); simpl; [|split; [discriminate|intros [_ H]; discriminate]].
  destruct raw; [split; [discriminate|intros [H _]; discriminate]|].
  destruct s; simpl.
  - destruct (N.eqb v0 v && Z.eqb j i && N.eqb rho0 rho); split; auto; try discriminate. intros [_ H]; discriminate.
  - split; [discriminate|intros [_ H]; discriminate].
  - split; [discriminate|intros [_ H]; discriminate].
Qed.

Lemma item_outcome_ok : forall lock e it, item_outcome lock e it = None <-> item_ok lock e it = true.
Proof.
  intros. unfold item_outcome, item_ok. destruct (i_who it) as [v|]; [|split; discriminate].
  destruct (i_prop it); simpl; [|split; discriminate].
  destruct (i_inner it); simpl; [|split; discriminate].
  rewrite verify_share_rule. destruct (i_raw it); simpl; split.
  - intros [H _]; discriminate.
  - discriminate.
  - intros [_ H]; assumption.
  - auto.
Qed.

(* ---------- alteration_rejected: about the rule ---------- *)
Section Alter.
Variable content : Type.
Variable sroot : content -> N.
Hypothesis sroot_inj : forall c c', sroot c = sroot c' -> c = c'.

Theorem alteration_rejected : forall lock v i c s,
  lets_in lock v i (sroot c) s = true ->
  (forall c', c' <> c -> lets_in lock v i (sroot c') s = false)            (* any change of the signed content *)
  /\ (forall rho, rho <> sroot c -> lets_in lock v i rho s = false)        (* other domain / fork / epoch: other signing root *)
  /\ (forall j, j <> i -> lets_in lock v j (sroot c) s = false)            (* presented under another share index *)
  /\ (forall v', v' <> v -> lets_in lock v' i (sroot c) s = false)         (* presented for another validator *)
  /\ (forall s', s' <> s -> lets_in lock v i (sroot c) s' = false)         (* any other signature: other share's, zero, garbage *)
  /\ lets_in lock v i (sroot c) GZero = false.
Proof.
  intros lock v i c s H. apply lets_in_spec in H as [sh [El [Hin Hs]]]. subst s.
  assert (G : forall v' j rho, (v', j, rho) <> (v, i, sroot c) -> lets_in lock v' j rho (GSig v i (sroot c)) = false).
  { intros v' j rho Hne. destruct (lets_in lock v' j rho (GSig v i (sroot c))) eqn:E; [|reflexivity].
    apply lets_in_spec in E as [sh' [_ [_ Hs]]]. inversion Hs; subst. exfalso; apply Hne; reflexivity. }
  repeat split.
  - intros c' Hc. apply G. intro E. inversion E. apply Hc. apply sroot_inj. assumption.
  - intros rho Hr. apply G. intro E. inversion E. contradiction.
  - intros j Hj. apply G. intro E. inversion E. contradiction.
  - intros v' Hv. apply G. intro E. inversion E. contradiction.
  - intros s' Hs'. destruct (lets_in lock v i (sroot c) s') eqn:E; [|reflexivity].
    apply lets_in_spec in E as [_ [_ [_ Hs]]]. subst s'. contradiction.
  - destruct (lets_in lock v i (sroot c) GZero) eqn:E; [|reflexivity]. apply lets_in_spec in E as [_ [_ [_ Hs]]]. discriminate.
Qed.
End Alter.

Theorem unknown_or_out_of_range_rejected : forall lock v i rho s,
  (lookup v lock = None -> lets_in lock v i rho s = false) /\
  (forall sh, lookup v lock = Some sh -> ~ In i sh -> lets_in lock v i rho s = false).
Proof.
  intros. split.
  - intro H. unfold lets_in. rewrite H. reflexivity.
  - intros sh H Hn. destruct (lets_in lock v i rho s) eqn:E; [|reflexivity].
    apply lets_in_spec in E as [sh' [E' [Hin _]]]. rewrite H in E'. inversion E'; subst. contradiction.
Qed.

(* ---------- accepted labels satisfy the monitor ---------- *)

Lemma errs_nil : forall lock e items,
  flat_map (fun o : option gerr => match o with Some x => [x] | None => [] end) (map (item_outcome lock e) items) = [] ->
  forall it, In it items -> item_ok lock e it = true.
Proof.
  induction items as [|a r IH]; simpl; intros H it Hin; [contradiction|].
  destruct (item_outcome lock e a) eqn:E; simpl in H; [discriminate|].
  destruct Hin as [Heq|Hin]; [subst; apply item_outcome_ok; assumption|auto].
Qed.

Lemma errs_some : forall lock e items it x, In it items -> item_outcome lock e it = Some x ->
  flat_map (fun o : option gerr => match o with Some x => [x] | None => [] end) (map (item_outcome lock e) items) <> [].
Proof.
  intros lock e items it x Hin Ho Hnil. pose proof (errs_nil lock e items Hnil it Hin) as Hok.
  apply item_outcome_ok in Hok. congruence.
Qed.

Lemma all_empty_monitor : forall l, all_empty (l_calls l) = true -> monitor1_nf l = true.
Proof.
  intros l H. unfold monitor1_nf. rewrite H. rewrite orb_true_l, andb_true_r.
  apply forallb_forall. intros call Hc. unfold all_empty in H. rewrite forallb_forall in H. specialize (H call Hc).
  destruct call; [reflexivity|discriminate].
Qed.

Lemma normal_monitor : forall l,
  own_idx_ok (l_ent l) (l_items l) = true ->
  (match l_ent l with VApi _ => True | Peer g _ => gate_ok g = true end) ->
  (let lock := l_lock l in let e := l_ent l in
   let os := map (item_outcome lock e) (l_items l) in
   let errs := flat_map (fun o => match o with Some x => [x] | None => [] end) os in
   match errs with
   | [] => opt_eqb (l_err l) None && forallb (delivered_matches e (l_items l)) (l_calls l)
   | x :: _ => all_empty (l_calls l) &&
       match e, l_err l with
       | VApi _, Some y => err_sim y x
       | Peer _ _, Some y => existsb (err_sim y) errs
       | _, None => false
       end
   end) = true ->
  monitor1_nf l = true.
Proof.
  intros l Hown Hgate H. cbv zeta in H.
  destruct (flat_map _ (map (item_outcome (l_lock l) (l_ent l)) (l_items l))) as [|x xs] eqn:Ee.
  - apply andb_true_iff in H as [_ H]. pose proof (errs_nil _ _ _ Ee) as Hok.
    unfold monitor1_nf. apply andb_true_iff. split.
    + rewrite forallb_forall in H. apply forallb_forall. intros call Hc. specialize (H call Hc).
      unfold delivered_matches in H. apply andb_true_iff in H as [H _]. rewrite forallb_forall in H.
      apply forallb_forall. intros d Hd. specialize (H d Hd). apply andb_true_iff in H as [Hv Hex].
      rewrite Hv. simpl. apply existsb_exists in Hex as [it [Hit Hm]].
      apply andb_true_iff. split.
      * unfold ent_ok. destruct (l_ent l) as [self|g dec] eqn:El; [|assumption].
        unfold item_matches in Hm. destruct (i_who it); [|discriminate].
        apply andb_true_iff in Hm as [Hm _]. apply andb_true_iff in Hm as [_ Hm]. simpl in Hm. apply Z.eqb_eq in Hm. subst. apply Z.eqb_refl.
      * apply existsb_exists. exists it. split; [assumption|]. rewrite Hm. simpl. apply Hok. assumption.
    + apply orb_true_iff. right. apply forallb_forall. assumption.
  - apply andb_true_iff in H as [H _]. apply all_empty_monitor. assumption.
Qed.

Lemma accepts_nf_monitor1 : forall l, accepts_nf l = true -> monitor1_nf l = true.
Proof.
  intros l H. unfold accepts_nf in H. cbv zeta in H.
  apply andb_true_iff in H as [H Hn]. apply andb_true_iff in H as [H _]. apply andb_true_iff in H as [_ Hown].
  destruct (l_ent l) as [self|g dec] eqn:El.
  - apply normal_monitor; [rewrite El; assumption|rewrite El; exact I|rewrite El; assumption].
  - destruct (negb (gate_ok g)) eqn:Eg.
    + apply andb_true_iff in Hn as [_ Hn]. apply all_empty_monitor. assumption.
    + destruct (negb dec).
      * apply andb_true_iff in Hn as [_ Hn]. apply all_empty_monitor. assumption.
      * apply normal_monitor; [rewrite El; assumption|rewrite El; apply negb_false_iff in Eg; assumption|rewrite El; assumption].
Qed.


(* ---------- with env faults ---------- *)

Lemma all_empty_In : forall (calls : list (list dobs)) call, all_empty calls = true -> In call calls -> call = [].
Proof.
  intros calls call H Hc. unfold all_empty in H. rewrite forallb_forall in H. specialize (H call Hc).
  destruct call; [reflexivity|discriminate].
Qed.

Lemma accepts_fault : forall l, accepts l = true -> l_fault l = true ->
  all_empty (l_calls l) = true /\ l_err l <> None.
Proof.
  intros l H Hf. unfold accepts in H. rewrite Hf in H.
  apply andb_true_iff in H as [H He]. apply andb_true_iff in H as [_ H]. split; [assumption|].
  destruct (l_err l); [discriminate|discriminate].
Qed.

Lemma accepts_nofault : forall l, accepts l = true -> l_fault l = false -> accepts_nf l = true.
Proof. intros l H Hf. unfold accepts in H. rewrite Hf in H. assumption. Qed.

Lemma accepts_monitor1 : forall l, accepts l = true -> monitor1 l = true.
Proof.
  intros l H. unfold monitor1. destruct (l_fault l) eqn:Hf.
  - destruct (accepts_fault l H Hf) as [He _]. rewrite He. rewrite (all_empty_monitor l He). reflexivity.
  - rewrite (accepts_nf_monitor1 l (accepts_nofault l H Hf)). reflexivity.
Qed.

Theorem run_monitor : forall ls s, run init ls = Some s -> monitor ls = true.
Proof.
  intros ls s. generalize init. induction ls as [|l r IH]; simpl; intros s0 H; [reflexivity|].
  unfold step in H. destruct (accepts l) eqn:E; [|discriminate].
  rewrite (accepts_monitor1 l E). simpl. eapply IH; eassumption.
Qed.

(* ---------- Prop-level readings ---------- *)

(* accepted_valid: nothing reaches a subscriber unless the rule lets it in *)
Theorem accepted_valid_nf : forall l, accepts_nf l = true ->
  forall call d, In call (l_calls l) -> In d call ->
  d_valid d = true /\
  (match l_ent l with VApi self => d_idx d = self | Peer g _ => gate_ok g = true end) /\
  exists it sh, In it (l_items l) /\ i_who it = Some (d_v d) /\ i_root it = d_root d /\ i_raw it = false /\
    i_prop it = true /\ i_inner it = true /\
    lookup (d_v d) (l_lock l) = Some sh /\ In (d_idx d) sh /\ i_sig it = GSig (d_v d) (d_idx d) (d_root d).
Proof.
  intros l Ha call d Hc Hd. pose proof (accepts_nf_monitor1 l Ha) as Hm. unfold monitor1_nf in Hm.
  apply andb_true_iff in Hm as [Hm _]. rewrite forallb_forall in Hm. specialize (Hm call Hc).
  rewrite forallb_forall in Hm. specialize (Hm d Hd).
  apply andb_true_iff in Hm as [Hm Hex]. apply andb_true_iff in Hm as [Hv He].
  split; [assumption|]. split.
  - unfold ent_ok in He. destruct (l_ent l); [apply Z.eqb_eq; assumption|assumption].
  - apply existsb_exists in Hex as [it [Hit Hx]]. apply andb_true_iff in Hx as [Hmt Hok].
    unfold item_matches in Hmt. unfold item_ok in Hok. destruct (i_who it) as [v|] eqn:Ew; [|discriminate].
    apply andb_true_iff in Hmt as [Hmt Hr]. apply andb_true_iff in Hmt as [Hv' Hi].
    apply N.eqb_eq in Hv', Hr. apply Z.eqb_eq in Hi. subst v.
    apply andb_true_iff in Hok as [Hok Hlet]. apply andb_true_iff in Hok as [Hok Hraw]. apply andb_true_iff in Hok as [Hp Hin].
    apply negb_true_iff in Hraw. rewrite Hi, Hr in Hlet. apply lets_in_spec in Hlet as [sh [El [Hsh Hs]]].
    exists it, sh. repeat split; auto.
Qed.

(* peer_set_atomic (holds for both entrances): one bad entry => no subscriber receives anything *)
Theorem set_atomic_nf : forall l, accepts_nf l = true ->
  forall it x, In it (l_items l) -> item_outcome (l_lock l) (l_ent l) it = Some x ->
  (forall call, In call (l_calls l) -> call = []) /\ l_err l <> None.
Proof.
  intros l H it x Hin Ho. unfold accepts_nf in H. cbv zeta in H.
  apply andb_true_iff in H as [_ Hn].
  pose proof (errs_some _ _ _ _ _ Hin Ho) as Hne.
  assert (G : (let errs := flat_map (fun o : option gerr => match o with Some x => [x] | None => [] end)
                        (map (item_outcome (l_lock l) (l_ent l)) (l_items l)) in
          match errs with
          | [] => opt_eqb (l_err l) None && forallb (delivered_matches (l_ent l) (l_items l)) (l_calls l)
          | x :: _ => all_empty (l_calls l) &&
              match l_ent l, l_err l with
              | VApi _, Some y => err_sim y x
              | Peer _ _, Some y => existsb (err_sim y) errs
              | _, None => false
              end
          end) = true -> (forall call, In call (l_calls l) -> call = []) /\ l_err l <> None).
  { cbv zeta. destruct (flat_map _ _) as [|y ys]; [contradiction|]. intro G.
    apply andb_true_iff in G as [G1 G2]. split.
    - intros call Hc. unfold all_empty in G1. rewrite forallb_forall in G1. specialize (G1 call Hc). destruct call; [reflexivity|discriminate].
    - destruct (l_err l); [discriminate|]. destruct (l_ent l); discriminate. }
  assert (G' : forall e0, all_empty (l_calls l) = true -> opt_eqb (l_err l) (Some e0) = true ->
               (forall call, In call (l_calls l) -> call = []) /\ l_err l <> None).
  { intros e0 G1 G2. split.
    - intros call Hc. unfold all_empty in G1. rewrite forallb_forall in G1. specialize (G1 call Hc). destruct call; [reflexivity|discriminate].
    - destruct (l_err l); [discriminate|discriminate]. }
  destruct (l_ent l) as [self|g dec] eqn:El.
  - apply G. assumption.
  - destruct (negb (gate_ok g)).
    + apply andb_true_iff in Hn as [Hn1 Hn2]. eapply G'; eassumption.
    + destruct (negb dec).
      * apply andb_true_iff in Hn as [Hn1 Hn2]. eapply G'; eassumption.
      * apply G. assumption.
Qed.

(* a duty outside the gater window: nothing from that message reaches a subscriber *)
Theorem peer_gate_closed_nf : forall l g dec, accepts_nf l = true -> l_ent l = Peer g dec -> gate_ok g = false ->
  (forall call, In call (l_calls l) -> call = []) /\ l_err l = Some EGate.
Proof.
  intros l g dec H El Hg. unfold accepts_nf in H. cbv zeta in H. apply andb_true_iff in H as [_ Hn].
  rewrite El in Hn. rewrite Hg in Hn. simpl in Hn. apply andb_true_iff in Hn as [Hn1 Hn2]. split.
  - intros call Hc. unfold all_empty in Hn2. rewrite forallb_forall in Hn2. specialize (Hn2 call Hc). destruct call; [reflexivity|discriminate].
  - destruct (l_err l) as [y|]; [|discriminate]. simpl in Hn1. apply gerr_eqb_eq in Hn1. subst. reflexivity.
Qed.


(* ---------- the same readings for the full model (env faults included) ---------- *)

Theorem accepted_valid : forall l, accepts l = true ->
  forall call d, In call (l_calls l) -> In d call ->
  d_valid d = true /\
  (match l_ent l with VApi self => d_idx d = self | Peer g _ => gate_ok g = true end) /\
  exists it sh, In it (l_items l) /\ i_who it = Some (d_v d) /\ i_root it = d_root d /\ i_raw it = false /\
    i_prop it = true /\ i_inner it = true /\
    lookup (d_v d) (l_lock l) = Some sh /\ In (d_idx d) sh /\ i_sig it = GSig (d_v d) (d_idx d) (d_root d).
Proof.
  intros l Ha call d Hc Hd. destruct (l_fault l) eqn:Hf.
  - destruct (accepts_fault l Ha Hf) as [He _]. rewrite (all_empty_In _ _ He Hc) in Hd. contradiction.
  - apply (accepted_valid_nf l (accepts_nofault l Ha Hf) call d Hc Hd).
Qed.

Theorem set_atomic : forall l, accepts l = true ->
  forall it x, In it (l_items l) -> item_outcome (l_lock l) (l_ent l) it = Some x ->
  (forall call, In call (l_calls l) -> call = []) /\ l_err l <> None.
Proof.
  intros l Ha it x Hin Ho. destruct (l_fault l) eqn:Hf.
  - destruct (accepts_fault l Ha Hf) as [He Hn]. split; [intros call Hc; apply (all_empty_In _ _ He Hc)|assumption].
  - apply (set_atomic_nf l (accepts_nofault l Ha Hf) it x Hin Ho).
Qed.

Theorem peer_gate_closed : forall l g dec, accepts l = true -> l_fault l = false -> l_ent l = Peer g dec -> gate_ok g = false ->
  (forall call, In call (l_calls l) -> call = []) /\ l_err l = Some EGate.
Proof. intros l g dec Ha Hf. apply peer_gate_closed_nf. apply accepts_nofault; assumption. Qed.

(* env fault => Reject: nothing is delivered and an error is returned, whatever was submitted *)
Theorem fault_rejects : forall l, accepts l = true -> l_fault l = true ->
  (forall call, In call (l_calls l) -> call = []) /\ l_err l <> None.
Proof.
  intros l Ha Hf. destruct (accepts_fault l Ha Hf) as [He Hn]. split; [intros call Hc; apply (all_empty_In _ _ He Hc)|assumption].
Qed.

(* the gater's arithmetic: a duty more than [allowed] epochs ahead of the current epoch is refused *)
Lemma gate_window : forall g, gate_ok g = true ->
  g_type_valid g = true /\ (g_duty_slot g / g_spe g <= g_now_slot g / g_spe g + g_allowed g)%N.
Proof. intros g H. unfold gate_ok in H. apply andb_true_iff in H as [H1 H2]. apply N.leb_le in H2. auto. Qed.

(* ---------- non-vacuity ---------- *)
Definition ex_lock : lockt := [(0%N, [1%Z; 2%Z; 3%Z; 4%Z]); (1%N, [1%Z; 2%Z; 3%Z; 4%Z])].
Definition ex_vapi_ok : label :=
  mkl ex_lock (VApi 2%Z)
      [ mki (Some 0%N) 2%Z false 1%N (GSig 0 2 1) true true; mki (Some 1%N) 2%Z false 1%N (GSig 1 2 1) true true ] 1
      false None [ [ mkd 1%N 2%Z 1%N true; mkd 0%N 2%Z 1%N true ] ].
Example ex_vapi_ok_accepted : run init [ex_vapi_ok] = Some tt.
Proof. vm_compute. reflexivity. Qed.

Definition ex_peer_bad : label :=
  mkl ex_lock (Peer (mkg true 100 96 32 2) true)
      [ mki (Some 0%N) 3%Z false 1%N (GSig 0 3 1) true true; mki (Some 1%N) 3%Z false 1%N (GSig 1 4 1) true true ] 2
      false (Some EBadSig) [ []; [] ].
Example ex_peer_bad_accepted : accepts ex_peer_bad = true.
Proof. vm_compute. reflexivity. Qed.
Example ex_peer_bad_delivery_refused :
  accepts (mkl ex_lock (Peer (mkg true 100 96 32 2) true) (l_items ex_peer_bad) 1 false None
               [ [ mkd 0%N 3%Z 1%N true; mkd 1%N 3%Z 1%N false ] ]) = false.
Proof. vm_compute. reflexivity. Qed.
Example ex_peer_gate : accepts (mkl ex_lock (Peer (mkg true 200 96 32 2) true) (l_items ex_vapi_ok) 1 false (Some EGate) [ [] ]) = true.
Proof. vm_compute. reflexivity. Qed.

(* a faulted call that delivers is refused; one that rejects is accepted whatever the submission *)
Example ex_fault_delivery_refused :
  accepts (mkl ex_lock (VApi 2%Z) (l_items ex_vapi_ok) 1 true None [ [ mkd 0%N 2%Z 1%N true; mkd 1%N 2%Z 1%N true ] ]) = false.
Proof. vm_compute. reflexivity. Qed.
Example ex_fault_reject_accepted :
  accepts (mkl ex_lock (VApi 2%Z) (l_items ex_vapi_ok) 1 true (Some EPre) [ [] ]) = true.
Proof. vm_compute. reflexivity. Qed.
