(* Model of the consensus receive handler: core/consensus/qbft/qbft.go  (Consensus.handle,
   verifyMsg, verifyMsgLimits, valuesByHash), msg.go (newMsg, verifyMsgSig, hashProto, toHash32),
   the Decide callback of newDefinition and transport.setValues.

   A wire message (pbv1.QBFTConsensusMsg) is abstracted to
     - a main part and a list of justification parts (pbv1.QBFTMsg; [None] = nil pointer),
     - a list of values (anypb.Any: type URL and inner bytes; [None] = nil pointer).
   A part is its *signed content* (every field of the proto except the signature: type, duty
   presence, slot, duty type, peer index, round, value hash, prepared round, prepared value hash,
   and [c_extra] = whatever else the deterministic serialisation contains: unknown fields at either
   nesting level, fields a later version of the proto may add) together with the signature.

   Cryptography is symbolic and enters only through Section variables:
     encode : content -> ebytes     proto.MarshalOptions{Deterministic}.Marshal of the part with
                                    Signature = nil
     H      : ebytes -> digest      the ssz root hashProto computes over those bytes
     verify : key -> digest -> sigT -> bool      k1util.Recover(hash, sig) == key
     decode : typeurl -> vbytes -> option cbytes anypb.UnmarshalNew followed by the deterministic
                                    re-serialisation of the inner message (None = error)
     Hv     : cbytes -> N           hashProto of the inner message (as a 32-byte big-endian number)
   NOTE (finding F11): the value hash is  Hv (decode tu b) : the type URL [tu] selects the decoder
   but is not itself hashed.

   [decide] mirrors handle line by line up to and including the last ctx check; [handle] adds the
   deadliner call and the enqueue, which is the LAST step.  The labelled transition system
   ([step]/[run]) threads the per-duty receive buffers through a sequence of handle calls, buffer
   reads and instance deletions; a label carries what the harness observes on the real component. *)
From Coq Require Import List ZArith NArith Bool Lia PeanoNat.
Import ListNotations.
Set Implicit Arguments.

(* ---------------------------------------------------------------------------------------------- *)
(* Plain data *)

Definition dutyv := (N * Z)%type.                 (* core.Duty: slot (uint64), type (int) *)
Definition duty_eqb (a b : dutyv) : bool := N.eqb (fst a) (fst b) && Z.eqb (snd a) (snd b).

Lemma duty_eqb_eq : forall a b, duty_eqb a b = true <-> a = b.
Proof.
  intros [s t] [s' t']; unfold duty_eqb; simpl. rewrite andb_true_iff, N.eqb_eq, Z.eqb_eq.
  split; [intros [-> ->]; reflexivity | intros H; inversion H; auto].
Qed.

Lemma duty_eqb_refl : forall a, duty_eqb a a = true.
Proof. intros; apply duty_eqb_eq; reflexivity. Qed.

(* A bytes field that is meant to carry a 32-byte hash: (length, big-endian value). *)
Definition hfield := (nat * N)%type.

(* msg.go toHash32: a hash is referenced iff the field is exactly 32 bytes and not all zero. *)
Definition to_hash32 (f : hfield) : option N :=
  if Nat.eqb (fst f) 32 && negb (N.eqb (snd f) 0) then Some (snd f) else None.

(* qbft.MsgType.Valid: MsgUnknown(0) < t < msgSentinel(6);  core.DutyType.Valid: 0 < t < dutySentinel(14).
   The two sentinels are compared with the Go tables on every run. *)
Definition msg_sentinel : Z := 6.
Definition duty_sentinel : Z := 14.
Definition msgtype_valid (t : Z) : bool := (0 <? t)%Z && (t <? msg_sentinel)%Z.
Definition dutytype_valid (t : Z) : bool := (0 <? t)%Z && (t <? duty_sentinel)%Z.

(* instance.RecvBufferSize *)
Definition cap : nat := 100.

Inductive status := Scheduled | Expired | Exempt.     (* core.DeadlineStatus returned by Add *)

(* Rejection classes of verifyMsg, in the order of its checks. *)
Inductive preason :=
| PInvalid      (* "invalid consensus message": nil message or nil duty *)
| PType         (* "invalid consensus message type" *)
| PDutyType     (* "invalid consensus message duty type" *)
| PRound        (* "invalid consensus message round": round <= 0 *)
| PPrepRound    (* "invalid consensus message prepared round": prepared round < 0 *)
| PPeer         (* "invalid peer index" *)
| PSig.         (* empty signature / recover error / "invalid consensus message signature" *)

(* Rejection classes of handle, in the order of its checks. *)
Inductive reason :=
| RMain (p : preason)     (* verifyMsg on the main part (RMain PInvalid also: req is not a QBFTConsensusMsg) *)
| RGater                  (* "invalid duty" *)
| RTooManyJust            (* "too many justifications" *)
| RTooManyValues          (* "too many values" *)
| RCtxJust                (* "receive cancelled during justification verification" *)
| RJust (p : preason)     (* "invalid justification: ..." *)
| RJustDuty               (* "qbft justification duty differs from message duty" *)
| RValues                 (* valuesByHash: "unmarshal any" / "cannot hash any proto" *)
| RValueMissing           (* newMsg: "value hash not found in values" *)
| RPvMissing              (* newMsg: "prepared value hash not found in values" *)
| RCtx                    (* "receive cancelled during verification" *)
| RDeadline               (* "duty expired or exempt" *)
| REnqueue.               (* "timeout enqueuing receive buffer" *)

Inductive result := Accept | Reject (r : reason).

Definition preason_eqb (a b : preason) : bool :=
  match a, b with
  | PInvalid, PInvalid | PType, PType | PDutyType, PDutyType | PRound, PRound
  | PPrepRound, PPrepRound | PPeer, PPeer | PSig, PSig => true
  | _, _ => false
  end.

Definition reason_eqb (a b : reason) : bool :=
  match a, b with
  | RMain p, RMain q | RJust p, RJust q => preason_eqb p q
  | RGater, RGater | RTooManyJust, RTooManyJust | RTooManyValues, RTooManyValues
  | RCtxJust, RCtxJust | RJustDuty, RJustDuty | RValues, RValues | RValueMissing, RValueMissing
  | RPvMissing, RPvMissing | RCtx, RCtx | RDeadline, RDeadline | REnqueue, REnqueue => true
  | _, _ => false
  end.

Definition result_eqb (a b : result) : bool :=
  match a, b with
  | Accept, Accept => true
  | Reject r, Reject r' => reason_eqb r r'
  | _, _ => false
  end.

Lemma preason_eqb_eq : forall a b, preason_eqb a b = true -> a = b.
Proof. destruct a, b; simpl; intros; congruence. Qed.

Lemma reason_eqb_eq : forall a b, reason_eqb a b = true -> a = b.
Proof.
  destruct a, b; simpl; intros H; try congruence; apply preason_eqb_eq in H; congruence.
Qed.

Lemma result_eqb_eq : forall a b, result_eqb a b = true -> a = b.
Proof. destruct a, b; simpl; intros H; try congruence. apply reason_eqb_eq in H; congruence. Qed.

(* ---------------------------------------------------------------------------------------------- *)

Section Model.
  Variables key sigT ebytes digest typeurl vbytes cbytes extra : Type.

  (* Everything of a pbv1.QBFTMsg that the signature covers. *)
  Record content := {
    c_type   : Z;
    c_duty   : option dutyv;      (* None: the duty sub-message is absent *)
    c_peer   : Z;
    c_round  : Z;
    c_vhash  : hfield;
    c_pr     : Z;
    c_pvhash : hfield;
    c_extra  : extra;
  }.

  Record part := { p_c : content; p_sig : option sigT }.   (* p_sig = None: Signature == nil *)

  Definition value := (typeurl * vbytes)%type.

  Record wire := {
    w_msg    : option part;
    w_just   : list (option part);
    w_values : list (option value);
  }.

  Variable encode : content -> ebytes.
  Variable H : ebytes -> digest.
  Variable verify : key -> digest -> sigT -> bool.
  Variable decode : typeurl -> vbytes -> option cbytes.
  Variable Hv : cbytes -> N.

  (* hashProto(UnmarshalNew(any)) *)
  Definition vhash (v : value) : option N :=
    match decode (fst v) (snd v) with Some c => Some (Hv c) | None => None end.

  (* What handle reads from the Consensus struct and from its collaborators during one call. *)
  Record env := {
    e_keys     : list key;            (* c.pubkeys: peer index i (0 <= i < n) -> key *)
    e_gater    : dutyv -> bool;       (* c.gaterFunc *)
    e_deadline : dutyv -> status;     (* what c.deadliner.Add(duty) returns *)
    e_ctx      : nat -> bool;         (* k-th poll of ctx.Err() != nil during this call (k = 0,1,...) *)
  }.

  Definition pubkey (e : env) (i : Z) : option key :=
    if ((i <? 0) || (Z.of_nat (length (e_keys e)) <=? i))%Z then None else nth_error (e_keys e) (Z.to_nat i).

  Definition nodes (e : env) : nat := length (e_keys e).

  (* verifyMsg: inl = verified (the part, its duty, the key it verified under). *)
  Definition verify_part (e : env) (op : option part) : (part * dutyv * key) + preason :=
    match op with
    | None => inr PInvalid
    | Some p =>
      let c := p_c p in
      match c_duty c with
      | None => inr PInvalid
      | Some d =>
        if negb (msgtype_valid (c_type c)) then inr PType else
        if negb (dutytype_valid (snd d)) then inr PDutyType else
        if (c_round c <=? 0)%Z then inr PRound else
        if (c_pr c <? 0)%Z then inr PPrepRound else
        match pubkey e (c_peer c) with
        | None => inr PPeer
        | Some k =>
          match p_sig p with
          | None => inr PSig
          | Some s => if verify k (H (encode c)) s then inl (p, d, k) else inr PSig
          end
        end
      end
    end.

  (* The loop over the justifications in handle; [i] counts the ctx polls made so far. *)
  Fixpoint verify_justs (e : env) (d : dutyv) (i : nat) (js : list (option part)) : option reason :=
    match js with
    | [] => None
    | oj :: r =>
      if e_ctx e i then Some RCtxJust else
      match verify_part e oj with
      | inr pr => Some (RJust pr)
      | inl (_, dj, _) => if duty_eqb dj d then verify_justs e d (S i) r else Some RJustDuty
      end
    end.

  (* valuesByHash: map hash -> value; a later value with the same hash replaces an earlier one. *)
  Definition vmap := list (N * value).

  Fixpoint vlookup (m : vmap) (h : N) : option value :=
    match m with
    | [] => None
    | (h', v) :: r => if N.eqb h' h then Some v else vlookup r h
    end.

  Fixpoint values_by_hash (vs : list (option value)) (acc : vmap) : option vmap :=
    match vs with
    | [] => Some acc
    | None :: _ => None
    | Some v :: r =>
      match vhash v with
      | None => None
      | Some h => values_by_hash r ((h, v) :: acc)
      end
    end.

  Definition has (m : vmap) (h : N) : bool := match vlookup m h with Some _ => true | None => false end.

  (* newMsg on one part: value hash first, then prepared value hash. *)
  Definition check_refs (m : vmap) (c : content) : option reason :=
    match to_hash32 (c_vhash c) with
    | Some h => if has m h then
                  match to_hash32 (c_pvhash c) with
                  | Some h' => if has m h' then None else Some RPvMissing
                  | None => None
                  end
                else Some RValueMissing
    | None => match to_hash32 (c_pvhash c) with
              | Some h' => if has m h' then None else Some RPvMissing
              | None => None
              end
    end.

  Fixpoint check_refs_all (m : vmap) (ps : list (option part)) : option reason :=
    match ps with
    | [] => None
    | None :: _ => Some (RMain PInvalid)          (* "nil qbft message": unreachable after verification *)
    | Some p :: r => match check_refs m (p_c p) with Some x => Some x | None => check_refs_all m r end
    end.

  (* What reaches the receive buffer: qbft.Msg = the wire message and its values map. *)
  Record qmsg := { q_id : N; q_wire : wire; q_vm : vmap }.

  Inductive verdict :=
  | VReject (r : reason)
  | VPass (d : dutyv) (w : wire) (m : vmap).    (* every check before c.deadliner.Add passed *)

  (* handle up to and including the second ctx check. [None] = req is nil or of another type. *)
  Definition decide (e : env) (req : option wire) : verdict :=
    match req with
    | None => VReject (RMain PInvalid)
    | Some w =>
      match verify_part e (w_msg w) with
      | inr pr => VReject (RMain pr)
      | inl (mp, d, _) =>
        if negb (e_gater e d) then VReject RGater else
        if 2 * nodes e <? length (w_just w) then VReject RTooManyJust else
        if 2 * (length (w_just w) + 1) <? length (w_values w) then VReject RTooManyValues else
        match verify_justs e d 0 (w_just w) with
        | Some r => VReject r
        | None =>
          match values_by_hash (w_values w) [] with
          | None => VReject RValues
          | Some m =>
            match check_refs_all m (Some mp :: w_just w) with
            | Some r => VReject r
            | None => if e_ctx e (length (w_just w)) then VReject RCtx else VPass d w m
            end
          end
        end
      end
    end.

  (* Mutable state of the component that handle can touch: the per-duty instance map (receive
     buffers; an entry with an empty buffer is an instance that exists). *)
  Definition state := list (dutyv * list qmsg).

  Fixpoint buf (st : state) (d : dutyv) : option (list qmsg) :=
    match st with
    | [] => None
    | (d', b) :: r => if duty_eqb d' d then Some b else buf r d
    end.

  Fixpoint set_buf (st : state) (d : dutyv) (b : list qmsg) : state :=
    match st with
    | [] => [(d, b)]
    | (d', b') :: r => if duty_eqb d' d then (d', b) :: r else (d', b') :: set_buf r d b
    end.

  Fixpoint del_buf (st : state) (d : dutyv) : state :=
    match st with
    | [] => []
    | (d', b') :: r => if duty_eqb d' d then del_buf r d else (d', b') :: del_buf r d
    end.

  Definition buf0 (st : state) (d : dutyv) : list qmsg := match buf st d with Some b => b | None => [] end.

  (* The whole of handle: (result, was deadliner.Add called, new state).
     The deadliner is consulted only after every verification passed; getRecvBuffer (which creates
     the instance if needed) is evaluated next; the send to the buffer is the last step.  A full
     buffer blocks the send until ctx is done ("timeout enqueuing receive buffer"). *)
  Definition handle (e : env) (st : state) (id : N) (req : option wire) : result * bool * state :=
    match decide e req with
    | VReject r => (Reject r, false, st)
    | VPass d w m =>
      match e_deadline e d with
      | Scheduled =>
        let b := buf0 st d in
        if cap <=? length b then (Reject REnqueue, true, set_buf st d b)
        else (Accept, true, set_buf st d (b ++ [{| q_id := id; q_wire := w; q_vm := m |}]))
      | _ => (Reject RDeadline, true, st)
      end
    end.

  (* Decide callback of newDefinition: the value handed to the subscribers is looked up, by the
     decided hash, in the values map of the first commit message, then UnmarshalNew'ed: what a
     subscriber sees is the type named by the URL and the decoded inner message. *)
  Definition decide_lookup (q : qmsg) (h : N) : option value := vlookup (q_vm q) h.

  Definition delivered (q : qmsg) (h : N) : option (typeurl * cbytes) :=
    match decide_lookup q h with
    | Some (tu, b) => match decode tu b with Some c => Some (tu, c) | None => None end
    | None => None
    end.

  (* transport.setValues: maps.Copy(t.values, msg.Values()): entries of the message replace cached ones. *)
  Definition set_values (cache : vmap) (q : qmsg) : vmap := q_vm q ++ cache.

  (* -------------------------------------------------------------------------------------------- *)
  (* Labelled transition system *)

  Definition snapshot := list (dutyv * list N).     (* per existing instance: ids in its buffer, oldest first *)

  Definition snap (st : state) : snapshot := map (fun x => (fst x, map q_id (snd x))) st.

  Inductive label :=
  | LHandle (id : N) (e : env) (req : option wire) (res : result) (dl_called : bool) (after : snapshot)
      (* one handle call: inputs, the returned error class, whether deadliner.Add was called, and
         the receive buffers of all instances after the call *)
  | LDrain (d : dutyv) (ids : list N)      (* the transport read these messages, in this order, from d's buffer *)
  | LDelete (d : dutyv).                      (* deleteInstanceIO(d) (duty expired) *)

  Fixpoint ids_eqb (a b : list N) : bool :=
    match a, b with
    | [], [] => true
    | x :: r, y :: s => N.eqb x y && ids_eqb r s
    | _, _ => false
    end.

  Fixpoint snap_get (s : snapshot) (d : dutyv) : option (list N) :=
    match s with
    | [] => None
    | (d', l) :: r => if duty_eqb d' d then Some l else snap_get r d
    end.

  Definition snap_sub (a b : snapshot) : bool :=
    forallb (fun x => match snap_get b (fst x) with Some l => ids_eqb (snd x) l | None => false end) a.

  (* Same instances with the same buffer contents; the order of the instance map is not observable. *)
  Definition snap_eqb (a b : snapshot) : bool :=
    Nat.eqb (length a) (length b) && snap_sub a b && snap_sub b a.

  Fixpoint take_prefix (ids : list N) (b : list qmsg) : option (list qmsg) :=
    match ids, b with
    | [], _ => Some b
    | i :: r, q :: s => if N.eqb i (q_id q) then take_prefix r s else None
    | _ :: _, [] => None
    end.

  Definition step (st : state) (l : label) : option state :=
    match l with
    | LHandle id e req res dl after =>
      let '(r, dl', st') := handle e st id req in
      if result_eqb r res && Bool.eqb dl dl' && snap_eqb (snap st') after then Some st' else None
    | LDrain d ids =>
      match buf st d with
      | Some b => match take_prefix ids b with Some b' => Some (set_buf st d b') | None => None end
      | None => match ids with [] => Some st | _ => None end
      end
    | LDelete d => Some (del_buf st d)
    end.

  Fixpoint run (st : state) (ls : list label) : option state :=
    match ls with
    | [] => Some st
    | l :: r => match step st l with Some st' => run st' r | None => None end
    end.

  Fixpoint first_reject (st : state) (ls : list label) (i : nat) : option nat :=
    match ls with
    | [] => None
    | l :: r => match step st l with Some st' => first_reject st' r (S i) | None => Some i end
    end.

  (* -------------------------------------------------------------------------------------------- *)
  (* The property, transcribed as a boolean over one label (no model state, no order of checks). *)

  Definition part_ok (e : env) (p : part) : bool :=
    let c := p_c p in
    msgtype_valid (c_type c) &&
    match c_duty c with Some d => dutytype_valid (snd d) | None => false end &&
    (0 <? c_round c)%Z && (0 <=? c_pr c)%Z &&
    match pubkey e (c_peer c), p_sig p with
    | Some k, Some s => verify k (H (encode c)) s
    | _, _ => false
    end.

  Definition resolves (vs : list (option value)) (f : hfield) : bool :=
    match to_hash32 f with
    | None => true
    | Some h => existsb (fun ov => match ov with
                                   | Some v => match vhash v with Some h' => N.eqb h' h | None => false end
                                   | None => false end) vs
    end.

  Definition spec_ok (e : env) (req : option wire) : bool :=
    match req with
    | None => false
    | Some w =>
      match w_msg w with
      | None => false
      | Some mp =>
        match c_duty (p_c mp) with
        | None => false
        | Some d =>
          part_ok e mp &&
          forallb (fun oj => match oj with
                             | Some j => part_ok e j &&
                                         match c_duty (p_c j) with Some dj => duty_eqb dj d | None => false end
                             | None => false end) (w_just w) &&
          e_gater e d &&
          match e_deadline e d with Scheduled => true | _ => false end &&
          (length (w_just w) <=? 2 * nodes e) &&
          (length (w_values w) <=? 2 * (length (w_just w) + 1)) &&
          forallb (fun op => match op with
                             | Some p => resolves (w_values w) (c_vhash (p_c p)) && resolves (w_values w) (c_pvhash (p_c p))
                             | None => false end) (Some mp :: w_just w)
        end
      end
    end.

  (* Ghost state of the monitor: the snapshot seen last (adjusted for reads and deletions). *)
  Fixpoint snap_set (s : snapshot) (d : dutyv) (l : list N) : snapshot :=
    match s with
    | [] => [(d, l)]
    | (d', l') :: r => if duty_eqb d' d then (d', l) :: r else (d', l') :: snap_set r d l
    end.

  Fixpoint snap_del (s : snapshot) (d : dutyv) : snapshot :=
    match s with
    | [] => []
    | (d', l') :: r => if duty_eqb d' d then snap_del r d else (d', l') :: snap_del r d
    end.

  Fixpoint drop_prefix (ids l : list N) : option (list N) :=
    match ids, l with
    | [], _ => Some l
    | i :: r, j :: s => if N.eqb i j then drop_prefix r s else None
    | _ :: _, [] => None
    end.

  Definition snap_get0 (s : snapshot) (d : dutyv) : list N := match snap_get s d with Some l => l | None => [] end.

  Definition wire_duty (req : option wire) : option dutyv :=
    match req with
    | Some w => match w_msg w with Some mp => c_duty (p_c mp) | None => None end
    | None => None
    end.

  (* What the buffers must look like after a call, given only what was seen before it and the
     returned class:
       accepted  => exactly this message appended to the buffer of its duty, nothing else changed;
       rejected with the enqueue timeout (buffer of a fully verified message's duty is full)
                 => no buffer content changed (the instance of that duty exists afterwards);
       rejected otherwise => nothing changed at all. *)
  Definition ghost_next (g : snapshot) (id : N) (req : option wire) (res : result) : option snapshot :=
    match res with
    | Accept => match wire_duty req with
                | Some d => Some (snap_set g d (snap_get0 g d ++ [id]))
                | None => None
                end
    | Reject REnqueue => match wire_duty req with
                         | Some d => Some (snap_set g d (snap_get0 g d))
                         | None => None
                         end
    | Reject _ => Some g
    end.

  Definition needs_spec (res : result) : bool :=
    match res with Accept | Reject REnqueue => true | Reject _ => false end.

  (* One observed call satisfies the property iff the buffers afterwards are as [ghost_next] says
     and, whenever the message got as far as the buffer, it is authentic and well formed. *)
  Definition monitor_handle (g : snapshot) (id : N) (e : env) (req : option wire) (res : result)
             (after : snapshot) : option snapshot :=
    match ghost_next g id req res with
    | Some g' => if (if needs_spec res then spec_ok e req else true) && snap_eqb g' after then Some g' else None
    | None => None
    end.

  Definition gstep (g : snapshot) (l : label) : option snapshot :=
    match l with
    | LHandle id e req res _ after => monitor_handle g id e req res after
    | LDrain d ids =>
      match snap_get g d with
      | Some l => match drop_prefix ids l with Some l' => Some (snap_set g d l') | None => None end
      | None => match ids with [] => Some g | _ => None end
      end
    | LDelete d => Some (snap_del g d)
    end.

  Fixpoint first_violation (g : snapshot) (ls : list label) (i : nat) : option nat :=
    match ls with
    | [] => None
    | l :: r => match gstep g l with Some g' => first_violation g' r (S i) | None => Some i end
    end.

  Definition monitor (ls : list label) : bool :=
    match first_violation [] ls 0 with None => true | Some _ => false end.

End Model.
