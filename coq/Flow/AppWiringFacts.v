(* The proof obligation on the REGENERATED construction data (gen/AppWiring.v is rewritten by
   translator/appwire from /repo/app/app.go on every check). *)
From Coq Require Import List String Bool.
From Charon Require Import Flow.AppWiringCheck gen.AppWiring.

Lemma app_wiring_ok : app_wiring_check app_params app_wire_args app_wire_opts app_defs app_hooks = true.
Proof. vm_compute. reflexivity. Qed.

(* the part C07 also leans on: the store's threshold expression is the aggregator's, lock.Threshold *)
Lemma app_threshold_ok : threshold_check app_defs = true.
Proof. vm_compute. reflexivity. Qed.
