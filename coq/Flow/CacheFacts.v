(* Proofs about the duties-cache model Flow/Cache.v.  Statements of the property theorems are
   repeated in Properties/C20.v. *)
From Coq Require Import List NArith Arith Bool Lia Permutation.
From Charon Require Import Flow.Cache.
Import ListNotations.

(* ------------------------------------------------------------------------------------------ *)
(* Basic facts about the list functions of the model                                            *)

Lemma mem_In : forall i l, mem i l = true <-> In i l.
Proof.
  induction l as [|x r IH]; simpl; [split; [discriminate|tauto]|].
  rewrite orb_true_iff, IH, N.eqb_eq. tauto.
Qed.

Lemma mem_false : forall i l, mem i l = false <-> ~ In i l.
Proof.
  intros. rewrite <- mem_In. destruct (mem i l); split; congruence.
Qed.

Lemma nodupb_NoDup : forall l, nodupb l = true <-> NoDup l.
Proof.
  induction l as [|x r IH]; simpl; [split; [constructor|reflexivity]|].
  rewrite andb_true_iff, negb_true_iff, mem_false, IH.
  split; [intros [A B]; constructor; assumption | intro H; inversion H; tauto].
Qed.

Lemma kind_eqb_eq : forall a b, kind_eqb a b = true <-> a = b.
Proof. destruct a, b; simpl; split; congruence. Qed.

Lemma kind_eqb_refl : forall a, kind_eqb a a = true.
Proof. destruct a; reflexivity. Qed.

Lemma kind_eqb_spec : forall a b, reflect (a = b) (kind_eqb a b).
Proof. intros. apply iff_reflect. symmetry. apply kind_eqb_eq. Qed.

Lemma duty_eqb_eq : forall a b, duty_eqb a b = true <-> a = b.
Proof.
  intros [a1 a2] [b1 b2]. unfold duty_eqb. simpl.
  rewrite andb_true_iff, !N.eqb_eq. split; [intros [-> ->]; reflexivity | intro H; inversion H; tauto].
Qed.

Lemma list_eqb_eq : forall (A : Type) (eqb : A -> A -> bool),
  (forall a b, eqb a b = true <-> a = b) -> forall l1 l2, list_eqb eqb l1 l2 = true <-> l1 = l2.
Proof.
  intros A eqb H. induction l1 as [|x r IH]; destruct l2 as [|y r2]; simpl; try (split; congruence).
  rewrite andb_true_iff, H, IH. split; [intros [-> ->]; reflexivity | intro E; inversion E; tauto].
Qed.

Lemma dlist_eqb_eq : forall l1 l2 : list duty, list_eqb duty_eqb l1 l2 = true <-> l1 = l2.
Proof. apply list_eqb_eq, duty_eqb_eq. Qed.

Lemma nlist_eqb_eq : forall l1 l2 : list N, list_eqb N.eqb l1 l2 = true <-> l1 = l2.
Proof. apply list_eqb_eq, N.eqb_eq. Qed.

Lemma obs_eqb_eq : forall a b, obs_eqb a b = true <-> a = b.
Proof.
  destruct a, b; simpl; try (split; congruence).
  rewrite nlist_eqb_eq. split; congruence.
Qed.

Lemma is_nil_true : forall (A : Type) (l : list A), is_nil l = true <-> l = [].
Proof. destruct l; simpl; split; congruence. Qed.

Lemma of_val_app : forall i a b, of_val i (a ++ b) = of_val i a ++ of_val i b.
Proof. intros. unfold of_val. apply filter_app. Qed.

Lemma In_of_val : forall i d ds, In d (of_val i ds) <-> In d ds /\ vidx d = i.
Proof. intros. unfold of_val. rewrite filter_In, N.eqb_eq. tauto. Qed.

Lemma of_val_nil : forall i ds, (forall d, In d ds -> vidx d <> i) -> of_val i ds = [].
Proof.
  intros i ds H. destruct (of_val i ds) as [|d r] eqn:E; [reflexivity|].
  assert (In d (of_val i ds)) as X by (rewrite E; left; reflexivity).
  apply In_of_val in X. destruct X as [X1 X2]. exfalso. exact (H d X1 X2).
Qed.

Lemma In_only : forall l d ds, In d (only l ds) <-> In d ds /\ In (vidx d) l.
Proof. intros. unfold only. rewrite filter_In, mem_In. tauto. Qed.

Lemma of_val_only : forall i l ds, of_val i (only l ds) = if mem i l then of_val i ds else [].
Proof.
  intros i l ds. induction ds as [|d r IH]; simpl; [destruct (mem i l); reflexivity|].
  destruct (mem (vidx d) l) eqn:M; simpl; destruct (N.eqb_spec (vidx d) i) as [E|E]; rewrite IH.
  - rewrite <- E, M. reflexivity.
  - destruct (mem i l); reflexivity.
  - rewrite <- E, M. reflexivity.
  - destruct (mem i l); reflexivity.
Qed.

Lemma In_minus : forall i l old, In i (minus l old) <-> In i l /\ ~ In i old.
Proof. intros. unfold minus. rewrite filter_In, negb_true_iff, mem_false. tauto. Qed.

Lemma NoDup_filter : forall (A : Type) (f : A -> bool) l, NoDup l -> NoDup (filter f l).
Proof.
  induction l as [|x r IH]; simpl; intro H; [constructor|].
  inversion H; subst. destruct (f x); auto. constructor; auto. rewrite filter_In. tauto.
Qed.

Lemma NoDup_minus : forall l old, NoDup l -> NoDup (minus l old).
Proof. intros. apply NoDup_filter. assumption. Qed.

Lemma minus_nil_incl : forall l old, minus l old = [] -> incl l old.
Proof.
  intros l old H i Hi. destruct (mem i old) eqn:M; [apply mem_In; assumption|].
  assert (In i (minus l old)) as X by (apply In_minus; split; [assumption | apply mem_false; assumption]).
  rewrite H in X. destruct X.
Qed.

Lemma filter_idem : forall (A : Type) (f : A -> bool) l, filter f (filter f l) = filter f l.
Proof.
  induction l as [|x r IH]; simpl; [reflexivity|].
  destruct (f x) eqn:E; simpl; [rewrite E, IH; reflexivity | assumption].
Qed.

(* duties of validator i among the duties appended by an amend for the new indices [newly] *)
Lemma of_val_flat_map : forall i ans newly, NoDup newly ->
  of_val i (flat_map (fun j => of_val j ans) newly) = if mem i newly then of_val i ans else [].
Proof.
  intros i ans newly. induction newly as [|j r IH]; intro ND; simpl; [reflexivity|].
  inversion ND as [|? ? Hnot ND']; subst. rewrite of_val_app, (IH ND').
  destruct (N.eqb_spec j i) as [E|E]; simpl.
  - subst. assert (mem i r = false) as M by (apply mem_false; assumption). rewrite M, app_nil_r.
    unfold of_val. rewrite filter_idem. reflexivity.
  - replace (of_val i (of_val j ans)) with (@nil duty); [reflexivity|].
    symmetry. apply of_val_nil. intros d Hd. apply In_of_val in Hd. destruct Hd as [_ Hd]. congruence.
Qed.

Lemma egen_cons_le : forall e r ep, egen r ep <= egen (e :: r) ep.
Proof. intros. unfold egen. simpl. destruct (N.ltb e ep); simpl; lia. Qed.

Lemma In_gens : forall fl hi g, In g (gens fl hi) <-> fl <= g <= hi.
Proof. intros. unfold gens. rewrite in_seq. lia. Qed.

(* ------------------------------------------------------------------------------------------ *)
Section Facts.
Variable asg : kind -> N -> nat -> list duty.
Variable metaf : kind -> N -> nat -> N.

Notation bn := (bn asg).
Notation step := (step asg metaf).
Notation step_gen := (step_gen asg metaf).
Notation run := (run asg metaf).
Notation run_gen := (run_gen asg metaf).
Notation check_ans := (check_ans asg metaf).
Notation monitor_from := (monitor_from asg metaf).
Notation monitor_ans := (monitor_ans asg metaf).

(* the duties of validator i in ds are the beacon node's at one epoch generation in [fl, hi] *)
Definition fresh_gen (k : kind) (ep : N) (fl hi : nat) (i : N) (ds : list duty) : Prop :=
  exists g, fl <= g <= hi /\ of_val i ds = of_val i (asg k ep g).

Definition meta_ok (k : kind) (ep : N) (fl hi : nat) (m : N) : Prop :=
  exists g, fl <= g <= hi /\ m = metaf k ep g.

Definition entry_ok (k : kind) (ep : N) (fl hi : nat) (en : entry) : Prop :=
  (forall d, In d (e_duties en) -> In (vidx d) (e_req en)) /\
  (forall i, In i (e_req en) -> fresh_gen k ep fl hi i (e_duties en)) /\
  meta_ok k ep fl hi (e_meta en).

Definition looked_ok (k : kind) (ep : N) (idxs : list N) (fl hi kg fln : nat)
           (cached : list duty) (req : list N) (lgen : nat) : Prop :=
  incl req idxs /\ NoDup req /\ lgen <= kg /\ (lgen = kg -> fln = fl) /\
  (forall d, In d cached -> In (vidx d) idxs /\ ~ In (vidx d) req) /\
  (forall i, In i idxs -> ~ In i req -> fresh_gen k ep fl hi i cached).

Definition phase_ok (k : kind) (ep : N) (idxs : list N) (fl hi kg fln : nat) (ph : phase) : Prop :=
  match ph with
  | PLooked cached req lgen => looked_ok k ep idxs fl hi kg fln cached req lgen
  | PFetched cached req lgen ans am =>
      looked_ok k ep idxs fl hi kg fln cached req lgen /\
      exists gf, fl <= gf <= hi /\ ans = bn k ep req gf /\ am = metaf k ep gf
  | PReady r rm =>
      (forall d, In d r -> In (vidx d) idxs) /\
      (forall i, In i idxs -> fresh_gen k ep fl hi i r) /\
      meta_ok k ep fl hi rm
  end.

Definition call_ok (s : state) (g : ghost) (c : nat) : Prop :=
  match calls s c, h_calls g c with
  | None, None => True
  | Some cl, Some gc =>
      c_kind cl = g_kind gc /\ c_ep cl = g_ep gc /\ NoDup (g_idxs gc) /\
      g_fl gc <= egen (reorgs s) (c_ep cl) /\
      phase_ok (c_kind cl) (c_ep cl) (g_idxs gc) (g_fl gc) (egen (reorgs s) (c_ep cl))
               (k_gen (ks s (c_kind cl))) (h_floor g (c_kind cl) (c_ep cl)) (c_phase cl)
  | _, _ => False
  end.

Definition Inv (s : state) (g : ghost) : Prop :=
  active s = h_active g /\ reorgs s = h_reorgs g /\
  (forall k ep, h_floor g k ep <= egen (reorgs s) ep) /\
  (forall k ep en, k_map (ks s k) ep = Some en ->
                   entry_ok k ep (h_floor g k ep) (egen (reorgs s) ep) en) /\
  (forall c, call_ok s g c).

Lemma fresh_gen_mono : forall k ep fl hi hi' i ds, hi <= hi' -> fresh_gen k ep fl hi i ds -> fresh_gen k ep fl hi' i ds.
Proof. intros k ep fl hi hi' i ds H [g [A B]]. exists g. split; [lia|assumption]. Qed.

Lemma meta_ok_mono : forall k ep fl hi hi' m, hi <= hi' -> meta_ok k ep fl hi m -> meta_ok k ep fl hi' m.
Proof. intros k ep fl hi hi' m H [g [A B]]. exists g. split; [lia|assumption]. Qed.

Lemma entry_ok_mono : forall k ep fl hi hi' en, hi <= hi' -> entry_ok k ep fl hi en -> entry_ok k ep fl hi' en.
Proof.
  intros k ep fl hi hi' en H [A [B C]]. split; [assumption|]. split.
  - intros i Hi. eapply fresh_gen_mono; eauto.
  - eapply meta_ok_mono; eauto.
Qed.

(* a call's invariant survives: the chain moving on, and either nothing happening to the cache
   generation and floor of its kind/epoch or the cache generation being bumped *)
Lemma phase_ok_mono : forall k ep idxs fl hi hi' kg kg' fln fln' ph,
  hi <= hi' -> ((kg' = kg /\ fln' = fln) \/ kg < kg') ->
  phase_ok k ep idxs fl hi kg fln ph -> phase_ok k ep idxs fl hi' kg' fln' ph.
Proof.
  intros k ep idxs fl hi hi' kg kg' fln fln' ph Hh Hk.
  assert (forall cached req lgen, looked_ok k ep idxs fl hi kg fln cached req lgen ->
                                  looked_ok k ep idxs fl hi' kg' fln' cached req lgen) as L.
  { intros cached req lgen (A & B & C & D & E & F).
    split; [assumption|]. split; [assumption|]. split; [lia|]. split; [|split].
    - intro X. destruct Hk as [[-> ->]|Hk]; [auto | lia].
    - assumption.
    - intros i Hi Hn. eapply fresh_gen_mono; eauto. }
  destruct ph as [cached req lgen | cached req lgen ans am | r rm]; simpl.
  - apply L.
  - intros [A [gf [B C]]]. split; [apply L; assumption|]. exists gf. split; [lia|assumption].
  - intros (A & B & C). split; [assumption|]. split.
    + intros i Hi. eapply fresh_gen_mono; eauto.
    + eapply meta_ok_mono; eauto.
Qed.

(* answers: boolean check from the Prop invariant of a ready call *)
Lemma answer_ok_true : forall k ep idxs fl hi res m,
  (forall d, In d res -> In (vidx d) idxs) ->
  (forall i, In i idxs -> fresh_gen k ep fl hi i res) ->
  meta_ok k ep fl hi m ->
  answer_ok asg metaf k ep idxs fl hi res m = true.
Proof.
  intros k ep idxs fl hi res m A B C. unfold answer_ok.
  rewrite !andb_true_iff. split; [split|].
  - apply forallb_forall. intros d Hd. apply mem_In. auto.
  - apply forallb_forall. intros i Hi. apply existsb_exists.
    destruct (B i Hi) as [g [G1 G2]]. exists (asg k ep g). split.
    + apply in_map. apply In_gens. assumption.
    + apply dlist_eqb_eq. assumption.
  - apply existsb_exists. destruct C as [g [G1 G2]]. exists g. split; [apply In_gens; assumption|].
    apply N.eqb_eq. assumption.
Qed.

Lemma answer_ok_inv : forall k ep idxs fl hi res m,
  answer_ok asg metaf k ep idxs fl hi res m = true ->
  (forall d, In d res -> In (vidx d) idxs) /\
  (forall i, In i idxs -> fresh_gen k ep fl hi i res) /\
  meta_ok k ep fl hi m.
Proof.
  intros k ep idxs fl hi res m H. unfold answer_ok in H.
  rewrite !andb_true_iff in H. destruct H as [[A B] C]. split; [|split].
  - intros d Hd. apply mem_In. rewrite forallb_forall in A. auto.
  - intros i Hi. rewrite forallb_forall in B. specialize (B i Hi). apply existsb_exists in B.
    destruct B as [t [T1 T2]]. apply in_map_iff in T1. destruct T1 as [g [<- G]].
    exists g. split; [apply In_gens; assumption | apply dlist_eqb_eq; assumption].
  - apply existsb_exists in C. destruct C as [g [G1 G2]]. exists g.
    split; [apply In_gens; assumption | apply N.eqb_eq; assumption].
Qed.


Lemma call_ok_transfer : forall s g s' g' c,
  calls s' c = calls s c -> h_calls g' c = h_calls g c ->
  (forall ep, egen (reorgs s) ep <= egen (reorgs s') ep) ->
  (forall k ep, (k_gen (ks s' k) = k_gen (ks s k) /\ h_floor g' k ep = h_floor g k ep)
                \/ k_gen (ks s k) < k_gen (ks s' k)) ->
  call_ok s g c -> call_ok s' g' c.
Proof.
  intros s g s' g' c E1 E2 Hr Hk H. unfold call_ok in *. rewrite E1, E2.
  destruct (calls s c) as [cl|]; destruct (h_calls g c) as [gc|]; try assumption.
  destruct H as (A & B & C & D & E). split; [assumption|]. split; [assumption|]. split; [assumption|].
  split; [specialize (Hr (c_ep cl)); lia|].
  eapply phase_ok_mono; [apply Hr | apply Hk | exact E].
Qed.

Definition lookup_sets (act : list N) (l : label) : Prop :=
  match l with LLookup _ _ _ idxs _ => NoDup (resolve act idxs) | _ => True end.

Lemma inv_lookup : forall s g c k ep idxs obs s',
  Inv s g -> step s (LLookup c k ep idxs obs) = Some s' -> NoDup (resolve (h_active g) idxs) ->
  Inv s' (gstep g (LLookup c k ep idxs obs)).
Proof.
  intros s g c k ep idxs obs s' (Ia & Ir & If & Ie & Ic) H ND.
  simpl in H. pose proof (Ic c) as Icc. unfold call_ok in Icc.
  destruct (calls s c) eqn:Cs; [discriminate|].
  destruct (h_calls g c) eqn:Cg; [contradiction|].
  rewrite <- Ia in ND.
  assert (forall ph, phase_ok k ep (resolve (active s) idxs) (h_floor g k ep) (egen (reorgs s) ep)
                              (k_gen (ks s k)) (h_floor g k ep) ph ->
      Inv (set_call s c (Some (mkC k ep ph))) (gstep g (LLookup c k ep idxs obs))) as Close.
  { intros ph Hph. unfold Inv. simpl.
    split; [assumption|]. split; [assumption|]. split; [assumption|]. split; [assumption|].
    intro c'. unfold call_ok. simpl. destruct (Nat.eqb_spec c c') as [->|Hne].
    - simpl. rewrite <- Ia. split; [reflexivity|]. split; [reflexivity|]. split; [assumption|].
      split; [apply If | assumption].
    - exact (Ic c'). }
  destruct (k_map (ks s k) ep) as [en|] eqn:M.
  - destruct (Ie k ep en M) as (E1 & E2 & E3).
    destruct (is_nil (minus (resolve (active s) idxs) (e_req en))) eqn:Nil.
    + destruct (obs_eqb obs None); [|discriminate]. inversion H; subst s'. apply Close. simpl.
      apply is_nil_true in Nil. apply minus_nil_incl in Nil.
      split; [|split].
      * intros d Hd. apply In_only in Hd. tauto.
      * intros i Hi. unfold fresh_gen. rewrite of_val_only.
        assert (mem i (resolve (active s) idxs) = true) as Mi by (apply mem_In; assumption).
        rewrite Mi. apply E2. apply Nil. assumption.
      * assumption.
    + destruct (obs_eqb obs _); [|discriminate]. inversion H; subst s'. apply Close. simpl.
      unfold looked_ok. split; [|split; [|split; [|split; [|split]]]].
      * intros i Hi. apply In_minus in Hi. tauto.
      * apply NoDup_minus. assumption.
      * lia.
      * reflexivity.
      * intros d Hd. apply In_only in Hd. destruct Hd as [D1 D2]. split; [assumption|].
        intro X. apply In_minus in X. destruct X as [_ X]. apply X. apply E1. assumption.
      * intros i Hi Hn. unfold fresh_gen. rewrite of_val_only.
        assert (mem i (resolve (active s) idxs) = true) as Mi by (apply mem_In; assumption).
        rewrite Mi. apply E2. destruct (mem i (e_req en)) eqn:Mr; [apply mem_In; assumption|].
        exfalso. apply Hn. apply In_minus. split; [assumption | apply mem_false; assumption].
  - destruct (obs_eqb obs _); [|discriminate]. inversion H; subst s'. apply Close. simpl.
    unfold looked_ok. split; [|split; [|split; [|split; [|split]]]].
    + apply incl_refl.
    + assumption.
    + lia.
    + reflexivity.
    + intros d [].
    + intros i Hi Hn. contradiction.
Qed.


Lemma inv_set_phase : forall s g c k ep ph ph',
  Inv s g -> calls s c = Some (mkC k ep ph) ->
  (forall idxs fl, NoDup idxs -> fl <= egen (reorgs s) ep ->
     phase_ok k ep idxs fl (egen (reorgs s) ep) (k_gen (ks s k)) (h_floor g k ep) ph ->
     phase_ok k ep idxs fl (egen (reorgs s) ep) (k_gen (ks s k)) (h_floor g k ep) ph') ->
  Inv (set_call s c (Some (mkC k ep ph'))) g.
Proof.
  intros s g c k ep ph ph' (Ia & Ir & If & Ie & Ic) Cs Hph. unfold Inv. simpl.
  split; [assumption|]. split; [assumption|]. split; [assumption|]. split; [assumption|].
  intro c'. unfold call_ok. simpl. destruct (Nat.eqb_spec c c') as [<-|Hne]; [|exact (Ic c')].
  pose proof (Ic c) as X. unfold call_ok in X. rewrite Cs in X.
  destruct (h_calls g c) as [gc|]; [|contradiction]. simpl in *.
  destruct X as (A & B & C & D & E). repeat (split; [assumption|]). apply Hph; assumption.
Qed.

Lemma inv_drop_call : forall s g c l,
  Inv s g -> (forall c', h_calls (gstep g l) c' = if Nat.eqb c c' then None else h_calls g c') ->
  h_active (gstep g l) = h_active g -> h_reorgs (gstep g l) = h_reorgs g -> h_floor (gstep g l) = h_floor g ->
  Inv (set_call s c None) (gstep g l).
Proof.
  intros s g c l (Ia & Ir & If & Ie & Ic) Hc Ha Hr Hf. unfold Inv. rewrite Ha, Hr, Hf. simpl.
  split; [assumption|]. split; [assumption|]. split; [assumption|]. split; [assumption|].
  intro c'. unfold call_ok. simpl. rewrite Hc, Hf. destruct (Nat.eqb_spec c c'); [exact I | exact (Ic c')].
Qed.

Lemma inv_fetch : forall s g c ans m s',
  Inv s g -> step s (LFetch c ans m) = Some s' -> Inv s' g.
Proof.
  intros s g c ans m s' HI H. simpl in H.
  destruct (calls s c) as [[k ep [cached req lgen| |]]|] eqn:Cs; try discriminate.
  destruct (_ && _) eqn:E; [|discriminate]. inversion H; subst s'. clear H.
  apply andb_true_iff in E. destruct E as [E1 E2]. apply dlist_eqb_eq in E1. apply N.eqb_eq in E2.
  eapply inv_set_phase; [exact HI | exact Cs |].
  intros idxs fl ND Hfl Hph. simpl in *. split; [assumption|].
  exists (egen (reorgs s) ep). split; [lia|]. split; assumption.
Qed.

Lemma inv_fetcherr : forall s g c s',
  Inv s g -> step s (LFetchErr c) = Some s' -> Inv s' (gstep g (LFetchErr c)).
Proof.
  intros s g c s' HI H. simpl in H.
  destruct (calls s c) as [[k ep [cached req lgen| |]]|] eqn:Cs; try discriminate.
  inversion H; subst s'. apply inv_drop_call; try reflexivity. assumption.
Qed.

Lemma inv_return : forall s g c res m s',
  Inv s g -> step s (LReturn c res m) = Some s' ->
  Inv s' (gstep g (LReturn c res m)) /\ check_ans g (LReturn c res m) = true.
Proof.
  intros s g c res m s' HI H. simpl in H.
  destruct (calls s c) as [[k ep [| |r rm]]|] eqn:Cs; try discriminate.
  destruct (_ && _) eqn:E; [|discriminate]. inversion H; subst s'. clear H.
  apply andb_true_iff in E. destruct E as [E1 E2]. apply dlist_eqb_eq in E1. apply N.eqb_eq in E2. subst.
  split; [apply inv_drop_call; try reflexivity; assumption|].
  destruct HI as (Ia & Ir & If & Ie & Ic). pose proof (Ic c) as X. unfold call_ok in X. rewrite Cs in X.
  simpl. destruct (h_calls g c) as [gc|]; [|reflexivity]. simpl in X.
  destruct X as (A & B & C & D & E1 & E2 & E3). subst. rewrite <- Ir.
  apply answer_ok_true; assumption.
Qed.


Lemma inv_reorg : forall s g e, Inv s g ->
  Inv (mk (active s) (e :: reorgs s) (ks s) (calls s)) (gstep g (LReorg e)).
Proof.
  intros s g e (Ia & Ir & If & Ie & Ic). unfold Inv. simpl.
  split; [assumption|]. split; [congruence|]. split; [|split].
  - intros k ep. pose proof (If k ep). pose proof (egen_cons_le e (reorgs s) ep). lia.
  - intros k ep en M. eapply entry_ok_mono; [apply egen_cons_le | apply Ie; assumption].
  - intro c. apply (call_ok_transfer s g); [reflexivity | reflexivity | | | exact (Ic c)].
    + intro ep. simpl. apply egen_cons_le.
    + intros k ep. left. split; reflexivity.
Qed.

Lemma inv_update_active : forall s g idxs, Inv s g ->
  Inv (mk idxs (reorgs s) (ks s) (calls s)) (gstep g (LUpdateActive idxs)).
Proof.
  intros s g idxs (Ia & Ir & If & Ie & Ic). unfold Inv. simpl.
  split; [reflexivity|]. split; [assumption|]. split; [assumption|]. split; [assumption|].
  intro c. apply (call_ok_transfer s g); [reflexivity | reflexivity | | | exact (Ic c)].
  - intro ep. simpl. lia.
  - intros k ep. left. split; reflexivity.
Qed.

Lemma inv_invalidate : forall s g k e, Inv s g ->
  Inv (set_k s k (mkK (S (k_gen (ks s k))) (fun ep => if N.ltb e ep then None else k_map (ks s k) ep)))
      (gstep g (LInvalidate k e)).
Proof.
  intros s g k e (Ia & Ir & If & Ie & Ic). unfold Inv. simpl.
  split; [assumption|]. split; [assumption|]. split; [|split].
  - intros k' ep. destruct (kind_eqb k k' && N.ltb e ep); [rewrite Ir; lia | apply If].
  - intros k' ep en. destruct (kind_eqb_spec k k') as [<-|Hne]; simpl.
    + destruct (N.ltb e ep); [discriminate|]. apply Ie.
    + apply Ie.
  - intro c. apply (call_ok_transfer s g); [reflexivity | reflexivity | | | exact (Ic c)].
    + intro ep. simpl. lia.
    + intros k' ep. simpl. destruct (kind_eqb_spec k k') as [<-|Hne]; simpl.
      * right. lia.
      * left. split; reflexivity.
Qed.

Lemma inv_trim : forall s g k e, Inv s g ->
  Inv (set_k s k (mkK (k_gen (ks s k)) (fun ep => if N.ltb ep (e - trim_threshold) then None else k_map (ks s k) ep))) g.
Proof.
  intros s g k e (Ia & Ir & If & Ie & Ic). unfold Inv. simpl.
  split; [assumption|]. split; [assumption|]. split; [assumption|]. split.
  - intros k' ep en. destruct (kind_eqb_spec k k') as [<-|Hne]; simpl.
    + destruct (N.ltb ep _); [discriminate|]. apply Ie.
    + apply Ie.
  - intro c. apply (call_ok_transfer s g); [reflexivity | reflexivity | | | exact (Ic c)].
    + intro ep. simpl. lia.
    + intros k' ep. simpl. left. destruct (kind_eqb_spec k k') as [<-|Hne]; simpl; split; reflexivity.
Qed.


Lemma ready_of_fetched : forall k ep idxs fl hi kg fln cached req lgen ans am,
  phase_ok k ep idxs fl hi kg fln (PFetched cached req lgen ans am) ->
  phase_ok k ep idxs fl hi kg fln (PReady (cached ++ ans) am).
Proof.
  intros k ep idxs fl hi kg fln cached req lgen ans am [(A & B & C & D & E & F) (gf & G1 & G2 & G3)].
  subst ans am. simpl. split; [|split].
  - intros d Hd. apply in_app_or in Hd. destruct Hd as [Hd|Hd].
    + apply E. assumption.
    + apply In_only in Hd. apply A. tauto.
  - intros i Hi.
    assert (of_val i (cached ++ Cache.bn asg k ep req gf)
            = of_val i cached ++ (if mem i req then of_val i (asg k ep gf) else [])) as R.
    { rewrite of_val_app. unfold Cache.bn. rewrite of_val_only. reflexivity. }
    destruct (mem i req) eqn:M.
    + apply mem_In in M. exists gf. split; [assumption|]. rewrite R.
      rewrite (of_val_nil i cached); [reflexivity|].
      intros d Hd X. destruct (E d Hd) as [_ Y]. apply Y. rewrite X. assumption.
    + apply mem_false in M. destruct (F i Hi M) as [g0 [Q1 Q2]]. exists g0. split; [assumption|].
      rewrite R, app_nil_r. assumption.
  - exists gf. split; [assumption | reflexivity].
Qed.

Lemma store_entry_ok : forall k ep fl hi K req ans am gf K' ok,
  NoDup req -> fl <= gf <= hi -> ans = bn k ep req gf -> am = metaf k ep gf ->
  (forall en, k_map K ep = Some en -> entry_ok k ep fl hi en) ->
  store_or_amend K ep req ans am = (K', ok) ->
  k_gen K' = k_gen K /\ (forall ep', ep' <> ep -> k_map K' ep' = k_map K ep') /\
  exists en', k_map K' ep = Some en' /\ entry_ok k ep fl hi en'.
Proof.
  intros k ep fl hi K req ans am gf K' ok ND G Ha Hm He H. unfold store_or_amend in H.
  assert (forall i, In i req -> of_val i ans = of_val i (asg k ep gf)) as Hans.
  { intros i Hi. subst ans. unfold Cache.bn. rewrite of_val_only.
    assert (mem i req = true) as M by (apply mem_In; assumption). rewrite M. reflexivity. }
  destruct (k_map K ep) as [en|] eqn:M; inversion H; subst K' ok; clear H; simpl.
  - split; [reflexivity|]. split.
    + intros ep' Hne. destruct (N.eqb_spec ep ep'); [congruence | reflexivity].
    + rewrite N.eqb_refl. eexists. split; [reflexivity|].
      destruct (He en eq_refl) as (E1 & E2 & E3). unfold entry_ok. simpl.
      set (newly := minus req (e_req en)).
      assert (NoDup newly) as NDn by (apply NoDup_minus; assumption).
      split; [|split].
      * intros d Hd. apply in_or_app. apply in_app_or in Hd. destruct Hd as [Hd|Hd]; [left; auto|right].
        apply in_flat_map in Hd. destruct Hd as [j [J1 J2]]. apply In_of_val in J2. destruct J2 as [_ <-]. assumption.
      * intros i Hi.
        assert (of_val i (e_duties en ++ flat_map (fun j => of_val j ans) newly)
                = of_val i (e_duties en) ++ (if mem i newly then of_val i ans else [])) as R.
        { rewrite of_val_app, of_val_flat_map by assumption. reflexivity. }
        apply in_app_or in Hi. destruct Hi as [Hi|Hi].
        -- assert (mem i newly = false) as Mn.
           { apply mem_false. intro X. apply In_minus in X. tauto. }
           destruct (E2 i Hi) as [g0 [Q1 Q2]]. exists g0. split; [assumption|].
           rewrite R, Mn, app_nil_r. assumption.
        -- assert (mem i newly = true) as Mn by (apply mem_In; assumption).
           apply In_minus in Hi. destruct Hi as [Hi1 Hi2].
           exists gf. split; [assumption|]. rewrite R, Mn, (of_val_nil i (e_duties en)).
           ++ simpl. apply Hans. assumption.
           ++ intros d Hd X. apply Hi2. rewrite <- X. apply E1. assumption.
      * assumption.
  - split; [reflexivity|]. split.
    + intros ep' Hne. destruct (N.eqb_spec ep ep'); [congruence | reflexivity].
    + rewrite N.eqb_refl. eexists. split; [reflexivity|]. unfold entry_ok. simpl. split; [|split].
      * intros d Hd. subst ans. apply In_only in Hd. tauto.
      * intros i Hi. exists gf. split; [assumption | apply Hans; assumption].
      * exists gf. split; assumption.
Qed.

Lemma inv_store : forall s g c stored s',
  Inv s g -> step s (LStore c stored) = Some s' -> Inv s' g.
Proof.
  intros s g c stored s' HI H. simpl in H.
  destruct (calls s c) as [[k ep [|cached req lgen ans am|]]|] eqn:Cs; try discriminate.
  destruct (negb (Nat.eqb lgen (k_gen (ks s k)))) eqn:G; simpl in H.
  - destruct (Bool.eqb stored false); [|discriminate]. inversion H; subst s'.
    eapply inv_set_phase; [exact HI | exact Cs |]. intros idxs fl ND Hfl Hph. apply (ready_of_fetched _ _ _ _ _ _ _ _ _ _ _ _ Hph).
  - apply negb_false_iff, Nat.eqb_eq in G.
    destruct (store_or_amend (ks s k) ep req ans am) as [K' ok] eqn:SA.
    destruct (Bool.eqb stored ok); [|discriminate]. inversion H; subst s'. clear H.
    destruct HI as (Ia & Ir & If & Ie & Ic).
    pose proof (Ic c) as X. unfold call_ok in X. rewrite Cs in X.
    destruct (h_calls g c) as [gc|] eqn:Cg; [|contradiction]. simpl in X.
    destruct X as (X1 & X2 & X3 & X4 & X5).
    pose proof X5 as [(A & B & C & D & E & F) (gf & G1 & G2 & G3)].
    specialize (D G).
    destruct (store_entry_ok k ep (h_floor g k ep) (egen (reorgs s) ep) (ks s k) req ans am gf K' ok)
      as (S1 & S2 & en' & S3 & S4); try assumption.
    { rewrite D. assumption. }
    { intros en M. apply Ie. assumption. }
    unfold Inv. simpl. split; [assumption|]. split; [assumption|]. split; [assumption|]. split.
    + intros k' ep' en. destruct (kind_eqb_spec k k') as [<-|Hne]; [|apply Ie].
      destruct (N.eq_dec ep' ep) as [->|Hep].
      * rewrite S3. intro Y. inversion Y; subst. assumption.
      * rewrite S2 by assumption. apply Ie.
    + intro c'. unfold call_ok. simpl. destruct (Nat.eqb_spec c c') as [<-|Hne].
      * rewrite Cg. simpl.
        repeat (split; [assumption|]). exact (ready_of_fetched _ _ _ _ _ _ _ _ _ _ _ _ X5).
      * pose proof (Ic c') as Y. unfold call_ok in Y.
        destruct (calls s c') as [[k' ep' ph']|]; destruct (h_calls g c') as [gc'|]; try assumption.
        simpl in *. destruct (kind_eqb_spec k k') as [<-|Hk]; [rewrite S1|]; assumption.
Qed.


Lemma step_inv : forall s g l s',
  Inv s g -> step s l = Some s' -> lookup_sets (h_active g) l ->
  Inv s' (gstep g l) /\ check_ans g l = true.
Proof.
  intros s g l s' HI H HS. destruct l.
  - split; [eapply inv_lookup; eauto | reflexivity].
  - split; [eapply inv_fetch; eauto | reflexivity].
  - split; [eapply inv_fetcherr; eauto | reflexivity].
  - split; [eapply inv_store; eauto | reflexivity].
  - eapply inv_return; eauto.
  - simpl in H. inversion H; subst s'. split; [apply inv_reorg; assumption | reflexivity].
  - simpl in H. inversion H; subst s'. split; [apply inv_invalidate; assumption | reflexivity].
  - split; [|reflexivity]. simpl in H. destruct (N.ltb e trim_threshold); inversion H; subst s'.
    + assumption.
    + apply inv_trim. assumption.
  - simpl in H. inversion H; subst s'. split; [apply inv_update_active; assumption | reflexivity].
Qed.

Lemma Inv_init : forall act, Inv (init_with act) (ginit_with act).
Proof.
  intro act. unfold Inv. simpl. split; [reflexivity|]. split; [reflexivity|]. split; [intros; lia|].
  split; [intros; discriminate | intro c; exact I].
Qed.

End Facts.

(* the ghost state after a prefix of the trace *)
Definition ghost_after (g : ghost) (ls : list label) : ghost := fold_left gstep ls g.

Lemma ghost_after_app : forall g a b, ghost_after g (a ++ b) = ghost_after (ghost_after g a) b.
Proof. intros. apply fold_left_app. Qed.

Lemma sets_only_cons : forall g l r,
  sets_only_from (h_active g) (l :: r) = true ->
  lookup_sets (h_active g) l /\ sets_only_from (h_active (gstep g l)) r = true.
Proof.
  intros g l r H. destruct l; simpl in *; try (split; [exact I | assumption]).
  apply andb_true_iff in H. destruct H as [A B]. split; [apply nodupb_NoDup; assumption | assumption].
Qed.

Section Main.
Variable asg : kind -> N -> nat -> list duty.
Variable metaf : kind -> N -> nat -> N.

Lemma run_inv : forall ls s g s',
  Inv asg metaf s g -> run asg metaf s ls = Some s' -> sets_only_from (h_active g) ls = true ->
  monitor_from asg metaf g ls = true /\ Inv asg metaf s' (ghost_after g ls).
Proof.
  induction ls as [|l r IH]; intros s g s' HI H HS; simpl in *.
  - inversion H; subst. split; [reflexivity | assumption].
  - unfold run in H. simpl in H. destruct (step_gen asg metaf true s l) as [s1|] eqn:St; [|discriminate].
    destruct (sets_only_cons g l r HS) as [S1 S2].
    destruct (step_inv asg metaf s g l s1 HI St S1) as [HI1 C].
    destruct (IH s1 (gstep g l) s' HI1 H S2) as [M HI2].
    rewrite C, M. split; [reflexivity | assumption].
Qed.

(* Every trace of the model in which all requests are index sets passes monitor A. *)
Theorem run_monitor_ans : forall act ls s,
  run asg metaf (init_with act) ls = Some s -> sets_only_from act ls = true ->
  monitor_from asg metaf (ginit_with act) ls = true.
Proof.
  intros act ls s H HS. eapply run_inv; [apply Inv_init | exact H | exact HS].
Qed.

End Main.

(* ------------------------------------------------------------------------------------------ *)
(* Monitor B: the first lookup after an invalidation / trim finds nothing                         *)

Lemma In_close : forall x c o, In x (close c o) <-> In x o /\ fst x <> c.
Proof.
  intros. unfold close. rewrite filter_In, negb_true_iff, Nat.eqb_neq. intuition congruence.
Qed.

Lemma open_on_In : forall c k ep o, In (c, (k, ep)) o -> open_on k ep o = true.
Proof.
  intros c k ep o H. unfold open_on. apply existsb_exists. exists (c, (k, ep)). split; [assumption|].
  simpl. rewrite kind_eqb_refl, N.eqb_refl. reflexivity.
Qed.

Definition can_store (ph : phase) : option nat :=
  match ph with PLooked _ _ lg | PFetched _ _ lg _ _ => Some lg | PReady _ _ => None end.

Section Fresh.
Variable asg : kind -> N -> nat -> list duty.
Variable metaf : kind -> N -> nat -> N.

Definition FInv (s : state) (f : fghost) : Prop :=
  f_active f = active s /\
  (forall c k ep ph lg, calls s c = Some (mkC k ep ph) -> can_store ph = Some lg ->
                        lg <= k_gen (ks s k) /\ In (c, (k, ep)) (f_open f)) /\
  (forall k ep, f_fresh f k ep = true ->
                k_map (ks s k) ep = None /\
                forall c ph lg, calls s c = Some (mkC k ep ph) -> can_store ph = Some lg -> lg < k_gen (ks s k)).

Lemma fstep_inv : forall s f l s',
  FInv s f -> step asg metaf s l = Some s' -> FInv s' (fstep f l) /\ check_fresh f l = true.
Proof.
  intros s f l s' (Fa & Fb & Fc) H. destruct l; simpl in H.
  - (* LLookup *)
    destruct (calls s c) eqn:Cs; [discriminate|].
    assert (forall ph, (forall lg, can_store ph = Some lg -> lg = k_gen (ks s k) /\ exists r, obs = Some r) ->
                       FInv (set_call s c (Some (mkC k ep ph))) (fstep f (LLookup c k ep idxs obs))) as Close.
    { intros ph Hph. unfold FInv. simpl. split; [assumption|]. split.
      - intros c' k' ep' ph' lg. destruct (Nat.eqb_spec c c') as [<-|Hne].
        + intros E Hc. inversion E; subst k' ep' ph'. destruct (Hph lg Hc) as [-> [r ->]].
          split; [lia | left; reflexivity].
        + intros E Hc. destruct (Fb c' k' ep' ph' lg E Hc) as [A B]. split; [assumption|].
          destruct obs; [right|]; assumption.
      - intros k' ep'. destruct (kind_eqb k k' && N.eqb ep ep') eqn:E; [discriminate|]. intro Fr.
        destruct (Fc k' ep' Fr) as [A B]. split; [assumption|].
        intros c' ph' lg. destruct (Nat.eqb_spec c c') as [<-|Hne]; [|apply B].
        intro X. inversion X; subst k' ep' ph'. rewrite kind_eqb_refl, N.eqb_refl in E. discriminate. }
    assert (f_fresh f k ep = true -> k_map (ks s k) ep = None) as Fr by (intro X; apply (Fc k ep X)).
    destruct (k_map (ks s k) ep) as [en|] eqn:M.
    + assert (f_fresh f k ep = false) as Ff by (destruct (f_fresh f k ep); [specialize (Fr eq_refl); discriminate | reflexivity]).
      destruct (is_nil _).
      * destruct (obs_eqb obs None) eqn:O; [|discriminate]. inversion H; subst s'.
        split; [apply Close; intros lg X; discriminate | simpl; rewrite Ff; reflexivity].
      * destruct (obs_eqb obs _) eqn:O; [|discriminate]. inversion H; subst s'. apply obs_eqb_eq in O.
        split; [apply Close; intros lg X; inversion X; split; [reflexivity | eexists; exact O] | simpl; rewrite Ff; reflexivity].
    + destruct (obs_eqb obs _) eqn:O; [|discriminate]. inversion H; subst s'.
      split; [apply Close; intros lg X; inversion X; apply obs_eqb_eq in O; split; [reflexivity | eexists; exact O]|].
      simpl. rewrite Fa, O. destruct (f_fresh f k ep); reflexivity.
  - (* LFetch *)
    split; [|reflexivity].
    destruct (calls s c) as [[k ep [cached req lgen| |]]|] eqn:Cs; try discriminate.
    destruct (_ && _); [|discriminate]. inversion H; subst s'. unfold FInv. simpl.
    split; [assumption|]. split.
    + intros c' k' ep' ph' lg. destruct (Nat.eqb_spec c c') as [<-|Hne]; [|apply Fb].
      intros E Hc. inversion E; subst k' ep' ph'. simpl in Hc. inversion Hc; subst lg.
      apply (Fb c k ep _ lgen Cs eq_refl).
    + intros k' ep' Fr. destruct (Fc k' ep' Fr) as [A B]. split; [assumption|].
      intros c' ph' lg. destruct (Nat.eqb_spec c c') as [<-|Hne]; [|apply B].
      intros E Hc. inversion E; subst k' ep' ph'. simpl in Hc. inversion Hc; subst lg.
      apply (B c _ lgen Cs eq_refl).
  - (* LFetchErr *)
    split; [|reflexivity].
    destruct (calls s c) as [[k ep [cached req lgen| |]]|] eqn:Cs; try discriminate.
    inversion H; subst s'. unfold FInv. simpl. split; [assumption|]. split.
    + intros c' k' ep' ph' lg. destruct (Nat.eqb_spec c c') as [<-|Hne]; [discriminate|].
      intros E Hc. destruct (Fb c' k' ep' ph' lg E Hc) as [A B]. split; [assumption|].
      apply In_close. split; [assumption | simpl; congruence].
    + intros k' ep' Fr. destruct (Fc k' ep' Fr) as [A B]. split; [assumption|].
      intros c' ph' lg. destruct (Nat.eqb_spec c c') as [<-|Hne]; [discriminate | apply B].
  - (* LStore *)
    split; [|reflexivity].
    destruct (calls s c) as [[k ep [|cached req lgen ans am|]]|] eqn:Cs; try discriminate.
    assert (forall ks', (forall k', k_gen (ks' k') = k_gen (ks s k')) ->
              (forall k' ep', f_fresh f k' ep' = true -> k_map (ks' k') ep' = None) ->
              FInv (mk (active s) (reorgs s) ks'
                       (fun c' => if Nat.eqb c c' then Some (mkC k ep (PReady (cached ++ ans) am)) else calls s c'))
                   (fstep f (LStore c stored))) as Close.
    { intros ks' HK HM. unfold FInv. simpl. split; [assumption|]. split.
      - intros c' k' ep' ph' lg. destruct (Nat.eqb_spec c c') as [<-|Hne].
        + intros E Hc. inversion E; subst ph'. discriminate.
        + intros E Hc. destruct (Fb c' k' ep' ph' lg E Hc) as [A B]. split.
          * rewrite HK. assumption.
          * apply In_close. split; [assumption | simpl; congruence].
      - intros k' ep' Fr. split; [apply HM; assumption|]. destruct (Fc k' ep' Fr) as [A B].
        intros c' ph' lg. destruct (Nat.eqb_spec c c') as [<-|Hne].
        + intros E Hc. inversion E; subst ph'. discriminate.
        + intros E Hc. specialize (B c' ph' lg E Hc). rewrite HK. assumption. }
    destruct (negb (Nat.eqb lgen (k_gen (ks s k)))) eqn:G; simpl in H.
    + destruct (Bool.eqb stored false); [|discriminate]. inversion H; subst s'.
      apply (Close (ks s)); [reflexivity|]. intros k' ep' Fr. apply (Fc _ _ Fr).
    + apply negb_false_iff, Nat.eqb_eq in G.
      destruct (store_or_amend (ks s k) ep req ans am) as [K' ok] eqn:SA.
      destruct (Bool.eqb stored ok); [|discriminate]. inversion H; subst s'.
      assert (k_gen K' = k_gen (ks s k) /\ forall ep', ep' <> ep -> k_map K' ep' = k_map (ks s k) ep') as [S1 S2].
      { unfold store_or_amend in SA. destruct (k_map (ks s k) ep); inversion SA; subst K'; simpl;
          (split; [reflexivity|]); intros ep' Hne; destruct (N.eqb_spec ep ep'); congruence. }
      apply (Close (fun k' => if kind_eqb k k' then K' else ks s k')).
      * intro k'. destruct (kind_eqb_spec k k') as [<-|]; [assumption | reflexivity].
      * intros k' ep' Fr. destruct (Fc k' ep' Fr) as [A B].
        destruct (kind_eqb_spec k k') as [<-|]; [|assumption].
        destruct (N.eq_dec ep' ep) as [->|Hne]; [|rewrite S2; assumption].
        specialize (B c _ lgen Cs eq_refl). lia.
  - (* LReturn *)
    split; [|reflexivity].
    destruct (calls s c) as [[k ep [| |r rm]]|] eqn:Cs; try discriminate.
    destruct (_ && _); [|discriminate]. inversion H; subst s'. unfold FInv. simpl.
    split; [assumption|]. split.
    + intros c' k' ep' ph' lg. destruct (Nat.eqb_spec c c') as [<-|Hne]; [discriminate | apply Fb].
    + intros k' ep' Fr. destruct (Fc k' ep' Fr) as [A B]. split; [assumption|].
      intros c' ph' lg. destruct (Nat.eqb_spec c c') as [<-|Hne]; [discriminate | apply B].
  - (* LReorg *)
    inversion H; subst s'. split; [|reflexivity]. unfold FInv. simpl. auto.
  - (* LInvalidate *)
    inversion H; subst s'. split; [|reflexivity]. unfold FInv. simpl. split; [assumption|]. split.
    + intros c' k' ep' ph' lg E Hc. destruct (Fb c' k' ep' ph' lg E Hc) as [A B]. split; [|assumption].
      destruct (kind_eqb_spec k k') as [<-|]; simpl; lia.
    + intros k' ep'. destruct (kind_eqb_spec k k') as [<-|Hne]; simpl.
      * destruct (N.ltb e ep') eqn:L.
        -- intros _. split; [reflexivity|]. intros c' ph' lg E Hc.
           destruct (Fb c' k ep' ph' lg E Hc) as [A B]. lia.
        -- intro Fr. destruct (Fc k ep' Fr) as [A B]. split; [assumption|].
           intros c' ph' lg E Hc. specialize (B c' ph' lg E Hc). lia.
      * apply Fc.
  - (* LTrim *)
    split; [|reflexivity]. destruct (N.ltb e trim_threshold) eqn:T; inversion H; subst s'.
    + simpl. rewrite T. unfold FInv. auto.
    + simpl. rewrite T. unfold FInv. simpl. split; [assumption|]. split.
      * intros c' k' ep' ph' lg E Hc. destruct (Fb c' k' ep' ph' lg E Hc) as [A B]. split; [|assumption].
        destruct (kind_eqb_spec k k') as [<-|]; simpl; lia.
      * intros k' ep'. destruct (kind_eqb_spec k k') as [<-|Hne]; simpl; [|apply Fc].
        destruct (N.ltb ep' (e - trim_threshold)) eqn:L; simpl.
        -- destruct (open_on k ep' (f_open f)) eqn:O; simpl.
           ++ intro Fr. destruct (Fc k ep' Fr) as [A B]. split; [reflexivity | assumption].
           ++ intros _. split; [reflexivity|]. intros c' ph' lg E Hc.
              destruct (Fb c' k ep' ph' lg E Hc) as [A B]. apply open_on_In in B. congruence.
        -- intro Fr. apply (Fc k ep' Fr).
  - (* LUpdateActive *)
    inversion H; subst s'. split; [|reflexivity]. unfold FInv. simpl. auto.
Qed.

Lemma FInv_init : forall act, FInv (init_with act) (finit_with act).
Proof.
  intro act. unfold FInv. simpl. split; [reflexivity|]. split; intros; discriminate.
Qed.

Lemma run_finv : forall ls s f s',
  FInv s f -> run asg metaf s ls = Some s' -> fmonitor_from f ls = true.
Proof.
  induction ls as [|l r IH]; intros s f s' HI H; simpl in *; [reflexivity|].
  unfold run in H. simpl in H. destruct (step_gen asg metaf true s l) as [s1|] eqn:St; [|discriminate].
  destruct (fstep_inv s f l s1 HI St) as [HI1 C]. rewrite C. simpl. eapply IH; eauto.
Qed.

(* Every trace of the model passes monitor B (no hypothesis on the requests). *)
Theorem run_monitor_fresh : forall act ls s,
  run asg metaf (init_with act) ls = Some s -> fmonitor_from (finit_with act) ls = true.
Proof. intros act ls s H. eapply run_finv; [apply FInv_init | exact H]. Qed.

End Fresh.

(* ------------------------------------------------------------------------------------------ *)
(* Reading the monitors: trace-level vocabulary                                                    *)

(* active set / reorg list after a prefix of the trace *)
Fixpoint active_after (act : list N) (ls : list label) : list N :=
  match ls with
  | [] => act
  | LUpdateActive a :: r => active_after a r
  | _ :: r => active_after act r
  end.

Fixpoint reorgs_after (rs : list N) (ls : list label) : list N :=
  match ls with
  | [] => rs
  | LReorg e :: r => reorgs_after (e :: rs) r
  | _ :: r => reorgs_after rs r
  end.

(* epoch generation of ep at the most recent invalidation of kind k that covered ep *)
Definition floor_after (act : list N) (ls : list label) (k : kind) (ep : N) : nat :=
  h_floor (ghost_after (ginit_with act) ls) k ep.

(* label l ends or (re)starts call c *)
Definition closes (c : nat) (l : label) : bool :=
  match l with
  | LLookup c' _ _ _ _ | LFetchErr c' | LReturn c' _ _ => Nat.eqb c c'
  | _ => false
  end.
Definition no_close (c : nat) (mid : list label) : bool := forallb (fun l => negb (closes c l)) mid.

(* label l is a lookup of (k, ep) *)
Definition looks (k : kind) (ep : N) (l : label) : bool :=
  match l with LLookup _ k' ep' _ _ => kind_eqb k k' && N.eqb ep ep' | _ => false end.
Definition no_lookup (k : kind) (ep : N) (mid : list label) : bool := forallb (fun l => negb (looks k ep l)) mid.

Definition fghost_after (f : fghost) (ls : list label) : fghost := fold_left fstep ls f.

(* calls on which a store may still happen after the prefix ls (looked up with a miss or partial
   hit, storeOrAmend not reached yet) *)
Definition in_flight_after (act : list N) (ls : list label) : list (nat * (kind * N)) :=
  f_open (fghost_after (finit_with act) ls).

Lemma h_active_after : forall ls g, h_active (ghost_after g ls) = active_after (h_active g) ls.
Proof. induction ls as [|l r IH]; intro g; [reflexivity|]. simpl. rewrite IH. destruct l; reflexivity. Qed.

Lemma h_reorgs_after : forall ls g, h_reorgs (ghost_after g ls) = reorgs_after (h_reorgs g) ls.
Proof. induction ls as [|l r IH]; intro g; [reflexivity|]. simpl. rewrite IH. destruct l; reflexivity. Qed.

Lemma f_active_after : forall ls f, f_active (fghost_after f ls) = active_after (f_active f) ls.
Proof.
  induction ls as [|l r IH]; intro f; [reflexivity|]. simpl. rewrite IH.
  destruct l; try reflexivity. simpl. destruct (N.ltb e trim_threshold); reflexivity.
Qed.

Lemma fghost_after_app : forall f a b, fghost_after f (a ++ b) = fghost_after (fghost_after f a) b.
Proof. intros. apply fold_left_app. Qed.

Lemma reorgs_after_app : forall a b rs, reorgs_after rs (a ++ b) = reorgs_after (reorgs_after rs a) b.
Proof. induction a as [|l r IH]; intros b rs; [reflexivity|]. destruct l; simpl; apply IH. Qed.

Lemma active_after_app : forall a b act, active_after act (a ++ b) = active_after (active_after act a) b.
Proof. induction a as [|l r IH]; intros b act; [reflexivity|]. destruct l; simpl; apply IH. Qed.

Lemma egen_reorgs_after_le : forall ls rs ep, egen rs ep <= egen (reorgs_after rs ls) ep.
Proof.
  induction ls as [|l r IH]; intros rs ep; simpl; [lia|].
  destruct l; try apply IH. pose proof (egen_cons_le e rs ep). pose proof (IH (e :: rs) ep). lia.
Qed.

Lemma ghost_call_kept : forall mid g c, no_close c mid = true -> h_calls (ghost_after g mid) c = h_calls g c.
Proof.
  induction mid as [|l r IH]; intros g c H; [reflexivity|]. simpl in *.
  apply andb_true_iff in H. destruct H as [H1 H2]. rewrite (IH _ _ H2).
  destruct l; simpl in *; try reflexivity; apply negb_true_iff in H1;
    rewrite Nat.eqb_sym in H1; rewrite H1; reflexivity.
Qed.

Definition floor_le_egen (g : ghost) : Prop := forall k ep, h_floor g k ep <= egen (h_reorgs g) ep.

Lemma floor_le_egen_step : forall g l, floor_le_egen g -> floor_le_egen (gstep g l).
Proof.
  intros g l H k ep. destruct l; simpl; try apply H.
  - pose proof (H k ep). pose proof (egen_cons_le e (h_reorgs g) ep). lia.
  - destruct (kind_eqb k0 k && N.ltb e ep); [lia | apply H].
Qed.

Lemma floor_le_egen_after : forall ls g, floor_le_egen g -> floor_le_egen (ghost_after g ls).
Proof. induction ls as [|l r IH]; intros g H; [assumption|]. simpl. apply IH, floor_le_egen_step, H. Qed.

Lemma floor_mono_after : forall ls g k ep, floor_le_egen g -> h_floor g k ep <= h_floor (ghost_after g ls) k ep.
Proof.
  induction ls as [|l r IH]; intros g k ep H; simpl; [lia|].
  pose proof (IH (gstep g l) k ep (floor_le_egen_step g l H)) as X.
  enough (h_floor g k ep <= h_floor (gstep g l) k ep) by lia.
  destruct l; simpl; try lia. destruct (kind_eqb k0 k && N.ltb e ep); [apply H | lia].
Qed.

Lemma floor_le_egen_init : forall act, floor_le_egen (ginit_with act).
Proof. intros act k ep. simpl. lia. Qed.

Lemma fresh_kept : forall mid f k ep,
  no_lookup k ep mid = true -> f_fresh f k ep = true -> f_fresh (fghost_after f mid) k ep = true.
Proof.
  induction mid as [|l r IH]; intros f k ep H Fr; [assumption|]. simpl in *.
  apply andb_true_iff in H. destruct H as [H1 H2]. apply IH; [assumption|].
  destruct l; simpl in *; try assumption.
  - apply negb_true_iff in H1. rewrite andb_comm in H1.
    destruct (kind_eqb k0 k && N.eqb ep0 ep) eqn:E; [|assumption].
    apply andb_true_iff in E. destruct E as [E1 E2]. apply kind_eqb_eq in E1. apply N.eqb_eq in E2. subst.
    rewrite kind_eqb_refl, N.eqb_refl in H1. discriminate.
  - destruct (kind_eqb k0 k && N.ltb e ep); [reflexivity | assumption].
  - destruct (N.ltb e trim_threshold); [assumption|]. simpl.
    destruct (kind_eqb k0 k && N.ltb ep (e - trim_threshold) && negb (open_on k0 ep (f_open f))); [reflexivity | assumption].
Qed.

(* two lists with the same duties per validator are permutations of each other *)
Lemma duty_eq_dec : forall a b : duty, {a = b} + {a <> b}.
Proof. decide equality; apply N.eq_dec. Qed.

Lemma count_occ_of_val : forall d l, count_occ duty_eq_dec (of_val (vidx d) l) d = count_occ duty_eq_dec l d.
Proof.
  intros d l. induction l as [|x r IH]; simpl; [reflexivity|].
  destruct (N.eqb_spec (vidx x) (vidx d)) as [E|E]; simpl.
  - destruct (duty_eq_dec x d); rewrite IH; reflexivity.
  - destruct (duty_eq_dec x d) as [->|]; [congruence | assumption].
Qed.

Lemma perm_by_validator : forall l1 l2, (forall i, of_val i l1 = of_val i l2) -> Permutation l1 l2.
Proof.
  intros l1 l2 H. apply (Permutation_count_occ duty_eq_dec). intro d.
  rewrite <- (count_occ_of_val d l1), <- (count_occ_of_val d l2), H. reflexivity.
Qed.

Lemma perm_bn : forall asg k ep S g res,
  (forall d, In d res -> In (vidx d) S) ->
  (forall i, In i S -> of_val i res = of_val i (asg k ep g)) ->
  Permutation res (bn asg k ep S g).
Proof.
  intros asg k ep S g res A B. apply perm_by_validator. intro i. unfold bn. rewrite of_val_only.
  destruct (mem i S) eqn:M.
  - apply B. apply mem_In. assumption.
  - apply of_val_nil. intros d Hd X. apply mem_false in M. apply M. rewrite <- X. apply A. assumption.
Qed.

Lemma monitor_split : forall asg metaf pre g l post,
  monitor_from asg metaf g (pre ++ l :: post) = true -> check_ans asg metaf (ghost_after g pre) l = true.
Proof.
  induction pre as [|x r IH]; intros g l post H; simpl in *.
  - apply andb_true_iff in H. tauto.
  - apply andb_true_iff in H. destruct H as [_ H]. apply (IH _ _ _ H).
Qed.

Lemma fmonitor_split : forall pre f l post,
  fmonitor_from f (pre ++ l :: post) = true -> check_fresh (fghost_after f pre) l = true.
Proof.
  induction pre as [|x r IH]; intros f l post H; simpl in *.
  - apply andb_true_iff in H. tauto.
  - apply andb_true_iff in H. destruct H as [_ H]. apply (IH _ _ _ H).
Qed.

Section Readings.
Variable asg : kind -> N -> nat -> list duty.
Variable metaf : kind -> N -> nat -> N.

(* What ANY call returns, whatever overlaps it: duties of requested validators only; for each requested
   validator exactly the beacon node's duties of that validator at one epoch generation g, where g is
   not older than the last invalidation (covering the epoch) that completed before the call's lookup
   and not newer than the chain at the return; metadata likewise. *)
Theorem answer_window : forall act ls s,
  run asg metaf (init_with act) ls = Some s -> sets_only_from act ls = true ->
  forall pre c k ep idxs obs mid res m post,
  ls = pre ++ LLookup c k ep idxs obs :: mid ++ LReturn c res m :: post -> no_close c mid = true ->
  let S := resolve (active_after act pre) idxs in
  let lo := floor_after act pre k ep in
  let hi := egen (reorgs_after [] (pre ++ LLookup c k ep idxs obs :: mid)) ep in
  (forall d, In d res -> In (vidx d) S) /\
  (forall i, In i S -> exists g, lo <= g <= hi /\ of_val i res = of_val i (asg k ep g)) /\
  (exists g, lo <= g <= hi /\ m = metaf k ep g).
Proof.
  intros act ls s H HS pre c k ep idxs obs mid res m post E NC S lo hi.
  pose proof (run_monitor_ans asg metaf act ls s H HS) as M.
  replace ls with ((pre ++ LLookup c k ep idxs obs :: mid) ++ LReturn c res m :: post) in M
    by (rewrite E, <- app_assoc; reflexivity).
  apply monitor_split in M. simpl in M.
  rewrite ghost_after_app in M. simpl in M. rewrite (ghost_call_kept mid _ c NC) in M. simpl in M.
  rewrite Nat.eqb_refl in M. simpl in M.
  rewrite h_reorgs_after in M. simpl in M. rewrite h_reorgs_after, h_active_after in M. simpl in M.
  apply answer_ok_inv in M. unfold S, lo, hi, floor_after. rewrite reorgs_after_app. simpl. exact M.
Qed.

(* The answer equals the beacon node's answer (as a multiset; metadata equal) whenever no reorg of
   the epoch is pending (reorg seen by the beacon node, invalidation not yet run) at the lookup and
   none happens during the call -- whatever else overlaps the call. *)
Theorem answers_equal_bn : forall act ls s,
  run asg metaf (init_with act) ls = Some s -> sets_only_from act ls = true ->
  forall pre c k ep idxs obs mid res m post,
  ls = pre ++ LLookup c k ep idxs obs :: mid ++ LReturn c res m :: post -> no_close c mid = true ->
  floor_after act pre k ep = egen (reorgs_after [] (pre ++ LLookup c k ep idxs obs :: mid)) ep ->
  let g := egen (reorgs_after [] pre) ep in
  Permutation res (bn asg k ep (resolve (active_after act pre) idxs) g) /\ m = metaf k ep g.
Proof.
  intros act ls s H HS pre c k ep idxs obs mid res m post E NC Hsync g.
  destruct (answer_window act ls s H HS pre c k ep idxs obs mid res m post E NC) as (A & B & C).
  assert (floor_after act pre k ep <= g) as L1.
  { unfold floor_after, g. pose proof (floor_le_egen_after pre _ (floor_le_egen_init act) k ep) as X.
    rewrite h_reorgs_after in X. exact X. }
  assert (g <= egen (reorgs_after [] (pre ++ LLookup c k ep idxs obs :: mid)) ep) as L2.
  { unfold g. rewrite reorgs_after_app. apply egen_reorgs_after_le. }
  split.
  - apply perm_bn; [assumption|]. intros i Hi. destruct (B i Hi) as [g0 [G1 G2]].
    replace g with g0 by lia. assumption.
  - destruct C as [g0 [G1 G2]]. replace g with g0 by lia. assumption.
Qed.

(* What the generation counter buys: a call whose lookup comes after an invalidation of epochs > e0
   completed never returns, for an epoch > e0, duties (or metadata) of an epoch generation older than the one
   current when the invalidation ran -- under every interleaving of other calls, stores, reorgs. *)
Theorem concurrent_no_stale : forall act ls s,
  run asg metaf (init_with act) ls = Some s -> sets_only_from act ls = true ->
  forall pre0 k e0 pre1 c ep idxs obs mid res m post,
  ls = pre0 ++ LInvalidate k e0 :: pre1 ++ LLookup c k ep idxs obs :: mid ++ LReturn c res m :: post ->
  N.lt e0 ep -> no_close c mid = true ->
  let G := egen (reorgs_after [] pre0) ep in
  (forall i, In i (resolve (active_after act (pre0 ++ LInvalidate k e0 :: pre1)) idxs) ->
             exists g, G <= g /\ of_val i res = of_val i (asg k ep g)) /\
  (exists g, G <= g /\ m = metaf k ep g).
Proof.
  intros act ls s H HS pre0 k e0 pre1 c ep idxs obs mid res m post E Lt NC G.
  destruct (answer_window act ls s H HS (pre0 ++ LInvalidate k e0 :: pre1) c k ep idxs obs mid res m post)
    as (A & B & C); [rewrite E, <- app_assoc; reflexivity | assumption |].
  assert (G <= floor_after act (pre0 ++ LInvalidate k e0 :: pre1) k ep) as L.
  { unfold floor_after. rewrite ghost_after_app. simpl.
    set (g0 := ghost_after (ginit_with act) pre0).
    assert (floor_le_egen g0) as F0 by (apply floor_le_egen_after, floor_le_egen_init).
    pose proof (floor_mono_after pre1 (gstep g0 (LInvalidate k e0)) k ep (floor_le_egen_step _ _ F0)) as X.
    simpl in X. rewrite kind_eqb_refl in X. apply N.ltb_lt in Lt. rewrite Lt in X. simpl in X.
    unfold g0 in X at 1. rewrite h_reorgs_after in X. exact X. }
  split.
  - intros i Hi. destruct (B i Hi) as [g [G1 G2]]. exists g. split; [lia | assumption].
  - destruct C as [g [G1 G2]]. exists g. split; [lia | assumption].
Qed.

(* After InvalidateCache(e0) reached kind k, the first call that looks up an epoch > e0 of that kind
   finds nothing cached: it asks the beacon node for all its indices -- even if calls that started
   before the invalidation complete their beacon request and reach storeOrAmend in between. *)
Theorem invalidate_refetches : forall act ls s,
  run asg metaf (init_with act) ls = Some s ->
  forall pre k e0 mid c ep idxs obs post,
  ls = pre ++ LInvalidate k e0 :: mid ++ LLookup c k ep idxs obs :: post ->
  N.lt e0 ep -> no_lookup k ep mid = true ->
  obs = Some (resolve (active_after act (pre ++ LInvalidate k e0 :: mid)) idxs).
Proof.
  intros act ls s H pre k e0 mid c ep idxs obs post E Lt NL.
  pose proof (run_monitor_fresh asg metaf act ls s H) as M.
  replace ls with ((pre ++ LInvalidate k e0 :: mid) ++ LLookup c k ep idxs obs :: post) in M
    by (rewrite E, <- app_assoc; reflexivity).
  apply fmonitor_split in M. simpl in M.
  rewrite f_active_after in M. simpl in M.
  rewrite fghost_after_app in M. simpl in M.
  rewrite (fresh_kept mid _ k ep NL) in M.
  - apply obs_eqb_eq in M. exact M.
  - simpl. rewrite kind_eqb_refl. apply N.ltb_lt in Lt. rewrite Lt. reflexivity.
Qed.

(* After Trim(e) (e >= 3) reached kind k, the first call that looks up an epoch < e - 3 of that kind
   finds nothing cached, provided no call on that epoch was between its lookup and its store when the
   trim ran (such a call stores the epoch again: trims do not bump the generation; its duties are still
   the beacon node's, see answer_window). *)
Theorem trim_refetches : forall act ls s,
  run asg metaf (init_with act) ls = Some s ->
  forall pre k e mid c ep idxs obs post,
  ls = pre ++ LTrim k e :: mid ++ LLookup c k ep idxs obs :: post ->
  N.le trim_threshold e -> N.lt ep (e - trim_threshold) ->
  open_on k ep (in_flight_after act pre) = false -> no_lookup k ep mid = true ->
  obs = Some (resolve (active_after act (pre ++ LTrim k e :: mid)) idxs).
Proof.
  intros act ls s H pre k e mid c ep idxs obs post E Le Lt NO NL.
  pose proof (run_monitor_fresh asg metaf act ls s H) as M.
  replace ls with ((pre ++ LTrim k e :: mid) ++ LLookup c k ep idxs obs :: post) in M
    by (rewrite E, <- app_assoc; reflexivity).
  apply fmonitor_split in M. simpl in M.
  rewrite f_active_after in M. simpl in M.
  rewrite fghost_after_app in M. simpl in M.
  rewrite (fresh_kept mid _ k ep NL) in M.
  - apply obs_eqb_eq in M. exact M.
  - assert (N.ltb e trim_threshold = false) as T by (apply N.ltb_ge; assumption).
    simpl. rewrite T. simpl. rewrite kind_eqb_refl. apply N.ltb_lt in Lt. rewrite Lt.
    unfold in_flight_after in NO. rewrite NO. reflexivity.
Qed.

(* Reachable cache contents: an entry holds duties of requested validators only; for each requested
   validator exactly the beacon node's duties at one epoch generation between the last invalidation
   covering the epoch and now; with no reorg pending the entry is the beacon node's answer for the
   requested indices at the current epoch generation. *)
Theorem requested_subset_invariant : forall act ls s,
  run asg metaf (init_with act) ls = Some s -> sets_only_from act ls = true ->
  forall k ep en, k_map (ks s k) ep = Some en ->
  let lo := floor_after act ls k ep in
  let hi := egen (reorgs_after [] ls) ep in
  (forall d, In d (e_duties en) -> In (vidx d) (e_req en)) /\
  (forall i, In i (e_req en) -> exists g, lo <= g <= hi /\ of_val i (e_duties en) = of_val i (asg k ep g)) /\
  (exists g, lo <= g <= hi /\ e_meta en = metaf k ep g) /\
  (lo = hi -> Permutation (e_duties en) (bn asg k ep (e_req en) hi) /\ e_meta en = metaf k ep hi).
Proof.
  intros act ls s H HS k ep en M lo hi.
  destruct (run_inv asg metaf ls _ _ _ (Inv_init asg metaf act) H HS) as [_ (Ia & Ir & If & Ie & Ic)].
  destruct (Ie k ep en M) as (A & B & C).
  assert (egen (reorgs s) ep = hi) as Eh by (unfold hi; rewrite Ir, h_reorgs_after; reflexivity).
  rewrite Eh in B, C. fold (floor_after act ls k ep) in B, C. fold lo in B, C.
  split; [assumption|]. split; [assumption|]. split; [assumption|].
  intro Eq. split.
  - apply perm_bn; [assumption|]. intros i Hi. destruct (B i Hi) as [g [G1 G2]].
    replace hi with g by lia. assumption.
  - destruct C as [g [G1 G2]]. replace hi with g by lia. assumption.
Qed.

End Readings.

(* ------------------------------------------------------------------------------------------ *)
(* Histories without overlap, in the words of the property                                        *)

(* A history is sequential when (a) between the lookup of a call and its return only steps of that
   call occur, and (b) every reorg is directly followed by InvalidateCache for it (its three parts, in
   the order of the Go code).  Invalidations without a reorg, trims and active-set updates may occur
   anywhere between calls. *)
Inductive seqst := QIdle | QCall (c : nat) | QInv (e : N) (n : nat).

Definition seq_step (q : seqst) (l : label) : option seqst :=
  match q, l with
  | QIdle, LLookup c _ _ _ _ => Some (QCall c)
  | QIdle, LReorg e => Some (QInv e 0)
  | QIdle, LInvalidate _ _ => Some QIdle
  | QIdle, LTrim _ _ => Some QIdle
  | QIdle, LUpdateActive _ => Some QIdle
  | QCall c, LFetch c' _ _ => if Nat.eqb c c' then Some (QCall c) else None
  | QCall c, LStore c' _ => if Nat.eqb c c' then Some (QCall c) else None
  | QCall c, LReturn c' _ _ => if Nat.eqb c c' then Some QIdle else None
  | QCall c, LFetchErr c' => if Nat.eqb c c' then Some QIdle else None
  | QInv e 0, LInvalidate KProp e' => if N.eqb e e' then Some (QInv e 1) else None
  | QInv e 1, LInvalidate KAtt e' => if N.eqb e e' then Some (QInv e 2) else None
  | QInv e 2, LInvalidate KSync e' => if N.eqb e e' then Some QIdle else None
  | _, _ => None
  end.

Fixpoint seq_from (q : seqst) (ls : list label) : bool :=
  match ls with
  | [] => true
  | l :: r => match seq_step q l with Some q' => seq_from q' r | None => false end
  end.
Definition sequential : list label -> bool := seq_from QIdle.

Definition kdone (k : kind) (n : nat) : bool :=
  match k with KProp => Nat.leb 1 n | KAtt => Nat.leb 2 n | KSync => Nat.leb 3 n end.

Definition seq_ok (q : seqst) (g : ghost) : Prop :=
  match q with
  | QInv e n => n <= 2 /\ forall k ep, kdone k n = true \/ N.ltb e ep = false -> h_floor g k ep = egen (h_reorgs g) ep
  | _ => forall k ep, h_floor g k ep = egen (h_reorgs g) ep
  end.

Lemma seq_ok_step : forall q g l q', seq_step q l = Some q' -> seq_ok q g -> seq_ok q' (gstep g l).
Proof.
  intros q g l q' H Hq. destruct q as [|c|e n].
  - destruct l; simpl in H; inversion H; subst q'; simpl in *; try assumption.
    + split; [lia|]. intros k ep [X|X]; [destruct k; discriminate|].
      unfold egen. simpl. rewrite X. apply Hq.
    + intros k' ep. destruct (kind_eqb k k' && N.ltb e ep); [reflexivity | apply Hq].
  - destruct l; simpl in H; try discriminate; destruct (Nat.eqb c c0); inversion H; subst q'; simpl in *; assumption.
  - destruct Hq as [Hn Hq].
    destruct n as [|[|[|n]]]; [| | |lia]; destruct l; simpl in H; try discriminate;
      destruct k; try discriminate; destruct (N.eqb_spec e e0) as [<-|]; inversion H; subst q'; simpl.
    + split; [lia|]. intros k ep X.
      destruct k; simpl in *; try (destruct (N.ltb e ep) eqn:L; [reflexivity|]); apply Hq;
        first [ left; reflexivity | right; assumption | destruct X as [X|X]; [discriminate | right; assumption] ].
    + split; [lia|]. intros k ep X.
      destruct k; simpl in *; try (destruct (N.ltb e ep) eqn:L; [reflexivity|]); apply Hq;
        first [ left; reflexivity | right; assumption | destruct X as [X|X]; [discriminate | right; assumption] ].
    + intros k ep.
      destruct k; simpl in *; try (destruct (N.ltb e ep) eqn:L; [reflexivity|]); apply Hq;
        first [ left; reflexivity | right; assumption ].
Qed.

Lemma seq_split : forall a q g b, seq_from q (a ++ b) = true -> seq_ok q g ->
  exists q', seq_ok q' (ghost_after g a) /\ seq_from q' b = true.
Proof.
  induction a as [|l r IH]; intros q g b H Hq; simpl in *; [exists q; tauto|].
  destruct (seq_step q l) as [q1|] eqn:S; [|discriminate].
  apply (IH q1 (gstep g l) b H). eapply seq_ok_step; eauto.
Qed.

Lemma seq_call_reorgs : forall mid c rest rs,
  seq_from (QCall c) (mid ++ rest) = true -> no_close c mid = true -> reorgs_after rs mid = rs.
Proof.
  induction mid as [|l r IH]; intros c rest rs H NC; [reflexivity|]. simpl in *.
  apply andb_true_iff in NC. destruct NC as [N1 N2].
  destruct l; simpl in H; try discriminate; destruct (Nat.eqb c c0) eqn:E; try discriminate; simpl in *.
  - apply (IH c rest rs H N2).
  - rewrite E in N1. discriminate.
  - apply (IH c rest rs H N2).
  - rewrite E in N1. discriminate.
Qed.

Section Sequential.
Variable asg : kind -> N -> nat -> list duty.
Variable metaf : kind -> N -> nat -> N.

(* In every history without overlap, over explicit index sets, each answer is -- as a multiset --
   the beacon node's answer for the request at the epoch generation current at the call, and the
   metadata is the beacon node's: also for validators with no or several duties, on the full-hit,
   partial-hit (amend) and miss paths, for repeated, overlapping and disjoint index sets. *)
Theorem sequential_equals_bn : forall act ls s,
  run asg metaf (init_with act) ls = Some s -> sets_only_from act ls = true -> sequential ls = true ->
  forall pre c k ep idxs obs mid res m post,
  ls = pre ++ LLookup c k ep idxs obs :: mid ++ LReturn c res m :: post -> no_close c mid = true ->
  let g := egen (reorgs_after [] pre) ep in
  Permutation res (bn asg k ep (resolve (active_after act pre) idxs) g) /\ m = metaf k ep g.
Proof.
  intros act ls s H HS HQ pre c k ep idxs obs mid res m post E NC g.
  apply (answers_equal_bn asg metaf act ls s H HS pre c k ep idxs obs mid res m post E NC).
  unfold sequential in HQ. rewrite E in HQ.
  destruct (seq_split pre QIdle (ginit_with act) _ HQ) as [q [Q1 Q2]].
  { simpl. intros k0 ep0. reflexivity. }
  simpl in Q2. destruct q as [|c0|e n]; simpl in Q2; try discriminate.
  - rewrite reorgs_after_app. simpl. rewrite (seq_call_reorgs mid c _ _ Q2 NC).
    unfold floor_after. rewrite (Q1 k ep), h_reorgs_after. reflexivity.
  - destruct n as [|[|[|n]]]; discriminate.
Qed.

End Sequential.

(* ------------------------------------------------------------------------------------------ *)
(* Closed examples: non-vacuity, the defect repaired by the generation counter, reading notes     *)
Local Open Scope N_scope.

(* validator 1 has two duties, validator 2 one, validator 3 none; every reorg changes validator 1's *)
Definition ex_asg (k : kind) (ep : N) (g : nat) : list duty := [(1, 10 + N.of_nat g); (2, 20); (1, 30 + N.of_nat g)].
Definition ex_meta (k : kind) (ep : N) (g : nat) : N := 1 + N.of_nat g.

(* miss, partial hit with amend, full hit on a validator without duty, reorg + invalidation, refetch *)
Definition ex_trace : list label :=
  [ LLookup 0 KProp 1 [1] (Some [1]); LFetch 0 [(1, 10); (1, 30)] 1; LStore 0 true; LReturn 0 [(1, 10); (1, 30)] 1;
    LLookup 1 KProp 1 [2; 1; 3] (Some [2; 3]); LFetch 1 [(2, 20)] 1; LStore 1 true; LReturn 1 [(1, 10); (1, 30); (2, 20)] 1;
    LLookup 2 KProp 1 [3] None; LReturn 2 [] 1;
    LLookup 3 KProp 1 [] None; LReturn 3 [(1, 10); (1, 30); (2, 20)] 1;
    LReorg 0; LInvalidate KProp 0; LInvalidate KAtt 0; LInvalidate KSync 0;
    LLookup 4 KProp 1 [1] (Some [1]); LFetch 4 [(1, 11); (1, 31)] 2; LStore 4 true; LReturn 4 [(1, 11); (1, 31)] 2;
    LTrim KProp 5; LLookup 5 KProp 1 [1] (Some [1]); LFetchErr 5 ].

Lemma ex_trace_accepted :
  first_reject ex_asg ex_meta true (init_with [1; 2; 3]) ex_trace 0 = None /\
  sets_only_from [1; 2; 3] ex_trace = true /\ sequential ex_trace = true /\
  monitor_from ex_asg ex_meta (ginit_with [1; 2; 3]) ex_trace = true /\
  fmonitor_from (finit_with [1; 2; 3]) ex_trace = true.
Proof. vm_compute. repeat split. Qed.

(* F10, before the repair (no generation check in storeOrAmend): call 0 fetches before the reorg, the
   invalidation runs, call 0 stores the pre-reorg duties; call 1, started after the invalidation, is
   served the pre-reorg duties from the cache. *)
Definition f10_trace : list label :=
  [ LLookup 0 KAtt 5 [1; 3] (Some [1; 3]); LFetch 0 [(1, 10); (1, 30)] 1;
    LReorg 3; LInvalidate KProp 3; LInvalidate KAtt 3; LInvalidate KSync 3;
    LStore 0 true; LReturn 0 [(1, 10); (1, 30)] 1;
    LLookup 1 KAtt 5 [1] None; LReturn 1 [(1, 10); (1, 30)] 1 ].

Lemma stale_store_after_invalidate_refuted_before_fix :
  first_reject ex_asg ex_meta false (init_with [1; 2; 3]) f10_trace 0 = None /\   (* accepted by the unrepaired model *)
  sets_only_from [1; 2; 3] f10_trace = true /\
  first_violation_ans ex_asg ex_meta (ginit_with [1; 2; 3]) f10_trace 0 = Some 9%nat /\   (* stale answer *)
  first_violation_fresh (finit_with [1; 2; 3]) f10_trace 0 = Some 8%nat /\                 (* no refetch *)
  first_reject ex_asg ex_meta true (init_with [1; 2; 3]) f10_trace 0 = Some 6%nat.         (* the repaired code refuses the store *)
Proof. vm_compute. repeat split. Qed.

(* Reading note N3 (outside the property: the request is not an index set): a request naming an
   index twice on the amend path stores that validator's duties twice; a later request for the set {2}
   is answered with the duty twice. The model mirrors the code (trace accepted), monitor A rejects. *)
Definition dup_trace : list label :=
  [ LLookup 0 KProp 1 [3] (Some [3]); LFetch 0 [] 1; LStore 0 true; LReturn 0 [] 1;
    LLookup 1 KProp 1 [2; 2] (Some [2; 2]); LFetch 1 [(2, 20)] 1; LStore 1 true; LReturn 1 [(2, 20)] 1;
    LLookup 2 KProp 1 [2] None; LReturn 2 [(2, 20); (2, 20)] 1 ].

Lemma repeated_index_request_diverges :
  first_reject ex_asg ex_meta true (init_with [1; 2; 3]) dup_trace 0 = None /\
  sets_only_from [1; 2; 3] dup_trace = false /\
  first_violation_ans ex_asg ex_meta (ginit_with [1; 2; 3]) dup_trace 0 = Some 9%nat.
Proof. vm_compute. repeat split. Qed.

(* Trims do not bump the generation: a call in flight during a trim stores the trimmed epoch again
   (this is why trim_refetches excludes calls in flight); the duties are still the beacon node's. *)
Definition trim_straddle_trace : list label :=
  [ LLookup 0 KAtt 1 [1] (Some [1]); LFetch 0 [(1, 10); (1, 30)] 1; LTrim KAtt 10; LStore 0 true;
    LReturn 0 [(1, 10); (1, 30)] 1; LLookup 1 KAtt 1 [1] None; LReturn 1 [(1, 10); (1, 30)] 1 ].

Lemma trim_straddle_restores :
  first_reject ex_asg ex_meta true (init_with [1; 2; 3]) trim_straddle_trace 0 = None /\
  monitor_from ex_asg ex_meta (ginit_with [1; 2; 3]) trim_straddle_trace = true /\
  fmonitor_from (finit_with [1; 2; 3]) trim_straddle_trace = true.
Proof. vm_compute. repeat split. Qed.
