(* Proofs about the duties-cache model Flow/Cache.v.  Statements of the property theorems are
   repeated in Properties/C20.v. *)
From Coq Require Import List NArith Arith Bool Lia Permutation.
From Charon Require Import Flow.Cache.
Import ListNotations.

(* ------------------------------------------------------------------------------------------ *)
(* Basic facts about the list functions of the model                                            *)

Lemma mem_In : forall i l, mem i l = true <-> In i l.
Proof.
  induction l as [|x r IH]; simpl; [split; [discriminate|tauto]|].
  rewrite orb_true_iff, IH, N.eqb_eq. tauto.
Qed.

Lemma mem_false : forall i l, mem i l = false <-> ~ In i l.
Proof.
  intros. rewrite <- mem_In. destruct (mem i l); split; congruence.
Qed.

Lemma nodupb_NoDup : forall l, nodupb l = true <-> NoDup l.
Proof.
  induction l as [|x r IH]; simpl; [split; [constructor|reflexivity]|].
  rewrite andb_true_iff, negb_true_iff, mem_false, IH.
  split; [intros [A B]; constructor; assumption | intro H; inversion H; tauto].
Qed.

Lemma kind_eqb_eq : forall a b, kind_eqb a b = true <-> a = b.
Proof. destruct a, b; simpl; split; congruence. Qed.

Lemma kind_eqb_refl : forall a, kind_eqb a a = true.
Proof. destruct a; reflexivity. Qed.

Lemma kind_eqb_spec : forall a b, reflect (a = b) (kind_eqb a b).
Proof. intros. apply iff_reflect. symmetry. apply kind_eqb_eq. Qed.

Lemma duty_eqb_eq : forall a b, duty_eqb a b = true <-> a = b.
Proof.
  intros [a1 a2] [b1 b2]. unfold duty_eqb. simpl.
  rewrite andb_true_iff, !N.eqb_eq. split; [intros [-> ->]; reflexivity | intro H; inversion H; tauto].
Qed.

Lemma list_eqb_eq : forall (A : Type) (eqb : A -> A -> bool),
  (forall a b, eqb a b = true <-> a = b) -> forall l1 l2, list_eqb eqb l1 l2 = true <-> l1 = l2.
Proof.
  intros A eqb H. induction l1 as [|x r IH]; destruct l2 as [|y r2]; simpl; try (split; congruence).
  rewrite andb_true_iff, H, IH. split; [intros [-> ->]; reflexivity | intro E; inversion E; tauto].
Qed.

Lemma dlist_eqb_eq : forall l1 l2 : list duty, list_eqb duty_eqb l1 l2 = true <-> l1 = l2.
Proof. apply list_eqb_eq, duty_eqb_eq. Qed.

Lemma nlist_eqb_eq : forall l1 l2 : list N, list_eqb N.eqb l1 l2 = true <-> l1 = l2.
Proof. apply list_eqb_eq, N.eqb_eq. Qed.

Lemma obs_eqb_eq : forall a b, obs_eqb a b = true <-> a = b.
Proof.
  destruct a, b; simpl; try (split; congruence).
  rewrite nlist_eqb_eq. split; congruence.
Qed.

Lemma is_nil_true : forall (A : Type) (l : list A), is_nil l = true <-> l = [].
Proof. destruct l; simpl; split; congruence. Qed.

Lemma of_val_app : forall i a b, of_val i (a ++ b) = of_val i a ++ of_val i b.
Proof. intros. unfold of_val. apply filter_app. Qed.

Lemma In_of_val : forall i d ds, In d (of_val i ds) <-> In d ds /\ vidx d = i.
Proof. intros. unfold of_val. rewrite filter_In, N.eqb_eq. tauto. Qed.

Lemma of_val_nil : forall i ds, (forall d, In d ds -> vidx d <> i) -> of_val i ds = [].
Proof.
  intros i ds H. destruct (of_val i ds) as [|d r] eqn:E; [reflexivity|].
  assert (In d (of_val i ds)) as X by (rewrite E; left; reflexivity).
  apply In_of_val in X. destruct X as [X1 X2]. exfalso. exact (H d X1 X2).
Qed.

Lemma In_only : forall l d ds, In d (only l ds) <-> In d ds /\ In (vidx d) l.
Proof. intros. unfold only. rewrite filter_In, mem_In. tauto. Qed.

Lemma of_val_only : forall i l ds, of_val i (only l ds) = if mem i l then of_val i ds else [].
Proof.
  intros i l ds. induction ds as [|d r IH]; simpl; [destruct (mem i l); reflexivity|].
  destruct (mem (vidx d) l) eqn:M; simpl; destruct (N.eqb_spec (vidx d) i) as [E|E]; rewrite IH.
  - rewrite <- E, M. reflexivity.
  - destruct (mem i l); reflexivity.
  - rewrite <- E, M. reflexivity.
  - destruct (mem i l); reflexivity.
Qed.

Lemma In_minus : forall i l old, In i (minus l old) <-> In i l /\ ~ In i old.
Proof. intros. unfold minus. rewrite filter_In, negb_true_iff, mem_false. tauto. Qed.

Lemma NoDup_filter : forall (A : Type) (f : A -> bool) l, NoDup l -> NoDup (filter f l).
Proof.
  induction l as [|x r IH]; simpl; intro H; [constructor|].
  inversion H; subst. destruct (f x); auto. constructor; auto. rewrite filter_In. tauto.
Qed.

Lemma NoDup_minus : forall l old, NoDup l -> NoDup (minus l old).
Proof. intros. apply NoDup_filter. assumption. Qed.

Lemma minus_nil_incl : forall l old, minus l old = [] -> incl l old.
Proof.
  intros l old H i Hi. destruct (mem i old) eqn:M; [apply mem_In; assumption|].
  assert (In i (minus l old)) as X by (apply In_minus; split; [assumption | apply mem_false; assumption]).
  rewrite H in X. destruct X.
Qed.

Lemma filter_idem : forall (A : Type) (f : A -> bool) l, filter f (filter f l) = filter f l.
Proof.
  induction l as [|x r IH]; simpl; [reflexivity|].
  destruct (f x) eqn:E; simpl; [rewrite E, IH; reflexivity | assumption].
Qed.

(* duties of validator i among the duties appended by an amend for the new indices [newly] *)
Lemma of_val_flat_map : forall i ans newly, NoDup newly ->
  of_val i (flat_map (fun j => of_val j ans) newly) = if mem i newly then of_val i ans else [].
Proof.
  intros i ans newly. induction newly as [|j r IH]; intro ND; simpl; [reflexivity|].
  inversion ND as [|? ? Hnot ND']; subst. rewrite of_val_app, (IH ND').
  destruct (N.eqb_spec j i) as [E|E]; simpl.
  - subst. assert (mem i r = false) as M by (apply mem_false; assumption). rewrite M, app_nil_r.
    unfold of_val. rewrite filter_idem. reflexivity.
  - replace (of_val i (of_val j ans)) with (@nil duty); [reflexivity|].
    symmetry. apply of_val_nil. intros d Hd. apply In_of_val in Hd. destruct Hd as [_ Hd]. congruence.
Qed.

Lemma egen_cons_le : forall e r ep, egen r ep <= egen (e :: r) ep.
Proof. intros. unfold egen. simpl. destruct (N.ltb e ep); simpl; lia. Qed.

Lemma In_gens : forall fl hi g, In g (gens fl hi) <-> fl <= g <= hi.
Proof. intros. unfold gens. rewrite in_seq. lia. Qed.

(* ------------------------------------------------------------------------------------------ *)
Section Facts.
Variable asg : kind -> N -> nat -> list duty.
Variable metaf : kind -> N -> nat -> N.

Notation bn := (bn asg).
Notation step := (step asg metaf).
Notation step_gen := (step_gen asg metaf).
Notation run := (run asg metaf).
Notation run_gen := (run_gen asg metaf).
Notation check_ans := (check_ans asg metaf).
Notation monitor_from := (monitor_from asg metaf).
Notation monitor_ans := (monitor_ans asg metaf).

(* the duties of validator i in ds are the beacon node's at one epoch generation in [fl, hi] *)
Definition fresh_gen (k : kind) (ep : N) (fl hi : nat) (i : N) (ds : list duty) : Prop :=
  exists g, fl <= g <= hi /\ of_val i ds = of_val i (asg k ep g).

Definition meta_ok (k : kind) (ep : N) (fl hi : nat) (m : N) : Prop :=
  exists g, fl <= g <= hi /\ m = metaf k ep g.

Definition entry_ok (k : kind) (ep : N) (fl hi : nat) (en : entry) : Prop :=
  (forall d, In d (e_duties en) -> In (vidx d) (e_req en)) /\
  (forall i, In i (e_req en) -> fresh_gen k ep fl hi i (e_duties en)) /\
  meta_ok k ep fl hi (e_meta en).

Definition looked_ok (k : kind) (ep : N) (idxs : list N) (fl hi kg fln : nat)
           (cached : list duty) (req : list N) (lgen : nat) : Prop :=
  incl req idxs /\ NoDup req /\ lgen <= kg /\ (lgen = kg -> fln = fl) /\
  (forall d, In d cached -> In (vidx d) idxs /\ ~ In (vidx d) req) /\
  (forall i, In i idxs -> ~ In i req -> fresh_gen k ep fl hi i cached).

Definition phase_ok (k : kind) (ep : N) (idxs : list N) (fl hi kg fln : nat) (ph : phase) : Prop :=
  match ph with
  | PLooked cached req lgen => looked_ok k ep idxs fl hi kg fln cached req lgen
  | PFetched cached req lgen ans am =>
      looked_ok k ep idxs fl hi kg fln cached req lgen /\
      exists gf, fl <= gf <= hi /\ ans = bn k ep req gf /\ am = metaf k ep gf
  | PReady r rm =>
      (forall d, In d r -> In (vidx d) idxs) /\
      (forall i, In i idxs -> fresh_gen k ep fl hi i r) /\
      meta_ok k ep fl hi rm
  end.

Definition call_ok (s : state) (g : ghost) (c : nat) : Prop :=
  match calls s c, h_calls g c with
  | None, None => True
  | Some cl, Some gc =>
      c_kind cl = g_kind gc /\ c_ep cl = g_ep gc /\ NoDup (g_idxs gc) /\
      g_fl gc <= egen (reorgs s) (c_ep cl) /\
      phase_ok (c_kind cl) (c_ep cl) (g_idxs gc) (g_fl gc) (egen (reorgs s) (c_ep cl))
               (k_gen (ks s (c_kind cl))) (h_floor g (c_kind cl) (c_ep cl)) (c_phase cl)
  | _, _ => False
  end.

Definition Inv (s : state) (g : ghost) : Prop :=
  active s = h_active g /\ reorgs s = h_reorgs g /\
  (forall k ep, h_floor g k ep <= egen (reorgs s) ep) /\
  (forall k ep en, k_map (ks s k) ep = Some en ->
                   entry_ok k ep (h_floor g k ep) (egen (reorgs s) ep) en) /\
  (forall c, call_ok s g c).

Lemma fresh_gen_mono : forall k ep fl hi hi' i ds, hi <= hi' -> fresh_gen k ep fl hi i ds -> fresh_gen k ep fl hi' i ds.
Proof. intros k ep fl hi hi' i ds H [g [A B]]. exists g. split; [lia|assumption]. Qed.

Lemma meta_ok_mono : forall k ep fl hi hi' m, hi <= hi' -> meta_ok k ep fl hi m -> meta_ok k ep fl hi' m.
Proof. intros k ep fl hi hi' m H [g [A B]]. exists g. split; [lia|assumption]. Qed.

Lemma entry_ok_mono : forall k ep fl hi hi' en, hi <= hi' -> entry_ok k ep fl hi en -> entry_ok k ep fl hi' en.
Proof.
  intros k ep fl hi hi' en H [A [B C]]. split; [assumption|]. split.
  - intros i Hi. eapply fresh_gen_mono; eauto.
  - eapply meta_ok_mono; eauto.
Qed.

(* a call's invariant survives: the chain moving on, and either nothing happening to the cache
   generation and floor of its kind/epoch or the cache generation being bumped *)
Lemma phase_ok_mono : forall k ep idxs fl hi hi' kg kg' fln fln' ph,
  hi <= hi' -> ((kg' = kg /\ fln' = fln) \/ kg < kg') ->
  phase_ok k ep idxs fl hi kg fln ph -> phase_ok k ep idxs fl hi' kg' fln' ph.
Proof.
  intros k ep idxs fl hi hi' kg kg' fln fln' ph Hh Hk.
  assert (forall cached req lgen, looked_ok k ep idxs fl hi kg fln cached req lgen ->
                                  looked_ok k ep idxs fl hi' kg' fln' cached req lgen) as L.
  { intros cached req lgen (A & B & C & D & E & F).
    split; [assumption|]. split; [assumption|]. split; [lia|]. split; [|split].
    - intro X. destruct Hk as [[-> ->]|Hk]; [auto | lia].
    - assumption.
    - intros i Hi Hn. eapply fresh_gen_mono; eauto. }
  destruct ph as [cached req lgen | cached req lgen ans am | r rm]; simpl.
  - apply L.
  - intros [A [gf [B C]]]. split; [apply L; assumption|]. exists gf. split; [lia|assumption].
  - intros (A & B & C). split; [assumption|]. split.
    + intros i Hi. eapply fresh_gen_mono; eauto.
    + eapply meta_ok_mono; eauto.
Qed.

(* answers: boolean check from the Prop invariant of a ready call *)
Lemma answer_ok_true : forall k ep idxs fl hi res m,
  (forall d, In d res -> In (vidx d) idxs) ->
  (forall i, In i idxs -> fresh_gen k ep fl hi i res) ->
  meta_ok k ep fl hi m ->
  answer_ok asg metaf k ep idxs fl hi res m = true.
Proof.
  intros k ep idxs fl hi res m A B C. unfold answer_ok.
  rewrite !andb_true_iff. split; [split|].
  - apply forallb_forall. intros d Hd. apply mem_In. auto.
  - apply forallb_forall. intros i Hi. apply existsb_exists.
    destruct (B i Hi) as [g [G1 G2]]. exists (asg k ep g). split.
    + apply in_map. apply In_gens. assumption.
    + apply dlist_eqb_eq. assumption.
  - apply existsb_exists. destruct C as [g [G1 G2]]. exists g. split; [apply In_gens; assumption|].
    apply N.eqb_eq. assumption.
Qed.

Lemma answer_ok_inv : forall k ep idxs fl hi res m,
  answer_ok asg metaf k ep idxs fl hi res m = true ->
  (forall d, In d res -> In (vidx d) idxs) /\
  (forall i, In i idxs -> fresh_gen k ep fl hi i res) /\
  meta_ok k ep fl hi m.
Proof.
  intros k ep idxs fl hi res m H. unfold answer_ok in H.
  rewrite !andb_true_iff in H. destruct H as [[A B] C]. split; [|split].
  - intros d Hd. apply mem_In. rewrite forallb_forall in A. auto.
  - intros i Hi. rewrite forallb_forall in B. specialize (B i Hi). apply existsb_exists in B.
    destruct B as [t [T1 T2]]. apply in_map_iff in T1. destruct T1 as [g [<- G]].
    exists g. split; [apply In_gens; assumption | apply dlist_eqb_eq; assumption].
  - apply existsb_exists in C. destruct C as [g [G1 G2]]. exists g.
    split; [apply In_gens; assumption | apply N.eqb_eq; assumption].
Qed.


Lemma call_ok_transfer : forall s g s' g' c,
  calls s' c = calls s c -> h_calls g' c = h_calls g c ->
  (forall ep, egen (reorgs s) ep <= egen (reorgs s') ep) ->
  (forall k ep, (k_gen (ks s' k) = k_gen (ks s k) /\ h_floor g' k ep = h_floor g k ep)
                \/ k_gen (ks s k) < k_gen (ks s' k)) ->
  call_ok s g c -> call_ok s' g' c.
Proof.
  intros s g s' g' c E1 E2 Hr Hk H. unfold call_ok in *. rewrite E1, E2.
  destruct (calls s c) as [cl|]; destruct (h_calls g c) as [gc|]; try assumption.
  destruct H as (A & B & C & D & E). split; [assumption|]. split; [assumption|]. split; [assumption|].
  split; [specialize (Hr (c_ep cl)); lia|].
  eapply phase_ok_mono; [apply Hr | apply Hk | exact E].
Qed.

Definition lookup_sets (act : list N) (l : label) : Prop :=
  match l with LLookup _ _ _ idxs _ => NoDup (resolve act idxs) | _ => True end.

Lemma inv_lookup : forall s g c k ep idxs obs s',
  Inv s g -> step s (LLookup c k ep idxs obs) = Some s' -> NoDup (resolve (h_active g) idxs) ->
  Inv s' (gstep g (LLookup c k ep idxs obs)).
Proof.
  intros s g c k ep idxs obs s' (Ia & Ir & If & Ie & Ic) H ND.
  simpl in H. pose proof (Ic c) as Icc. unfold call_ok in Icc.
  destruct (calls s c) eqn:Cs; [discriminate|].
  destruct (h_calls g c) eqn:Cg; [contradiction|].
  rewrite <- Ia in ND.
  assert (forall ph, phase_ok k ep (resolve (active s) idxs) (h_floor g k ep) (egen (reorgs s) ep)
                              (k_gen (ks s k)) (h_floor g k ep) ph ->
      Inv (set_call s c (Some (mkC k ep ph))) (gstep g (LLookup c k ep idxs obs))) as Close.
  { intros ph Hph. unfold Inv. simpl.
    split; [assumption|]. split; [assumption|]. split; [assumption|]. split; [assumption|].
    intro c'. unfold call_ok. simpl. destruct (Nat.eqb_spec c c') as [->|Hne].
    - simpl. rewrite <- Ia. split; [reflexivity|]. split; [reflexivity|]. split; [assumption|].
      split; [apply If | assumption].
    - exact (Ic c'). }
  destruct (k_map (ks s k) ep) as [en|] eqn:M.
  - destruct (Ie k ep en M) as (E1 & E2 & E3).
    destruct (is_nil (minus (resolve (active s) idxs) (e_req en))) eqn:Nil.
    + destruct (obs_eqb obs None); [|discriminate]. inversion H; subst s'. apply Close. simpl.
      apply is_nil_true in Nil. apply minus_nil_incl in Nil.
      split; [|split].
      * intros d Hd. apply In_only in Hd. tauto.
      * intros i Hi. unfold fresh_gen. rewrite of_val_only.
        assert (mem i (resolve (active s) idxs) = true) as Mi by (apply mem_In; assumption).
        rewrite Mi. apply E2. apply Nil. assumption.
      * assumption.
    + destruct (obs_eqb obs _); [|discriminate]. inversion H; subst s'. apply Close. simpl.
      unfold looked_ok. split; [|split; [|split; [|split; [|split]]]].
      * intros i Hi. apply In_minus in Hi. tauto.
      * apply NoDup_minus. assumption.
      * lia.
      * reflexivity.
      * intros d Hd. apply In_only in Hd. destruct Hd as [D1 D2]. split; [assumption|].
        intro X. apply In_minus in X. destruct X as [_ X]. apply X. apply E1. assumption.
      * intros i Hi Hn. unfold fresh_gen. rewrite of_val_only.
        assert (mem i (resolve (active s) idxs) = true) as Mi by (apply mem_In; assumption).
        rewrite Mi. apply E2. destruct (mem i (e_req en)) eqn:Mr; [apply mem_In; assumption|].
        exfalso. apply Hn. apply In_minus. split; [assumption | apply mem_false; assumption].
  - destruct (obs_eqb obs _); [|discriminate]. inversion H; subst s'. apply Close. simpl.
    unfold looked_ok. split; [|split; [|split; [|split; [|split]]]].
    + apply incl_refl.
    + assumption.
    + lia.
    + reflexivity.
    + intros d [].
    + intros i Hi Hn. contradiction.
Qed.

End Facts.
