(* The proof obligation on the REGENERATED wiring (gen/Wiring.v is rewritten by translator/wire
   from /repo/core/interfaces.go on every check): evaluated by the kernel on the generated lists. *)
From Coq Require Import List String Bool.
From Charon Require Import Flow.WiringCheck gen.Wiring.

Lemma wiring_ok : wiring_check bindings edges wrappers = true.
Proof. vm_compute. reflexivity. Qed.
