(* Model of core/sigagg/sigagg.go (Aggregator.Aggregate / aggregate, with the verifier of
   NewVerifier plugged in as cmd/app wires it).

   The aggregator keeps no state between calls (threshold, verifier and subscriber list are fixed
   at construction), so the labelled transition system has the one-point state [unit]; a label
   carries one whole call as an observer sees it: the threshold, the batch that was passed in
   (per validator the list of partial signed objects, in the order given), for every subscriber
   whether it returns an error, and what was observed: the error returned by Aggregate (as a
   class) and, for every subscriber call that happened, the set it received.  [accepts] says that
   the observation is one the model allows; correspondence = every label recorded from the Go
   component is accepted.  Go's map iteration order (which failing validator's error is returned)
   is absorbed by the label: the observed error must be the error of *some* failing validator.

   The context handed to Aggregate is NOT consulted by the loop over validators nor before the
   subscribers run (it only reaches the verifier, tracing and logging); the label records when the
   harness cancelled it ([l_cancel]) and the model's answer does not depend on it -- a version that
   stops early on cancellation and still publishes is refused by [accepts] and by the monitor.

   Cryptography is symbolic (DESIGN.md section 3).  A partial signature is a term:
     PSig v j rho   made with the key share j of validator v over the signing root rho
     SOther k       a well-formed curve point that is no such signature (signature under an
                    unrelated key, the point at infinity)
     SBadPoint k    96 bytes that do not decode to a curve point (all zero, truncated and padded,
                    random bytes)
     SBadLen k      a byte string whose length is not 96 (representable only when the signed
                    object is a bare core.Signature)
   The threshold combination of a share map  m : index -> term  verifies under the group key of
   validator v for root rho iff m has at least t entries and every entry (i, s) is  PSig v i rho
   (Lagrange interpolation through all supplied points; justified by C08 and unforgeability, both
   outside this file; the correspondence run compares this definition with herumi on every case).

   A signed object is (kind, tag, content): [content] is everything the signing root covers
   (message root, domain, epoch: [sroot]), [tag] is unsigned metadata that survives aggregation
   (for attestations: the ValidatorIndex, 0 = nil), [kind] tells attestations (payload choice),
   other eth2 objects and bare signatures (not verifiable: "invalid eth2 signed data") apart. *)
From Coq Require Import List ZArith NArith Bool Lia.
Import ListNotations.

Inductive sigt :=
| PSig (v : N) (j : Z) (rho : N)
| SOther (k : N)
| SBadPoint (k : N)
| SBadLen (k : N).

Definition sigt_eqb (a b : sigt) : bool :=
  match a, b with
  | PSig v j r, PSig v' j' r' => N.eqb v v' && Z.eqb j j' && N.eqb r r'
  | SOther k, SOther k' | SBadPoint k, SBadPoint k' | SBadLen k, SBadLen k' => N.eqb k k'
  | _, _ => false
  end.

Inductive kind := KAtt | KTyped | KRaw.
Definition kind_eqb (a b : kind) : bool :=
  match a, b with KAtt, KAtt | KTyped, KTyped | KRaw, KRaw => true | _, _ => false end.

(* Error classes of Aggregate, in the order the checks are made. *)
Inductive err :=
| EEmpty      (* "empty partial signed data set" *)
| ELen        (* "require threshold signatures": len(parSigs) < threshold *)
| ESigConv    (* "signature from core": a partial signature is not 96 bytes long *)
| EDistinct   (* "number of partial signatures less than threshold": distinct share indices < threshold *)
| ETbls       (* tbls.ThresholdAggregate failed: undecodable point, or share index 0 *)
| ENotEth2    (* verifier: "invalid eth2 signed data" *)
| EVerify     (* verifier: "verify aggregate signature" *)
| ESub.       (* a subscriber returned an error *)

Definition err_eqb (a b : err) : bool :=
  match a, b with
  | EEmpty, EEmpty | ELen, ELen | ESigConv, ESigConv | EDistinct, EDistinct | ETbls, ETbls
  | ENotEth2, ENotEth2 | EVerify, EVerify | ESub, ESub => true
  | _, _ => false
  end.

Definition smap := list (Z * sigt).     (* blsSigs : map[int]tbls.Signature, as an association list *)

(* blsSigs[idx] = sig : a later partial with the same share index overwrites the earlier one *)
Fixpoint put (i : Z) (s : sigt) (m : smap) : smap :=
  match m with
  | [] => [(i, s)]
  | (j, x) :: r => if Z.eqb i j then (j, s) :: r else (j, x) :: put i s r
  end.

Fixpoint get (i : Z) (m : smap) : option sigt :=
  match m with [] => None | (j, x) :: r => if Z.eqb i j then Some x else get i r end.

Definition is_badlen (s : sigt) : bool := match s with SBadLen _ => true | _ => false end.
Definition is_badpoint (s : sigt) : bool := match s with SBadPoint _ => true | _ => false end.

(* tbls.ThresholdAggregate succeeds: every entry decodes and no share index is 0 (herumi's
   Recover refuses the id 0). *)
Definition tbls_ok (m : smap) : bool :=
  forallb (fun e => negb (is_badpoint (snd e)) && negb (Z.eqb (fst e) 0)) m.

(* The combination of m verifies under validator v's group key for the signing root rho. *)
Definition comb_valid (t : nat) (v : N) (rho : N) (m : smap) : bool :=
  Nat.leb t (length m) && forallb (fun e => sigt_eqb (snd e) (PSig v (fst e) rho)) m.

Fixpoint lookup {A} (v : N) (l : list (N * A)) : option A :=
  match l with [] => None | (k, x) :: r => if N.eqb k v then Some x else lookup v r end.

Fixpoint nodupb (l : list N) : bool :=
  match l with [] => true | x :: r => negb (existsb (N.eqb x) r) && nodupb r end.

Section SigAgg.
Variable content : Type.
Variable sroot : content -> N.     (* signing root: domain-wrapped message root; injective by hypothesis where used *)

Record obj := mkobj { o_kind : kind; o_tag : N; o_content : content }.
Record parsig := mkps { p_idx : Z; p_obj : obj; p_sig : sigt }.

Definition share_map (ps : list parsig) : smap :=
  fold_left (fun m p => put (p_idx p) (p_sig p) m) ps [].

(* "ValidatorIndex is only set by the local VC": walk the partials while they are attestations;
   the first one with a validator index is the payload.  Otherwise parSigs[0]. *)
Fixpoint pick_att (ps : list parsig) : option obj :=
  match ps with
  | [] => None
  | p :: r =>
      match o_kind (p_obj p) with
      | KAtt => if N.eqb (o_tag (p_obj p)) 0 then pick_att r else Some (p_obj p)
      | _ => None
      end
  end.

Definition payload (p0 : parsig) (ps : list parsig) : obj :=
  match pick_att ps with Some o => o | None => p_obj p0 end.

(* An aggregate: the payload object carrying the combination of the share map as its signature. *)
Definition agg : Type := (obj * smap)%type.

(* Aggregator.aggregate for one validator. [t] is the threshold (sigagg.New refuses t <= 0, so for
   the code t >= 1 and the first branch coincides with the length check; with t = 0 and an empty
   list Go would index parSigs[0] out of range: that case is outside the model's guard). *)
Definition aggregate (t : nat) (v : N) (ps : list parsig) : err + agg :=
  match ps with
  | [] => inl ELen
  | p0 :: _ =>
      if Nat.ltb (length ps) t then inl ELen
      else if existsb (fun p => is_badlen (p_sig p)) ps then inl ESigConv
      else let m := share_map ps in
           if Nat.ltb (length m) t then inl EDistinct
           else if negb (tbls_ok m) then inl ETbls
           else let o := payload p0 ps in
                match o_kind o with
                | KRaw => inl ENotEth2
                | _ => if comb_valid t v (sroot (o_content o)) m then inr (o, m) else inl EVerify
                end
  end.

Definition batch := list (N * list parsig).   (* map[core.PubKey][]core.ParSignedData, keys distinct *)

Definition results (t : nat) (b : batch) : list (N * (err + agg)) :=
  map (fun e => (fst e, aggregate t (fst e) (snd e))) b.

Definition errors_of (rs : list (N * (err + agg))) : list err :=
  flat_map (fun e => match snd e with inl x => [x] | inr _ => [] end) rs.

Definition pubs_of (rs : list (N * (err + agg))) : list (N * agg) :=
  flat_map (fun e => match snd e with inl _ => [] | inr a => [(fst e, a)] end) rs.

(* What the harness reports about one object handed to a subscriber: kind, tag, content of the
   object, and whether its signature verifies under the validator's group public key for the
   object's own signing root (tbls.Verify, evaluated on the Go side). *)
Record pobs := mkpo { po_kind : kind; po_tag : N; po_content : content; po_verifies : bool }.

Record label := mkl {
  l_t : nat;
  l_batch : batch;
  l_subs : list bool;                 (* per subscriber, in registration order: true = returns nil *)
  l_cancel : N;                       (* when the caller's context was cancelled: 0 never, 1 before the call,
                                         k+1 right after the k-th verifier invocation.  Aggregate does not
                                         consult ctx anywhere in its loop, so [accepts] and [monitor1] ignore
                                         this field: a cancellation must not change what is published *)
  l_call : N * N;                     (* (duty type id, epoch) of the objects of this call *)
  l_hist : list (N * N);              (* the calls this aggregator and its verifier served before, oldest first
                                         (position in the sequence = length).  Aggregator and verifier keep no
                                         state between calls, so [accepts] and [monitor1] ignore both fields:
                                         the outcome of a call must not depend on earlier calls (e.g. on a domain
                                         resolved for an earlier epoch) *)
  l_err : option err;                 (* None = Aggregate returned nil *)
  l_calls : list (list (N * pobs))    (* the set received by each subscriber call, in call order *)
}.

(* One delivered set matches the model's output set: same validators, and per validator the
   payload the model chose, carrying a signature that verifies (the model publishes only then). *)
Definition call_matches (pubs : list (N * agg)) (call : list (N * pobs)) : bool :=
  Nat.eqb (length call) (length pubs) && nodupb (map fst call) &&
  forallb (fun e =>
    match lookup (fst e) pubs with
    | Some (o, _) =>
        let po := snd e in
        kind_eqb (po_kind po) (o_kind o) && N.eqb (po_tag po) (o_tag o)
        && N.eqb (sroot (po_content po)) (sroot (o_content o)) && po_verifies po
    | None => false
    end) call.

(* Subscribers are called in order with a clone each, until one fails. *)
Fixpoint expected_calls (subs : list bool) : nat * bool :=   (* number of calls, all succeeded *)
  match subs with
  | [] => (O, true)
  | true :: r => let '(n, ok) := expected_calls r in (S n, ok)
  | false :: _ => (1%nat, false)
  end.

Definition opt_err_eqb (a b : option err) : bool :=
  match a, b with None, None => true | Some x, Some y => err_eqb x y | _, _ => false end.

Definition accepts (l : label) : bool :=
  nodupb (map fst (l_batch l)) &&
  match l_batch l with
  | [] => opt_err_eqb (l_err l) (Some EEmpty) && match l_calls l with [] => true | _ => false end
  | _ =>
      let rs := results (l_t l) (l_batch l) in
      match errors_of rs with
      | (_ :: _) as es =>
          match l_err l with
          | Some e => existsb (err_eqb e) es
          | None => false
          end && match l_calls l with [] => true | _ => false end
      | [] =>
          let '(n, ok) := expected_calls (l_subs l) in
          Nat.eqb (length (l_calls l)) n
          && forallb (call_matches (pubs_of rs)) (l_calls l)
          && opt_err_eqb (l_err l) (if ok then None else Some ESub)
      end
  end.

(* ---- LTS form (state = unit) ---- *)
Definition state := unit.
Definition init : state := tt.
Definition step (s : state) (l : label) : option state := if accepts l then Some tt else None.
Fixpoint run (s : state) (ls : list label) : option state :=
  match ls with [] => Some s | l :: r => match step s l with Some s' => run s' r | None => None end end.
Fixpoint first_reject (ls : list label) (i : nat) : option nat :=
  match ls with [] => None | l :: r => if accepts l then first_reject r (S i) else Some i end.

(* ---- The property, read off the label alone ----
   Whenever a subscriber is called at all, then for EVERY validator of the batch: the set contains
   an object for it whose signature verifies under the group key for the object's own signing
   root, and the contributing partials (one per distinct share index, the last one given) are at
   least t and each of them is the signature of that validator's share with that very index over
   that same signing root. *)
Definition good (t : nat) (v : N) (ps : list parsig) (rho : N) : bool :=
  comb_valid t v rho (share_map ps).

Definition call_ok (t : nat) (b : batch) (call : list (N * pobs)) : bool :=
  forallb (fun e =>
    match lookup (fst e) call with
    | Some po => po_verifies po && good t (fst e) (snd e) (sroot (po_content po))
    | None => false
    end) b
  && forallb (fun e => match lookup (fst e) b with Some _ => true | None => false end) call.

Definition monitor1 (l : label) : bool :=
  forallb (call_ok (l_t l) (l_batch l)) (l_calls l)
  && match l_batch l with [] => match l_calls l with [] => true | _ => false end | _ => true end.

Definition monitor (ls : list label) : bool := forallb monitor1 ls.

Fixpoint first_violation (ls : list label) (i : nat) : option nat :=
  match ls with [] => None | l :: r => if monitor1 l then first_violation r (S i) else Some i end.

End SigAgg.

Arguments mkobj {content}.
Arguments mkps {content}.
Arguments mkpo {content}.
Arguments mkl {content}.
