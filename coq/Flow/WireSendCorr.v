(* Concrete instance of Flow/WireSend.v for the correspondence check of the sending side (same
   instance as Flow/WireMsgCorr.v: keys, type URLs, bytes are interned numbers; a signature made with
   key k over content c is the term [Sg k c]; decode/hash tables written by the harness). *)
From Coq Require Import List ZArith NArith Bool PeanoNat.
From Charon Require Import Flow.WireMsg Flow.WireSend Flow.WireMsgCorr.
Import ListNotations.

Definition csign (k : N) (d : ccontent) : csig := Sg k d.

Definition csig_eqb (a b : csig) : bool :=
  match a, b with
  | Sg k c, Sg k' c' => N.eqb k k' && content_eqb c c'
  | SgBad n, SgBad n' => N.eqb n n'
  | _, _ => false
  end.

Definition cpart_eqb (a b : cpart) : bool :=
  content_eqb (p_c a) (p_c b) &&
  match p_sig a, p_sig b with
  | Some s, Some s' => csig_eqb s s'
  | None, None => true
  | _, _ => false
  end.

Definition ocpart_eqb (a b : option cpart) : bool :=
  match a, b with Some x, Some y => cpart_eqb x y | None, None => true | _, _ => false end.

Fixpoint list_eqb {A} (f : A -> A -> bool) (a b : list A) : bool :=
  match a, b with
  | [], [] => true
  | x :: r, y :: s => f x y && list_eqb f r s
  | _, _ => false
  end.

Definition ocvalue_eqb (a b : option cvalue) : bool :=
  match a, b with
  | Some (t, v), Some (t', v') => N.eqb t t' && N.eqb v v'
  | None, None => true
  | _, _ => false
  end.

(* same main part, same justification list IN ORDER, same Values as a set (Go map order) *)
Definition cweq (e o : cwire) : bool :=
  ocpart_eqb (w_msg e) (w_msg o) && list_eqb ocpart_eqb (w_just e) (w_just o) &&
  Nat.eqb (length (w_values e)) (length (w_values o)) &&
  forallb (fun v => existsb (ocvalue_eqb v) (w_values o)) (w_values e) &&
  forallb (fun v => existsb (ocvalue_eqb v) (w_values e)) (w_values o).

Definition cbargs := bargs csig N.
Definition cslabel := slabel csig N N N.
Definition csstate := sstate N N N N.

Definition BA (ty : Z) (d : dutyv) (peer round : Z) (vh : N) (pr : Z) (pvh : N) (js : list cpart) : cbargs :=
  {| a_type := ty; a_duty := d; a_peer := peer; a_round := round; a_vh := vh; a_pr := pr; a_pvh := pvh; a_just := js |}.
Definition NV (h tu b : N) : option (N * cvalue) := Some (h, (tu, b)).
Definition SB (a : cbargs) (newv : option (N * cvalue)) (obs : option cwire) : cslabel := SBcast a newv obs.

Section Tables.
  Variable dt : dtab.
  Variable ht : htab.

  (* a message coming out of the outer buffer: its values map is what valuesByHash built in handle *)
  Definition SR (w : cwire) : cslabel :=
    SRecv {| q_id := 0%N; q_wire := w;
             q_vm := match values_by_hash (cdecode dt) (cHv ht) (w_values w) [] with Some m => m | None => [] end |}.

  Definition c_sstep (st : csstate) (l : cslabel) : option csstate := sstep cid cid csign 0%N cweq st l.
  Definition c_do_bcast (st : csstate) (a : cbargs) (nv : option (N * cvalue)) := do_bcast cid cid csign 0%N st a nv.

  (* index of the first label the model refuses, with what the model would have sent there *)
  Fixpoint c_sfirst_reject (st : csstate) (ls : list cslabel) (i : nat) : option (nat * option cwire) :=
    match ls with
    | [] => None
    | l :: r =>
      match c_sstep st l with
      | Some st' => c_sfirst_reject st' r (S i)
      | None => match l with
                | SBcast a newv _ => Some (i, match snd (c_do_bcast st a newv) with Some (w, _) => Some w | None => None end)
                | _ => Some (i, None)
                end
      end
    end.
End Tables.

(* Non-vacuity: a value missing from the cache (error, nothing signed), the own value drained from the
   value channel and attached, a received message whose re-typed value replaces the cached one (F11) and is
   then attached to the node's own next message. *)
Module SendEx.
  Import Ex.
  Definition k0 : N := 10.
  Definition prep := BA 2 d0 0 1 7001 0 0 [].
  Definition w_prep : cwire := W (Some (P (C 2 (Some d0) 0 1 h1 0 hz 0) (Some (Sg 10 (C 2 (Some d0) 0 1 h1 0 hz 0))))) [] [Some (1, 100)]%N.
  Definition w_prep_retyped : cwire := W (w_msg w_prep) [] [Some (9, 100)]%N.
  Definition trace : list cslabel :=
    [ SB prep None None;                         (* "unknown value" *)
      SB prep (NV 7001 1 100) (Some w_prep);     (* own proposal drained from valueCh *)
      SR dt ht F11.w_bad;                        (* a commit carrying the agreed bytes under another type *)
      SB prep None (Some w_prep_retyped) ].      (* ... which the node now re-broadcasts *)
  Lemma trace_accepted : c_sfirst_reject (sinit N N N k0) trace 0 = None.
  Proof. vm_compute. reflexivity. Qed.
End SendEx.
