(* Bridge C05 -> C02: what the wrapper's receive handler lets through is what the adversary of the
   network semantics Qbft/Net.v is allowed to deliver.

   Net.v: a message may be received by an honest member iff its main part and every justification
   part is DELIVERABLE: [deliv c l b := src b < c_n c /\ (In b l \/ c_honest c (src b) = false)], where
   l = [sent] is the list of parts honest members have broadcast.  Its header justifies this by
   "signatures are symbolic, so a part with an honest source exists only if that member broadcast
   it" and "the wrapper rejects unknown peers".  This file derives exactly that premise from the
   model of the wrapper (Flow/WireMsg.v) and the C05 theorems (Flow/WireMsgFacts.v).

   Abstraction (wire content -> Qbft.Model.bmsg), [absb]:
     ty  := message type 1..5 -> PrePrepare | Prepare | Commit | RoundChange | Decided
            (anything else -> PrePrepare; accepted parts have a valid type)
     src := Z.to_nat peer index          rnd := Z.to_nat round          pr := Z.to_nat prepared round
     val := the value hash as a number if the field is exactly 32 bytes and non-zero, else 0
            (msg.go toHash32: 0 is "Go's zero value", as in Model.v);   pv := same for the prepared value hash
   DROPPED by the abstraction: the duty (one consensus instance = one duty: every accepted part
   carries the duty d of the main part, which is the buffer/instance the message is routed to),
   the signature, the attached values (only their hashes enter the core algorithm), and c_extra
   (unknown proto fields: signed, but never read by the core algorithm).
   [abs_wire] maps an accepted wire message to Model.msg: main part + justification parts in order.

   Hypotheses (Section variables / premises, nothing is an axiom):
     encode_inj, H_inj, unforgeable   the symbolic-signature hypotheses of WireMsgFacts.v
     keys_of_members                   the component was built with one key per member: WireMsg.nodes e = c_n c
     honest_signs_only_broadcasts      if member i is honest in c, holds key k (k = the i-th key) and
                                       has signed a content carrying duty d, then the abstraction of that
                                       content is in l.  This is the wrapper-side reading of "a part
                                       with an honest source exists only if that member broadcast it":
                                       an honest node signs, for duty d, only inside transport.Broadcast
                                       (createMsg/signMsg) on behalf of its qbft.Run for d, and Net.v
                                       appends every such broadcast to [sent].
   UPDATE: (a) is now DERIVED in Flow/WireCompose.v from the composed system (every honest member runs the
   transport model Flow/WireSend.v on top of its qbft.Run): accepted_is_deliverable_composed; (b) is checked
   by the harness zz_verif_send_test.go (pointer identity through the real ProcessReceives).
   RESIDUAL GAP of THIS file taken alone: (a) honest_signs_only_broadcasts itself -- that the honest
   wrapper calls signMsg only from transport.Broadcast with the fields qbft.Run passed, and that the
   list l in hand contains all honest broadcasts made so far, is a statement about the sending side
   (createMsg) and about the identification of Net.v's [sent] with real time; it is exercised by the
   correspondence harnesses (C02 cluster runs go through the real createMsg/handle) but is not a
   theorem; (b) Net.v delivers [Model.msg] values directly to [step]; that the message qbft.Run
   reads from the transport is the one handle enqueued (transport.ProcessReceives copies it
   unchanged) is by inspection; (c) the type URL of attached values (finding F11) is outside both
   models' notion of value (a hash). *)
From Coq Require Import List ZArith NArith Bool Lia PeanoNat.
From Charon Require Import Flow.WireMsg Flow.WireMsgFacts Qbft.Model Qbft.Net.
Import ListNotations.

Definition abs_type (t : Z) : mtype :=
  if (t =? 2)%Z then Prepare else if (t =? 3)%Z then Commit else
  if (t =? 4)%Z then RoundChange else if (t =? 5)%Z then Decided else PrePrepare.

Definition abs_hash (f : hfield) : N := match to_hash32 f with Some h => h | None => 0%N end.

Definition absb {extra : Type} (c : content extra) : bmsg :=
  mk (abs_type (c_type c)) (Z.to_nat (c_peer c)) (Z.to_nat (c_round c)) (abs_hash (c_vhash c))
     (Z.to_nat (c_pr c)) (abs_hash (c_pvhash c)).

Fixpoint abs_justs {sigT extra : Type} (js : list (option (part sigT extra))) : list bmsg :=
  match js with
  | [] => []
  | Some j :: r => absb (p_c j) :: abs_justs r
  | None :: r => abs_justs r
  end.

Definition abs_wire {sigT typeurl vbytes extra : Type} (w : wire sigT typeurl vbytes extra) : option msg :=
  match w_msg w with
  | Some mp => Some (mkm (absb (p_c mp)) (abs_justs (w_just w)))
  | None => None
  end.

Section Bridge.
  Variables key sigT ebytes digest typeurl vbytes cbytes extra : Type.
  Variable encode : content extra -> ebytes.
  Variable H : ebytes -> digest.
  Variable verify : key -> digest -> sigT -> bool.
  Variable decode : typeurl -> vbytes -> option cbytes.
  Variable Hv : cbytes -> N.

  Variable signed : key -> content extra -> Prop.     (* the holder of the key has signed this content *)

  Hypothesis encode_inj : forall c c', encode c = encode c' -> c = c'.
  Hypothesis H_inj : forall b b', H b = H b' -> b = b'.

  Variable c : cfg.                    (* Net.v configuration: n, who is honest *)
  Variable e : env key.                (* the receiving component's environment *)
  Variable l : list bmsg.              (* Net.v's [sent] at the time of the call *)

  (* a key is honest iff it is the key of a member that is honest in c *)
  Definition honest_key (k : key) : Prop :=
    exists i, pubkey e (Z.of_nat i) = Some k /\ c_honest c i = true.

  Hypothesis unforgeable : forall k cnt s,
    honest_key k -> verify k (H (encode cnt)) s = true ->
    exists c0, signed k c0 /\ H (encode c0) = H (encode cnt).

  Hypothesis keys_of_members : WireMsg.nodes e = c_n c.

  Lemma pubkey_bound : forall z k, pubkey e z = Some k -> (0 <= z)%Z /\ Z.to_nat z < WireMsg.nodes e.
  Proof.
    intros z k. unfold pubkey, WireMsg.nodes.
    destruct (z <? 0)%Z eqn:A; simpl; [discriminate|].
    destruct (Z.of_nat (length (e_keys e)) <=? z)%Z eqn:B; [discriminate|].
    intros _. apply Z.ltb_ge in A. apply Z.leb_gt in B. split; [assumption|]. lia.
  Qed.

  Section Duty.
    Variable d : dutyv.                (* the duty of the consensus instance *)

    Hypothesis honest_signs_only_broadcasts : forall k cnt,
      honest_key k -> signed k cnt -> c_duty cnt = Some d -> In (absb cnt) l.

    (* one accepted part is deliverable *)
    Lemma part_deliverable : forall (p : part sigT extra) k,
      pubkey e (c_peer (p_c p)) = Some k ->
      c_duty (p_c p) = Some d ->
      (honest_key k -> signed k (p_c p)) ->
      deliv c l (absb (p_c p)).
    Proof.
      intros p k Hk Hd Hs. destruct (pubkey_bound _ _ Hk) as [Z0 Zn].
      unfold deliv. simpl. split; [rewrite <- keys_of_members; exact Zn|].
      destruct (c_honest c (Z.to_nat (c_peer (p_c p)))) eqn:Eh; [left|right; reflexivity].
      assert (Hh : honest_key k).
      { exists (Z.to_nat (c_peer (p_c p))). rewrite Z2Nat.id by assumption. auto. }
      apply honest_signs_only_broadcasts with (k := k); auto.
    Qed.

    Lemma abs_justs_in : forall (js : list (option (part sigT extra))) b,
      In b (abs_justs js) -> exists j, In (Some j) js /\ b = absb (p_c j).
    Proof.
      induction js as [|oj r IH]; intros b Hin; [destruct Hin|].
      destruct oj as [j|]; simpl in Hin.
      - destruct Hin as [<-|Hin]; [exists j; split; [left|]; reflexivity|].
        destruct (IH _ Hin) as (j' & A & B). exists j'; split; [right|]; assumption.
      - destruct (IH _ Hin) as (j' & A & B). exists j'; split; [right|]; assumption.
    Qed.

    (* THE BRIDGE: every message that handle accepts (and therefore enqueues for the instance of
       duty d) abstracts to a message satisfying Net.v's deliverability premise w.r.t. l. *)
    Theorem accepted_is_deliverable : forall st id req dl st' w,
      handle encode H verify decode Hv e st id req = (Accept, dl, st') ->
      req = Some w -> wire_duty req = Some d ->
      exists m, abs_wire w = Some m /\ msg_deliv c l m /\
                length (just m) = length (w_just w) /\ length (just m) <= 2 * c_n c.
    Proof.
      intros st id req dl st' w X Hreq Hduty.
      pose proof X as X2. apply handle_accept_sound in X2. destruct X2 as (w0 & d0 & m0 & A & B & _).
      rewrite Hreq in A; inversion A; subst w0. clear A.
      destruct B as [Bmain Bjust Bgater Bnj Bnv Bvm Brefs].
      destruct Bmain as (mp & M1 & M2 & M3 & M4).
      assert (d0 = d) as ->.
      { unfold wire_duty in Hduty. rewrite Hreq, M1, M2 in Hduty. inversion Hduty; reflexivity. }
      assert (S : forall p, In (Some p) (w_msg w :: w_just w) ->
                  forall k, pubkey e (c_peer (p_c p)) = Some k -> honest_key k -> signed k (p_c p)).
      { destruct (accept_signed_by_source _ _ _ _ _ _ _ _ encode H verify decode Hv honest_key signed encode_inj H_inj unforgeable
                    _ _ _ _ _ _ X) as (w1 & E1 & F1).
        rewrite Hreq in E1; inversion E1; subst w1. exact F1. }
      assert (J : forall j, In (Some j) (w_just w) -> deliv c l (absb (p_c j))).
      { intros j Hin. pose proof Bjust as F. rewrite Forall_forall in F.
        destruct (F _ Hin) as (j' & E' & J2 & (k & s & K1 & _) & _). inversion E'; subst j'.
        apply part_deliverable with (k := k); auto. intros Hh. apply (S j (or_intror Hin) k K1 Hh). }
      assert (L : length (abs_justs (w_just w)) = length (w_just w)).
      { clear -Bjust. induction Bjust as [|oj r (j & -> & _) _ IH]; simpl; [reflexivity|].
        rewrite IH; reflexivity. }
      exists (mkm (absb (p_c mp)) (abs_justs (w_just w))).
      unfold abs_wire. rewrite M1. split; [reflexivity|]. split; [|split].
      - split; simpl.
        + destruct M3 as (k & s & K1 & K2 & K3).
          apply part_deliverable with (k := k); auto. intros Hh. apply (S mp (or_introl M1) k K1 Hh).
        + intros b Hb. destruct (abs_justs_in _ _ Hb) as (j & Hj & ->). apply J; assumption.
      - simpl. exact L.
      - simpl. rewrite L, <- keys_of_members. exact Bnj.
    Qed.

    (* The contrapositive the adversary model relies on: a message one of whose parts names an
       honest member but abstracts to something that member never broadcast is not accepted. *)
    Corollary undeliverable_is_rejected : forall st id w p,
      In (Some p) (w_msg w :: w_just w) ->
      wire_duty (Some w) = Some d ->
      c_honest c (Z.to_nat (c_peer (p_c p))) = true ->
      ~ In (absb (p_c p)) l ->
      exists r dl st', handle encode H verify decode Hv e st id (Some w) = (Reject r, dl, st').
    Proof.
      intros st id w p Hin Hd Hh Hnot.
      destruct (handle encode H verify decode Hv e st id (Some w)) as [[res dl] st'] eqn:X.
      destruct res as [|r]; [|exists r, dl, st'; reflexivity].
      exfalso. destruct (accepted_is_deliverable _ _ _ _ _ _ X eq_refl Hd) as (m & A & (Dm & Dj) & _).
      unfold abs_wire in A. destruct (w_msg w) as [mp|] eqn:M1; [|discriminate]. inversion A; subst m. simpl in *.
      assert (D : deliv c l (absb (p_c p))).
      { destruct Hin as [E|Hin]; [inversion E; subst; exact Dm|].
        apply Dj. clear -Hin. induction (w_just w) as [|oj r IH]; [destruct Hin|].
        destruct Hin as [->|Hin]; simpl; [left; reflexivity|]. destruct oj; [right|]; auto. }
      destruct D as [_ [D|D]]; [contradiction|]. simpl in D. congruence.
    Qed.
  End Duty.
End Bridge.

(* Non-vacuity: the accepted PRE-PREPARE of Flow/WireMsgCorr.v (four justifications) abstracts to a
   Model.msg that passes Net.v's executable deliverability test w.r.t. the list of its own parts,
   and a part that was never broadcast does not. *)
From Charon Require Import Flow.WireMsgCorr.
Module BridgeEx.
  Definition cfg4 : cfg := mkcfg 4 100 (fun r => r mod 4) (fun _ => true).
  Lemma abstraction_example :
    exists m, abs_wire Ex.good = Some m /\
      main m = mk PrePrepare 0 2 7002 0 0 /\
      just m = [mk RoundChange 1 2 0 0 0; mk RoundChange 2 2 0 1 7002; mk RoundChange 3 2 0 0 0; mk Prepare 2 1 7002 0 0] /\
      msg_deliv_b cfg4 (main m :: just m) m = true /\
      msg_deliv_b cfg4 (just m) m = false.
  Proof. eexists. split; [reflexivity|]. vm_compute. auto. Qed.
End BridgeEx.
Arguments honest_key {key} c e k.
